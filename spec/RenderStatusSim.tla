-------------------------- MODULE RenderStatusSim --------------------------
(* Behaviours of the queue server composed with the render-status function, printed as JSON for
   replay into the real nserve.Application.do_render_status (spec -> code). *)
EXTENDS RenderStatus, Json

CONSTANT HistLen
VARIABLES hist, acted, nadmin      \* see WorkQSim.tla
Actor(l) == IF l.op \in {"pull", "finish", "disconnect"} THEN {l.w}
            ELSE IF l.op = "connect" THEN {l.w, "svc"}
            ELSE IF l.op = "wait" THEN {l.c}
            ELSE IF l.op = "kill" /\ l.k # "admin" THEN {l.k}
            ELSE IF l.op \in {"tick", "watchdog"} THEN {"svc"}
            ELSE {}
IsAdmin(l) == l.op \in {"add", "setinfo", "drop"} \/ (l.op = "kill" /\ l.k = "admin")
LoopRan(l) == l.op \in {"drained", "restart", "runloop0"}

Proj == [count |-> count, jobs |-> job, bound |-> id2job, heaps |-> heap, waiters |-> waiter,
         running |-> running, stats |-> stats, now |-> now, fwait |-> fwait, conn |-> conn, wake |-> wake,
         status |-> [w \in Writers |-> Status(w)]]

SimInit == Init /\ hist = <<>> /\ acted = {} /\ nadmin = 0
IdleLoop ==
  /\ ~draining /\ wake = <<>> /\ (acted # {} \/ nadmin > 0)
  /\ last' = [op |-> "runloop0"]
  /\ UNCHANGED <<count, job, id2job, heap, waiter, conn, running, wake, now, stats, fwait, draining>>
SimNext ==
  /\ (Next \/ IdleLoop)
  /\ Actor(last') \cap acted = {}
  /\ IsAdmin(last') => nadmin < 10
  /\ acted' = IF LoopRan(last') THEN {} ELSE acted \cup Actor(last')
  /\ nadmin' = IF LoopRan(last') THEN 0 ELSE IF IsAdmin(last') THEN nadmin + 1 ELSE nadmin
  /\ hist' = Append(hist, [last |-> last', st |-> Proj'])
SimSpec == SimInit /\ [][SimNext]_<<vars, hist, acted, nadmin>>

EmitHist == (Len(hist) = HistLen) => PrintT("@@" \o ToJson(hist))
StopAtLen == Len(hist) <= HistLen
=============================================================================
