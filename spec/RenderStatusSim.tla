-------------------------- MODULE RenderStatusSim --------------------------
(* Behaviours of the queue server composed with the render-status function, printed as JSON for
   replay into the real nserve.Application.do_render_status (spec -> code). *)
EXTENDS RenderStatus, Json

CONSTANT HistLen
VARIABLE hist

Proj == [count |-> count, jobs |-> job, bound |-> id2job, heaps |-> heap, waiters |-> waiter,
         running |-> running, stats |-> stats, now |-> now, fwait |-> fwait, conn |-> conn, wake |-> wake,
         status |-> [w \in Writers |-> Status(w)]]

SimInit == Init /\ hist = <<>>
SimNext == Next /\ hist' = Append(hist, [last |-> last', st |-> Proj'])
SimSpec == SimInit /\ [][SimNext]_<<vars, hist>>

EmitHist == (Len(hist) = HistLen) => PrintT("@@" \o ToJson(hist))
StopAtLen == Len(hist) <= HistLen
=============================================================================
