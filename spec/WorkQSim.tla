------------------------------ MODULE WorkQSim ------------------------------
(* Behaviours of WorkQ.tla for replay into the real code (spec -> code): the history of
   [last, projected state] records is carried in `hist` and printed as JSON when a behaviour
   reaches the requested length.  Used with `-simulate` and AtomicDrain = TRUE. *)
EXTENDS WorkQProps, Json

CONSTANT HistLen
VARIABLE hist

SetSeq(S) == S      \* ToJson renders a set as an array

Proj == [count   |-> count,
         jobs    |-> job,
         bound   |-> id2job,
         heaps   |-> heap,
         waiters |-> waiter,
         running |-> running,
         stats   |-> stats,
         now     |-> now,
         fwait   |-> fwait,
         conn    |-> conn,
         wake    |-> wake]

SimInit == Init /\ hist = <<>>
SimNext == Next /\ hist' = Append(hist, [last |-> last', st |-> Proj'])
SimSpec == SimInit /\ [][SimNext]_<<vars, hist>>

EmitHist == (Len(hist) = HistLen) => PrintT("@@" \o ToJson(hist))
StopAtLen == Len(hist) <= HistLen
=============================================================================
