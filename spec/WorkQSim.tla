------------------------------ MODULE WorkQSim ------------------------------
(* Behaviours of WorkQ.tla for replay into the real code (spec -> code): the history of
   [last, projected state] records is carried in `hist` and printed as JSON when a behaviour
   reaches the requested length.  Used with `-simulate` and AtomicDrain = TRUE. *)
EXTENDS WorkQProps, Json

CONSTANT HistLen
VARIABLES hist,
          acted,     \* connections that issued a request since the event loop last ran
          nadmin     \* admin requests since then
(* The replay driver submits the operations between two runs of the event loop as one batch; the
   real server serves the queued requests of ONE connection back to back, so a behaviour is
   replayable in order only if every connection acts at most once per batch (admin requests use
   a pool of 12 connections; the server-internal loops count as one connection "svc"). *)
Actor(l) == IF l.op \in {"pull", "finish", "disconnect"} THEN {l.w}
            ELSE IF l.op = "connect" THEN {l.w, "svc"}
            ELSE IF l.op = "wait" THEN {l.c}
            ELSE IF l.op = "kill" /\ l.k # "admin" THEN {l.k}
            ELSE IF l.op \in {"tick", "watchdog"} THEN {"svc"}
            ELSE {}
IsAdmin(l) == l.op \in {"add", "setinfo", "drop"} \/ (l.op = "kill" /\ l.k = "admin")
LoopRan(l) == l.op \in {"drained", "restart", "runloop0"}

SetSeq(S) == S      \* ToJson renders a set as an array

Proj == [count   |-> count,
         jobs    |-> job,
         bound   |-> id2job,
         heaps   |-> heap,
         waiters |-> waiter,
         running |-> running,
         stats   |-> stats,
         now     |-> now,
         fwait   |-> fwait,
         conn    |-> conn,
         wake    |-> wake]

SimInit == Init /\ hist = <<>> /\ acted = {} /\ nadmin = 0
IdleLoop ==      \* the event loop runs although nothing is pending (a batch boundary)
  /\ ~draining /\ wake = <<>> /\ (acted # {} \/ nadmin > 0)
  /\ last' = [op |-> "runloop0"]
  /\ UNCHANGED <<count, job, id2job, heap, waiter, conn, running, wake, now, stats, fwait, draining>>
SimNext ==
  /\ (Next \/ IdleLoop)
  /\ Actor(last') \cap acted = {}
  /\ IsAdmin(last') => nadmin < 10
  /\ acted' = IF LoopRan(last') THEN {} ELSE acted \cup Actor(last')
  /\ nadmin' = IF LoopRan(last') THEN 0 ELSE IF IsAdmin(last') THEN nadmin + 1 ELSE nadmin
  /\ hist' = Append(hist, [last |-> last', st |-> Proj'])
SimSpec == SimInit /\ [][SimNext]_<<vars, hist, acted, nadmin>>

EmitHist == (Len(hist) = HistLen) => PrintT("@@" \o ToJson(hist))
StopAtLen == Len(hist) <= HistLen
=============================================================================
