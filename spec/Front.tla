------------------------------- MODULE Front -------------------------------
(* Beyond the listed properties: the front end of the render service -
   mwlib.core.nserve: WatchQServe (one watcher per queue server) and Application.dispatch.

     watcher, once per iteration:  stats := getstats()   (3 s timeout)
         more than 10 busy render jobs -> busy[s] := "system overloaded"
         otherwise                     -> busy[s] := False            (logs "resuming operation" if it was busy)
         exception / timeout           -> busy[s] := "system down", and the proxy is thrown away
         before the first iteration busy[s] = True
     dispatch(request):
         no command / unknown command  -> HTTP 400
         no collection_id              -> id := make_collection_id(request), is_new := True
         a collection_id that does not look like one -> HTTP 404
         the collection's queue server is looked up in collid2qserve; if absent, a random IDLE server
         is chosen and remembered; if no server is idle -> error "system overloaded", queue_full=1
         the command runs against that server; an exception becomes an error response

   The environment (watcher outcomes, the sequence of requests, which idle server random.choice
   picks) is chosen by TLC; `hist` records each step with the predicted observable outcome.
   Behaviours are replayed into the real classes (P-REPLAY, harness/front.py). *)
EXTENDS Naturals, Sequences, FiniteSets, TLC, Json

CONSTANTS Servers, Colls, MaxLen, EmitCases

Outcomes == {"ok", "many", "fail", "timeout"}
BusyVals == {"init", "idle", "overloaded", "down"}

VARIABLES busy,      \* Servers -> BusyVals
          proxy,     \* Servers -> BOOLEAN: the watcher holds a ServerProxy
          assign,    \* Colls -> Servers \cup {"none"}      (collid2qserve)
          hist
vars == <<busy, proxy, assign, hist>>

Init == /\ busy = [s \in Servers |-> "init"]
        /\ proxy = [s \in Servers |-> FALSE]
        /\ assign = [c \in Colls |-> "none"]
        /\ hist = <<>>

After(o) == CASE o = "ok" -> "idle" [] o = "many" -> "overloaded" [] OTHER -> "down"
(* what _mark_busy logs: the new message when it changes to a busy state, "resuming" when it leaves one *)
LogOf(old, new) == IF new = "idle" THEN (IF old # "idle" THEN "resuming" ELSE "none")
                   ELSE (IF old # new THEN new ELSE "none")

Watch(s, o) ==
  /\ busy' = [busy EXCEPT ![s] = After(o)]
  /\ proxy' = [proxy EXCEPT ![s] = o \in {"ok", "many"}]
  /\ hist' = Append(hist, [a |-> "watch", s |-> s, o |-> o, now |-> After(o),
                           created |-> ~proxy[s], log |-> LogOf(busy[s], After(o))])
  /\ UNCHANGED assign

Idle == {s \in Servers : busy[s] = "idle"}

(* a request for collection c; new: sent without a collection id; boom: the command raises *)
Request(c, new, boom) ==
  IF assign[c] # "none"
  THEN /\ hist' = Append(hist, [a |-> "req", c |-> c, new |-> new, boom |-> boom, resp |-> IF boom THEN "error" ELSE "ok", via |-> assign[c]])
       /\ UNCHANGED <<busy, proxy, assign>>
  ELSE IF Idle = {}
       THEN /\ hist' = Append(hist, [a |-> "req", c |-> c, new |-> new, boom |-> boom, resp |-> "overloaded", via |-> "none"])
            /\ UNCHANGED <<busy, proxy, assign>>
       ELSE \E s \in Idle :
              /\ assign' = [assign EXCEPT ![c] = s]
              /\ hist' = Append(hist, [a |-> "req", c |-> c, new |-> new, boom |-> boom, resp |-> IF boom THEN "error" ELSE "ok", via |-> s])
              /\ UNCHANGED <<busy, proxy>>

Bad(k) == /\ hist' = Append(hist, [a |-> "bad", k |-> k,
                                   status |-> CASE k = "nocommand" -> 400 [] k = "unknown" -> 400 [] OTHER -> 404])
          /\ UNCHANGED <<busy, proxy, assign>>

Room == Len(hist) < MaxLen
DoWatch   == Room /\ \E s \in Servers, o \in Outcomes : Watch(s, o)
DoRequest == Room /\ \E c \in Colls, new \in BOOLEAN, boom \in BOOLEAN : Request(c, new, boom)
DoBad     == Room /\ \E k \in {"nocommand", "unknown", "badid"} : Bad(k)
Next == DoWatch \/ DoRequest \/ DoBad
Spec == Init /\ [][Next]_vars

-----------------------------------------------------------------------------
TypeOK == /\ \A s \in Servers : busy[s] \in BusyVals
          /\ \A c \in Colls : assign[c] \in Servers \cup {"none"}

Reqs == {i \in 1..Len(hist) : hist[i].a = "req"}
(* a collection always talks to the same queue server *)
Sticky == \A i, j \in Reqs : (hist[i].c = hist[j].c /\ hist[i].via # "none" /\ hist[j].via # "none") => hist[i].via = hist[j].via
(* "overloaded" is answered only to collections that have no server yet *)
OverloadedOnlyUnassigned == \A i \in Reqs : hist[i].resp = "overloaded" =>
                               \A j \in Reqs : j < i /\ hist[j].c = hist[i].c => hist[j].via = "none"
(* a server that never reported is never chosen *)
NeverChosenBeforeFirstReport ==
  \A i \in Reqs : hist[i].via # "none" =>
     \E j \in 1..Len(hist) : j < i /\ hist[j].a = "watch" /\ hist[j].s = hist[i].via /\ hist[j].o = "ok"
(* the watcher makes a new proxy the first time and exactly after a failure *)
PrevW(i) == {j \in 1..(i - 1) : hist[j].a = "watch" /\ hist[j].s = hist[i].s}
LastW(i) == CHOOSE j \in PrevW(i) : \A k \in PrevW(i) : k <= j
ProxyRenewed == \A i \in 1..Len(hist) : hist[i].a = "watch" =>
   (hist[i].created <=> (PrevW(i) = {} \/ hist[LastW(i)].o \in {"fail", "timeout"}))

(* the hazard (NOT an invariant; the hazard run must find it): no fail-over - a collection stays
   with its server when that server is down, and its requests keep going there *)
NeverSentToDown == \A i \in Reqs : hist[i].via # "none" =>
   ~(\E j \in 1..(i - 1) : hist[j].a = "watch" /\ hist[j].s = hist[i].via /\ hist[j].now = "down"
        /\ \A k \in (j + 1)..(i - 1) : ~(hist[k].a = "watch" /\ hist[k].s = hist[i].via))

EmitFull == (EmitCases /\ Len(hist) = MaxLen) => PrintT("@@" \o ToJson([hist |-> hist]))
=============================================================================
