-------------------------- MODULE RenderFlowTrace --------------------------
(* Conformance of the code that implements the two-level render flow with RenderFlow.tla:
   the calls the REAL nserve.Application.do_render makes on the queue proxy, and the calls the REAL
   qs.slave.Worker.dispatch -> nslave.Commands.rpc_makezip / rpc_render make (queue proxy, mw-zip /
   mw-render subprocess stubbed at nslave.system), are recorded by harness/renderflow.py and must be
   behaviours of the specification: makezip is requested before render; a render worker first
   re-adds the makezip job with wait, proceeds to mw-render only if that job finished without
   error, otherwise fails the render job; results / errors are reported as the spec says. *)
EXTENDS RenderFlow, Json, IOUtils

Batch == JsonDeserialize(IOEnv.TRACE_FILE)
VARIABLES tid, l
tvars == <<vars, tid, l>>
Tr == Batch[tid]
Ev == Tr[l]
IsEvent(name) == l <= Len(Tr) /\ Ev.op = name /\ l' = l + 1 /\ tid' = tid

TrReqMk   == IsEvent("reqmk") /\ ReqMk(Ev.c)
TrReqRd   == IsEvent("reqrd") /\ ReqRd(Ev.c)
\* do_zip_post added a job on channel "post" without a job id
TrReqPo   == IsEvent("reqpo") /\ ReqPo(Ev.c)
\* the channels the real worker class serves (rpc_* methods of nslave.Commands) are the spec's Handled
TrChannels == /\ IsEvent("channels") /\ UNCHANGED vars
              /\ {Ev.served[i] : i \in 1..Len(Ev.served)} = {"makezip", "render"}
\* a worker pulled job (c, k); for a render job the worker's first call must be the makezip re-add with wait
TrPull    == IsEvent("pull") /\ Pull(Ev.w) /\ wk'[Ev.w].c = Ev.c
                             /\ wk'[Ev.w].pc = (IF Ev.k = "mk" THEN "mk" ELSE "rdwait")
TrMkDone  == IsEvent("mkdone") /\ MkDone(Ev.w, Ev.ok)
\* qaddw returned (mw-render is started) or raised (the job is reported failed)
TrProceed == IsEvent("rdproceed") /\ RdProceed(Ev.w)
                                  /\ wk'[Ev.w].pc = (IF Ev.raised THEN "idle" ELSE "rdrun")
TrRdDone  == IsEvent("rddone") /\ RdDone(Ev.w, Ev.ok)
TrExpire  == IsEvent("expire") /\ Expire(<<Ev.c, Ev.k>>)
TrKill    == IsEvent("kill") /\ Kill(<<Ev.c, Ev.k>>)
\* the final report of the render job as the worker sent it
TrReport  == /\ IsEvent("report") /\ UNCHANGED vars
             /\ (Ev.error = (job[<<Ev.c, "rd">>].err # "none"))
             /\ (Ev.hasresult = (job[<<Ev.c, "rd">>].st = "done" /\ job[<<Ev.c, "rd">>].err = "none"))

Consumed == l = Len(Tr) + 1
Done == Consumed /\ UNCHANGED tvars
TraceInit == tid \in 1..Len(Batch) /\ l = 1 /\ Init
TraceNext == TrReqMk \/ TrReqRd \/ TrReqPo \/ TrChannels \/ TrPull \/ TrMkDone \/ TrProceed \/ TrRdDone \/ TrExpire \/ TrKill \/ TrReport \/ Done
TraceSpec == TraceInit /\ [][TraceNext]_tvars
=============================================================================
