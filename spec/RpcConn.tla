------------------------------ MODULE RpcConn ------------------------------
(* Beyond the listed properties: the request/reply framing of one connection of
   qs.rpcserver.Server.handle_client, as seen on the socket.

   A reader greenlet reads lines ahead into a queue; the client greenlet answers them one at a time,
   in order: {"result": ...} or, when the handler raises, {"error": ...}; a line that is not JSON
   ends the connection without a reply; EOF ends it; at the end the socket is closed and the
   handler's shutdown() runs - exactly once, and nothing is sent afterwards.  A request that is
   being served when the connection dies (a blocked pull killed through the hub) gets no reply.

   The trace of one connection (recorded on the fake socket of harness/qsdriver.py and at the
   handler's shutdown) must be a behaviour of this machine; TLC validates a batch of them. *)
EXTENDS Naturals, Sequences, TLC, Json, IOUtils

Batch == JsonDeserialize(IOEnv.TRACE_FILE)

VARIABLES q,        \* requests read and not yet answered: sequence of [id, kind]
          eof,      \* the reader saw EOF
          shut,     \* shutdown() has run
          sent,     \* number of replies
          tid, l
vars == <<q, eof, shut, sent, tid, l>>

Tr == Batch[tid]
Ev == Tr[l]
IsEvent(e) == l <= Len(Tr) /\ Ev.e = e /\ l' = l + 1 /\ tid' = tid

Init == q = <<>> /\ eof = FALSE /\ shut = FALSE /\ sent = 0 /\ tid \in 1..Len(Batch) /\ l = 1

Recv == /\ IsEvent("recv") /\ ~eof
        /\ q' = Append(q, [id |-> Ev.id, kind |-> Ev.kind])
        /\ UNCHANGED <<eof, shut, sent>>
RecvEof == /\ IsEvent("eof") /\ ~eof /\ eof' = TRUE /\ UNCHANGED <<q, shut, sent>>

(* one reply per request, in order; an error reply exactly for a request whose handler raises *)
Send == /\ IsEvent("send") /\ ~shut /\ q # <<>>
        /\ Head(q).kind # "malformed"
        /\ Ev.id = Head(q).id
        /\ Ev.err = (Head(q).kind \in {"unknown", "badargs"})
        /\ \A i \in 1..Len(q) : i < 1 \/ TRUE
        /\ q' = Tail(q) /\ sent' = sent + 1
        /\ UNCHANGED <<eof, shut>>

Close == IsEvent("close") /\ UNCHANGED <<q, eof, shut, sent>>

(* the end of the connection: after EOF, or at a line that is not JSON; exactly once *)
Shutdown == /\ IsEvent("shutdown") /\ ~shut
            /\ (eof \/ (q # <<>> /\ Head(q).kind = "malformed"))
            /\ shut' = TRUE /\ UNCHANGED <<q, eof, sent>>

Consumed == l = Len(Tr) + 1
Done == Consumed /\ UNCHANGED vars
Next == Recv \/ RecvEof \/ Send \/ Close \/ Shutdown \/ Done
Spec == Init /\ [][Next]_vars

NothingAfterShutdown == [][shut => sent' = sent]_vars
RepliesBounded == sent + Len(q) >= 0
EndsShutDown == Consumed => shut
EmitConsumed == Consumed => PrintT("@@" \o ToJson([consumed |-> tid]))
=============================================================================
