----------------------------- MODULE Collection -----------------------------
(* C08 — generator of stored collections and the words their rendering must contain.

   A collection is 1..MaxArts articles, optionally grouped in chapters (chap[i] = TRUE: a
   chapter starts in front of article i).  An article is a sequence of blocks of a compact
   document grammar (C02's constructs):

     para     a paragraph of inline items
     sec      a heading of level 2..4 with inline items, directly followed by a body paragraph
     head     a heading of level 2..4 alone; the blocks that follow it up to the next heading
              are the section's body.  Productions that contain a head are whole sections:
              the FIRST and the LAST body block can be of any kind (paragraph, list, pre,
              table, floating / centred figure, gallery, block template), and body text
              (a paragraph / list / pre / table / block template) is always somewhere in it
     list     list lines, each a prefix over * # ; : (nesting = prefix length) and inline items
     pre      preformatted lines (leading blank)
     table    optional caption, rows of header/data cells; a cell holds inline items and
              optionally nested blocks (a list, a figure, a nested table)
     fig      an image stored in the archive, used as thumbnail / frame / floated thumbnail,
              with its own caption
     gallery  1..4 stored images, each with its own caption, optional gallery caption
     tpl      a block-level call of a template stored in the archive (list / table templates)

   inline items: a word in a style (plain, ''' ''', '' '', ''''' ''''', <b>, <i>, <strong>, <em>), a labelled
   internal link, a bare internal link, a labelled external link, a <ref>, an inline call of a
   stored template with one argument, an inline image (its "caption" is alt text: NOT
   visible), a figure (in cells).

   Words are natural numbers; the harness maps them injectively to fixed-length codes.  Body
   words are allocated consecutively from 1 (nw), so every body word occurs exactly once in
   the whole collection.  Fixed ranges: 700+i title of article i, 800+i title of the chapter
   in front of article i, 900+k the literal words of the stored templates.

   The denotation den[i] is the sequence of [w, c]: word w is visible in article i inside
   construct c (c is only used to name what got lost).  It is computed by structural recursion
   (the Den operators) independently of how the productions allocate words; the laws relating both are the
   invariants at the end.  What is legitimately NOT denoted: link targets of labelled links,
   URLs, alt text of inline images, chapter titles (not a word "of an article").

   Generation: Init chooses the plan (productions per article; a production contributes one
   block or a short sequence of blocks) and the chapter layout; AddBlock
   appends one production to the current article; Finish closes the collection.  Palette
   selects the production set: "mini" / "core" (four / eight productions, one per construct,
   for exhaustive multi-article enumeration), "pairs" (whole articles  [heading] text X heading
   Y text  for EVERY ordered pair (X, Y) of block kinds: the last block of a section against
   the first block of the next one, plus every ordered pair of adjacent figures), "runs3" / "runs5all" (whole articles around a
   run of k <= 3 / 5 consecutive figures, galleries, tables or image-only paragraphs, for every
   k x follower x preceder),
   "share" / "sharesame" (books whose articles have a book-level identifier in common: a
   reference name defined in each with its own text and re-used, a stored image, a template, an
   identical section heading, an external URL; the harness also repeats the title word of a
   chapter's first article in the chapter title), "volume" / "volumeall" (size: a float block at
   every offset of a page, table rows with a big cell, blocks that span pages), "full" (every variant once, exhaustive for single articles), "rich"
   (parameterised productions, for -simulate). *)
EXTENDS Naturals, Sequences, FiniteSets, TLC, Json

CONSTANTS MaxArts,      \* 1..4
          MaxBlocks,    \* blocks per article
          MinBlocks,    \* 1 normally; = MaxBlocks to enumerate exactly-k-block articles
          Palette,      \* "mini" | "core" | "full" | "pairs" | "pairsall" | "runs3" | "runs5all" | "share" | "sharesame" | "volume" | "volumeall" | "rich"
          Chapters,     \* BOOLEAN: chapter layouts enumerated (FALSE: no chapters)
          EmitCases     \* TRUE: print every finished collection as JSON (P-ENUM)

VARIABLES plan, chap, arts, den, nw, np, phase
vars == <<plan, chap, arts, den, nw, np, phase>>

TitleWord(i)   == 700 + i
ChapterWord(i) == 800 + i

-----------------------------------------------------------------------------
(* stored templates: name |-> the literal words their expansion contributes (in addition to
   the argument, which every template passes through) and the templates they call *)
Templates == {"Tinl", "Tbold", "Tnest", "Tnamed", "Tif", "Tdef", "Tlist", "Ttable"}
InlineTemplates == {"Tinl", "Tbold", "Tnest", "Tnamed", "Tif", "Tdef"}
BlockTemplates  == {"Tlist", "Ttable"}
TplWords(tp) ==
  CASE tp = "Tinl"   -> <<901>>
    [] tp = "Tbold"  -> <<902>>
    [] tp = "Tnest"  -> <<903, 901>>        \* calls Tinl
    [] tp = "Tnamed" -> <<904>>
    [] tp = "Tif"    -> <<905>>
    [] tp = "Tdef"   -> <<906, 907>>        \* 907 is the default of an omitted parameter
    [] tp = "Tlist"  -> <<908, 909>>
    [] tp = "Ttable" -> <<910, 911>>
TplDeps(tp) == IF tp = "Tnest" THEN {"Tnest", "Tinl"} ELSE {tp}
Images == 1..4        \* 4 is a large picture (a tall thumbnail)

Styles == {"n", "b", "i", "bi", "hb", "hi", "hs", "he"}   \* plain, ''' '', ''''', <b> <i> <strong> <em>

\* inline items
W(n, s)        == [t |-> "w", w |-> n, s |-> s]
LL(n)          == [t |-> "ll", w |-> n]
LB(n)          == [t |-> "lb", w |-> n]
LE(n)          == [t |-> "le", w |-> n]
RF(n)          == [t |-> "ref", w |-> n]
\* book-level shared identifiers: a reference NAME (defined with its own text / re-used), and a
\* shared word (ids 951..: the same text in several articles, denoted in each of them)
RN(nm, n)      == [t |-> "refn", nm |-> nm, w |-> n]       \* <ref name="r<nm>">word</ref>
RU(nm)         == [t |-> "refu", nm |-> nm, w |-> 0]       \* <ref name="r<nm>" />
SW(k)          == [t |-> "sw", w |-> 950 + k]
\* k consecutive plain words n .. n+k-1 (long paragraphs: volume)
WS(n, k)       == [t |-> "ws", w |-> n, k |-> k]
TC(tp, n)      == [t |-> "tc", tp |-> tp, w |-> n]
IM(i, n)       == [t |-> "img", i |-> i, w |-> n]
FG(i, k, n, s) == [t |-> "fig", i |-> i, k |-> k, w |-> n, s |-> s, tp |-> ""]
\* a figure whose caption is an inline template call with the word as argument
FGT(i, k, n, tp) == [t |-> "fig", i |-> i, k |-> k, w |-> n, s |-> "n", tp |-> tp]
FigKinds == {"thumb", "frame", "left", "right", "center"}   \* "center" does not float

\* blocks
Para(xs)            == [b |-> "para", xs |-> xs]
Sec(l, xs, body)    == [b |-> "sec", l |-> l, xs |-> xs, body |-> body]
Hd(l, xs)           == [b |-> "head", l |-> l, xs |-> xs]
Line(p, xs)         == [p |-> p, xs |-> xs]
List(ls)            == [b |-> "list", ls |-> ls]
Pre(ls)             == [b |-> "pre", ls |-> ls]
Cell(h, xs, inner)  == [h |-> h, xs |-> xs, inner |-> inner]
Table(cap, rows)    == [b |-> "table", cap |-> cap, rows |-> rows]
Fig(x)              == [b |-> "fig", x |-> x]
GI(i, n, s)         == [i |-> i, w |-> n, s |-> s]
Gallery(cap, pr, gs) == [b |-> "gallery", cap |-> cap, perrow |-> pr, gs |-> gs]
Tpl(tp, n)          == [b |-> "tpl", tp |-> tp, w |-> n]

-----------------------------------------------------------------------------
(* the denotation: which words are visible, by structural recursion *)
RECURSIVE Flat(_)
Flat(ss) == IF ss = <<>> THEN <<>> ELSE Head(ss) \o Flat(Tail(ss))

DW(w, c) == [w |-> w, c |-> c]

DenItem(x, c) ==
  CASE x.t = "w"   -> <<DW(x.w, c \o "/word-" \o x.s)>>
    [] x.t = "ll"  -> <<DW(x.w, c \o "/link-label")>>
    [] x.t = "lb"  -> <<DW(x.w, c \o "/link-bare")>>
    [] x.t = "le"  -> <<DW(x.w, c \o "/extlink-label")>>
    [] x.t = "ref" -> <<DW(x.w, c \o "/ref")>>
    [] x.t = "refn" -> <<DW(x.w, c \o "/named-ref")>>
    [] x.t = "refu" -> <<>>                                   \* re-use of a defined reference: no words
    [] x.t = "sw"  -> <<DW(x.w, c \o "/shared-word")>>
    [] x.t = "ws"  -> [j \in 1..x.k |-> DW(x.w + j - 1, c \o "/word-n")]
    [] x.t = "tc"  -> <<DW(x.w, c \o "/template-arg-" \o x.tp)>>
                      \o [k \in 1..Len(TplWords(x.tp)) |-> DW(TplWords(x.tp)[k], c \o "/template-word-" \o x.tp)]
    [] x.t = "img" -> <<>>                                    \* alt text only
    [] x.t = "fig" -> <<DW(x.w, c \o "/figure-caption-" \o x.k)>>
                      \o (IF x.tp = "" THEN <<>> ELSE
                          [k \in 1..Len(TplWords(x.tp)) |-> DW(TplWords(x.tp)[k], c \o "/figure-caption-template-word-" \o x.tp)])

DenItems(xs, c) == Flat([k \in 1..Len(xs) |-> DenItem(xs[k], c)])

RECURSIVE DenBlock(_, _)
DenBlocks(bs, c) == Flat([k \in 1..Len(bs) |-> DenBlock(bs[k], c)])
DenBlock(b, c) ==
  CASE b.b = "para"    -> DenItems(b.xs, c \o "para")
    [] b.b = "sec"     -> DenItems(b.xs, c \o "heading") \o DenItems(b.body, c \o "section-body")
    [] b.b = "head"    -> DenItems(b.xs, c \o "heading")
    [] b.b = "list"    -> Flat([k \in 1..Len(b.ls) |-> DenItems(b.ls[k].xs, c \o "list-item")])
    [] b.b = "pre"     -> Flat([k \in 1..Len(b.ls) |-> DenItems(b.ls[k], c \o "pre")])
    [] b.b = "table"   -> DenItems(b.cap, c \o "table-caption")
                          \o Flat([r \in 1..Len(b.rows) |->
                               Flat([k \in 1..Len(b.rows[r]) |->
                                  LET cl == b.rows[r][k]
                                      cc == c \o (IF cl.h THEN "table-header-cell" ELSE "table-cell") IN
                                  DenItems(cl.xs, cc) \o DenBlocks(cl.inner, cc \o "/")])])
    [] b.b = "fig"     -> DenItem(b.x, c \o "block")
    [] b.b = "gallery" -> (IF b.cap = 0 THEN <<>> ELSE <<DW(b.cap, c \o "gallery-caption")>>)
                          \o [k \in 1..Len(b.gs) |-> DW(b.gs[k].w, c \o "gallery-image-caption")]
    [] b.b = "tpl"     -> <<DW(b.w, c \o "template-arg-" \o b.tp)>>
                          \o [k \in 1..Len(TplWords(b.tp)) |-> DW(TplWords(b.tp)[k], c \o "template-word-" \o b.tp)]

(* every inline item occurring in a block (cells, nested blocks, figures, gallery entries and
   block-level template calls included): the allocation laws are stated over these *)
Range(f) == {f[k] : k \in DOMAIN f}
RECURSIVE ItemsBlock(_)
ItemsBlock(b) ==
  CASE b.b = "para"    -> Range(b.xs)
    [] b.b = "sec"     -> Range(b.xs) \cup Range(b.body)
    [] b.b = "head"    -> Range(b.xs)
    [] b.b = "list"    -> UNION {Range(b.ls[k].xs) : k \in 1..Len(b.ls)}
    [] b.b = "pre"     -> UNION {Range(b.ls[k]) : k \in 1..Len(b.ls)}
    [] b.b = "table"   -> Range(b.cap) \cup
                          UNION {UNION {Range(b.rows[r][k].xs) \cup
                                        UNION {ItemsBlock(b.rows[r][k].inner[j]) : j \in 1..Len(b.rows[r][k].inner)}
                                        : k \in 1..Len(b.rows[r])} : r \in 1..Len(b.rows)}
    [] b.b = "fig"     -> {b.x}
    [] b.b = "gallery" -> {[t |-> "gi", i |-> b.gs[k].i, w |-> b.gs[k].w] : k \in 1..Len(b.gs)}
                          \cup (IF b.cap = 0 THEN {} ELSE {[t |-> "gcap", w |-> b.cap]})
    [] b.b = "tpl"     -> {TC(b.tp, b.w)}
ItemsOf(bs)  == UNION {ItemsBlock(bs[k]) : k \in 1..Len(bs)}
IdsOf(bs)    == UNION {IF x.t = "ws" THEN x.w..(x.w + x.k - 1) ELSE {x.w} : x \in {y \in ItemsOf(bs) : y.t \notin {"refu", "sw"}}}
AltsOf(bs)   == {x.w : x \in {y \in ItemsOf(bs) : y.t = "img"}}
TplsOf(bs)   == UNION {TplDeps(x.tp) : x \in {y \in ItemsOf(bs) : y.t = "tc" \/ (y.t = "fig" /\ y.tp # "")}}
ImgsOf(bs)   == {x.i : x \in {y \in ItemsOf(bs) : y.t \in {"img", "fig", "gi"}}}

-----------------------------------------------------------------------------
(* productions: Blocks(n) is the set of [blks, used] available when n is the next fresh word;
   blks = the block(s) the production appends, used = number of consecutive fresh words
   n .. n+used-1 they consume *)
P(blk, used)   == [blks |-> <<blk>>, used |-> used]
PS(blks, used) == [blks |-> blks, used |-> used]

\* an inline item by kind name: a style, a link/ref kind, an inline template, an inline image
ItemKinds == Styles \cup {"ll", "lb", "le", "ref", "im1", "im2", "im3"} \cup InlineTemplates
Mk(kind, m) ==
  CASE kind \in Styles          -> W(m, kind)
    [] kind = "ll"              -> LL(m)
    [] kind = "lb"              -> LB(m)
    [] kind = "le"              -> LE(m)
    [] kind = "ref"             -> RF(m)
    [] kind = "im1"             -> IM(1, m)
    [] kind = "im2"             -> IM(2, m)
    [] kind = "im3"             -> IM(3, m)
    [] kind \in InlineTemplates -> TC(kind, m)

PlainCell(n)  == Cell(FALSE, <<W(n, "n")>>, <<>>)
HeadCell(n)   == Cell(TRUE, <<W(n, "n")>>, <<>>)
FigCell(i, n, s) == Cell(FALSE, <<>>, <<Fig(FG(i, "thumb", n, s))>>)

\* an r x c table of plain words; hdr: "none" | "row" (first row header) | "col" (first column header)
Grid(n, r, c, hdr) ==
  [i \in 1..r |-> [j \in 1..c |->
     Cell((hdr = "row" /\ i = 1) \/ (hdr = "col" /\ j = 1), <<W(n + (i - 1) * c + (j - 1), "n")>>, <<>>)]]

ListShapes ==
  { <<"*">>, <<"*", "**", "*">>, <<"#", "##", "###">>, <<";", ":">>, <<"*", "*#", "*#", "*">>,
    <<":", "::">>, <<"#", "#*", "#">>, <<";", ":", ";", ":">>, <<"*", "**", "***", "*">>, <<"#", "#:", "#">> }
ListOf(n, shape, kind) == List([k \in 1..Len(shape) |-> Line(shape[k], <<Mk(kind, n + k - 1)>>)])

Mini(n) ==
  { P(Para(<<W(n, "n"), W(n + 1, "b"), LL(n + 2)>>), 3),
    P(Table(<<>>, Grid(n, 2, 2, "row")), 4),
    P(Fig(FG(1, "thumb", n, "n")), 1),
    P(Para(<<W(n, "n"), TC("Tinl", n + 1)>>), 2) }

Core(n) ==
  Mini(n) \cup
  { P(Sec(2, <<W(n, "n")>>, <<W(n + 1, "n"), RF(n + 2)>>), 3),
    P(ListOf(n, <<"*", "**", "#">>, "n"), 3),
    P(Gallery(0, 0, <<GI(1, n, "n"), GI(2, n + 1, "n")>>), 2),
    P(Tpl("Ttable", n), 1) }

Full(n) ==
  Core(n)
  \cup { P(Para(<<W(n, "n"), Mk(k, n + 1), W(n + 2, "n")>>), 3) : k \in ItemKinds \ {"n", "im3"} }
  \cup { P(Para(<<RF(n), RF(n + 1)>>), 2),
         P(Para(<<W(n, "b"), TC("Tbold", n + 1), TC("Tinl", n + 2), RF(n + 3)>>), 4) }
  \cup { P(Sec(l, <<W(n, "n")>>, <<W(n + 1, "n")>>), 2) : l \in 2..4 }
  \cup { P(Sec(2, <<W(n, "n"), Mk(k, n + 1)>>, <<W(n + 2, "n")>>), 3) : k \in {"i", "ll", "ref"} }
  \cup { P(ListOf(n, sh, "n"), Len(sh)) : sh \in ListShapes }
  \cup { P(ListOf(n, <<"*", "**">>, k), 2) : k \in {"b", "ll", "ref", "Tinl"} }
  \cup { P(Pre(<<<<W(n, "n"), W(n + 1, "n")>>>>), 2),
         P(Pre(<<<<W(n, "n")>>, <<W(n + 1, "n")>>, <<W(n + 2, "n")>>>>), 3) }
  \cup { P(Table(<<>>, Grid(n, r, c, h)), r * c) :
           r \in 1..3, c \in 1..3, h \in {"none", "row", "col"} }
  \cup { P(Table(<<W(n, "n")>>, Grid(n + 1, 2, 2, "row")), 5),
         P(Table(<<>>, <<<<Cell(FALSE, <<W(n, "b")>>, <<>>), Cell(FALSE, <<LL(n + 1)>>, <<>>)>>,
                         <<Cell(FALSE, <<W(n + 2, "n"), RF(n + 3)>>, <<>>), Cell(FALSE, <<TC("Tinl", n + 4)>>, <<>>)>>>>), 5),
         \* a figure inside a cell, next to a text cell
         P(Table(<<>>, <<<<FigCell(1, n, "n"), PlainCell(n + 1)>>>>), 2),
         P(Table(<<>>, <<<<HeadCell(n), HeadCell(n + 1)>>, <<FigCell(2, n + 2, "n"), FigCell(1, n + 3, "i")>>>>), 4),
         \* a list inside a cell
         P(Table(<<>>, <<<<PlainCell(n), Cell(FALSE, <<>>, <<ListOf(n + 1, <<"*", "*">>, "n")>>)>>>>), 3),
         \* a nested table
         P(Table(<<>>, <<<<PlainCell(n), Cell(FALSE, <<>>, <<Table(<<>>, Grid(n + 1, 1, 2, "none"))>>)>>>>), 3),
         \* an inline image as the only content of a cell / of a list item / of a paragraph inside a cell
         P(Table(<<>>, <<<<Cell(FALSE, <<IM(1, n)>>, <<>>), PlainCell(n + 1)>>>>), 2),
         P(Table(<<>>, <<<<Cell(FALSE, <<>>, <<Para(<<IM(2, n)>>), Para(<<W(n + 1, "n")>>)>>), PlainCell(n + 2)>>>>), 3),
         P(List(<<Line("*", <<IM(3, n)>>), Line("*", <<W(n + 1, "n")>>)>>), 2),
         \* a nested table with its own caption
         P(Table(<<>>, <<<<PlainCell(n), Cell(FALSE, <<>>, <<Table(<<W(n + 1, "n")>>, Grid(n + 2, 1, 2, "row"))>>)>>>>), 4) }
  \cup { P(Fig(FG(i, k, n, "n")), 1) : i \in {1, 2}, k \in FigKinds }
  \cup { P(Fig(FG(3, "thumb", n, "b")), 1) }
  \cup { P(Gallery(0, 0, [k \in 1..m |-> GI(((k - 1) % 3) + 1, n + k - 1, "n")]), m) : m \in 1..4 }
  \cup { P(Gallery(n + 2, 0, <<GI(1, n, "n"), GI(1, n + 1, "i")>>), 3),
         P(Gallery(0, 2, <<GI(1, n, "n"), GI(2, n + 1, "n"), GI(3, n + 2, "n")>>), 3) }
  \cup { P(Tpl(tp, n), 1) : tp \in BlockTemplates }

\* one representative block per kind, as [blk, used] (floating right, floating left, centred figure
\* on different images)
BlockKinds == <<"para", "list", "pre", "table", "figr", "figl", "figc", "gallery", "tpl">>
KB(kind, n) ==
  CASE kind = "para"    -> [blk |-> Para(<<W(n, "n"), W(n + 1, "b")>>), used |-> 2]
    [] kind = "list"    -> [blk |-> ListOf(n, <<"*", "**">>, "n"), used |-> 2]
    [] kind = "pre"     -> [blk |-> Pre(<<<<W(n, "n")>>>>), used |-> 1]
    [] kind = "table"   -> [blk |-> Table(<<>>, Grid(n, 1, 2, "none")), used |-> 2]
    [] kind = "figr"    -> [blk |-> Fig(FG(1, "thumb", n, "n")), used |-> 1]
    [] kind = "figl"    -> [blk |-> Fig(FG(2, "left", n, "n")), used |-> 1]
    [] kind = "figc"    -> [blk |-> Fig(FG(3, "center", n, "n")), used |-> 1]
    [] kind = "gallery" -> [blk |-> Gallery(0, 0, <<GI(3, n, "n")>>), used |-> 1]
    [] kind = "tpl"     -> [blk |-> Tpl("Ttable", n), used |-> 1]
TextyKinds == {"para", "list", "pre", "table", "tpl"}
Levels == <<<<2, 2>>, <<2, 3>>, <<3, 2>>, <<2, 4>>>>

\* a whole section  heading, first, [text], last : first and last of any kind, body text somewhere
SectionOf(l, kf, kl, n) ==
  LET f == KB(kf, n + 1)
      needtext == kf \notin TextyKinds /\ kl \notin TextyKinds
      t == IF needtext THEN 1 ELSE 0
      la == KB(kl, n + 1 + f.used + t) IN
  PS(<<Hd(l, <<W(n, "n")>>), f.blk>> \o (IF needtext THEN <<Para(<<W(n + 1 + f.used, "n")>>)>> ELSE <<>>) \o <<la.blk>>,
     1 + f.used + t + la.used)

\* a whole article:  [heading] text X heading Y text  — X is the last block of a section (of the
\* lead section when lead), Y the first block of the next one
PairArticle(kx, ky, lv, lead, n) ==
  LET h == IF lead THEN 0 ELSE 1
      x == KB(kx, n + h + 1)
      y == KB(ky, n + h + 2 + x.used) IN
  PS((IF lead THEN <<>> ELSE <<Hd(lv[1], <<W(n, "n")>>)>>)
     \o <<Para(<<W(n + h, "n")>>), x.blk, Hd(lv[2], <<W(n + h + 1 + x.used, "n")>>), y.blk,
          Para(<<W(n + h + 2 + x.used + y.used, "n")>>)>>,
     h + 3 + x.used + y.used)
\* two adjacent figures between text
FigPair(kx, ky, n) ==
  PS(<<Para(<<W(n, "n")>>), KB(kx, n + 1).blk, KB(ky, n + 2).blk, Para(<<W(n + 3, "n")>>)>>, 4)
FigKindNames == {"figr", "figl", "figc"}

Pairs(n) ==
  { PairArticle(BlockKinds[i], BlockKinds[j], Levels[((i + j) % 4) + 1], (i + 2 * j) % 3 = 0, n) :
      i \in 1..Len(BlockKinds), j \in 1..Len(BlockKinds) }
  \cup { FigPair(kx, ky, n) : kx \in FigKindNames, ky \in FigKindNames }
  \cup { PS(<<Para(<<W(n, "n")>>), KB(k, n + 1).blk>>, 2) : k \in FigKindNames }     \* a figure ends the article
\* thorough: every pair with every level combination, with and without a heading of the first section
PairsAll(n) ==
  Pairs(n) \cup
  { PairArticle(BlockKinds[i], BlockKinds[j], Levels[v], lead, n) :
      i \in 1..Len(BlockKinds), j \in 1..Len(BlockKinds), v \in 1..Len(Levels), lead \in BOOLEAN }

\* a whole article around a RUN of k consecutive blocks of one kind (figures of mixed float kinds
\* on the same or on different stored images, optionally with a template call as last caption;
\* one-image galleries; tables):   preceder  run  follower
RunKinds  == <<"fig", "gallery", "table", "imgpara">>    \* imgpara: a paragraph that holds nothing but an inline image
Followers == <<"end", "head", "table", "gallery", "pre", "para", "list">>
Preceders == <<"para", "head", "table">>
Mixes     == <<"r", "l", "c", "x">>             \* all right / all left / all centred / rotating
FigKindAt(mix, j) == CASE mix = "r" -> "thumb" [] mix = "l" -> "left" [] mix = "c" -> "center"
                       [] mix = "x" -> <<"thumb", "left", "center">>[((j - 1) % 3) + 1]
RunBlocks(rk, k, mix, same, tplast, n) ==
  CASE rk = "fig"     -> [j \in 1..k |-> Fig(IF tplast /\ j = k
                                              THEN FGT(IF same THEN 1 ELSE ((j - 1) % 3) + 1, FigKindAt(mix, j), n + j - 1, "Tinl")
                                              ELSE FG(IF same THEN 1 ELSE ((j - 1) % 3) + 1, FigKindAt(mix, j), n + j - 1, "n"))]
    [] rk = "gallery" -> [j \in 1..k |-> Gallery(0, 0, <<GI(IF same THEN 1 ELSE ((j - 1) % 3) + 1, n + j - 1, "n")>>)]
    [] rk = "table"   -> [j \in 1..k |-> Table(<<>>, Grid(n + 2 * (j - 1), 1, 2, "none"))]
    [] rk = "imgpara" -> [j \in 1..k |-> Para(<<IM(IF same THEN 1 ELSE ((j - 1) % 3) + 1, n + j - 1)>>)]
RunUsed(rk, k) == IF rk = "table" THEN 2 * k ELSE k
\* "every section has body text": a run directly after a heading cannot also end the section
PrecederOf(p, f) == IF p = "head" /\ f \in {"end", "head"} THEN "para" ELSE p
RunArticle(rk, k, f, p0, mix, same, tplast, n) ==
  LET p    == PrecederOf(p0, f)
      pre  == CASE p = "para"  -> [bl |-> <<Para(<<W(n, "n")>>)>>, u |-> 1]
                [] p = "head"  -> [bl |-> <<Para(<<W(n, "n")>>), Hd(2, <<W(n + 1, "n")>>)>>, u |-> 2]
                [] p = "table" -> [bl |-> <<Table(<<>>, Grid(n, 1, 2, "none"))>>, u |-> 2]
      m    == n + pre.u
      run  == RunBlocks(rk, k, mix, same, tplast, m)
      q    == m + RunUsed(rk, k)
      fol  == CASE f = "end"     -> [bl |-> <<>>, u |-> 0]
                [] f = "head"    -> [bl |-> <<Hd(3, <<W(q, "n")>>), Para(<<W(q + 1, "n")>>)>>, u |-> 2]
                [] f = "gallery" -> [bl |-> <<KB("gallery", q).blk, Para(<<W(q + 1, "n")>>)>>, u |-> 2]
                [] OTHER         -> [bl |-> <<KB(f, q).blk>>, u |-> KB(f, q).used] IN
  PS(pre.bl \o run \o fol.bl, pre.u + RunUsed(rk, k) + fol.u)

\* every (run kind, k, follower, preceder); the variant (float mix, same/different image, template
\* caption) cycles when ~all, all variants otherwise
Runs(maxk, all, n) ==
  { RunArticle(RunKinds[r], k, Followers[fi], Preceders[pi], Mixes[((k + 2 * fi + 3 * pi) % 4) + 1],
               (k + fi + pi) % 2 = 0, (k + fi + 2 * pi) % 3 = 0, n) :
      r \in 1..Len(RunKinds), k \in 1..maxk, fi \in 1..Len(Followers), pi \in 1..Len(Preceders) }
  \cup (IF all THEN
         { RunArticle("fig", k, Followers[fi], Preceders[pi], Mixes[mi], same, tplast, n) :
             k \in 1..maxk, fi \in 1..Len(Followers), pi \in 1..Len(Preceders), mi \in 1..Len(Mixes),
             same \in BOOLEAN, tplast \in BOOLEAN }
        ELSE {})

\* VOLUME: content whose size matters to the code under test (single-article collections)
\*  - a float block shifted down the page: L one-line paragraphs, a tall floating thumbnail, a
\*    first paragraph of p1 words beside it (about as tall as the figure for p1 ~ 60..80), a long
\*    second paragraph, a closing line; for every offset L of a page and several p1
\*  - a table row with a BIG cell (np paragraphs of wpp words, or a paragraph and a list) next to
\*    a short or an empty cell, on either side: above ~1100 characters the cleaner splits the row
\*  - blocks that span pages: a long paragraph, list, table, preformatted block
LeadParas(n, L) == [j \in 1..L |-> Para(<<W(n + j - 1, "n")>>)]
FloatSweep(L, p1, kind, n) ==
  PS(LeadParas(n, L) \o <<Fig(FG(4, kind, n + L, "n")), Para(<<WS(n + L + 1, p1)>>),
                           Para(<<WS(n + L + 1 + p1, 70)>>), Para(<<W(n + L + 71 + p1, "n")>>)>>, L + 72 + p1)
BigCellRow(npar, wpp, bigleft, emptyother, withlist, n) ==
  LET big == Cell(FALSE, <<>>, [j \in 1..npar |-> Para(<<WS(n + (j - 1) * wpp, wpp)>>)]
                              \o (IF withlist THEN <<ListOf(n + npar * wpp, [j \in 1..8 |-> "*"], "n")>> ELSE <<>>))
      u   == npar * wpp + (IF withlist THEN 8 ELSE 0)
      oth == IF emptyother THEN Cell(FALSE, <<>>, <<>>) ELSE PlainCell(n + u)
      v   == u + (IF emptyother THEN 0 ELSE 1) IN
  PS(<<Table(<<>>, <<IF bigleft THEN <<big, oth>> ELSE <<oth, big>>>>), Para(<<W(n + v, "n")>>)>>, v + 1)
LongBlocks(n) ==
  { P(Para(<<WS(n, 300)>>), 300),
    P(ListOf(n, [j \in 1..70 |-> IF j % 3 = 0 THEN "**" ELSE "*"], "n"), 70),
    P(Table(<<W(n, "n")>>, Grid(n + 1, 60, 2, "row")), 121),
    P(Pre([j \in 1..70 |-> <<W(n + j - 1, "n")>>]), 70),
    PS(<<Para(<<WS(n, 250)>>), Sec(2, <<W(n + 250, "n")>>, <<WS(n + 251, 250)>>)>>, 501) }
CellShapes == {<<2, 80>>, <<3, 80>>, <<4, 40>>, <<3, 40>>, <<2, 120>>}
Volume(n) ==
  { FloatSweep(L, 72, "thumb", n) : L \in 0..47 }
  \cup { FloatSweep(2 * h, 44, "left", n) : h \in 0..23 }
  \cup { BigCellRow(sh[1], sh[2], (sh[1] + sh[2] \div 40) % 2 = 0, sh[1] = 4, FALSE, n) : sh \in CellShapes }
  \cup { BigCellRow(1, 100, TRUE, FALSE, TRUE, n), BigCellRow(3, 80, FALSE, TRUE, FALSE, n) }
  \cup LongBlocks(n)
VolumeAll(n) ==
  Volume(n)
  \cup { FloatSweep(L, 20 + 4 * q, kind, n) : L \in 0..47, q \in 0..15, kind \in {"thumb", "left"} }
  \cup { BigCellRow(sh[1], sh[2], bl, eo, wl, n) : sh \in CellShapes, bl \in BOOLEAN, eo \in BOOLEAN, wl \in BOOLEAN }

\* book-level sharing: one production per kind of identifier that several articles of a book can
\* have in common (the words stay unique): reference name r1 defined with the article's own text
\* and re-used, two names, stored image 1, templates Tinl / Ttable with the article's own
\* arguments, an identical section heading, the same external URL
ShareSeq(n) ==
  << PS(<<Para(<<W(n, "n"), RN(1, n + 1), W(n + 2, "n"), RU(1)>>)>>, 3),
     PS(<<Para(<<RN(1, n), RN(2, n + 1), RU(1), W(n + 2, "n"), RU(2)>>),
          ListOf(n + 3, <<"*">>, "n")>>, 4),
     PS(<<Fig(FG(1, "thumb", n, "n")), Para(<<W(n + 1, "n"), IM(1, n + 2)>>)>>, 3),
     PS(<<Para(<<W(n, "n"), TC("Tinl", n + 1)>>), Tpl("Ttable", n + 2)>>, 3),
     PS(<<Para(<<W(n, "n")>>), Hd(2, <<SW(1)>>), Para(<<W(n + 1, "n")>>)>>, 2),
     PS(<<Para(<<W(n, "n"), LE(n + 1)>>)>>, 2) >>
Share(n) == Range(ShareSeq(n))
\* every article of the book gets the production of the first article (which starts at word 1)
ShareSame(n) == IF Len(arts) = 1 THEN Share(n)
                ELSE {ShareSeq(n)[k] : k \in {j \in 1..Len(ShareSeq(n)) : arts[1] = ShareSeq(1)[j].blks}}

\* parameterised productions for random composition (-simulate)
CellChoices(n) ==
  { Cell(h, <<Mk(k, n)>>, <<>>) : h \in BOOLEAN, k \in {"n", "b", "i", "ll", "le", "ref", "Tinl", "Tbold"} }
  \cup { FigCell(i, n, "n") : i \in Images }
SomeCells(n) == { PlainCell(n), HeadCell(n), Cell(FALSE, <<RF(n)>>, <<>>), Cell(FALSE, <<TC("Tnest", n)>>, <<>>),
                  Cell(FALSE, <<LL(n)>>, <<>>), FigCell(1, n, "n"), FigCell(2, n, "b"), Cell(TRUE, <<W(n, "i")>>, <<>>) }

Rich(n) ==
  Full(n)
  \cup { P(Para(<<Mk(x, n), Mk(y, n + 1), Mk(z, n + 2)>>), 3) :
           x \in ItemKinds, y \in {"n", "ll", "ref", "Tnest"}, z \in {"n", "bi"} }
  \cup { P(Sec(l, <<W(n, "n")>>, <<Mk(x, n + 1), W(n + 2, "n")>>), 3) : l \in 2..4, x \in ItemKinds }
  \cup { P(ListOf(n, sh, k), Len(sh)) : sh \in ListShapes, k \in {"b", "i", "ll", "le", "ref", "Tinl", "Tif"} }
  \cup { P(Table(<<>>, <<<<a, b>>, <<c, PlainCell(n + 3)>>>>), 4) :
           a \in CellChoices(n), b \in {PlainCell(n + 1), HeadCell(n + 1)}, c \in {PlainCell(n + 2), FigCell(2, n + 2, "n")} }
  \cup { P(Table(<<W(n, "n")>>, <<<<a, b, PlainCell(n + 3)>>>>), 4) : a \in CellChoices(n + 1), b \in SomeCells(n + 2) }
  \cup { P(Fig(FG(i, k, n, s)), 1) : i \in Images, k \in FigKinds, s \in {"n", "b", "i"} }
  \cup { PS(RunBlocks("fig", k, Mixes[mi], same, tplast, n), k) : k \in 2..5, mi \in 1..Len(Mixes), same \in BOOLEAN, tplast \in BOOLEAN }
  \cup { SectionOf(l, BlockKinds[i], BlockKinds[j], n) : l \in 2..4, i \in 1..Len(BlockKinds), j \in 1..Len(BlockKinds) }
  \cup { P(Gallery(IF hc THEN n + m ELSE 0, pr, [k \in 1..m |-> GI(((k + off) % 3) + 1, n + k - 1, "n")]),
           IF hc THEN m + 1 ELSE m) :
           m \in 1..4, pr \in {0, 1, 2, 3}, off \in 0..2, hc \in BOOLEAN }

Blocks(n) == CASE Palette = "volume" -> Volume(n) [] Palette = "volumeall" -> VolumeAll(n) [] Palette = "share" -> Share(n) [] Palette = "sharesame" -> ShareSame(n) [] Palette = "runs3" -> Runs(3, FALSE, n) [] Palette = "runs5all" -> Runs(5, TRUE, n) [] Palette = "pairs" -> Pairs(n) [] Palette = "pairsall" -> PairsAll(n) [] Palette = "mini" -> Mini(n) [] Palette = "core" -> Core(n) [] Palette = "full" -> Full(n) [] Palette = "rich" -> Rich(n)

-----------------------------------------------------------------------------
Plans  == UNION {[1..k -> MinBlocks..MaxBlocks] : k \in 1..MaxArts}
Layouts(k) == IF Chapters THEN [1..k -> BOOLEAN] ELSE {[i \in 1..k |-> FALSE]}

Init == /\ plan \in Plans
        /\ chap \in Layouts(Len(plan))
        /\ arts = <<<<>>>>
        /\ den = <<<<DW(TitleWord(1), "article-title")>>>>
        /\ nw = 1
        /\ np = 0
        /\ phase = "gen"

cur == Len(arts)

AddBlock ==
  /\ phase = "gen" /\ np < plan[cur]
  /\ \E p \in Blocks(nw) :
       /\ arts' = [arts EXCEPT ![cur] = @ \o p.blks]
       /\ den' = [den EXCEPT ![cur] = @ \o DenBlocks(p.blks, "")]
       /\ nw' = nw + p.used
  /\ np' = np + 1
  /\ UNCHANGED <<plan, chap, phase>>

NewArticle ==
  /\ phase = "gen" /\ np = plan[cur] /\ cur < Len(plan)
  /\ arts' = Append(arts, <<>>)
  /\ den' = Append(den, <<DW(TitleWord(cur + 1), "article-title")>>)
  /\ np' = 0
  /\ UNCHANGED <<plan, chap, nw, phase>>

Finish ==
  /\ phase = "gen" /\ np = plan[cur] /\ cur = Len(plan)
  /\ phase' = "done"
  /\ UNCHANGED <<plan, chap, arts, den, nw, np>>

Next == AddBlock \/ NewArticle \/ Finish
Spec == Init /\ [][Next]_vars /\ WF_vars(Next)

-----------------------------------------------------------------------------
(* laws of the generator and of the oracle *)
Done == phase = "done"
AllBlocks == Flat(arts)
DenWords(i)  == {den[i][k].w : k \in 1..Len(den[i])}
BodyWords(i) == {w \in DenWords(i) : w < 700}
UsedTemplates == TplsOf(AllBlocks)
UsedImages == ImgsOf(AllBlocks)

\* fresh words are allocated densely and exactly once: the ids occurring are exactly 1..nw-1
AllocationLaw == IdsOf(AllBlocks) = 1..(nw - 1)
\* a body word is denoted at most once, and in one article only
WordsUnique ==
  /\ \A i \in 1..Len(den) : \A j, k \in 1..Len(den[i]) :
        (j # k /\ den[i][j].w < 900) => den[i][j].w # den[i][k].w
  /\ \A i, j \in 1..Len(den) : i # j => BodyWords(i) \cap BodyWords(j) = {}
\* the denoted body words of an article are exactly the ids written in it minus the alt texts
DenotedAreWritten ==
  \A i \in 1..Len(arts) : BodyWords(i) = IdsOf(arts[i]) \ AltsOf(arts[i])
\* a template's literal words are denoted in an article iff the article calls it
TemplateWordsLaw ==
  \A i \in 1..Len(arts) : \A tp \in Templates :
    (tp \in TplsOf(arts[i])) <=> ({TplWords(tp)[k] : k \in 1..Len(TplWords(tp))} \subseteq DenWords(i))
\* every section has body text: a sec block carries it; after a head, a block with body text
\* comes before the next heading
HasText(b) == \/ b.b \in {"list", "pre", "table", "tpl"}
              \/ b.b = "para" /\ \E k \in 1..Len(b.xs) : b.xs[k].t \in {"w", "ws", "ll", "lb", "le", "tc"}
StartsSection(b) == b.b \in {"head", "sec"}
SectionsHaveBody ==
  \A i \in 1..Len(arts) : \A k \in 1..Len(arts[i]) :
    /\ arts[i][k].b = "sec" => DenItems(arts[i][k].body, "") # <<>>
    /\ arts[i][k].b = "head" =>
          \E j \in (k + 1)..Len(arts[i]) :
             /\ HasText(arts[i][j])
             /\ \A m \in (k + 1)..j : ~StartsSection(arts[i][m])
\* the words of every heading are denoted
HeadingsDenoted ==
  \A i \in 1..Len(arts) : \A k \in 1..Len(arts[i]) :
    StartsSection(arts[i][k]) => \A x \in Range(arts[i][k].xs) : x.t = "img" \/ x.w \in DenWords(i)
\* the title of every article is denoted first
TitlesDenoted == \A i \in 1..Len(den) : den[i][1].w = TitleWord(i)
PlanRespected == Done => /\ Len(arts) = Len(plan)
                         /\ \A i \in 1..Len(arts) : Len(arts[i]) >= plan[i] /\ plan[i] >= 1
TypeOK == /\ Len(arts) = Len(den) /\ Len(arts) <= Len(plan) /\ Len(plan) = Len(chap)
          /\ nw < 700 /\ UsedTemplates \subseteq Templates /\ UsedImages \subseteq Images

Terminates == <>Done

Laws == /\ TypeOK /\ AllocationLaw /\ WordsUnique /\ DenotedAreWritten /\ TemplateWordsLaw
        /\ SectionsHaveBody /\ HeadingsDenoted /\ TitlesDenoted /\ PlanRespected

Case == [arts |-> arts, chap |-> chap, den |-> den,
         tpls |-> UsedTemplates, imgs |-> UsedImages, nwords |-> nw - 1]
Emit == (EmitCases /\ Done) => PrintT("@@" \o ToJson(Case))
\* for -simulate (TLC evaluates invariants on every generated successor there): the laws are
\* evaluated on finished collections only, and a collection is emitted only if they hold
EmitChecked ==
  (EmitCases /\ Done) => (Assert(Laws, "a law of the generator/oracle fails on a finished collection")
                          /\ PrintT("@@" \o ToJson(Case)))
=============================================================================
