---------------------------- MODULE FetcherTrace ----------------------------
(* P-TRACE for C11: every run of the real make_nuwiki against the synthetic wiki is validated as
   a behaviour of Fetcher.tla, and Complete / NoLeftovers / NoDoubleWork are decided by TLC on
   it -- Complete on the archive as READ BACK through nuwiki.Adapt (the trace's `final.view`).

   The batch file (IOEnv.TRACE_FILE) is a JSON array of traces
     cfg    [wiki, book, reqlimit, reslimit, fetchimages, html]   (spec/WikiApi.tla's record)
     init   [ts, rs]      the sorted titles / revids Fetcher.__init__ fanned out
     ev     one event per atomic stretch of a work item (recorded at the greenlet switch):
              t   "step" | "dispatch" | "join"
              k,a,h  the item (kind, arguments, api host)
              to  what it then waits for: "r" request in flight, "wsem", "whsem", "join", "done"
              w   what it wrote to the archive (FsOutput calls; contributors are not compared
                  here -- see `final`), sp  the items it spawned,
              ord / bl   the order a Python set was iterated in (enqueue order, block split)
              st  the shared state after the stretch: sched, todoImg, descL/descS (+hasL/hasS),
                  redir, seml, sems, hsem, dp
     final  [status, view]   status "done" | "failed"; view = [arts, imgs] read through
            nuwiki.Adapt: text / file / desc / info atoms and authors per listed article / image

   tid picks the trace, l is the next event.  Unlogged item-local state (which of two identical
   items stepped, which fetch_used a block belongs to) makes the trace spec branch, so a dead
   end is not by itself a rejection: a trace is ACCEPTED iff some branch consumes it completely
   (Done is the only step at the end), and for every consumed trace TLC prints the end verdict
   (leftover / double-work flags).  Independently of the events, TLC prints for every trace the
   set Failures(view) computed from Expected (EmitFinal) -- Complete on the read-back archive.
   A trace for which no verdict is printed was REJECTED: no behaviour of Fetcher.tla matches the
   run.  The harness then re-runs that trace alone (EmitProgress gives the deepest event any
   branch reached, Diagnose names the post-condition that fails there). *)
EXTENDS Fetcher, Json, IOUtils

CONSTANT Diagnose      \* TRUE: re-run of one rejected trace; every post-condition is a named assertion

Batch == JsonDeserialize(IOEnv.TRACE_FILE)
DiagL == IF Diagnose THEN atoi(IOEnv.DIAG_L) ELSE 0

VARIABLES tid, l
tvars == <<vars, tid, l>>

Tr == Batch[tid]
Ev == Tr.ev[l]
\* diagnosis names the post-condition that fails at event DiagL (the deepest event any branch reached)
Chk(c, msg) == IF Diagnose /\ l = DiagL THEN Assert(c, "C11-diag: " \o msg) ELSE c

TraceInit ==
  /\ tid \in 1..Len(Batch)
  /\ l = 1
  /\ InitWith(Batch[tid].cfg, Batch[tid].init.ts, Batch[tid].init.rs)

ToClass(pc) == IF pc \in {"r1", "r2", "r3", "ping"} THEN "r" ELSE pc

PostOk ==
  /\ Chk(ToClass(last'.to) = Ev.to, "the item waits for something else than the model says (next request / semaphore / done)")
  /\ Chk(last'.w = Range(Ev.w), "archive writes of the step differ from the model's")
  /\ Chk(last'.sp = Range(Ev.sp), "spawned work items differ from the model's")
  /\ Chk(scheduled' = Range(Ev.st.sched), "scheduled differs")
  /\ Chk(todoImg' = Ev.st.todoImg, "imageinfo_todo differs")
  /\ Chk(Ev.st.todoRev = <<>> /\ Ev.st.todoPg = <<>>, "revids_todo / pages_todo are filled (not part of today's expanded mode, not modelled)")
  /\ Chk(DOMAIN descTodo' = (IF Ev.st.hasL THEN {"local"} ELSE {}) \cup (IF Ev.st.hasS THEN {"shared"} ELSE {}),
         "imagedescription_todo has other base paths")
  /\ Chk(Ev.st.hasL => descTodo'["local"] = Ev.st.descL, "imagedescription_todo[local] differs")
  /\ Chk(Ev.st.hasS => descTodo'["shared"] = Ev.st.descS, "imagedescription_todo[shared] differs")
  /\ Chk({<<t, redirects'[t]>> : t \in DOMAIN redirects'} = Range(Ev.st.redir), "redirects differ")
  /\ Chk(sem'["local"] = Ev.st.seml, "free slots of the api semaphore differ")
  /\ Chk(sem'["shared"] = Ev.st.sems, "free slots of the shared repository's api semaphore differ")
  /\ Chk(hsem' = Ev.st.hsem, "free slots of the html semaphore differ")
  /\ Chk(dp' = Ev.st.dp, "dispatch_event differs (not set by a finished item / not cleared by the dispatcher)")

Advance == l' = l + 1 /\ tid' = tid

ItemAction(it) ==
  \/ StartFH(it) \/ StartH1(it) \/ StartFU(it) \/ StartReq(it) \/ StartDL(it) \/ StartGET(it) \/ StartNB(it)
  \/ WakeH(it) \/ WakeS(it)
  \/ RespH1(it) \/ RespET(it) \/ RespER(it) \/ RespII(it) \/ RespGET(it) \/ RespIP(it) \/ RespIE(it)
  \/ JoinBlocks(it)
  \/ RespUBMore(it)
  \/ RespUBFinal(it, Ev.ord)
  \/ RespNB(it, Ev.bl)

TrStep ==
  /\ l <= Len(Tr.ev) /\ Ev.t = "step"
  /\ Chk(\E it \in DOMAIN items : it.k = Ev.k /\ it.a = Ev.a /\ it.h = Ev.h, "no such work item exists in the model at this point")
  /\ \A it \in DOMAIN items :          \* diagnosis only: name the usual reason a block's last step is refused
       (Diagnose /\ Ev.to = "done" /\ it.k = "UB" /\ it.k = Ev.k /\ it.a = Ev.a /\ it.pc = "r1" /\ ~MoreAfter(it.off, RL, UBCount(it)))
         => Chk(IsPermOf(Ev.ord, UBFresh(it)), "the images the block enqueues differ from the images of the complete (merged) answer that are not yet scheduled")
  /\ \E it \in DOMAIN items : it.k = Ev.k /\ it.a = Ev.a /\ it.h = Ev.h /\ ItemAction(it)
  /\ PostOk
  /\ Advance

TrDispatch ==
  /\ l <= Len(Tr.ev) /\ Ev.t = "dispatch"
  /\ LET bs == {Ev.sp[i][2] : i \in DOMAIN Ev.sp}
         total == LET RECURSIVE Sum(_)
                      Sum(i) == IF i = 0 THEN 0 ELSE Len(Ev.sp[i][2]) + Sum(i - 1) IN Sum(Len(Ev.sp)) IN
     /\ Chk(DispatchOk(bs, Ev.st.todoImg), "the dispatched blocks and the remaining imageinfo_todo are not a re-arrangement of the queued titles into blocks of at most the request limit")
     /\ DispatchDo(bs, Ev.st.todoImg, total > Cardinality(Titles(bs)))
  /\ PostOk
  /\ Advance

TrJoin ==
  /\ l <= Len(Tr.ev) /\ Ev.t = "join"
  /\ Join
  /\ phase' = Tr.final.status
  /\ Advance

Consumed == l = Len(Tr.ev) + 1
\* a run that ended (returned, or raised "not all items processed") must have reached Join
Done == Consumed /\ phase # "run" /\ UNCHANGED tvars

TraceNext == TrStep \/ TrDispatch \/ TrJoin \/ Done
TraceSpec == TraceInit /\ [][TraceNext]_tvars

-----------------------------------------------------------------------------
\* the read-back view, with JSON arrays turned into the sets Failures() speaks about
Au(x) == [present |-> x.present, names |-> Range(x.names), anon |-> x.anon]
ViewOf(tr) ==
  [arts |-> [i \in DOMAIN tr.final.view.arts |->
               [text |-> tr.final.view.arts[i].text, authors |-> Au(tr.final.view.arts[i].authors)]],
   imgs |-> [j \in DOMAIN tr.final.view.imgs |->
               [file |-> tr.final.view.imgs[j].file, desc |-> tr.final.view.imgs[j].desc,
                info |-> tr.final.view.imgs[j].info, authors |-> Au(tr.final.view.imgs[j].authors)]]]

\* C11 on the implementation's archive, from the wiki, the book and the read-back view alone:
\* evaluated (and printed) once per trace, whether or not its events are accepted
Verdict1 ==
  [kind |-> "final", id |-> Tr.id,
   failures |-> IF Tr.final.status = "done" THEN Failures(ViewOf(Tr)) ELSE {}]
EmitFinal == l = 1 => PrintT("@@" \o ToJson(Verdict1))
\* what the accepted behaviour says: printed once per branch that consumes the whole trace
Verdict ==
  [kind |-> "end", id |-> Tr.id, phase |-> phase,
   leftovers |-> phase = "failed",
   doublework |-> dup,
   modelfailures |-> IF phase = "done" THEN Failures(ModelView) ELSE {}]
EmitVerdict == Consumed /\ phase # "run" => PrintT("@@" \o ToJson(Verdict))

EmitProgress == PrintT("@@" \o ToJson([progress |-> l]))

\* the model's own invariants hold along every recorded behaviour
TraceSemOk == SemOk
TraceTodoScheduled == TodoScheduled
=============================================================================
