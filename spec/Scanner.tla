------------------------------ MODULE Scanner ------------------------------
(* C10 — tokenization is lossless: the scanner's tokens tile the input.

   Models mwlib.parser.token._uscan (Scanner::scan / found) as seen through
   utoken.scan(text) -> [(type, start, len)]:

     * the text is copied to a Py_UCS4 array (PyUnicode_AsUCS4Copy), so start / len count
       CODE POINTS (= Python str indices; a non-BMP character is one unit, a lone surrogate too);
     * the input is abstracted to one character class per code point:
           "E"  U+EBAD   (the blacklist marker; rule "\XEBAD" {RET(t_ebad)} emits nothing)
           "N"  U+0000   (scanning stops at the first one; utoken.scan appends 32 of them)
           "o"  anything else;
     * found(type) appends (type, start, cursor-start) or, for adjacent t_text tokens, extends the
       previous token: both are "a span was emitted / grew"; the trace the harness records is the
       final token list, one Emit per token, followed by Stop (scan() returned t_end).

   The specification states the tiling law only.  Which characters form which token (the lexical
   rules) is not specified: the property does not state them.  A token may cover an EBAD (URLs and
   HTML tags do: their character classes include it); an EBAD between two tokens is dropped.

   Offsets are 0-based as in the code; input[p+1] is the class of offset p. *)
EXTENDS Naturals, Sequences, FiniteSets, SequencesExt, TLC

CONSTANTS MaxLen,        \* P-MC: inputs of length 0..MaxLen over the three classes
          Types,         \* P-MC: token types the nondeterministic scanner may emit
          SkipClasses    \* {"E"} in the reference; {"E","o"} re-introduces "a character is lost" (non-vacuity)

Classes == {"E", "N", "o"}

VARIABLES input,      \* sequence of classes
          cursor,     \* offset just behind the last emitted span (0 initially)
          emitted,    \* sequence of [type, start, len]
          stopped     \* scan() returned t_end
svars == <<input, cursor, emitted, stopped>>

Cls(p) == input[p + 1]
NulOffsets == {p \in 0..(Len(input) - 1) : Cls(p) = "N"}
MinOf(S) == CHOOSE x \in S : \A y \in S : x <= y
\* scanning ends at the first NUL, or at the end of the text when there is none
Limit == IF NulOffsets = {} THEN Len(input) ELSE MinOf(NulOffsets)

OnlySkippable(a, b) == \A p \in a..(b - 1) : Cls(p) \in SkipClasses

Init == /\ input \in UNION {[1..n -> Classes] : n \in 0..MaxLen}
        /\ cursor = 0
        /\ emitted = <<>>
        /\ stopped = FALSE

(* A token (type, start, len) is appended.  Enabled iff it starts at the cursor after skipping
   only EBAD positions, is non-empty, and stays before the first NUL / the end. *)
Emit(t, s, n) ==
  /\ ~stopped
  /\ n > 0
  /\ s >= cursor
  /\ s + n <= Limit                  \* (before OnlySkippable: a span outside the text must disable the
  /\ OnlySkippable(cursor, s)        \*  action, not index the input out of range)
  /\ emitted' = Append(emitted, [type |-> t, start |-> s, len |-> n])
  /\ cursor' = s + n
  /\ UNCHANGED <<input, stopped>>

(* The scanner returns.  Enabled iff everything between the cursor and the end / first NUL is EBAD. *)
Stop ==
  /\ ~stopped
  /\ OnlySkippable(cursor, Limit)
  /\ stopped' = TRUE
  /\ UNCHANGED <<input, cursor, emitted>>

EmitAny == \E t \in Types, s \in 0..Len(input), n \in 1..Len(input) : Emit(t, s, n)
Next == EmitAny \/ Stop
Spec == Init /\ [][Next]_svars /\ WF_svars(Next)

-----------------------------------------------------------------------------
End(k) == emitted[k].start + emitted[k].len
\* (LET: TLC re-evaluates a state-level definition at every use; a LET-bound value is computed once)
Covered == UNION {(emitted[k].start)..(End(k) - 1) : k \in 1..Len(emitted)}
Gaps == LET c == Covered IN {p \in 0..(cursor - 1) : p \notin c}

TypeOK == /\ cursor \in 0..Len(input)
          /\ stopped \in BOOLEAN
          /\ \A k \in 1..Len(emitted) : emitted[k].start \in 0..Len(input) /\ emitted[k].len \in 0..Len(input)

NonEmpty        == \A k \in 1..Len(emitted) : emitted[k].len > 0
OrderedDisjoint == \A k \in 1..(Len(emitted) - 1) : End(k) <= emitted[k + 1].start
CursorIsEnd     == cursor = (IF emitted = <<>> THEN 0 ELSE End(Len(emitted)))
BeforeLimit     == cursor <= Limit
GapsAreEbad     == LET g == Gaps IN \A p \in g : Cls(p) = "E"
\* starting at offset 0: nothing but EBAD precedes the first token
StartsAtZero    == emitted # <<>> => \A p \in 0..(emitted[1].start - 1) : Cls(p) = "E"
\* ending at the end of the text or at the first NUL
Lossless        == stopped => LET c == Covered IN \A p \in 0..(Limit - 1) : p \in c \/ Cls(p) = "E"

\* "concatenating the spans reproduces the input": the classes read through the spans, in order,
\* are the input up to the cursor with exactly the gap positions (all EBAD) removed
\* (FoldLeft / SelectSeq instead of RECURSIVE operators: TLC evaluates them iteratively, so that
\*  traces of long texts do not exhaust the Java stack)
Concat == FoldLeft(LAMBDA acc, tok : acc \o SubSeq(input, tok.start + 1, tok.start + tok.len), <<>>, emitted)
Kept == LET gaps == Gaps
            offs == [i \in 1..cursor |-> i - 1]
            kept == SelectSeq(offs, LAMBDA p : p \notin gaps) IN
        [j \in 1..Len(kept) |-> Cls(kept[j])]
ConcatIsInput == Concat = Kept

Terminates == <>stopped
=============================================================================
