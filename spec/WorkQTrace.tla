----------------------------- MODULE WorkQTrace -----------------------------
(* Trace validation (code -> spec) for the qs job-queue server.

   The harness (harness/qsdriver.py) drives the REAL qs.jobs.workq / qs.qserve.QPlugin under real
   gevent and records one event per atomic step, with the complete projected state after it.
   Every trace of the batch file must be a behaviour of WorkQ.tla (reference semantics, all
   defect switches FALSE) and every recorded state must satisfy the invariants / action
   properties of WorkQProps.tla.

   Acceptance is explicit: `Done` (stuttering) is enabled only when a trace is fully consumed and
   deadlock checking stays ON, so a deadlock is exactly a recorded event the specification does
   not allow; TLC's last state then shows `tid` (which trace) and `l` (which event).
   Unlogged: `wake` (the hub's callback queue) and `conn` - TLC infers them from the actions.
   Silent steps (no recorded event, deterministic, bounded by Len(wake)): a notification whose
   receiver is no longer registered, and a wake-up that finds its job finished and blocks again. *)
EXTENDS WorkQProps, Json, IOUtils

Batch == JsonDeserialize(IOEnv.TRACE_FILE)

VARIABLES tid, l
tvars == <<vars, tid, l>>

Tr == Batch[tid]
Ev == Tr[l]

SeqRange(s) == {s[i] : i \in DOMAIN s}

JobOK(j, pj) ==
  pj.gone \/ ( /\ j.id = pj.id /\ j.ch = pj.ch /\ j.prio = pj.prio /\ j.done = pj.done
               /\ j.err = pj.err /\ j.res = pj.res /\ j.tmo = pj.tmo /\ j.info = pj.info
               /\ j.ttl = pj.ttl /\ j.deadline = pj.deadline /\ j.drop = pj.drop )

(* the recorded real state equals the specification's next state, field by field *)
PostCount(p)   == count' = p.count
PostJobs(p)    == Len(p.jobs) = count' /\ \A s \in 1..count' : JobOK(job'[s], p.jobs[s])
PostBound(p)   == \A i \in JobIds : id2job'[i] = (IF i \in DOMAIN p.bound THEN p.bound[i] ELSE 0)
\* the unfinished jobs queued per channel (finished ones lingering until preened are not compared)
PostHeaps(p)   == \A c \in Channels : {s \in heap'[c] : ~job'[s].done} = SeqRange(p.heaps[c])
PostWaiters(p) == \A w \in Workers :
                    /\ waiter'[w].on = p.waiters[w].on
                    /\ waiter'[w].box = p.waiters[w].box
                    /\ p.waiters[w].on => waiter'[w].chs = SeqRange(p.waiters[w].chs)
PostRunning(p) == \A w \in Workers : IF AnyRequeueOrder THEN SeqRange(running'[w]) = SeqRange(p.running[w])
                                                         ELSE running'[w] = p.running[w]
PostStats(p)   == \A c \in Channels : /\ stats'[c].success = p.stats[c].success
                                      /\ stats'[c].killed = p.stats[c].killed
                                      /\ stats'[c].timeout = p.stats[c].timeout
                                      /\ stats'[c].error = p.stats[c].error
PostClock(p)   == now' = p.now
PostWait(p)    == \A c \in Clients : fwait'[c] = p.fwait[c]
(* Diag = TRUE (diagnosis re-run of one rejected trace): name the first failing conjunct *)
Diag == IF "DIAG" \in DOMAIN IOEnv THEN IOEnv.DIAG = "1" ELSE FALSE
Chk(name, cond) == IF Diag THEN Assert(cond, <<"post-state differs in", name, "trace", tid, "event", l>>) ELSE cond
PostOK(p) == /\ Chk("count", PostCount(p)) /\ Chk("jobs", PostJobs(p)) /\ Chk("id2job", PostBound(p))
             /\ Chk("heaps", PostHeaps(p)) /\ Chk("waiters", PostWaiters(p))
             /\ Chk("running", PostRunning(p)) /\ Chk("stats", PostStats(p)) /\ Chk("clock", PostClock(p))
             /\ Chk("fwait", PostWait(p))

IsEvent(name) == /\ l <= Len(Tr) /\ Ev.op = name /\ l' = l + 1 /\ tid' = tid

(* a pending callback that produces no recorded event *)
SilentHead ==
  /\ wake # <<>>
  /\ LET e == Head(wake) IN
     \/ e.k = "value" /\ (~waiter[e.w].on \/ waiter[e.w].box = NoJob)
     \/ e.k = "evt" /\ fwait[e.w] = NoJob
     \/ e.k = "kill" /\ conn[e.w] # "closing"          \* the connection has already shut down
     \/ /\ e.k = "value" /\ waiter[e.w].on /\ waiter[e.w].box # NoJob /\ job[waiter[e.w].box].done
        /\ ~PopNow(job, heap, waiter[e.w].chs).found
(* gevent delivers callbacks only while the loop runs, i.e. between the operations of a batch and
   the next "deliver"/"quiet" event - so a silent step is taken exactly there, in FIFO order *)
Draining == l <= Len(Tr) /\ Ev.op \in {"deliver", "quiet"}
TrSilent == SilentHead /\ Draining /\ Deliver /\ UNCHANGED <<tid, l>>

Op(name) == IsEvent(name)

TrAdd      == Op("add") /\ Add(Ev.id, Ev.ch, Ev.prio, Ev.tmo, Ev.ttl) /\ PostOK(Ev.post)
                        /\ Ev.ret = Ev.id /\ last'.new = Ev.new
TrPull     == Op("pull") /\ PullStart(Ev.w, SeqRange(Ev.chs)) /\ PostOK(Ev.post) /\ last'.got = Ev.got
TrDeliver  == /\ ~SilentHead /\ IsEvent("deliver")
              /\ wake # <<>> /\ Head(wake) = [k |-> Ev.k, w |-> Ev.w]
              /\ Deliver /\ PostOK(Ev.post)
              /\ Ev.k = "value" => (Ev.got \in SeqRange(running'[Ev.w]) \/ conn'[Ev.w] = "closed")
TrQuiet    == ~SilentHead /\ Op("quiet") /\ wake = <<>> /\ UNCHANGED vars /\ PostOK(Ev.post)
TrFinish   == Op("finish") /\ ( IF Ev.error THEN id2job[Ev.id] = NoJob /\ UNCHANGED vars
                                ELSE Finish(Ev.w, Ev.id, Ev.err) ) /\ PostOK(Ev.post)
TrKill     == Op("kill") /\ Kill(Ev.k, Ev.id) /\ PostOK(Ev.post)
TrTick     == Op("tick") /\ AdvanceClock /\ PostOK(Ev.post)
TrDisc     == Op("disconnect") /\ Disconnect(Ev.w) /\ PostOK(Ev.post)
TrConn     == Op("connect") /\ Reconnect(Ev.w) /\ PostOK(Ev.post)
TrSetInfo  == Op("setinfo") /\ ( IF Ev.error THEN id2job[Ev.id] = NoJob /\ UNCHANGED vars
                                 ELSE SetInfo(Ev.id) ) /\ PostOK(Ev.post)
TrDrop     == Op("drop") /\ ( IF id2job[Ev.id] = NoJob \/ job[id2job[Ev.id]].drop THEN UNCHANGED vars
                              ELSE Drop(Ev.id) ) /\ PostOK(Ev.post)
TrWatchdog == Op("watchdog") /\ Watchdog /\ PostOK(Ev.post)
TrWait     == Op("wait") /\ ( IF Ev.error THEN id2job[Ev.id] = NoJob /\ UNCHANGED vars
                              ELSE Wait(Ev.c, Ev.id) /\ last'.blocked = Ev.blocked ) /\ PostOK(Ev.post)
TrStats    == /\ Op("stats") /\ UNCHANGED vars
              /\ Ev.ret.count = count
              /\ Ev.ret.numjobs = Cardinality({i \in JobIds : id2job[i] # NoJob})
              /\ \A c \in Channels : Ev.ret.busy[c] = Cardinality({s \in heap[c] : ~job[s].done})
StatsOf(p) == [c \in Channels |-> [success |-> p.stats[c].success, killed |-> p.stats[c].killed,
                                    timeout |-> p.stats[c].timeout, error |-> p.stats[c].error]]
TrRestart  == Op("restart") /\ RestartTo(StatsOf(Ev.post)) /\ PostOK(Ev.post)

Consumed == l = Len(Tr) + 1
Done     == Consumed /\ UNCHANGED tvars          \* the only legal way to stop

TraceInit == tid \in 1..Len(Batch) /\ l = 1 /\ Init
TraceNext == \/ TrAdd \/ TrPull \/ TrDeliver \/ TrSilent \/ TrQuiet \/ TrFinish \/ TrKill \/ TrTick
             \/ TrDisc \/ TrConn \/ TrSetInfo \/ TrDrop \/ TrWatchdog \/ TrWait \/ TrStats \/ TrRestart
             \/ Done
TraceSpec == TraceInit /\ [][TraceNext]_tvars

(* Acceptance.  Where the property leaves the code a choice that is not logged (the order in which
   a dropped connection's jobs are re-queued decides the order of the wake-ups), the trace spec
   branches, and a branch that guessed wrong simply ends.  A trace is accepted iff SOME branch
   consumes it: every consumed trace reports its number, the harness compares with the batch. *)
EmitConsumed == Consumed => PrintT("@@" \o ToJson([consumed |-> tid]))
=============================================================================
