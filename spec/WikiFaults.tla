----------------------------- MODULE WikiFaults -----------------------------
(* C01, third input family: WELL-FORMED DOCUMENT x ONE FAULT.

   The free sequences of WikiTokens.tla reach every combination of two or three lexemes, but a
   defect that needs a construct of eight or ten tokens in the right order (a heading inside a
   table cell, a list inside a table inside a list item ...) is out of their reach.  This module
   lists a compact set of well-formed documents as token sequences (tokens are lexeme atoms of
   WikiTokens.tla, concretised by the harness) and applies exactly ONE edit at every position:

       insert   a lexeme of the Structural alphabet before position p (p = Len+1: at the end)
       delete   the token at p
       dup      the token at p, twice
       swap     the tokens at p and p+1
       none     the document itself (it must parse, too)

   Every initial state is a case; TLC enumerates them all and checks the laws of the edit
   operators.  The oracle is that of C01: an Article comes back, no exception, within the
   watchdog, and the recorded stage trace is a behaviour of ParsePipeline.tla. *)
EXTENDS Naturals, Sequences, TLC, Json

WT == INSTANCE WikiTokens WITH Alphabet <- "structural", MaxLen <- 0, MaxNest <- 40, EmitFrom <- 1,
                               seq <- <<>>, nest <- 0, peak <- 0

Skeletons == <<
  \* 1 table: rows, cells, header cells, inline separators
  <<"{|", "NL", "|-", "NL", "|", "SP", "a", "SP", "||", "SP", "b", "NL", "|-", "NL", "!", "SP", "a", "SP", "!!", "SP", "b", "NL", "|}", "NL">>,
  \* 2 table: attributes, caption, cell attributes
  <<"{|", " class=\"x\"", "NL", "|+", "SP", "a", "NL", "|-", " align=\"center\"", "NL", "|", " style=\"color:red\"", "SP", "|", "SP", "a", "NL", "|}", "NL">>,
  \* 3 heading inside a table cell
  <<"{|", "NL", "|", "NL", "==", "SP", "a", "SP", "==", "NL", "|", "SP", "b", "NL", "|}", "NL">>,
  \* 4 heading inside an HTML table
  <<"<table>", "<tr>", "<td>", "NL", "==", "SP", "a", "SP", "==", "NL", "</td>", "<th>", "b", "</th>", "</tr>", "</table>">>,
  \* 5 heading in a header cell, row after it
  <<"{|", "NL", "!", "SP", "a", "NL", "===", "SP", "b", "SP", "===", "NL", "|-", "NL", "|", "SP", "a", "NL", "|}">>,
  \* 6 nested lists of all kinds
  <<"*", "SP", "a", "NL", "**", "SP", "b", "NL", "*#", "SP", "a", "NL", "#", "SP", "b", "NL", ";", "SP", "a", "SP", ":", "SP", "b", "NL", ":", "SP", "a", "NL">>,
  \* 7 sections of two levels with paragraphs
  <<"==", "SP", "a", "SP", "==", "NL", "a", "NLNL", "b", "NL", "===", "SP", "b", "SP", "===", "NL", "a", "NL">>,
  \* 8 links with labels, image link with options and styled caption
  <<"[[", "a", "|", "b", "]]", "SP", "[[", "Image:a.png", "|", "thumb", "|", "100px", "|", "a", "SP", "''", "b", "''", "]]", "SP", "[[", "Category:", "a", "]]">>,
  \* 9 references
  <<"a", "<ref>", "b", "SP", "''", "a", "''", "</ref>", "SP", "b", "<ref name=\"a\"/>", "NL", "<references/>", "NL">>,
  \* 10 apostrophe and HTML styles
  <<"'''", "a", "'''", "SP", "''", "b", "''", "SP", "'''''", "a", "'''''", "SP", "<b>", "a", "</b>", "<i>", "b", "</i>", "<sup>", "1", "</sup>">>,
  \* 11 preformatted lines and a pre block
  <<"SP", "a", "NL", "SP", "b", "NL", "NL", "<pre>", "a", "NL", "b", "</pre>", "NL", "a">>,
  \* 12 gallery
  <<"<gallery>", "NL", "Image:a.png", "|", "a", "SP", "[[", "b", "]]", "NL", "Image:a.png", "NL", "</gallery>", "NL">>,
  \* 13 templates, parser function, parameter
  <<"{{Echo|", "a", "}}", "SP", "{{Tbl|", "b", "}}", "SP", "{{#if:", "a", "|", "b", "|", "a", "}}", "SP", "{{{", "1", "|", "a", "}}}">>,
  \* 14 external links
  <<"[", "http://ex.org/a", "SP", "a", "SP", "''", "b", "''", "]", "SP", "http://ex.org/a", "SP", "[[", "a", "]]", "NL">>,
  \* 15 list inside a table cell
  <<"{|", "NL", "|", "NL", "*", "SP", "a", "NL", "*", "SP", "b", "NL", "|", "SP", "a", "NL", "|}", "NL">>,
  \* 16 nested table
  <<"{|", "NL", "|", "NL", "{|", "NL", "|", "SP", "a", "NL", "|}", "NL", "|", "SP", "b", "NL", "|}", "NL">>,
  \* 17 block tags
  <<"<div>", "a", "<span>", "b", "</span>", "NL", "<blockquote>", "a", "</blockquote>", "<center>", "b", "</center>", "</div>">>,
  \* 18 HTML lists
  <<"<ul>", "<li>", "a", "</li>", "<li>", "b", "<ol>", "<li>", "a", "</li>", "</ol>", "</li>", "</ul>", "<dl>", "<dt>", "a", "</dt>", "<dd>", "b", "</dd>", "</dl>">>,
  \* 19 indentation with a table
  <<":", "SP", "a", "NL", "::", "SP", "b", "NL", ":", "{|", "NL", "|", "SP", "a", "NL", "|}", "NL">>,
  \* 20 opaque regions
  <<"a", "<nowiki>", "''", "b", "''", "</nowiki>", "SP", "<math>", "a", "</math>", "NL", "<source>", "b", "</source>", "NL", "<timeline>", "a", "</timeline>">>,
  \* 21 heading with link and style
  <<"==", "SP", "[[", "a", "]]", "SP", "'''", "b", "'''", "SP", "==", "NL", "a", "NL">>,
  \* 22 poem, nested refs, imagemap
  <<"<poem>", "a", "NL", "SP", "b", "</poem>", "<ref>", "a", "<ref>", "b", "</ref>", "</ref>", "NL", "<imagemap>", "NL", "Image:a.png", "NL", "rect 0 0 1 1 [[a]]", "NL", "</imagemap>">>,
  \* 23 rule, break, magic word, comment, entities
  <<"a", "<br/>", "b", "NL", "----", "NL", "__TOC__", "NL", "<!-- c -->", "a", "&amp;", "&#65;", "b", "NL">>,
  \* 24 table with references, links and styles in cells
  <<"{|", "NL", "|", "SP", "[[", "a", "|", "b", "]]", "SP", "||", "SP", "'''", "a", "'''", "<ref>", "b", "</ref>", "NL", "|-", "NL", "|", "SP", "a", "NL", "|}">>
>>

Kinds == {"none", "insert", "delete", "dup", "swap"}

VARIABLES sk, kind, pos, lex
fvars == <<sk, kind, pos, lex>>

Base == Skeletons[sk]

Init == /\ sk \in 1..Len(Skeletons)
        /\ kind \in Kinds
        /\ LET n == Len(Skeletons[sk]) IN
           CASE kind = "none"   -> pos = 0 /\ lex = "-"
             [] kind = "insert" -> pos \in 1..(n + 1) /\ lex \in WT!Structural
             [] kind = "swap"   -> pos \in 1..(n - 1) /\ lex = "-"
             [] OTHER           -> pos \in 1..n /\ lex = "-"
Next == UNCHANGED fvars
Spec == Init /\ [][Next]_fvars

Edited ==
  LET s == Base n == Len(Base) IN
  CASE kind = "none"   -> s
    [] kind = "insert" -> SubSeq(s, 1, pos - 1) \o <<lex>> \o SubSeq(s, pos, n)
    [] kind = "delete" -> SubSeq(s, 1, pos - 1) \o SubSeq(s, pos + 1, n)
    [] kind = "dup"    -> SubSeq(s, 1, pos) \o SubSeq(s, pos, n)
    [] kind = "swap"   -> SubSeq(s, 1, pos - 1) \o <<s[pos + 1], s[pos]>> \o SubSeq(s, pos + 2, n)

\* laws of the edit operators: exactly one edit, undone by its inverse
EditLaws ==
  LET e == Edited n == Len(Base) IN
  /\ kind = "none"   => e = Base
  /\ kind = "insert" => Len(e) = n + 1 /\ e[pos] = lex /\ SubSeq(e, 1, pos - 1) \o SubSeq(e, pos + 1, n + 1) = Base
  /\ kind = "delete" => Len(e) = n - 1 /\ SubSeq(e, 1, pos - 1) \o <<Base[pos]>> \o SubSeq(e, pos, n - 1) = Base
  /\ kind = "dup"    => Len(e) = n + 1 /\ e[pos] = e[pos + 1] /\ SubSeq(e, 1, pos) \o SubSeq(e, pos + 2, n + 1) = Base
  /\ kind = "swap"   => Len(e) = n /\ e[pos] = Base[pos + 1] /\ e[pos + 1] = Base[pos]
\* the documents are well formed in the sense of the nesting counter: every bracket / tag opener has
\* its closer (list-prefix and apostrophe lexemes, which the counter treats as never closed, aside)
Brackets == {"{|", "[[", "[", "{{{", "{{Echo|", "{{Tbl|", "{{#if:"} \cup {WT!OpenTag(t) : t \in WT!AllTags \ WT!VoidTags}
RECURSIVE Depth(_)
Depth(s) == IF s = <<>> THEN 0
            ELSE LET d == Depth(SubSeq(s, 1, Len(s) - 1)) x == s[Len(s)] IN
                 IF x \in Brackets THEN d + 1 ELSE IF x \in WT!Closers /\ d > 0 THEN d - 1 ELSE d
SkeletonsBalanced == \A i \in 1..Len(Skeletons) : Depth(Skeletons[i]) = 0

EmitCase == PrintT("@@" \o ToJson([s |-> Edited, sk |-> sk, kind |-> kind, pos |-> pos, lex |-> lex]))
=============================================================================
