---------------------------- MODULE MagicCalls ----------------------------
(* C03 — every magic word / parser function called with any number and shape of arguments, and
   junk over the template alphabet, expands to a string.

   Two finite input spaces, enumerated by TLC (P-ENUM); the outcome the property demands is the
   same for every element — "str", no exception, size and work in proportion to the argument
   text — so the specification's job here is the exhaustive, explicit statement of the space:

   Mode "calls":  Name x Arity(0..MaxArity) x Shape^arity.   Name is 1..NNames, an index into the
       table the harness GENERATES from the running code (every attribute MagicResolver
       resolves, every magic_nodes.registry key, every magic word name and alias of the site's
       bundled siteinfo).  {{NAME}} for arity 0, {{NAME:s1|s2|s3}} otherwise.  The 2-ary and
       3-ary levels (100 / 1000 shape tuples per name) are thinned by deterministic strides in
       the quick tier.
       Each call also names its *small twin*: the same call with every number-like or oversize
       shape replaced by the small number; the harness bounds output, step count and allocation
       of a call by those of its twin (ExpectedClass, Twin).

   Mode "junk":   all sequences of 1..MaxLex lexemes over the template alphabet (braces, pipes,
       "=", ":", "#", the noinclude family, nowiki, link brackets, a word, a template name, a
       parser-function prefix), used both as the page itself and as the body of a template the
       page calls.                                                                          *)
EXTENDS Naturals, Sequences, FiniteSets, TLC, Json

CONSTANTS Mode,        \* "calls" | "junk"
          NNames,      \* size of the generated name table
          MaxArity,    \* 0..3
          Stride2,     \* keep one in Stride2 of the 2-ary shape pairs (1 = all)
          Stride,      \* keep one in Stride of the 3-ary shape triples (1 = all)
          Phase,       \* which residue is kept (derived from the seed)
          MaxLex,      \* junk: lexemes per sequence
          Emit

VARIABLES name, shapes, lex, emitted
vars == <<name, shapes, lex, emitted>>

Shapes == <<"empty", "word", "small", "huge", "negative", "decimal", "exponent", "path", "nested", "oversize">>
NShapes == Len(Shapes)
\* shapes whose cost must not exceed that of the small number by more than a constant factor
Inflated == {"huge", "exponent", "oversize"}
ShapeIdx(s) == CHOOSE i \in 1..NShapes : Shapes[i] = s
Twin(ss) == [i \in 1..Len(ss) |-> IF ss[i] \in Inflated THEN "small" ELSE ss[i]]
HasTwin(ss) == \E i \in 1..Len(ss) : ss[i] \in Inflated

Lexemes == <<"{{", "}}", "{{{", "}}}", "|", "=", ":", "#", "<noinclude>", "</noinclude>", "<includeonly>", "</includeonly>",
             "<onlyinclude>", "</onlyinclude>", "<nowiki>", "</nowiki>", "[[", "]]", "a", "T", "#if:", "#switch:", "lc:">>
NLex == Len(Lexemes)

Weight(ss) == IF Len(ss) < 2 THEN 0
              ELSE ShapeIdx(ss[1]) * 7 + ShapeIdx(ss[2]) * 13 + (IF Len(ss) = 3 THEN ShapeIdx(ss[3]) * 29 ELSE 0)
StrideOf(ss) == IF Len(ss) = 2 THEN Stride2 ELSE IF Len(ss) = 3 THEN Stride ELSE 1
Kept(n, ss) == StrideOf(ss) = 1 \/ (Weight(ss) + n) % StrideOf(ss) = Phase % StrideOf(ss)

ShapeSeqs == UNION {[1..k -> {Shapes[i] : i \in 1..NShapes}] : k \in 0..MaxArity}
LexSeqs   == UNION {[1..k -> {Lexemes[i] : i \in 1..NLex}] : k \in 1..MaxLex}

Init == /\ emitted = FALSE
        /\ IF Mode = "calls"
           THEN /\ name \in 1..NNames /\ shapes \in ShapeSeqs /\ Kept(name, shapes) /\ lex = <<>>
           ELSE /\ name = 0 /\ shapes = <<>> /\ lex \in LexSeqs

\* one step: the case is handed to the implementation
Hand == /\ ~emitted /\ emitted' = TRUE /\ UNCHANGED <<name, shapes, lex>>
Next == Hand
Spec == Init /\ [][Next]_vars /\ WF_vars(Next)

-----------------------------------------------------------------------------
TypeOK == /\ name \in 0..NNames
          /\ Len(shapes) <= MaxArity /\ Len(lex) <= MaxLex
\* the twin is a case of the same space, has no inflated shape, and is its own twin
TwinLaw == Mode = "calls" =>
             /\ Twin(shapes) \in ShapeSeqs
             /\ ~HasTwin(Twin(shapes))
             /\ Twin(Twin(shapes)) = Twin(shapes)
AllHanded == <>emitted

EmitCase ==
  (Emit /\ emitted) =>
    IF Mode = "calls"
    THEN PrintT("@@" \o ToJson([n |-> name, s |-> shapes, twin |-> IF HasTwin(shapes) THEN Twin(shapes) ELSE <<>>, inflated |-> HasTwin(shapes)]))
    ELSE PrintT("@@" \o ToJson([lex |-> lex]))
=============================================================================
