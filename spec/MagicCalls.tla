---------------------------- MODULE MagicCalls ----------------------------
(* C03 — every magic word / parser function called with any number and shape of arguments, and
   junk over the template alphabet, expands to a string.

   Finite input spaces, enumerated by TLC (P-ENUM); the outcome the property demands is the same
   for every element — "str", no exception, size and work in proportion to the argument text —
   so the specification's job here is the exhaustive, explicit statement of the space:

   Mode "calls":  Name x Arity(0..MaxArity) x Shape^arity.   Name is 1..NNames, an index into the
       table the harness GENERATES from the running code (every attribute MagicResolver
       resolves, every magic_nodes.registry key, every magic word name and alias of the site's
       bundled siteinfo).  {{NAME}} for arity 0, {{NAME:s1|s2|s3}} otherwise.
       Shapes come in two families:
         Base  — empty, zero, word, small / huge / negative / decimal / exponent number, path, nested
                 call, oversize text;
         Edge  — arithmetic that reaches the edges of the number representation, for every
                 function that evaluates its argument (#expr, #ifexpr, #ifeq, padleft width,
                 formatnum, #time ...): silent overflow to +inf / -inf, inf-inf and 0*inf (NaN),
                 an integer literal beyond the float range (310 digits), negative zero, a
                 subnormal, division / mod by zero, rounding to a huge negative / positive number
                 of digits, ^ with a huge exponent, deeply nested parentheses, exponent notation with a
                 large negative / moderately large positive exponent (1e-300000, 1e5000).
       Arity 0 and 1 are complete; for arity 2 and 3 the quick tier takes a covering design
       (all pairs of (position, shape), see CallShapes below), the thorough tier adds the
       product itself thinned by strides (tuples with at most one Edge shape).
       Each call also names its *small twin*: the same call with every inflated shape replaced by
       the small number; the harness bounds output, step count and allocation of a call by those
       of its twin (Twin).

   Mode "time":   date/time function (index into the generated table of names that deal with dates:
       #time and its aliases first — they take a format — then every CURRENT* / LOCAL* /
       *time* / *date* word of the site) x format code (0 = none; else an index into the table of
       codes the running code knows, alone and behind the "xr" roman-numeral prefix) x date shape.
       The date shapes are a CLASS, built from fields: every reading of a pure digit string
       (HHMM, HHMMSS, YYYYMMDD, YYYYMMDDHHMMSS) and the ISO forms, all fields in range or exactly
       one field at a boundary or at its first out-of-range value (hour 24, minute 60, second 60,
       month 0 / 13, day 0 / 32, ...); digit strings of every length 1..14 and very long ones;
       relative words, unix timestamps, garbage, the empty string, no argument.

   Mode "junk":   all sequences of 1..MaxLex lexemes over the template alphabet (braces, pipes,
       "=", ":", "#", the noinclude family, nowiki, link brackets, a word, a template name, a
       parser-function prefix), used both as the page itself and as the body of a template the
       page calls; sequences of up to MaxDeepLex lexemes additionally repeated Deep times
       (unbounded nesting depth written by a page: "{{a|{{a|{{a|...").                        *)
EXTENDS Naturals, Sequences, FiniteSets, TLC, Json

CONSTANTS Mode,        \* "calls" | "time" | "junk"
          NNames,      \* size of the generated name table
          NPairNames,  \* the first NPairNames of them are functions that take two or more arguments in the running code
          NFnNames,    \* the first NFnNames (>= NPairNames) resolve to a magic word / parser function at all
          MaxArity,    \* 0..3
          Stride2,     \* product part: keep one in Stride2 of the 2-ary shape pairs (1 = all, 0 = no product part)
          Stride,      \* keep one in Stride of the 3-ary shape triples (1 = all)
          Phase,       \* which residue is kept (derived from the seed)
          NFormats,    \* time: size of the generated table of format codes
          NTimeFns,    \* time: size of the generated table of date/time function names
          NFormatFns,  \* time: the first NFormatFns of them take a format argument
          MaxLex,      \* junk: lexemes per sequence
          MaxDeepLex,  \* junk: lexemes per sequence that is also repeated Deep times
          Emit

VARIABLES name, shapes, lex, rep, emitted
vars == <<name, shapes, lex, rep, emitted>>

BaseShapes == <<"empty", "zero", "word", "small", "huge", "negative", "decimal", "exponent", "path", "nested">>
EdgeShapes == <<"posinf", "neginf", "nan", "zerotimesinf", "bigint", "negzero", "subnormal", "divzero", "modzero",
                "roundneg", "roundpos", "powhuge", "deepparen", "expneg", "expmid">>
HeavyShapes == <<"oversize">> \o EdgeShapes
Shapes == BaseShapes \o HeavyShapes
NShapes == Len(Shapes)
NBase == Len(BaseShapes)
ShapeSet == {Shapes[i] : i \in 1..NShapes}
BaseSet  == {BaseShapes[i] : i \in 1..NBase}
EdgeSet  == {EdgeShapes[i] : i \in 1..Len(EdgeShapes)}
HeavySet == {HeavyShapes[i] : i \in 1..Len(HeavyShapes)}
\* the shapes that most often hit an unguarded corner: guaranteed in every position against EVERY other shape
Critical == <<"empty", "zero", "negative", "huge">>
CritSet == {Critical[i] : i \in 1..Len(Critical)}
\* shapes whose cost must not exceed that of the small number by more than a constant factor
Inflated == {"huge", "exponent"} \cup HeavySet
ShapeIdx(s) == CHOOSE i \in 1..NShapes : Shapes[i] = s
Twin(ss) == [i \in 1..Len(ss) |-> IF ss[i] \in Inflated THEN "small" ELSE ss[i]]
HasTwin(ss) == \E i \in 1..Len(ss) : ss[i] \in Inflated
EdgeCount(ss) == Cardinality({i \in 1..Len(ss) : ss[i] \in EdgeSet})

(* date shapes: token sequences, joined by the harness *)
F(good, probes) == [good |-> good, probes |-> probes]
Lit(s) == F(s, {})
Hour   == F("12", {"00", "23", "24", "99"})
Minute == F("30", {"00", "59", "60", "99"})
Second == F("15", {"59", "60", "99"})
Year   == F("2001", {"0000", "0001", "6000", "9999"})
Month  == F("02", {"00", "01", "12", "13"})
Day    == F("03", {"00", "01", "29", "31", "32"})
\* all fields good, or exactly one field at one of its probe values
OneBad(fs) == {[i \in 1..Len(fs) |-> fs[i].good]}
              \cup UNION {{[i \in 1..Len(fs) |-> IF i = j THEN p ELSE fs[i].good] : p \in fs[j].probes} : j \in 1..Len(fs)}
Run(c, n) == [i \in 1..n |-> c]
DateShapeSet ==
       OneBad(<<Hour, Minute>>) \cup OneBad(<<Hour, Minute, Second>>)
  \cup OneBad(<<Year, Month, Day>>) \cup OneBad(<<Year, Month, Day, Hour, Minute, Second>>)
  \cup OneBad(<<Year, Lit("-"), Month, Lit("-"), Day>>)
  \cup OneBad(<<Year, Lit("-"), Month, Lit("-"), Day, Lit("T"), Hour, Lit(":"), Minute, Lit(":"), Second>>)
  \cup OneBad(<<Year, Lit("-"), Month, Lit("-"), Day, Lit(" "), Hour, Lit(":"), Minute>>)
  \cup OneBad(<<Hour, Lit(":"), Minute>>)
  \cup {Run(c, n) : c \in {"0", "1", "9"}, n \in (1..14) \cup {40, 400}}
  \cup {<<w>> : w \in {"now", "today", "yesterday", "tomorrow", "+1 day", "-1 day", "next monday", "last year", "1 January 2001",
                       "garbage", "Foo bar", "@-1", "@0", "@1", "@99999999999999", "-5", "2.5", "1e9", " ", ""}}
  \cup {<<"NONE">>}

Lexemes == <<"{{", "}}", "{{{", "}}}", "|", "=", ":", "#", "<noinclude>", "</noinclude>", "<includeonly>", "</includeonly>",
             "<onlyinclude>", "</onlyinclude>", "<nowiki>", "</nowiki>", "[[", "]]", "a", "T", "#if:", "#switch:", "lc:">>
NLex == Len(Lexemes)
Deep == 3000

(* ---- the product Name x Arity x Shape^arity, and the covering design used instead of thinning it ----

   Arity 0 and 1 are always complete.  For arity 2 and 3 the quick tier takes, for every name that
   is a function of two or more arguments in the running code (name <= NPairNames), a COVERING design:
     * all pairs over the ten base shapes in every pair of positions: arity 2 is the full base
       square; arity 3 is the orthogonal array {(a, b, a+b mod 11)} over eleven symbols, the
       eleventh being free (a base shape rotated by the seed and the name);
     * every heavy shape (oversize text, the fifteen edge-arithmetic shapes) in every position
       against every critical shape (empty, zero, negative, huge) in every other position.
   Every other name gets each-choice coverage: every shape in every position (names that are no
   function at all — they can only be template titles — see the oversize text at arity 1 only).
   The thorough tier adds the product itself, thinned by strides.                             *)
Place(j, h, x, y) == CASE j = 1 -> <<h, x, y>> [] j = 2 -> <<x, h, y>> [] OTHER -> <<x, y, h>>
Sym(n, a, b, k) == IF k < NBase THEN BaseShapes[k + 1] ELSE BaseShapes[((Phase + n + 3 * a + 7 * b) % NBase) + 1]
OA3(n) == {<<Sym(n, a, b, a), Sym(n, a, b, b), Sym(n, a, b, (a + b) % 11)>> : a \in 0..10, b \in 0..10}
HeavyTriples(n) == {Place(j, h, Critical[k], Critical[((k + Phase + n) % 4) + 1]) : j \in 1..3, h \in HeavySet, k \in 1..4}
Cover2(n) == [1..2 -> BaseSet] \cup UNION {{<<c, h>>, <<h, c>>} : c \in CritSet, h \in HeavySet}
Cover3(n) == OA3(n) \cup HeavyTriples(n)
Rot(n) == BaseShapes[((Phase + n) % NBase) + 1]
Each(n) == UNION {{<<s, Rot(n)>>, <<Rot(n), s>>, <<s, Rot(n), Rot(n)>>, <<Rot(n), s, Rot(n)>>, <<Rot(n), Rot(n), s>>}
                  : s \in (IF n <= NFnNames THEN ShapeSet ELSE ShapeSet \ {"oversize"})}
Arity01 == {<<>>} \cup {<<s>> : s \in ShapeSet}

Weight(ss) == ShapeIdx(ss[1]) * 7 + ShapeIdx(ss[2]) * 13 + (IF Len(ss) = 3 THEN ShapeIdx(ss[3]) * 29 ELSE 0)
StrideOf(ss) == IF Len(ss) = 2 THEN Stride2 ELSE Stride
Kept(n, ss) == StrideOf(ss) = 1 \/ (Weight(ss) + n) % StrideOf(ss) = Phase % StrideOf(ss)
\* Stride2 = 0: no product part
Product(n) == IF Stride2 = 0 THEN {}
              ELSE {ss \in [1..2 -> ShapeSet] \cup (IF MaxArity >= 3 THEN [1..3 -> ShapeSet] ELSE {}) : EdgeCount(ss) <= 1 /\ Kept(n, ss)}
CallShapes(n) == Arity01 \cup (IF n <= NPairNames THEN Cover2(n) \cup Cover3(n) ELSE Each(n)) \cup Product(n)

ShapeSeqs == UNION {[1..k -> ShapeSet] : k \in 0..3}
LexSeqs   == UNION {[1..k -> {Lexemes[i] : i \in 1..NLex}] : k \in 1..MaxLex}

Init == /\ emitted = FALSE
        /\ CASE Mode = "calls" -> /\ name \in 1..NNames /\ shapes \in CallShapes(name)
                                  /\ lex = <<>> /\ rep = 1
             [] Mode = "time"  -> /\ name \in 1..NTimeFns
                                  /\ shapes \in {<<0, "plain">>}
                                                 \cup (IF name <= NFormatFns THEN {<<f, p>> : f \in 1..NFormats, p \in {"plain", "xr"}} ELSE {})
                                  /\ lex \in DateShapeSet /\ rep = 1
             [] OTHER          -> /\ name = 0 /\ shapes = <<>> /\ lex \in LexSeqs
                                  /\ rep \in (IF Len(lex) <= MaxDeepLex THEN {1, Deep} ELSE {1})

\* one step: the case is handed to the implementation
Hand == /\ ~emitted /\ emitted' = TRUE /\ UNCHANGED <<name, shapes, lex, rep>>
Next == Hand
Spec == Init /\ [][Next]_vars /\ WF_vars(Next)

-----------------------------------------------------------------------------
TypeOK == /\ name \in 0..(IF Mode = "time" THEN NTimeFns ELSE NNames)
          /\ Len(shapes) <= (IF Mode = "time" THEN 2 ELSE MaxArity)
          /\ (Mode # "time" => Len(lex) <= MaxLex)
\* the twin is a case of the same space, has no inflated shape, and is its own twin
TwinLaw == Mode = "calls" =>
             /\ Twin(shapes) \in ShapeSeqs
             /\ ~HasTwin(Twin(shapes))
             /\ Twin(Twin(shapes)) = Twin(shapes)
\* the covering design covers what it claims (checked for the first names: the design depends on the
\* name only through the rotation of its free choices)
Covers(T, i, s, j, t) == \E x \in T : x[i] = s /\ x[j] = t
CoverLaw ==
  (Mode = "calls" /\ shapes = <<>> /\ name <= NPairNames /\ name <= 10) =>
     /\ \A s \in ShapeSet : <<s>> \in CallShapes(name)
     /\ \A s \in BaseSet, t \in BaseSet : Covers(Cover2(name), 1, s, 2, t)
     /\ \A i \in 1..3, j \in 1..3 : i # j =>
           /\ \A s \in BaseSet, t \in BaseSet : Covers(Cover3(name), i, s, j, t)
           /\ \A c \in CritSet, t \in ShapeSet : Covers(Cover3(name), i, c, j, t)
     /\ \A c \in CritSet, t \in ShapeSet : Covers(Cover2(name), 1, c, 2, t) /\ Covers(Cover2(name), 2, c, 1, t)
EachLaw ==
  (Mode = "calls" /\ shapes = <<>> /\ name > NPairNames /\ name <= NPairNames + 10) =>
     \A s \in (IF name <= NFnNames THEN ShapeSet ELSE ShapeSet \ {"oversize"}) : \A k \in 2..3 : \A i \in 1..k : \E x \in Each(name) : Len(x) = k /\ x[i] = s
AllHanded == <>emitted

EmitCase ==
  (Emit /\ emitted) =>
    CASE Mode = "calls" -> PrintT("@@" \o ToJson([n |-> name, s |-> shapes, twin |-> IF HasTwin(shapes) THEN Twin(shapes) ELSE <<>>]))
      [] Mode = "time"  -> PrintT("@@" \o ToJson([fn |-> name, f |-> shapes[1], pre |-> shapes[2], date |-> lex]))
      [] OTHER          -> PrintT("@@" \o ToJson([lex |-> lex, rep |-> rep]))
=============================================================================
