---------------------------- MODULE MagicCalls ----------------------------
(* C03 — every magic word / parser function called with any number and shape of arguments, and
   junk over the template alphabet, expands to a string.

   Finite input spaces, enumerated by TLC (P-ENUM); the outcome the property demands is the same
   for every element — "str", no exception, size and work in proportion to the argument text —
   so the specification's job here is the exhaustive, explicit statement of the space:

   Mode "calls":  Name x Arity(0..MaxArity) x Shape^arity.   Name is 1..NNames, an index into the
       table the harness GENERATES from the running code (every attribute MagicResolver
       resolves, every magic_nodes.registry key, every magic word name and alias of the site's
       bundled siteinfo).  {{NAME}} for arity 0, {{NAME:s1|s2|s3}} otherwise.
       Shapes come in two families:
         Base  — empty, word, small / huge / negative / decimal / exponent number, path, nested
                 call, oversize text;
         Edge  — arithmetic that reaches the edges of the number representation, for every
                 function that evaluates its argument (#expr, #ifexpr, #ifeq, padleft width,
                 formatnum, #time ...): silent overflow to +inf / -inf, inf-inf and 0*inf (NaN),
                 an integer literal beyond the float range (310 digits), negative zero, a
                 subnormal, division / mod by zero, rounding to a huge negative / positive number
                 of digits, ^ with a huge exponent, deeply nested parentheses.
       A tuple of arity >= 2 contains at most one Edge shape.  The 2-ary and 3-ary levels are
       thinned by deterministic strides in the quick tier.
       Each call also names its *small twin*: the same call with every inflated shape replaced by
       the small number; the harness bounds output, step count and allocation of a call by those
       of its twin (Twin).

   Mode "time":   date/time function (index into the generated table of names that deal with dates:
       #time and its aliases first — they take a format — then every CURRENT* / LOCAL* /
       *time* / *date* word of the site) x format code (0 = none; else an index into the table of
       codes the running code knows, alone and behind the "xr" roman-numeral prefix) x date shape.
       The date shapes are a CLASS, built from fields: every reading of a pure digit string
       (HHMM, HHMMSS, YYYYMMDD, YYYYMMDDHHMMSS) and the ISO forms, all fields in range or exactly
       one field at a boundary or at its first out-of-range value (hour 24, minute 60, second 60,
       month 0 / 13, day 0 / 32, ...); digit strings of every length 1..14 and very long ones;
       relative words, unix timestamps, garbage, the empty string, no argument.

   Mode "junk":   all sequences of 1..MaxLex lexemes over the template alphabet (braces, pipes,
       "=", ":", "#", the noinclude family, nowiki, link brackets, a word, a template name, a
       parser-function prefix), used both as the page itself and as the body of a template the
       page calls; sequences of up to MaxDeepLex lexemes additionally repeated Deep times
       (unbounded nesting depth written by a page: "{{a|{{a|{{a|...").                        *)
EXTENDS Naturals, Sequences, FiniteSets, TLC, Json

CONSTANTS Mode,        \* "calls" | "time" | "junk"
          NNames,      \* size of the generated name table
          MaxArity,    \* 0..3
          Stride2,     \* keep one in Stride2 of the 2-ary shape pairs (1 = all)
          Stride,      \* keep one in Stride of the 3-ary shape triples (1 = all)
          Phase,       \* which residue is kept (derived from the seed)
          NFormats,    \* time: size of the generated table of format codes
          NTimeFns,    \* time: size of the generated table of date/time function names
          NFormatFns,  \* time: the first NFormatFns of them take a format argument
          MaxLex,      \* junk: lexemes per sequence
          MaxDeepLex,  \* junk: lexemes per sequence that is also repeated Deep times
          Emit

VARIABLES name, shapes, lex, rep, emitted
vars == <<name, shapes, lex, rep, emitted>>

BaseShapes == <<"empty", "word", "small", "huge", "negative", "decimal", "exponent", "path", "nested", "oversize">>
EdgeShapes == <<"posinf", "neginf", "nan", "zerotimesinf", "bigint", "negzero", "subnormal", "divzero", "modzero",
                "roundneg", "roundpos", "powhuge", "deepparen">>
Shapes == BaseShapes \o EdgeShapes
NShapes == Len(Shapes)
ShapeSet == {Shapes[i] : i \in 1..NShapes}
EdgeSet  == {EdgeShapes[i] : i \in 1..Len(EdgeShapes)}
\* shapes whose cost must not exceed that of the small number by more than a constant factor
Inflated == {"huge", "exponent", "oversize"} \cup EdgeSet
ShapeIdx(s) == CHOOSE i \in 1..NShapes : Shapes[i] = s
Twin(ss) == [i \in 1..Len(ss) |-> IF ss[i] \in Inflated THEN "small" ELSE ss[i]]
HasTwin(ss) == \E i \in 1..Len(ss) : ss[i] \in Inflated
EdgeCount(ss) == Cardinality({i \in 1..Len(ss) : ss[i] \in EdgeSet})

(* date shapes: token sequences, joined by the harness *)
F(good, probes) == [good |-> good, probes |-> probes]
Lit(s) == F(s, {})
Hour   == F("12", {"00", "23", "24", "99"})
Minute == F("30", {"00", "59", "60", "99"})
Second == F("15", {"59", "60", "99"})
Year   == F("2001", {"0000", "0001", "6000", "9999"})
Month  == F("02", {"00", "01", "12", "13"})
Day    == F("03", {"00", "01", "29", "31", "32"})
\* all fields good, or exactly one field at one of its probe values
OneBad(fs) == {[i \in 1..Len(fs) |-> fs[i].good]}
              \cup UNION {{[i \in 1..Len(fs) |-> IF i = j THEN p ELSE fs[i].good] : p \in fs[j].probes} : j \in 1..Len(fs)}
Run(c, n) == [i \in 1..n |-> c]
DateShapeSet ==
       OneBad(<<Hour, Minute>>) \cup OneBad(<<Hour, Minute, Second>>)
  \cup OneBad(<<Year, Month, Day>>) \cup OneBad(<<Year, Month, Day, Hour, Minute, Second>>)
  \cup OneBad(<<Year, Lit("-"), Month, Lit("-"), Day>>)
  \cup OneBad(<<Year, Lit("-"), Month, Lit("-"), Day, Lit("T"), Hour, Lit(":"), Minute, Lit(":"), Second>>)
  \cup OneBad(<<Year, Lit("-"), Month, Lit("-"), Day, Lit(" "), Hour, Lit(":"), Minute>>)
  \cup OneBad(<<Hour, Lit(":"), Minute>>)
  \cup {Run(c, n) : c \in {"0", "1", "9"}, n \in (1..14) \cup {40, 400}}
  \cup {<<w>> : w \in {"now", "today", "yesterday", "tomorrow", "+1 day", "-1 day", "next monday", "last year", "1 January 2001",
                       "garbage", "Foo bar", "@-1", "@0", "@1", "@99999999999999", "-5", "2.5", "1e9", " ", ""}}
  \cup {<<"NONE">>}

Lexemes == <<"{{", "}}", "{{{", "}}}", "|", "=", ":", "#", "<noinclude>", "</noinclude>", "<includeonly>", "</includeonly>",
             "<onlyinclude>", "</onlyinclude>", "<nowiki>", "</nowiki>", "[[", "]]", "a", "T", "#if:", "#switch:", "lc:">>
NLex == Len(Lexemes)
Deep == 3000

Weight(ss) == IF Len(ss) < 2 THEN 0
              ELSE ShapeIdx(ss[1]) * 7 + ShapeIdx(ss[2]) * 13 + (IF Len(ss) = 3 THEN ShapeIdx(ss[3]) * 29 ELSE 0)
StrideOf(ss) == IF Len(ss) = 2 THEN Stride2 ELSE IF Len(ss) = 3 THEN Stride ELSE 1
Kept(n, ss) == StrideOf(ss) = 1 \/ (Weight(ss) + n) % StrideOf(ss) = Phase % StrideOf(ss)

ShapeSeqs == {ss \in UNION {[1..k -> ShapeSet] : k \in 0..MaxArity} : Len(ss) < 2 \/ EdgeCount(ss) <= 1}
LexSeqs   == UNION {[1..k -> {Lexemes[i] : i \in 1..NLex}] : k \in 1..MaxLex}

Init == /\ emitted = FALSE
        /\ CASE Mode = "calls" -> /\ name \in 1..NNames /\ shapes \in ShapeSeqs /\ Kept(name, shapes)
                                  /\ lex = <<>> /\ rep = 1
             [] Mode = "time"  -> /\ name \in 1..NTimeFns
                                  /\ shapes \in {<<0, "plain">>}
                                                 \cup (IF name <= NFormatFns THEN {<<f, p>> : f \in 1..NFormats, p \in {"plain", "xr"}} ELSE {})
                                  /\ lex \in DateShapeSet /\ rep = 1
             [] OTHER          -> /\ name = 0 /\ shapes = <<>> /\ lex \in LexSeqs
                                  /\ rep \in (IF Len(lex) <= MaxDeepLex THEN {1, Deep} ELSE {1})

\* one step: the case is handed to the implementation
Hand == /\ ~emitted /\ emitted' = TRUE /\ UNCHANGED <<name, shapes, lex, rep>>
Next == Hand
Spec == Init /\ [][Next]_vars /\ WF_vars(Next)

-----------------------------------------------------------------------------
TypeOK == /\ name \in 0..(IF Mode = "time" THEN NTimeFns ELSE NNames)
          /\ Len(shapes) <= (IF Mode = "time" THEN 2 ELSE MaxArity)
          /\ (Mode # "time" => Len(lex) <= MaxLex)
\* the twin is a case of the same space, has no inflated shape, and is its own twin
TwinLaw == Mode = "calls" =>
             /\ Twin(shapes) \in ShapeSeqs
             /\ ~HasTwin(Twin(shapes))
             /\ Twin(Twin(shapes)) = Twin(shapes)
AllHanded == <>emitted

EmitCase ==
  (Emit /\ emitted) =>
    CASE Mode = "calls" -> PrintT("@@" \o ToJson([n |-> name, s |-> shapes, twin |-> IF HasTwin(shapes) THEN Twin(shapes) ELSE <<>>]))
      [] Mode = "time"  -> PrintT("@@" \o ToJson([fn |-> name, f |-> shapes[1], pre |-> shapes[2], date |-> lex]))
      [] OTHER          -> PrintT("@@" \o ToJson([lex |-> lex, rep |-> rep]))
=============================================================================
