------------------------------- MODULE Expr -------------------------------
(* C04 — #expr arithmetic follows the documented operator precedence with left-to-right
   association.

   Reference semantics of the #expr language (Help:Extension:ParserFunctions ##expr) over exact
   rationals, a generator automaton for expression trees, two serialisers (minimal / redundant
   parentheses) and — as the oracle's own sanity check — an independent shunting-yard reader of
   token sequences that implements the documented precedence table; TLC checks on every
   generated tree that reading either serialisation gives the tree's value.

   Documented precedence, highest first (all binary operators associate to the left):
       10  unary + -            9  not ceil trunc floor abs (prefix functions)
        8  ^                    7  * / div mod
        6  + -                  5  round
        4  = != <> < > <= >=    3  and              2  or

   Values are  [t |-> "num", n, d, x]  (n/d in lowest terms, d > 0; x = TRUE when IEEE doubles
   compute this value exactly, i.e. every intermediate result was a dyadic rational),
   [t |-> "err"] (division by zero: an inline error) or [t |-> "oos"] (outside the modelled
   range: TLC integers are 32 bit, irrational powers, negative mod operands, rounding ties, and
   discontinuous operators applied at a jump to an operand that doubles only approximate).   *)
EXTENDS Integers, Sequences, FiniteSets, TLC, Json

CONSTANTS Fuel,       \* literals in one expression
          Ops,        \* operators in one expression
          MaxDepth,   \* tree depth bound
          LitSet,     \* "full" | "small" | "chain" | "two"
          OpSet,      \* "all" | "core": the binary operators the generator uses
          AllowFuncPow, \* TRUE: a prefix function (chain) may be the unparenthesised left operand of ^
          AnyPos,     \* reductions anywhere on the stack (simulation) / on top only (BFS)
          Emit

VARIABLES stack, fuel, ops, done,
          feat        \* features of the tree that known findings are keyed on
vars == <<stack, fuel, ops, done, feat>>

B == 30000            \* numerators and denominators stay below B, so products fit 32 bits

-----------------------------------------------------------------------------
(* ------------------------------ rationals ------------------------------ *)
Abs(i) == IF i < 0 THEN -i ELSE i
RECURSIVE GCD(_, _)
GCD(a, b) == IF b = 0 THEN a ELSE GCD(b, a % b)
Pow2(d) == d \in {1, 2, 4, 8, 16, 32, 64, 128, 256, 512, 1024, 2048, 4096, 8192, 16384}

ERR == [t |-> "err"]
OOS == [t |-> "oos"]
Num(n, d, x) ==     \* d > 0
  LET g == GCD(Abs(n), d)
      nn == n \div g
      dd == d \div g IN
  IF g = 0 THEN OOS
  ELSE IF Abs(nn) > B \/ dd > B THEN OOS
  ELSE [t |-> "num", n |-> nn, d |-> dd, x |-> x /\ Pow2(dd)]
IntV(i) == Num(i, 1, TRUE)
IsNum(v) == v.t = "num"
IsZero(v) == v.n = 0
IsInt(v) == v.d = 1
\* integer part functions on n/d
FloorQ(n, d) == IF n >= 0 THEN n \div d ELSE -((Abs(n) + d - 1) \div d)
CeilQ(n, d)  == -FloorQ(-n, d)
TruncQ(n, d) == IF n >= 0 THEN n \div d ELSE -(Abs(n) \div d)
Less(a, b) == a.n * b.d < b.n * a.d
Same(a, b) == a.n = b.n /\ a.d = b.d

RECURSIVE PowQ(_, _)        \* a^k for k >= 0 by repeated multiplication, OOS when it outgrows B
PowQ(a, k) == IF k = 0 THEN IntV(1)
              ELSE LET r == PowQ(a, k - 1) IN
                   IF ~IsNum(r) THEN r ELSE Num(r.n * a.n, r.d * a.d, r.x /\ a.x)

-----------------------------------------------------------------------------
(* ------------------------------ the language ------------------------------ *)
UnOps  == {"neg", "not", "abs", "floor", "ceil", "trunc"}
CmpOps == {"=", "!=", "<>", "<", ">", "<=", ">="}
BinOps == {"+", "-", "*", "/", "div", "mod", "^", "round", "and", "or"} \cup CmpOps

Prec(op) == CASE op = "neg" -> 10
              [] op \in {"not", "abs", "floor", "ceil", "trunc"} -> 9
              [] op = "^" -> 8
              [] op \in {"*", "/", "div", "mod"} -> 7
              [] op \in {"+", "-"} -> 6
              [] op = "round" -> 5
              [] op \in CmpOps -> 4
              [] op = "and" -> 3
              [] op = "or" -> 2

Lit(tok, n, d) == [k |-> "lit", tok |-> tok, n |-> n, d |-> d]
LitsFull == {Lit("0", 0, 1), Lit("1", 1, 1), Lit("2", 2, 1), Lit("3", 3, 1), Lit("7", 7, 1), Lit("10", 10, 1),
             Lit("0.5", 1, 2), Lit("1.5", 3, 2), Lit("2.5", 5, 2), Lit("0.25", 1, 4), Lit("0.1", 1, 10),
             Lit(".5", 1, 2), Lit("2.0", 2, 1), Lit("1.25", 5, 4), Lit("0.3", 3, 10)}
LitsSmall == {Lit("0", 0, 1), Lit("1", 1, 1), Lit("2", 2, 1), Lit("3", 3, 1), Lit("0.5", 1, 2), Lit("1.5", 3, 2), Lit("2.5", 5, 2)}
\* palettes for un-parenthesised operator chains: the two groupings of a op b op c differ in value
\* (2^3^2, 10-4-3, 10/4/2, 10 mod 4 mod 3, 2<3<2, 0 and 3 or 2 ...)
LitsChain == {Lit("0", 0, 1), Lit("2", 2, 1), Lit("3", 3, 1), Lit("4", 4, 1), Lit("10", 10, 1)}
LitsTwo   == {Lit("2", 2, 1), Lit("3", 3, 1)}
Lits == CASE LitSet = "full" -> LitsFull [] LitSet = "chain" -> LitsChain [] LitSet = "two" -> LitsTwo [] OTHER -> LitsSmall
GenBinOps == IF OpSet = "all" THEN BinOps ELSE {"+", "-", "*", "/", "^", "mod", "<", "=", "and", "round"}
Un(op, a)     == [k |-> "un", op |-> op, a |-> a]
Bin(op, a, b) == [k |-> "bin", op |-> op, a |-> a, b |-> b]

Bool(b) == IntV(IF b THEN 1 ELSE 0)
\* a discontinuous operator sees an operand that doubles only approximate, exactly at a jump
Shaky(v, atjump) == ~v.x /\ atjump

ApplyUn(op, a) ==
  IF ~IsNum(a) THEN a
  ELSE CASE op = "neg"   -> Num(-a.n, a.d, a.x)
         [] op = "abs"   -> Num(Abs(a.n), a.d, a.x)
         [] op = "not"   -> (IF Shaky(a, IsZero(a)) THEN OOS ELSE Bool(IsZero(a)))
         [] op = "floor" -> (IF Shaky(a, IsInt(a)) THEN OOS ELSE IntV(FloorQ(a.n, a.d)))
         [] op = "ceil"  -> (IF Shaky(a, IsInt(a)) THEN OOS ELSE IntV(CeilQ(a.n, a.d)))
         [] op = "trunc" -> (IF Shaky(a, IsInt(a)) THEN OOS ELSE IntV(TruncQ(a.n, a.d)))

Pow10(k) == CASE k = 0 -> 1 [] k = 1 -> 10 [] k = 2 -> 100 [] OTHER -> 1000

ApplyBin(op, a, b) ==
  IF a.t = "oos" \/ b.t = "oos" THEN OOS
  ELSE IF a.t = "err" \/ b.t = "err" THEN ERR
  ELSE CASE op = "+" -> Num(a.n * b.d + b.n * a.d, a.d * b.d, a.x /\ b.x)
         [] op = "-" -> Num(a.n * b.d - b.n * a.d, a.d * b.d, a.x /\ b.x)
         [] op = "*" -> Num(a.n * b.n, a.d * b.d, a.x /\ b.x)
         [] op \in {"/", "div"} ->
              (IF Shaky(b, IsZero(b)) THEN OOS
               ELSE IF IsZero(b) THEN ERR
               ELSE Num((IF b.n < 0 THEN -1 ELSE 1) * a.n * b.d, a.d * Abs(b.n), a.x /\ b.x))
         [] op = "mod" ->      \* both operands are truncated to integers first; only non-negative operands are modelled
              (IF a.n < 0 \/ b.n < 0 THEN OOS
               ELSE IF Shaky(a, IsInt(a)) \/ Shaky(b, IsInt(b)) THEN OOS
               ELSE IF TruncQ(b.n, b.d) = 0 THEN ERR
               ELSE IntV(TruncQ(a.n, a.d) % TruncQ(b.n, b.d)))
         [] op = "^" ->
              (IF ~IsInt(b) \/ Abs(b.n) > 4 THEN OOS                 \* irrational or large
               ELSE IF a.n < 0 /\ ~b.x THEN OOS                       \* pow(negative, not quite an integer)
               ELSE IF IsZero(a) /\ b.n < 0 THEN OOS
               ELSE LET p == PowQ(a, Abs(b.n)) IN
                    IF ~IsNum(p) THEN p
                    ELSE IF b.n >= 0 THEN Num(p.n, p.d, p.x /\ b.x)
                    ELSE Num((IF p.n < 0 THEN -1 ELSE 1) * p.d, Abs(p.n), p.x /\ b.x))
         [] op = "round" ->    \* a rounded to b decimal places, nearest; ties are outside the modelled range
              (IF ~IsInt(b) \/ ~b.x \/ b.n < 0 \/ b.n > 3 THEN OOS
               ELSE LET p  == Pow10(b.n)
                        m2 == Num(2 * a.n * p, a.d, TRUE) IN         \* 2 * a * 10^b
                    IF ~IsNum(m2) THEN OOS
                    ELSE IF IsInt(m2) /\ m2.n % 2 # 0 THEN OOS       \* a * 10^b = k + 1/2: a tie
                    ELSE LET h == Num(2 * a.n * p + a.d, 2 * a.d, TRUE) IN    \* a * 10^b + 1/2
                         IF ~IsNum(h) THEN OOS
                         ELSE Num(FloorQ(h.n, h.d), p, a.x \/ b.n = 0))   \* a whole number is exact again
         [] op \in CmpOps ->
              (IF Shaky(a, Same(a, b)) \/ Shaky(b, Same(a, b)) THEN OOS
               ELSE Bool(CASE op = "=" -> Same(a, b)
                           [] op \in {"!=", "<>"} -> ~Same(a, b)
                           [] op = "<" -> Less(a, b)
                           [] op = ">" -> Less(b, a)
                           [] op = "<=" -> ~Less(b, a)
                           [] op = ">=" -> ~Less(a, b)))
         [] op = "and" -> (IF Shaky(a, IsZero(a)) \/ Shaky(b, IsZero(b)) THEN OOS ELSE Bool(~IsZero(a) /\ ~IsZero(b)))
         [] op = "or"  -> (IF Shaky(a, IsZero(a)) \/ Shaky(b, IsZero(b)) THEN OOS ELSE Bool(~IsZero(a) \/ ~IsZero(b)))

RECURSIVE Value(_)
Value(t) == CASE t.k = "lit" -> Num(t.n, t.d, TRUE)
              [] t.k = "un"  -> ApplyUn(t.op, Value(t.a))
              [] t.k = "bin" -> ApplyBin(t.op, Value(t.a), Value(t.b))

-----------------------------------------------------------------------------
(* ------------------------------ serialisation ------------------------------ *)
TreePrec(t) == IF t.k = "lit" THEN 11 ELSE Prec(t.op)
OpTok(op) == IF op = "neg" THEN "-" ELSE op
Paren(s) == <<"(">> \o s \o <<")">>

RECURSIVE SerMin(_), SerRed(_)
\* minimal parentheses: a prefix operator needs them around a binary operand of lower precedence
\* (never around another prefix operator); a binary operator around a left operand of lower and
\* a right operand of lower or equal precedence (left association); a prefix operator never
\* needs them as a right operand, and as a left operand only when it binds weaker
SerMin(t) ==
  CASE t.k = "lit" -> <<t.tok>>
    [] t.k = "un"  -> <<OpTok(t.op)>> \o (IF t.a.k = "bin" /\ TreePrec(t.a) < Prec(t.op) THEN Paren(SerMin(t.a)) ELSE SerMin(t.a))
    [] t.k = "bin" -> (IF TreePrec(t.a) < Prec(t.op) THEN Paren(SerMin(t.a)) ELSE SerMin(t.a))
                      \o <<t.op>> \o
                      (IF t.b.k = "bin" /\ TreePrec(t.b) <= Prec(t.op) THEN Paren(SerMin(t.b)) ELSE SerMin(t.b))
SerRed(t) ==
  CASE t.k = "lit" -> Paren(<<t.tok>>)
    [] t.k = "un"  -> Paren(<<OpTok(t.op)>> \o SerRed(t.a))
    [] t.k = "bin" -> Paren(SerRed(t.a) \o <<t.op>> \o SerRed(t.b))

-----------------------------------------------------------------------------
(* ------------------------------ the documented reading of a token sequence ------------------------------
   Operator-precedence (shunting-yard) evaluation: operands go to a value stack; a binary
   operator first applies every stacked operator of greater or equal precedence; a prefix
   operator ("-" where an operand is expected, or a function name) is stacked without applying
   anything; ")" applies down to the matching "(".                                              *)
AllLits == LitsFull \cup LitsSmall \cup LitsChain \cup LitsTwo
LitOf(tok) == CHOOSE l \in AllLits : l.tok = tok
IsLitTok(tok) == \E l \in AllLits : l.tok = tok
PrecS(o) == IF o = "(" THEN 0 ELSE Prec(o)

ApplyTop(vs, o) ==
  IF o \in UnOps THEN SubSeq(vs, 1, Len(vs) - 1) \o <<ApplyUn(o, vs[Len(vs)])>>
  ELSE SubSeq(vs, 1, Len(vs) - 2) \o <<ApplyBin(o, vs[Len(vs) - 1], vs[Len(vs)])>>

RECURSIVE Unwind(_, _, _), Read(_, _, _, _, _)
\* apply stacked operators while their precedence is >= p ("(" has precedence 0 and stops every p >= 1)
Unwind(vs, os, p) ==
  IF os # <<>> /\ os[Len(os)] # "(" /\ PrecS(os[Len(os)]) >= p
  THEN Unwind(ApplyTop(vs, os[Len(os)]), SubSeq(os, 1, Len(os) - 1), p)
  ELSE <<vs, os>>

Read(toks, i, vs, os, wantOperand) ==
  IF i > Len(toks) THEN Unwind(vs, os, 1)[1][1]
  ELSE LET tk == toks[i] IN
       IF IsLitTok(tk) THEN Read(toks, i + 1, Append(vs, Num(LitOf(tk).n, LitOf(tk).d, TRUE)), os, FALSE)
       ELSE IF tk = "(" THEN Read(toks, i + 1, vs, Append(os, "("), TRUE)
       ELSE IF tk = ")" THEN LET u == Unwind(vs, os, 1) IN
                             Read(toks, i + 1, u[1], SubSeq(u[2], 1, Len(u[2]) - 1), FALSE)
       ELSE IF wantOperand THEN Read(toks, i + 1, vs, Append(os, IF tk = "-" THEN "neg" ELSE tk), TRUE)
       ELSE LET u == Unwind(vs, os, Prec(tk)) IN
            Read(toks, i + 1, u[1], Append(u[2], tk), TRUE)
ReadValue(toks) == Read(toks, 1, <<>>, <<>>, TRUE)

-----------------------------------------------------------------------------
(* ------------------------------ the generator automaton ------------------------------ *)
Positions(k) == IF Len(stack) < k THEN {} ELSE IF AnyPos THEN 1..(Len(stack) - k + 1) ELSE {Len(stack) - k + 1}
Replace(i, k, item) == SubSeq(stack, 1, i - 1) \o <<item>> \o SubSeq(stack, i + k, Len(stack))
Max(a, b) == IF a > b THEN a ELSE b

Init == stack = <<>> /\ fuel = Fuel /\ ops = Ops /\ done = FALSE /\ feat = {}

\* "floor 1.5 ^ 2": the minimal serialisation relies on prefix functions binding tighter than ^
RECURSIVE FuncHead(_)
FuncHead(t) == t.k = "un" /\ (t.op # "neg" \/ FuncHead(t.a))

Push == /\ ~done /\ fuel > 0
        /\ \E l \in Lits : stack' = Append(stack, [t |-> l, d |-> 0])
        /\ fuel' = fuel - 1 /\ UNCHANGED <<ops, done, feat>>

\* every binary operator still needed to join the stack into one tree is reserved
MkUn == /\ ~done /\ ops > Len(stack) - 1
        /\ \E i \in Positions(1), op \in UnOps :
             /\ stack[i].d < MaxDepth
             /\ stack' = Replace(i, 1, [t |-> Un(op, stack[i].t), d |-> stack[i].d + 1])
        /\ ops' = ops - 1 /\ UNCHANGED <<fuel, done, feat>>

MkBin == /\ ~done /\ ops > 0
         /\ \E i \in Positions(2), op \in GenBinOps :
              /\ Max(stack[i].d, stack[i + 1].d) < MaxDepth
              /\ (AllowFuncPow \/ ~(op = "^" /\ FuncHead(stack[i].t)))
              /\ feat' = IF op = "^" /\ FuncHead(stack[i].t) THEN feat \cup {"funcpow"} ELSE feat
              /\ stack' = Replace(i, 2, [t |-> Bin(op, stack[i].t, stack[i + 1].t), d |-> Max(stack[i].d, stack[i + 1].d) + 1])
         /\ ops' = ops - 1 /\ UNCHANGED <<fuel, done>>

Finish == /\ ~done /\ Len(stack) = 1
          /\ done' = TRUE /\ fuel' = 0 /\ ops' = 0 /\ UNCHANGED <<stack, feat>>

Next == Push \/ MkUn \/ MkBin \/ Finish
Spec == Init /\ [][Next]_vars

-----------------------------------------------------------------------------
(* ------------------------------ oracle sanity ------------------------------ *)
T(tok) == LitOf(tok)
ASSUME Value(Bin("-", Bin("-", T("7"), T("2")), T("1"))) = IntV(4)                 \* left association
ASSUME ReadValue(<<"7", "-", "2", "-", "1">>) = IntV(4)
ASSUME ReadValue(<<"2", "^", "3", "^", "2">>) = IntV(64)
ASSUME ReadValue(<<"1", "+", "2", "*", "3">>) = IntV(7)
ASSUME ReadValue(<<"10", "-", "4", "-", "3">>) = IntV(3) /\ ReadValue(<<"10", "/", "4", "/", "2">>) = [t |-> "num", n |-> 5, d |-> 4, x |-> TRUE]
ASSUME ReadValue(<<"10", "mod", "4", "mod", "3">>) = IntV(2) /\ ReadValue(<<"2", "<", "3", "<", "2">>) = IntV(1)
ASSUME ReadValue(<<"-", "2", "^", "3", "^", "2">>) = IntV(64) /\ ReadValue(<<"1", "+", "2", "^", "3", "^", "2", "*", "2">>) = IntV(129)
ASSUME ReadValue(<<"-", "2", "^", "2">>) = IntV(4)                                  \* unary minus binds tighter than ^
ASSUME ReadValue(<<"floor", "1.5", "^", "2">>) = IntV(1)                            \* prefix functions bind tighter than ^
ASSUME ReadValue(<<"not", "0", "+", "1">>) = IntV(2)
ASSUME ReadValue(<<"2", "*", "-", "3">>) = IntV(-6)
ASSUME ReadValue(<<"7", "mod", "3", "*", "2">>) = IntV(2)
ASSUME ReadValue(<<"1", "/", "0">>) = ERR /\ ReadValue(<<"7", "mod", "0.5">>) = ERR
ASSUME ReadValue(<<"1", "/", "3">>) = [t |-> "num", n |-> 1, d |-> 3, x |-> FALSE]
ASSUME ReadValue(<<"1", "<", "2", "and", "2", "<", "1", "or", "1">>) = IntV(1)
ASSUME ReadValue(<<"1.25", "round", "1">>) = OOS /\ ReadValue(<<"7", "/", "3", "round", "2">>) = [t |-> "num", n |-> 233, d |-> 100, x |-> FALSE]
ASSUME ReadValue(<<"-", "1.5", "round", "0">>) = OOS /\ ReadValue(<<"-", "7", "/", "3", "round", "0">>) = IntV(-2)
ASSUME ReadValue(<<"floor", "-", "1.5">>) = IntV(-2) /\ ReadValue(<<"ceil", "-", "1.5">>) = IntV(-1) /\ ReadValue(<<"trunc", "-", "1.5">>) = IntV(-1)
ASSUME ReadValue(<<"0.1", "*", "3", "=", "0.3">>) = OOS /\ ReadValue(<<"0.5", "*", "3", "=", "1.5">>) = IntV(1)
ASSUME ReadValue(<<"2", "^", "-", "1">>) = [t |-> "num", n |-> 1, d |-> 2, x |-> TRUE]

TypeOK == /\ fuel \in 0..Fuel /\ ops \in 0..Ops
          /\ \A i \in 1..Len(stack) : stack[i].d <= MaxDepth

\* both serialisations denote the tree's value under the documented reading
SerialisersAgree ==
  done => LET t == stack[1].t IN
          /\ ReadValue(SerMin(t)) = Value(t)
          /\ ReadValue(SerRed(t)) = Value(t)
\* values are in lowest terms and inside the modelled range
ValueOK ==
  done => LET v == Value(stack[1].t) IN
          IsNum(v) => v.d > 0 /\ GCD(Abs(v.n), v.d) = 1 /\ Abs(v.n) <= B /\ v.d <= B

EmitExpr ==
  (Emit /\ done) =>
    LET t == stack[1].t
        v == Value(t) IN
    IF v.t = "oos" THEN PrintT("@@" \o ToJson([oos |-> TRUE]))
    ELSE PrintT("@@" \o ToJson([min |-> SerMin(t), red |-> SerRed(t), v |-> v, feat |-> feat]))
=============================================================================
