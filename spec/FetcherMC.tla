----------------------------- MODULE FetcherMC -----------------------------
(* The family of tiny wikis / books / limits TLC explores exhaustively for C11 (P-MC).

   Universe: articles A (two revisions, template T1 -> T2 -> image Y, direct image X), B (image X
   shared with A, and a link to a file that does not exist), C (no images); redirect pages R1, R2
   wired per variant (single hop, dead, chain of two, circle, absent); a page "Ghost" that does
   not exist; image X on the shared repository, Y local.  Init (Fetcher!Init) picks one
   configuration of  Variants x BookIds x ReqLimits x ResLimits x ImgModes x HtmlModes. *)
EXTENDS Fetcher

CONSTANTS Variants, BookIds, ReqLimits, ResLimits, ImgModes, HtmlModes

Pg(t, ns, revs, red, uses, imgs, users, bots, anon) ==
  [title |-> t, ns |-> ns, revs |-> revs, redirect |-> red, uses |-> uses, images |-> imgs,
   users |-> users, bots |-> bots, anon |-> anon]
Im(t, shared, cats, users, bots, anon) ==
  [title |-> t, shared |-> shared, cats |-> cats, users |-> users, bots |-> bots, anon |-> anon]

X == "Datei:X.png"
Y == "Datei:Y.png"
N == "Datei:Nofile.png"

Redirects(v) ==
  CASE v = "single" -> <<Pg("R1", 0, <<"41", "42">>, "B", <<>>, <<>>, <<"Erin">>, <<>>, 0)>>
    [] v = "dead"   -> <<Pg("R1", 0, <<"41", "42">>, "Ghost", <<>>, <<>>, <<"Erin">>, <<>>, 0)>>
    [] v = "chain"  -> <<Pg("R1", 0, <<"41", "42">>, "R2", <<>>, <<>>, <<"Erin">>, <<>>, 0),
                         Pg("R2", 0, <<"51">>, "B", <<>>, <<>>, <<>>, <<>>, 0)>>
    [] v = "cycle"  -> <<Pg("R1", 0, <<"41", "42">>, "R2", <<>>, <<>>, <<"Erin">>, <<>>, 0),
                         Pg("R2", 0, <<"51">>, "R1", <<>>, <<>>, <<>>, <<>>, 0)>>
    [] v = "none"   -> <<>>

WikiOf(v) ==
  [filens |-> "Datei",
   pages |-> <<Pg("Vorlage:T1", 10, <<"1">>, "", <<"Vorlage:T2">>, <<>>, <<>>, <<>>, 0),
               Pg("Vorlage:T2", 10, <<"2">>, "", <<>>, <<Y>>, <<>>, <<>>, 0),
               Pg("A", 0, <<"11", "12">>, "", <<"Vorlage:T1">>, <<X>>, <<"Alice", "Bob">>, <<"FixBot">>, 1),
               Pg("B", 0, <<"21">>, "", <<>>, <<X, N>>, <<>>, <<>>, 0),
               Pg("C", 0, <<"31">>, "", <<>>, <<>>, <<"Carol">>, <<>>, 0)>> \o Redirects(v),
   images |-> <<Im(X, TRUE, 2, <<"Dave">>, <<>>, 0), Im(Y, FALSE, 0, <<>>, <<"FixBot">>, 2)>>,
   imgorder |-> <<X, Y, N>>]

Art(t, r) == [title |-> t, rev |-> r]
BookOf(b) ==
  CASE b = 1  -> <<Art("A", "")>>
    [] b = 2  -> <<Art("A", "11")>>
    [] b = 3  -> <<Art("A", ""), Art("B", "")>>
    [] b = 4  -> <<Art("A", "12"), Art("B", ""), Art("C", "")>>
    [] b = 5  -> <<Art("R1", "")>>
    [] b = 6  -> <<Art("R1", "41")>>
    [] b = 7  -> <<Art("R1", ""), Art("Ghost", "")>>
    [] b = 8  -> <<Art("R1", "41"), Art("B", "")>>
    [] b = 9  -> <<Art("Ghost", ""), Art("C", "")>>
    [] b = 10 -> <<Art("B", ""), Art("C", "31"), Art("A", "")>>
    [] b = 11 -> <<Art("B", "21")>>
    [] b = 12 -> <<Art("R1", "42"), Art("C", "")>>

\* a book may only name revisions / redirect pages the variant has
Sensible(v, b) ==
  \A i \in DOMAIN BookOf(b) :
     LET a == BookOf(b)[i] IN a.rev # "" => RevExists(WikiOf(v), a.rev)

MCFamily ==
  {[wiki |-> WikiOf(v), book |-> BookOf(b), reqlimit |-> q, reslimit |-> r, fetchimages |-> im, html |-> h] :
     v \in Variants, b \in {x \in BookIds : TRUE}, q \in ReqLimits, r \in ResLimits, im \in ImgModes, h \in HtmlModes}
MCFamilySensible ==
  {c \in MCFamily : \A i \in DOMAIN c.book : c.book[i].rev # "" => RevExists(c.wiki, c.book[i].rev)}

\* oracle sanity, checked by TLC in the same run (a wrong oracle is caught before it can alarm):
\* Expected only ever demands things that exist, and a configuration that lists an existing
\* non-redirect article expects its text
ExpectedSane ==
  last.k = "init" =>
  /\ ExpectedImages(cfg) \subseteq ImageTitles(W)
  /\ \A i \in DOMAIN cfg.book :
       LET s == Served(cfg.book[i]) IN
       /\ s.kind = "text" => Exists(W, s.page) /\ ~IsRedirect(W, s.page) /\ RevExists(W, s.atom)
       /\ (cfg.book[i].rev = "" /\ Exists(W, cfg.book[i].title) /\ ~IsRedirect(W, cfg.book[i].title))
            => s.kind = "text" /\ s.page = cfg.book[i].title
\* windows partition the complete answer (continuation loses and duplicates nothing)
WindowsSane ==
  \A it \in DOMAIN items : it.k = "UB" /\ it.pc = "new" =>
     LET S == UsedEntries(W, it.a[1], Tail(it.a)) IN
     /\ UNION {UsedWindow(W, it.a[1], Tail(it.a), k * RL, RL) : k \in 0..Cardinality(S)} = S
     /\ \A k \in 0..Cardinality(S) : Cardinality(UsedWindow(W, it.a[1], Tail(it.a), k * RL, RL)) <= RL
=============================================================================
