--------------------------- MODULE RenderPipeline ---------------------------
(* C08 — the stage machine every rendering of a stored collection must follow, and the verdict.

   A collection of n articles is rendered by one writer run:

       OpenArchive ; for every article  Expand -> Parse -> Clean -> Layout ; Output ; Judge

   st[i] is the last stage article i has completed (0 none, 1 expanded, 2 parsed, 3 cleaned,
   4 laid out).  The order between different articles is left free (the PDF writer finishes an
   article before it starts the next, the ODF writer parses all, cleans all, lays out all),
   but every article passes every stage, in order, exactly once, before Output; a writer
   that starts over (fail-safe second pass), raises or gives up has no action here.  This is
   the reference protocol (model-checked below).  In trace validation (RenderTrace.tla) the
   per-article stage events are observations of internal seams: they are matched against this
   machine and deviations are flagged, but only the output-level events (archive opened, no
   second pass / exception / hang, output file, Judge) decide a verdict.

   Judge(f, ok) is the final verdict on the produced file:  ok = the file is readable (PDF:
   pypdf opens it and it has pages; ODF: the package unzips, content.xml / styles.xml are
   well-formed XML and odflint is clean);  f = the set of words found in its text.  It is
   enabled only if ok holds and, where word coverage is required (req), every denoted word was
   found:   \A w \in denoted : w \in f. *)
EXTENDS Naturals, FiniteSets

CONSTANTS MaxN,      \* articles per collection (P-MC bound)
          Words      \* universe of words (P-MC bound)

VARIABLES n, denoted, req, st, phase, found, good
pvars == <<n, denoted, req, st, phase, found, good>>

LastStage == 4
StageName(s) == CASE s = 1 -> "Expand" [] s = 2 -> "Parse" [] s = 3 -> "Clean" [] s = 4 -> "Layout"

PInit == /\ n \in 1..MaxN
         /\ denoted \in SUBSET Words
         /\ req \in BOOLEAN
         /\ st = [i \in 1..n |-> 0]
         /\ phase = "closed"
         /\ found = {}
         /\ good = FALSE

OpenArchive == /\ phase = "closed"
               /\ phase' = "open"
               /\ UNCHANGED <<n, denoted, req, st, found, good>>

Advance(i, s) == /\ phase = "open"
                 /\ i \in 1..n
                 /\ st[i] = s - 1
                 /\ st' = [st EXCEPT ![i] = s]
                 /\ UNCHANGED <<n, denoted, req, phase, found, good>>

Expand(i) == Advance(i, 1)
Parse(i)  == Advance(i, 2)
Clean(i)  == Advance(i, 3)
Layout(i) == Advance(i, 4)

Output == /\ phase = "open"
          /\ \A i \in 1..n : st[i] = LastStage
          /\ phase' = "output"
          /\ UNCHANGED <<n, denoted, req, st, found, good>>

Judge(f, ok) == /\ phase = "output"
                /\ ok
                /\ req => \A w \in denoted : w \in f
                /\ found' = f
                /\ good' = ok
                /\ phase' = "judged"
                /\ UNCHANGED <<n, denoted, req, st>>

ExpandSome == \E i \in 1..n : Expand(i)
ParseSome  == \E i \in 1..n : Parse(i)
CleanSome  == \E i \in 1..n : Clean(i)
LayoutSome == \E i \in 1..n : Layout(i)
JudgeSome  == \E f \in SUBSET Words, ok \in BOOLEAN : Judge(f, ok)
Judged     == phase = "judged" /\ UNCHANGED pvars          \* terminal stuttering

PNext == OpenArchive \/ ExpandSome \/ ParseSome \/ CleanSome \/ LayoutSome \/ Output \/ JudgeSome \/ Judged
PSpec == PInit /\ [][PNext]_pvars /\ WF_pvars(PNext)

-----------------------------------------------------------------------------
PTypeOK == /\ phase \in {"closed", "open", "output", "judged"}
           /\ \A i \in 1..n : st[i] \in 0..LastStage
\* the obligations of C08 on every completed run
OutputComplete == phase \in {"output", "judged"} => \A i \in 1..n : st[i] = LastStage
JudgedComplete == phase = "judged" => good /\ (req => denoted \subseteq found)
NothingBeforeOpen == phase = "closed" => \A i \in 1..n : st[i] = 0
Finishes == <>(phase = "judged")
=============================================================================
