----------------------------- MODULE RpcClient -----------------------------
(* Beyond the listed properties: the client side of the queue protocol -
   qs.rpcclient.RpcClient.send (used by ServerProxy, i.e. by every worker and by nserve).

     if no socket: connect                                  (failure propagates)
     attempt:  write request line; flush; read one line      on an exception: close the socket, raise
               parse the line as JSON                          on failure: raise (socket NOT closed -
                                                               deviation kept as the code has it: when the
                                                               reconnect then fails too, the client keeps the
                                                               old socket and the next call starts on it)
     if the attempt raised: connect again and attempt ONCE more   (failure propagates, socket closed)
     reply has a true "error"  -> RuntimeError(error)             (socket stays open, NOT retried)
     otherwise                 -> reply["result"]                 (KeyError if there is none)

   The environment (does connect succeed, does the write get through, what comes back) is chosen
   by TLC step by step and recorded in `env`; `ops` records what the client does on the socket
   layer and `outs` what each call returned / raised.  Terminal states are printed and replayed
   into the REAL RpcClient over a scripted socket (P-REPLAY).

   The design fact worth knowing (hazard run, see AtMostOnce): a request whose reply is lost is
   sent a second time - the protocol is at-least-once.  q_add with a job id is idempotent
   (C16/C17: IdempotentAdd), q_add WITHOUT an id is not: a lost reply duplicates the job. *)
EXTENDS Naturals, Sequences, FiniteSets, TLC, Json

CONSTANTS MaxCalls, MaxFaults, EmitCases

Replies == {"result", "error", "neither"}     \* well-formed JSON object with result / true error / neither key
ReadFaults == {"eof", "garbage", "reset"}      \* '' (server closed), not JSON, exception from readline
ClosesSocket(r) == r = "reset"                 \* "eof" / "garbage" fail in json.loads, outside the closing handler

VARIABLES sock,     \* "closed" | "open"
          pc,       \* "idle" | "connect1" | "write" | "read" | "connect2" | "done"
          attempt,  \* 1 | 2
          ncalls, nfaults,
          delivered,  \* how many times the CURRENT call's request reached the server
          env, ops, outs
vars == <<sock, pc, attempt, ncalls, nfaults, delivered, env, ops, outs>>

Init == /\ sock = "closed" /\ pc = "idle" /\ attempt = 1 /\ ncalls = 0 /\ nfaults = 0
        /\ delivered = 0 /\ env = <<>> /\ ops = <<>> /\ outs = <<>>

Call == /\ pc = "idle" /\ ncalls < MaxCalls
        /\ ncalls' = ncalls + 1 /\ attempt' = 1 /\ delivered' = 0
        /\ ops' = Append(ops, "call")
        /\ pc' = IF sock = "closed" THEN "connect1" ELSE "write"
        /\ UNCHANGED <<sock, nfaults, env, outs>>

Fault == nfaults < MaxFaults

(* the call ends: out is what the caller sees *)
End(out, s) == /\ outs' = Append(outs, out) /\ sock' = s /\ pc' = "idle"

Connect(ok) ==
  /\ pc \in {"connect1", "connect2"}
  /\ ok \/ Fault
  /\ env' = Append(env, IF ok THEN "connect-ok" ELSE "connect-refused")
  /\ ops' = Append(ops, "connect")
  /\ nfaults' = IF ok THEN nfaults ELSE nfaults + 1
  /\ IF ok THEN /\ sock' = "open" /\ pc' = "write" /\ UNCHANGED outs
           ELSE End("exception", sock)           \* create_connection raised: propagates, self.socket as it was
  /\ UNCHANGED <<attempt, ncalls, delivered>>

(* a failed attempt: the first one is retried after a fresh connect, the second one propagates *)
AttemptFailed(closes) ==
  LET s == IF closes THEN "closed" ELSE sock IN
  IF attempt = 1 THEN /\ sock' = s /\ pc' = "connect2" /\ attempt' = 2 /\ UNCHANGED outs
                 ELSE /\ End("exception", s) /\ UNCHANGED attempt

Write(ok) ==
  /\ pc = "write"
  /\ ok \/ Fault
  /\ env' = Append(env, IF ok THEN "write-ok" ELSE "write-fails")
  /\ ops' = Append(ops, "write")
  /\ nfaults' = IF ok THEN nfaults ELSE nfaults + 1
  /\ IF ok THEN /\ pc' = "read" /\ delivered' = delivered + 1 /\ UNCHANGED <<sock, attempt, outs>>
           ELSE /\ AttemptFailed(TRUE) /\ UNCHANGED delivered
  /\ UNCHANGED ncalls

Read(r) ==
  /\ pc = "read"
  /\ r \in Replies \/ Fault
  /\ env' = Append(env, r)
  /\ ops' = Append(ops, "read")
  /\ nfaults' = IF r \in Replies THEN nfaults ELSE nfaults + 1
  /\ IF r \in Replies
     THEN /\ End(CASE r = "result" -> "result" [] r = "error" -> "RuntimeError" [] OTHER -> "KeyError", "open")
          /\ UNCHANGED attempt
     ELSE AttemptFailed(ClosesSocket(r))
  /\ UNCHANGED <<ncalls, delivered>>

Finished == pc = "idle" /\ ncalls = MaxCalls
Next == \/ Call \/ \E b \in BOOLEAN : Connect(b) \/ Write(b)
        \/ \E r \in Replies \cup ReadFaults : Read(r)
Spec == Init /\ [][Next]_vars

-----------------------------------------------------------------------------
TypeOK == /\ sock \in {"closed", "open"} /\ attempt \in {1, 2}
          /\ pc \in {"idle", "connect1", "connect2", "write", "read"}

(* ops of the current call = suffix of ops after the last "call" *)
LastCall == CHOOSE i \in 1..Len(ops) : ops[i] = "call" /\ \A j \in (i + 1)..Len(ops) : ops[j] # "call"
CurOps(o) == IF ops = <<>> THEN {} ELSE {i \in LastCall..Len(ops) : ops[i] = o}

AtMostTwoWrites   == Cardinality(CurOps("write")) <= 2
AtMostTwoConnects == Cardinality(CurOps("connect")) <= 2
(* a reply that was read is never followed by a resend: the error reply is not retried *)
NoResendAfterReply ==
  \A i \in 1..Len(env) : env[i] \in Replies =>
     (i = Len(env) \/ env[i + 1] \in {"connect-ok", "connect-refused", "write-ok", "write-fails"})
ReplyEndsCall == (pc = "idle" /\ outs # <<>> /\ outs[Len(outs)] # "exception") => sock = "open"
(* a failed call leaves a socket behind only when its last read came back unparsable *)
FailureClosesSocket ==
  (pc = "idle" /\ outs # <<>> /\ outs[Len(outs)] = "exception" /\ sock = "open")
     => \E i \in 1..Len(env) : env[i] \in {"eof", "garbage"}
OneOutcomePerCall == Len(outs) = ncalls - (IF pc = "idle" THEN 0 ELSE 1)

(* the hazard: at-least-once.  This is NOT an invariant of the design - the hazard run checks
   that TLC finds the counterexample (write ok, reply lost, resend) *)
AtMostOnce == delivered <= 1

EmitTerminal ==
  (EmitCases /\ Finished) => PrintT("@@" \o ToJson([env |-> env, ops |-> ops, outs |-> outs]))
=============================================================================
