------------------------ MODULE ParsePipelineTrace ------------------------
(* P-TRACE for C01: every distinct stage trace recorded from the real parse_string is validated
   as a behaviour of ParsePipeline.tla.  Batch file: JSON array of traces, a trace is an array of
   events [op, arg] with op in {"begin", "stage", "end", "raise"}.  The harness collapses equal
   traces (they carry no data besides the stage names) and keeps the list of inputs per trace.

   Acceptance: Done is enabled only when the trace is consumed AND the machine has returned or
   raised.  A raise is a step of the machine that violates Total (reported per trace; TLC runs
   with -continue so that every raising trace is listed); a deadlock is an event the machine does
   not allow at all (stage skipped / out of order / frame not closed / ended without returning). *)
EXTENDS ParsePipeline, Json, IOUtils

Batch == JsonDeserialize(IOEnv.TRACE_FILE)

VARIABLES tid, l
tvars == <<stack, status, tid, l>>

Tr == Batch[tid]
Ev == Tr[l]

TraceInit == tid \in 1..Len(Batch) /\ l = 1 /\ Init
Advance == l' = l + 1 /\ tid' = tid
Pending == l <= Len(Tr)

TrBegin == Pending /\ Ev[1] = "begin" /\ Begin(Ev[2]) /\ Advance
TrStage == Pending /\ Ev[1] = "stage" /\ Stage(Ev[2]) /\ Advance
TrEnd   == Pending /\ Ev[1] = "end"   /\ End(Ev[2])   /\ Advance
TrRaise == Pending /\ Ev[1] = "raise" /\ Raise /\ Advance

Consumed == l = Len(Tr) + 1
Done == Consumed /\ status \in {"returned", "raised"} /\ UNCHANGED tvars

TraceNext == TrBegin \/ TrStage \/ TrEnd \/ TrRaise \/ Done
TraceSpec == TraceInit /\ [][TraceNext]_tvars
=============================================================================
