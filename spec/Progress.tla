------------------------------ MODULE Progress ------------------------------
(* Beyond the listed properties: progress reporting - mwlib.utils.status.Status.

   One status dictionary is shared by a tree of reporters; a reporter made with
   get_sub_range(start, end) maps its own 0..100 onto the slice [start%, end%] of its parent's
   range.  A call  reporter(status=, progress=, article=)  updates the shared dictionary:
       status    replaced when given and different
       progress  clamped to 0..100, scaled into the reporter's range, and stored ONLY IF it is
                 greater than the stored value (progress never goes back; initially absent)
       article   replaced when given and different; an empty article deletes the entry if there is
                 one (and is stored as "" if there is none - kept as the code has it)
   The dictionary is what `qsetinfo` sends to the queue server and what do_render_status shows
   (C19: ProgressSource).

   Numbers are scaled by 10^4 so that two levels of percent arithmetic stay integral:
   root range = [0, 1000000]. *)
EXTENDS Naturals, Integers, Sequences, FiniteSets, TLC, Json

CONSTANTS MaxReporters, MaxLen, EmitCases

Scale == 10000
Cuts == {0, 20, 50, 70, 100}                  \* percent positions a sub-range may start / end at
Progs == {-1000, -10, 30, 100, 150}           \* -1000 stands for "not given"
Stats == {"none", "s1", "s2"}                 \* "none": not given
Arts  == {"none", "", "A", "B"}               \* "none": not given; "": explicit empty

VARIABLES rep,     \* sequence of reporters: [lo, hi, depth]   (scaled absolute range)
          st,      \* the shared dictionary: [status, progress, article]  ("absent" / -1 when missing)
          hist
vars == <<rep, st, hist>>

Init == /\ rep = <<[lo |-> 0, hi |-> 100 * Scale, depth |-> 0]>>
        /\ st = [status |-> "absent", progress |-> -1, article |-> "absent"]
        /\ hist = <<>>

ScaleIn(r, p) == rep[r].lo + (p * (rep[r].hi - rep[r].lo)) \div 100
Clamp(p) == IF p < 0 THEN 0 ELSE IF p > 100 THEN 100 ELSE p

Sub(r, s, e) ==
  /\ Len(rep) < MaxReporters /\ rep[r].depth < 2 /\ s < e
  /\ rep' = Append(rep, [lo |-> ScaleIn(r, s), hi |-> ScaleIn(r, e), depth |-> rep[r].depth + 1])
  /\ hist' = Append(hist, [a |-> "sub", r |-> r, s |-> s, e |-> e, lo |-> ScaleIn(r, s), hi |-> ScaleIn(r, e)])
  /\ UNCHANGED st

Report(r, s, p, a) ==
  LET np == IF p = -1000 THEN st.progress
            ELSE IF ScaleIn(r, Clamp(p)) > st.progress THEN ScaleIn(r, Clamp(p)) ELSE st.progress
      ns == IF s = "none" THEN st.status ELSE s
      na == IF a = "none" \/ a = st.article THEN st.article
            ELSE IF a = "" /\ st.article # "absent" THEN "absent"
            ELSE a
      new == [status |-> ns, progress |-> np, article |-> na]
  IN /\ st' = new
     /\ hist' = Append(hist, [a |-> "report", r |-> r, status |-> s, progress |-> p, article |-> a, post |-> new])
     /\ UNCHANGED rep

Room == Len(hist) < MaxLen
DoSub    == Room /\ \E r \in 1..Len(rep), s \in Cuts, e \in Cuts : Sub(r, s, e)
DoReport == Room /\ \E r \in 1..Len(rep), s \in Stats, p \in Progs, a \in Arts : Report(r, s, p, a)
Next == DoSub \/ DoReport
Spec == Init /\ [][Next]_vars

-----------------------------------------------------------------------------
TypeOK == st.progress \in -1..(100 * Scale)
(* progress never goes back *)
Monotone == [][st'.progress >= st.progress]_vars
(* it stays inside 0..100 whatever a reporter is told (negative, > 100) *)
InRange == st.progress = -1 \/ (st.progress >= 0 /\ st.progress <= 100 * Scale)
(* sub-ranges nest: a reporter's range lies inside the range of the root *)
Nested == \A r \in 1..Len(rep) : 0 <= rep[r].lo /\ rep[r].lo <= rep[r].hi /\ rep[r].hi <= 100 * Scale
(* a reporter never pushes the progress beyond the end of its own slice *)
OwnSliceBound ==
  [][\A i \in 1..Len(hist') : (i = Len(hist') /\ hist'[i].a = "report" /\ st'.progress > st.progress)
        => st'.progress <= rep[hist'[i].r].hi]_vars

EmitFull == (EmitCases /\ Len(hist) = MaxLen) => PrintT("@@" \o ToJson([hist |-> hist]))
=============================================================================
