------------------------------- MODULE Titles -------------------------------
(* C12 — title normalization is canonical and idempotent.

   A page title is a sequence of ATOMS (TLC strings are opaque; the harness concretises atoms per
   site configuration):
       SP US TAB          space, underscore, a whitespace character that is not a space (edges only)
       COLON              ":"
       LRM RLM            U+200E / U+200F at the edges of the whole title and at the leading edge of the
                          remainder (after the namespace colon / after a leading colon, mixed with blanks)
       l u o              a cased lower-case letter, a cased upper-case letter, an uncased letter
       lc                 "l, capitalised where the site says so" (occurs only in canonical names)
       ns(n,kind,cs,sep)  a name of namespace n: kind in local / canonical / alias, spelled in letter
                          case cs, its inner blanks written as sep
   The MEANING of a title (the seed) is a pair (namespace, remainder).  Canon(seed) is the canonical
   spelling the property text defines: local namespace name, colon, remainder with the first letter
   capitalised where the site says so.  The ACTIONS are re-spellings that must not change the
   meaning: other letter case / other name of the namespace, underscores, runs of blanks, blanks
   around the namespace colon, a leading colon, surrounding whitespace, bidi marks at the edges,
   omitting the prefix of the default namespace.  TLC explores the rewrite graph from one seed per
   (namespace kind, default namespace, remainder shape) to MaxDepth and checks, on the spec's own
   normaliser Norm (a parser of flat atom sequences that knows nothing of how a spelling was
   built):   Norm(spelling) = Canon(seed)   and   Norm(Full(Canon(seed))) = Canon(seed).
   Every seed and every transition is printed as JSON; checks/c12.py executes them against
   mwlib.core.nshandling.NsHandler.splitname for every bundled site configuration.

   Abstract namespaces: "main", "A" (the seed's namespace when not main), "B" (a namespace whose
   name occurs as a prefix *inside* a remainder: Template:Category:x), "C" (a default namespace
   different from the seed's).  The default namespace dflt is the one the caller passes
   (defaultns); a leading colon forces main. *)
EXTENDS Naturals, Sequences, FiniteSets, TLC, Json

CONSTANTS MaxDepth,         \* length of re-spelling paths explored from each seed
          ShapeIds,         \* subset of DOMAIN Shape: remainder shapes used as seeds
          Casings,          \* subset of {"asis","lower","upper","mixed"}
          Seps,             \* subset of {"sp","us","dbl"}
          Pads,             \* subset of {"SP","US","TAB"}: whitespace put around the title
          Marks,            \* subset of {"LRM","RLM"}
          Emit,             \* TRUE: print seeds and transitions as JSON (P-ENUM)
          StripOrder,       \* "joint" in the reference; "ws-first" re-introduces a known defect class
          ColonForcesMain   \* TRUE in the reference: a leading colon overrides the default namespace

VARIABLES seed,   \* [ns, shape, rem]: the meaning
          dflt,   \* default namespace the normaliser is called with
          sp,     \* current spelling, structured: [lead, lc, pfx, rem, trail], each a sequence of atoms
          n,      \* length of the path that first reached this spelling (BFS, one worker: minimal)
          last    \* label of the re-spelling just applied (not part of the VIEW)
vars == <<seed, dflt, sp, n, last>>
View == <<seed, dflt, sp>>

-----------------------------------------------------------------------------
At(t) == [t |-> t]
NsAtom(ns, kind, cs, sep) == [t |-> "ns", ns |-> ns, kind |-> kind, cs |-> cs, sep |-> sep]
L == At("l")   U == At("u")   O == At("o")   SPa == At("SP")   COLON == At("COLON")

WS == {"SP", "US", "TAB"}
MK == {"LRM", "RLM"}
Kinds == {"local", "canonical", "alias"}

\* remainder shapes (as the user typed them: not yet capitalised)
Shape == [ one    |-> <<L>>,                                   \* single letter
           low    |-> <<L, L>>,                                \* lower-case first letter
           up     |-> <<U, L>>,                                \* already capitalised
           other  |-> <<O, L>>,                                \* uncased script first
           words  |-> <<L, SPa, U>>,                           \* inner blank
           colon  |-> <<L, L, COLON, L>>,                      \* colon after something that is no namespace
           nslike |-> <<NsAtom("B", "local", "asis", "sp"), COLON, L>> ]   \* namespace-like prefix inside

NsLike(rem) == rem # <<>> /\ rem[1].t = "ns"

\* a main-namespace title cannot begin with a namespace name (it would *be* in that namespace)
Seeds == {[ns |-> ns, shape |-> s, rem |-> Shape[s]] : ns \in {"main", "A"}, s \in ShapeIds}
           \ {[ns |-> "main", shape |-> "nslike", rem |-> Shape["nslike"]]}
DfltsOf(sd) == IF sd.ns = "main" THEN {"main", "C"} ELSE {"main", "A", "C"}

-----------------------------------------------------------------------------
\* The reference normaliser: parses a FLAT sequence of atoms.
RECURSIVE StripLT(_, _)
StripLT(s, T) == IF s # <<>> /\ Head(s).t \in T THEN StripLT(Tail(s), T) ELSE s
RECURSIVE StripRT(_, _)
StripRT(s, T) == IF s # <<>> /\ s[Len(s)].t \in T THEN StripRT(SubSeq(s, 1, Len(s) - 1), T) ELSE s
StripT(s, T) == StripRT(StripLT(s, T), T)

\* underscores are blanks; a run of blanks is one blank
RECURSIVE Collapse(_)
Collapse(s) ==
  IF s = <<>> THEN <<>>
  ELSE LET a == IF Head(s).t = "US" THEN SPa ELSE Head(s)
           r == Collapse(Tail(s)) IN
       IF a.t = "SP" /\ r # <<>> /\ r[1].t = "SP" THEN r ELSE <<a>> \o r

CapFirst(r) == IF r # <<>> /\ r[1].t = "l" THEN <<At("lc")>> \o Tail(r) ELSE r

Norm(flat, d) ==
  LET s0 == IF StripOrder = "joint" THEN StripT(flat, WS \cup MK) ELSE StripT(flat, WS)
      s1 == Collapse(s0)
      colon == s1 # <<>> /\ s1[1].t = "COLON"
      Inner == IF StripOrder = "joint" THEN {"SP"} \cup MK ELSE {"SP"}      \* junk after a colon
      s2 == IF colon THEN StripLT(Tail(s1), Inner) ELSE s1
      d2 == IF colon /\ ColonForcesMain THEN "main" ELSE d
      hasNs == /\ Len(s2) >= 2
               /\ s2[1].t = "ns"
               /\ \/ s2[2].t = "COLON"
                  \/ (Len(s2) >= 3 /\ s2[2].t = "SP" /\ s2[3].t = "COLON")
      after == IF hasNs
               THEN StripLT(SubSeq(s2, (IF s2[2].t = "COLON" THEN 3 ELSE 4), Len(s2)), Inner)
               ELSE s2
      rem0 == IF StripOrder = "joint" THEN after ELSE StripT(after, MK)
  IN [ns |-> (IF hasNs THEN s2[1].ns ELSE d2), rem |-> CapFirst(rem0)]

Canon(sd) == [ns |-> sd.ns, rem |-> CapFirst(sd.rem)]
\* the canonical full name as a spelling
Full(c) == IF c.ns = "main" THEN c.rem
           ELSE <<NsAtom(c.ns, "local", "asis", "sp"), COLON>> \o c.rem

Flat(s) == s.lead \o s.lc \o s.pfx \o s.rem \o s.trail

-----------------------------------------------------------------------------
Init ==
  /\ seed \in Seeds
  /\ dflt \in DfltsOf(seed)
  /\ sp = [lead  |-> <<>>,
           lc    |-> IF seed.ns = "main" /\ dflt # "main" THEN <<COLON>> ELSE <<>>,
           pfx   |-> IF seed.ns = "main" THEN <<>> ELSE <<NsAtom(seed.ns, "local", "asis", "sp"), COLON>>,
           rem   |-> seed.rem,
           trail |-> <<>>]
  /\ n = 0
  /\ last = <<"seed">>

Fields == {"lead", "lc", "pfx", "rem", "trail"}
\* every action starts with the conjunct Bounded, so that TLC attributes coverage to the action
Bounded == n < MaxDepth
Step(newsp, label) == /\ sp' = newsp
                      /\ n' = n + 1
                      /\ last' = label
                      /\ UNCHANGED <<seed, dflt>>

InsertAt(s, i, a) == SubSeq(s, 1, i - 1) \o <<a>> \o SubSeq(s, i, Len(s))
\* position of the namespace colon inside sp.pfx
RECURSIVE ColonPos(_, _)
ColonPos(s, i) == IF s[i].t = "COLON" THEN i ELSE ColonPos(s, i + 1)

RecaseNs ==
  /\ Bounded
  /\ sp.pfx # <<>>
  /\ \E c \in Casings \ {sp.pfx[1].cs} :
       Step([sp EXCEPT !.pfx[1].cs = c], <<"RecaseNs", c>>)

SwapNsName ==
  /\ Bounded
  /\ sp.pfx # <<>>
  /\ \E k \in Kinds \ {sp.pfx[1].kind} :
       Step([sp EXCEPT !.pfx[1].kind = k], <<"SwapNsName", k>>)

NsInnerBlank ==                      \* "User_talk:x", "User  talk:x"
  /\ Bounded
  /\ sp.pfx # <<>>
  /\ \E s \in Seps \ {sp.pfx[1].sep} :
       Step([sp EXCEPT !.pfx[1].sep = s], <<"NsInnerBlank", s>>)

SpaceToUnderscore ==
  /\ Bounded
  /\ \E f \in Fields : \E i \in DOMAIN sp[f] :
     /\ sp[f][i].t = "SP"
     /\ Step([sp EXCEPT ![f][i] = At("US")], <<"SpaceToUnderscore", f>>)

DoubleSpace ==
  /\ Bounded
  /\ \E f \in Fields : \E i \in DOMAIN sp[f] :
     /\ sp[f][i].t \in {"SP", "US"}
     /\ (IF i = 1 THEN TRUE ELSE sp[f][i - 1] # sp[f][i])     \* one representative per run
     /\ Step([sp EXCEPT ![f] = InsertAt(sp[f], i, sp[f][i])], <<"DoubleSpace", f>>)

PadEdges ==
  /\ Bounded
  /\ \E p \in Pads :
     \/ Step([sp EXCEPT !.lead = <<At(p)>> \o sp.lead], <<"PadEdges", "front", p>>)
     \/ Step([sp EXCEPT !.trail = sp.trail \o <<At(p)>>], <<"PadEdges", "back", p>>)

EdgeMark ==
  /\ Bounded
  /\ \E m \in Marks :
     \/ Step([sp EXCEPT !.lead = <<At(m)>> \o sp.lead], <<"EdgeMark", "front", m>>)
     \/ Step([sp EXCEPT !.trail = sp.trail \o <<At(m)>>], <<"EdgeMark", "back", m>>)

InnerMark ==                         \* a mark at the leading edge of the remainder: "User:<LRM>x", ":<LRM>x"
  /\ Bounded
  /\ \E m \in Marks :
       \/ /\ sp.lc # <<>>
          /\ Step([sp EXCEPT !.lc = sp.lc \o <<At(m)>>], <<"InnerMark", "after-leading-colon", m>>)
       \/ /\ sp.pfx # <<>>
          /\ Step([sp EXCEPT !.pfx = sp.pfx \o <<At(m)>>], <<"InnerMark", "after-ns-colon", m>>)

LeadingColon ==                      \* only where it does not change the meaning
  /\ Bounded
  /\ sp.lc = <<>>
  /\ (sp.pfx # <<>> \/ seed.ns = "main")
  /\ Step([sp EXCEPT !.lc = <<COLON>>], <<"LeadingColon">>)

SpaceAroundColon ==
  /\ Bounded
  /\ \E b \in {"SP", "US"} :
     \/ /\ sp.lc # <<>>
        /\ Step([sp EXCEPT !.lc = sp.lc \o <<At(b)>>], <<"SpaceAroundColon", "after-leading", b>>)
     \/ /\ sp.pfx # <<>>
        /\ \/ Step([sp EXCEPT !.pfx = InsertAt(sp.pfx, ColonPos(sp.pfx, 1), At(b))],
                   <<"SpaceAroundColon", "before-ns-colon", b>>)
           \/ Step([sp EXCEPT !.pfx = sp.pfx \o <<At(b)>>], <<"SpaceAroundColon", "after-ns-colon", b>>)

DropDefaultPrefix ==                 \* "foo" with defaultns=10 means Template:foo
  /\ Bounded
  /\ sp.pfx # <<>> /\ sp.lc = <<>>
  /\ sp.pfx[1].ns = dflt
  /\ ~NsLike(sp.rem)
  /\ Step([sp EXCEPT !.pfx = <<>>], <<"DropDefaultPrefix">>)

Next == \/ RecaseNs \/ SwapNsName \/ NsInnerBlank \/ SpaceToUnderscore \/ DoubleSpace
        \/ PadEdges \/ EdgeMark \/ InnerMark \/ LeadingColon \/ SpaceAroundColon \/ DropDefaultPrefix
Spec == Init /\ [][Next]_vars

-----------------------------------------------------------------------------
\* oracle sanity (P-MC): every re-spelling keeps the meaning; canonical names are fixpoints
Canonical == Norm(Flat(sp), dflt) = Canon(seed)
Fixpoint  == \A d \in {"main", "A", "C"} :
               (seed.ns # "main" \/ d = "main") => Norm(Full(Canon(seed)), d) = Canon(seed)
Idempotent == LET c == Norm(Flat(sp), dflt) IN Norm(Full(c), IF c.ns = "main" THEN "main" ELSE dflt) = c
\* marks only ever sit at the edges of the whole title or after a colon, at the remainder's leading edge
MarksAtEdges ==
  /\ \A i \in DOMAIN sp.rem : sp.rem[i].t \notin MK
  /\ \A i \in DOMAIN sp.lc : sp.lc[i].t \in MK => i > 1
  /\ \A i \in DOMAIN sp.pfx : sp.pfx[i].t \in MK => i > ColonPos(sp.pfx, 1)

-----------------------------------------------------------------------------
Code(a) == IF a.t = "ns" THEN <<a.ns, a.kind, a.cs, a.sep>> ELSE a.t
Codes(s) == [i \in DOMAIN s |-> Code(s[i])]
Key == <<seed.ns, dflt, seed.shape>>

EmitSeed ==
  (Emit /\ n = 0) =>
     PrintT("@@" \o ToJson([k |-> Key, ns |-> seed.ns, dflt |-> dflt, shape |-> seed.shape,
                            canon |-> Codes(Canon(seed).rem), full |-> Codes(Full(Canon(seed))),
                            s |-> Codes(Flat(sp))]))
\* ACTION_CONSTRAINT: evaluated for every generated transition
EmitEdge ==
  Emit => PrintT("@@" \o ToJson([k |-> Key, a |-> last', n |-> n', s |-> Codes(Flat(sp)), d |-> Codes(Flat(sp'))]))
=============================================================================
