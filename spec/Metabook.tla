------------------------------ MODULE Metabook ------------------------------
(* C13 — metabooks round-trip through JSON and identify collections deterministically.

   A render REQUEST is  content + representation:
     content         mb   = [title, subtitle, editor, items, wikis, licenses, source]   the collection
                            items: sequence of Article [k="a", title, rev, dt]
                                               or Chapter [k="c", title, items (articles)]
                                               or Custom  [k="x", title, content]
                            wikis: sequence of WikiConf [ident, baseurl]  (distinct idents)
                            licenses: sequence of License [title, wikitext]
                            source: <<>> or <<Source [name, lang, iw]>>; iw = "none" or the prefix
                                    of one Interwiki object the source carries
                            i.e. every class mwlib's JSON loader can rebuild occurs as content
                     wiki = the wiki coordinates: the base URL as a record of COMPONENTS
                            [scheme, user, host, port, path, seg] plus ext (script_extension)
                            and login (login_credentials); checks/c13.py assembles
                            scheme://[user@]host[:port]/path/[seg/]
     representation  rep  = [keys, indent, ascii, ser, defaults]       how the JSON text is written:
                            key order, whitespace, non-ASCII escaped or not, who serialised it
                            (the client / mwlib's myjson.dumps / Collection.dumps after loads), and
                            whether default-valued / absent fields are spelled out ("version": 1,
                            "displaytitle": null) or omitted
   Optional fields carry a VALUE dimension: absent ("none"), present-but-falsy ("empty" = "",
   "zero" = 0), ordinary; fields with a non-None class default: default / falsy / ordinary.
   Titles, revisions, URLs are abstract names; checks/c13.py maps them to real (Unicode) strings.
   "none" stands for an absent optional field.
   tw = one NEAREST-NEIGHBOUR re-spelling of one string-valued input of the id (base_url,
   script_extension, login_credentials, titles, subtitle, editor, displaytitle, WikiConf baseurl,
   license text, source name): one letter's case flipped, a leading / trailing blank, a trailing
   slash added or removed, NFD instead of NFC.  A different string is a different request: content.

   Two kinds of actions: CONTENT edits (append / remove / swap article, change a revision or a
   title, wrap an article in a chapter, set / unset an optional field, add / remove / change a
   WikiConf, License, Source, Interwiki, Custom item, change ONE component of the wiki coordinates) and REPRESENTATION edits (permute keys, change indentation, escape or not,
   re-serialise).  The identity the property demands is the content itself:  Ident == <<mb, wiki>>.
   TLC checks (oracle sanity, every generated transition): representation edits preserve Ident,
   content edits change it; and enumerates the edit graph to MaxDepth from a few seed books.
   checks/c13.py executes every state and every transition on the real myjson / metabook /
   make_collection_id:  id equal across representation edges, different across content edges,
   loads(dumps(x)) projects to the same abstract content, dumps is a fixed point, and two
   independently built equal metabooks share no mutable list. *)
EXTENDS Naturals, Sequences, FiniteSets, TLC, Json

CONSTANTS MaxDepth,      \* length of edit paths explored from each seed
          MaxArticles,   \* articles per metabook (all levels)
          MaxChapters,
          Titles,        \* abstract titles, e.g. {"t1","t2","t3"}
          Revs,          \* revisions incl. "none"
          SeedIds,       \* subset of DOMAIN SeedBook
          Emit,          \* TRUE: print seeds and transitions as JSON
          EmitPrefix,    \* marker in front of every printed JSON line
          TweakDepth,    \* a nearest-neighbour re-spelling may be one of the first TweakDepth edits (0: never)
          OneComponent,  \* TRUE: the wiki coordinates differ from the seed's in at most one component
          IdentMode      \* "content" in the reference; "no-revision" / "with-keyorder" / "host-only"
                         \* re-introduce defect classes (a field left out of the id; unsorted dump
                         \* feeding the id; the URL reduced to its host)

VARIABLES mb, wiki, rep, tw, n, last
vars == <<mb, wiki, rep, tw, n, last>>
View == <<mb, wiki, rep, tw>>

None == "none"
\* wiki coordinates: the values each component can take
WikiDom == [ scheme |-> {"http", "https"}, user |-> {None, "usr"}, host |-> {"h1", "h2"},
             port |-> {None, "p1", "p2"}, path |-> {"pa", "pb"}, seg |-> {None, "sg"},
             ext |-> {None, "empty", "e1"}, login |-> {None, "empty", "l1"} ]
SeedWiki == [ scheme |-> "http", user |-> None, host |-> "h1", port |-> None, path |-> "pa", seg |-> None,
              ext |-> None, login |-> None ]
\* in how many components a request's coordinates differ from the seed's
WDiff(w) == Cardinality({f \in DOMAIN SeedWiki : w[f] # SeedWiki[f]})
\* NEAREST-NEIGHBOUR re-spellings of ONE string-valued input of the id (content, not representation: a
\* different string is a different request).  tw = [f, k]: field f is spelled with tweak k; "none": as is.
NoTweak    == [f |-> None, k |-> None]
TweakKinds == {"case",     \* the case of one letter flipped
               "lead",     \* a leading blank added
               "trail",    \* a trailing blank added
               "slash",    \* a trailing slash added / removed
               "nfd"}      \* one non-ASCII letter in NFD instead of NFC
WikiIdents == {"w1", "w2"}
BaseUrls   == {"b1", "b2"}
LicTexts   == {"lw1", "lw2"}
Langs      == {"la1", "la2"}
\* values of an optional text field: absent, present but empty (falsy, not the default), ordinary
OptVals  == {None, "empty", "o1"}
\* fields whose class default is not None: the default, a falsy non-default value, an ordinary one
\* (version: 1 / 0 / 2;  content_type: "text/x-wiki" / "" / "text/html").  Whether a client writes a
\* default-valued field explicitly (or writes null for an absent one) is REPRESENTATION: rep.defaults
VerVals  == {"dflt", "zero", "v2"}
CtVals   == {"dflt", "empty", "c2"}
KeyOrders == {"sorted", "reversed", "shuffled"}
Indents   == {"compact", "i4", "airy"}
Sers      == {"client", "myjson", "coll"}

Art(t, r, d) == [k |-> "a", title |-> t, rev |-> r, dt |-> d, ct |-> "dflt"]
Chap(t, its) == [k |-> "c", title |-> t, items |-> its]
Cust(t)      == [k |-> "x", title |-> t, content |-> "cc1"]
WConf(i, b)  == [ident |-> i, baseurl |-> b]
Lic(w)       == [title |-> "lt1", wikitext |-> w]
Src(l, iw)   == [name |-> "sn1", lang |-> l, iw |-> iw]
Book(its, ws, ls, src) == [title |-> "t1", subtitle |-> None, editor |-> None, version |-> "dflt", items |-> its,
                           wikis |-> ws, licenses |-> ls, source |-> src]

SeedBook ==
  [ empty   |-> Book(<<>>, <<>>, <<>>, <<>>),
    one     |-> Book(<<Art("t1", None, None)>>, <<>>, <<>>, <<>>),
    two     |-> Book(<<Art("t1", None, None), Art("t2", "r1", "o1")>>, <<>>, <<>>, <<>>),
    nested  |-> Book(<<Chap("t2", <<Art("t1", None, None), Art("t2", None, None)>>), Art("t1", "r1", None)>>, <<>>, <<>>, <<>>),
    twochap |-> Book(<<Chap("t1", <<Art("t2", "r1", None)>>), Chap("t2", <<>>)>>, <<>>, <<>>, <<>>),
    \* every kind of object the loader rebuilds
    kinds   |-> Book(<<Art("t1", None, None), Cust("t2")>>, <<WConf("w1", "b1")>>, <<Lic("lw1")>>, <<Src("la1", "i1")>>) ]

-----------------------------------------------------------------------------
RECURSIVE NArt(_)
NArt(its) == IF its = <<>> THEN 0
             ELSE (IF Head(its).k = "c" THEN Len(Head(its).items) ELSE 1) + NArt(Tail(its))
NChap(its) == Cardinality({i \in DOMAIN its : its[i].k = "c"})

RemoveAt(s, i) == SubSeq(s, 1, i - 1) \o SubSeq(s, i + 1, Len(s))
SwapAt(s, i)   == [s EXCEPT ![i] = s[i + 1], ![i + 1] = s[i]]

\* the identity the property demands: the content and the wiki coordinates, nothing else
DropRevs(its) == [i \in DOMAIN its |->
                    IF its[i].k = "a" THEN [its[i] EXCEPT !.rev = None]
                    ELSE IF its[i].k = "x" THEN its[i]
                    ELSE [its[i] EXCEPT !.items = [j \in DOMAIN its[i].items |-> [its[i].items[j] EXCEPT !.rev = None]]]]
IdentOf(m, w, r, t) ==
  CASE IdentMode = "content"       -> <<m, w, t>>
    [] IdentMode = "no-revision"   -> <<[m EXCEPT !.items = DropRevs(m.items)], w, t>>
    [] IdentMode = "with-keyorder" -> <<m, w, t, r.keys>>
    [] IdentMode = "host-only"     -> <<m, [w EXCEPT !.port = None, !.user = None], t>>
    [] IdentMode = "case-blind"    -> <<m, w, IF t.k \in {"case", "lead", "trail"} THEN NoTweak ELSE t>>
Ident == IdentOf(mb, wiki, rep, tw)

-----------------------------------------------------------------------------
Init ==
  /\ \E s \in SeedIds : mb = SeedBook[s]
  /\ wiki = SeedWiki
  /\ tw = NoTweak
  /\ rep = [keys |-> "sorted", indent |-> "compact", ascii |-> TRUE, ser |-> "client", defaults |-> "omit"]
  /\ n = 0
  /\ last = <<"seed", "seed">>

\* every action starts with the conjunct Bounded so that TLC attributes coverage to the action
\* a tweaked request is a leaf of the edit graph: the tweak is compared with its untweaked neighbour
Bounded == n < MaxDepth /\ tw = NoTweak
Content(newmb, label) == /\ mb' = newmb /\ n' = n + 1 /\ last' = <<"content">> \o label
                         /\ UNCHANGED <<wiki, rep, tw>>
Coord(neww, label)    == /\ wiki' = neww /\ n' = n + 1 /\ last' = <<"content">> \o label
                         /\ UNCHANGED <<mb, rep, tw>>
Repr(newrep, label)   == /\ rep' = newrep /\ n' = n + 1 /\ last' = <<"rep">> \o label
                         /\ UNCHANGED <<mb, wiki, tw>>
Items(its) == [mb EXCEPT !.items = its]
IsChap(i) == mb.items[i].k = "c"
IsArt(i)  == mb.items[i].k = "a"

\* ---- content edits
AppendArticle ==
  /\ Bounded /\ NArt(mb.items) < MaxArticles
  /\ \E t \in Titles :              \* revisions / optional fields are set by ChangeRevision / SetOptional
       Content(Items(Append(mb.items, Art(t, None, None))), <<"AppendArticle", "top">>)

AppendInChapter ==
  /\ Bounded /\ NArt(mb.items) < MaxArticles
  /\ \E i \in DOMAIN mb.items : \E t \in Titles :
       /\ IsChap(i)
       /\ Content(Items([mb.items EXCEPT ![i].items = Append(@, Art(t, None, None))]), <<"AppendArticle", "chapter">>)

AppendChapter ==
  /\ Bounded /\ NChap(mb.items) < MaxChapters
  /\ \E t \in Titles : Content(Items(Append(mb.items, Chap(t, <<>>))), <<"AppendChapter">>)

RemoveItem ==
  /\ Bounded
  /\ \E i \in DOMAIN mb.items :
       \/ Content(Items(RemoveAt(mb.items, i)), <<"RemoveItem", IF IsChap(i) THEN "chapter" ELSE IF IsArt(i) THEN "top" ELSE "custom">>)
       \/ /\ IsChap(i)
          /\ \E j \in DOMAIN mb.items[i].items :
               Content(Items([mb.items EXCEPT ![i].items = RemoveAt(@, j)]), <<"RemoveItem", "in-chapter">>)

SwapItems ==                         \* swapping two equal neighbours would not be an edit
  /\ Bounded
  /\ \E i \in DOMAIN mb.items :
       \/ /\ i < Len(mb.items) /\ mb.items[i] # mb.items[i + 1]
          /\ Content(Items(SwapAt(mb.items, i)), <<"SwapItems", "top">>)
       \/ /\ IsChap(i)
          /\ \E j \in DOMAIN mb.items[i].items :
               /\ j < Len(mb.items[i].items) /\ mb.items[i].items[j] # mb.items[i].items[j + 1]
               /\ Content(Items([mb.items EXCEPT ![i].items = SwapAt(@, j)]), <<"SwapItems", "in-chapter">>)

ChangeRevision ==
  /\ Bounded
  /\ \E i \in DOMAIN mb.items :
       \/ /\ IsArt(i)
          /\ \E r \in Revs \ {mb.items[i].rev} :
               Content(Items([mb.items EXCEPT ![i].rev = r]), <<"ChangeRevision", "top">>)
       \/ /\ IsChap(i)
          /\ \E j \in DOMAIN mb.items[i].items : \E r \in Revs \ {mb.items[i].items[j].rev} :
               Content(Items([mb.items EXCEPT ![i].items[j].rev = r]), <<"ChangeRevision", "in-chapter">>)

ChangeTitle ==
  /\ Bounded
  /\ \/ \E t \in Titles \ {mb.title} : Content([mb EXCEPT !.title = t], <<"ChangeTitle", "collection">>)
     \/ \E i \in DOMAIN mb.items :
          \/ \E t \in Titles \ {mb.items[i].title} :
               Content(Items([mb.items EXCEPT ![i].title = t]), <<"ChangeTitle", IF IsChap(i) THEN "chapter" ELSE IF IsArt(i) THEN "article" ELSE "custom">>)
          \/ /\ IsChap(i)
             /\ \E j \in DOMAIN mb.items[i].items : \E t \in Titles \ {mb.items[i].items[j].title} :
                  Content(Items([mb.items EXCEPT ![i].items[j].title = t]), <<"ChangeTitle", "article-in-chapter">>)

WrapInChapter ==
  /\ Bounded /\ NChap(mb.items) < MaxChapters
  /\ \E i \in DOMAIN mb.items : \E t \in Titles :
       /\ IsArt(i)
       /\ Content(Items([mb.items EXCEPT ![i] = Chap(t, <<mb.items[i]>>)]), <<"WrapInChapter">>)

SetOptional ==                       \* set or unset ("none") an optional field
  /\ Bounded
  /\ \/ \E v \in OptVals \ {mb.subtitle} : Content([mb EXCEPT !.subtitle = v], <<"SetOptional", "subtitle">>)
     \/ \E v \in OptVals \ {mb.editor} : Content([mb EXCEPT !.editor = v], <<"SetOptional", "editor">>)
     \/ \E v \in VerVals \ {mb.version} : Content([mb EXCEPT !.version = v], <<"SetOptional", "version">>)
     \/ \E i \in DOMAIN mb.items :
          /\ IsArt(i)
          /\ \/ \E v \in OptVals \ {mb.items[i].dt} :
                  Content(Items([mb.items EXCEPT ![i].dt = v]), <<"SetOptional", "displaytitle">>)
             \/ \E v \in CtVals \ {mb.items[i].ct} :
                  Content(Items([mb.items EXCEPT ![i].ct = v]), <<"SetOptional", "content_type">>)

\* one component of the wiki coordinates changes; requests differing from the seed's coordinates in
\* more than one component are left to the simulation runs (OneComponent = FALSE)
ChangeWiki ==
  /\ Bounded
  /\ \E f \in DOMAIN SeedWiki : \E v \in WikiDom[f] \ {wiki[f]} :
       /\ (OneComponent => WDiff([wiki EXCEPT ![f] = v]) <= 1)
       /\ Coord([wiki EXCEPT ![f] = v],
                <<"ChangeWiki", f, IF wiki[f] = None THEN "added" ELSE IF v = None THEN "removed" ELSE "changed">>)

\* ---- the other kinds of objects the loader rebuilds
AppendCustom ==
  /\ Bounded /\ NArt(mb.items) < MaxArticles
  /\ \A i \in DOMAIN mb.items : mb.items[i].k # "x"
  /\ \E t \in Titles : Content(Items(Append(mb.items, Cust(t))), <<"AppendCustom">>)

EditWikiConf ==
  /\ Bounded
  /\ \/ /\ Len(mb.wikis) < 2
        /\ \E i \in WikiIdents \ {mb.wikis[j].ident : j \in DOMAIN mb.wikis} :
             Content([mb EXCEPT !.wikis = Append(@, WConf(i, "b1"))], <<"EditWikiConf", "add">>)
     \/ \E j \in DOMAIN mb.wikis :
          \/ Content([mb EXCEPT !.wikis = RemoveAt(@, j)], <<"EditWikiConf", "remove">>)
          \/ \E b \in BaseUrls \ {mb.wikis[j].baseurl} :
               Content([mb EXCEPT !.wikis[j].baseurl = b], <<"EditWikiConf", "baseurl">>)
          \/ \E i \in WikiIdents \ {mb.wikis[k].ident : k \in DOMAIN mb.wikis} :
               Content([mb EXCEPT !.wikis[j].ident = i], <<"EditWikiConf", "ident">>)

EditLicense ==
  /\ Bounded
  /\ \/ /\ mb.licenses = <<>>
        /\ Content([mb EXCEPT !.licenses = <<Lic("lw1")>>], <<"EditLicense", "add">>)
     \/ /\ mb.licenses # <<>>
        /\ \/ Content([mb EXCEPT !.licenses = <<>>], <<"EditLicense", "remove">>)
           \/ \E w \in LicTexts \ {mb.licenses[1].wikitext} :
                Content([mb EXCEPT !.licenses[1].wikitext = w], <<"EditLicense", "wikitext">>)

EditSource ==                         \* mb.source is <<>> or <<Source>>
  /\ Bounded
  /\ \/ /\ mb.source = <<>>
        /\ Content([mb EXCEPT !.source = <<Src("la1", None)>>], <<"EditSource", "add">>)
     \/ /\ mb.source # <<>>
        /\ \/ Content([mb EXCEPT !.source = <<>>], <<"EditSource", "remove">>)
           \/ \E l \in Langs \ {mb.source[1].lang} :
                Content([mb EXCEPT !.source[1].lang = l], <<"EditSource", "language">>)
           \/ Content([mb EXCEPT !.source[1].iw = IF @ = None THEN "i1" ELSE None], <<"EditSource", "interwiki">>)

\* ---- nearest-neighbour re-spelling of one string input (applied as one of the first TweakDepth edits)
HasText(v) == v \notin {None, "empty"}
TweakFields ==
  {"base_url", "title"}
  \cup (IF HasText(wiki.ext) THEN {"script_extension"} ELSE {})
  \cup (IF HasText(wiki.login) THEN {"login_credentials"} ELSE {})
  \cup (IF HasText(mb.subtitle) THEN {"subtitle"} ELSE {})
  \cup (IF HasText(mb.editor) THEN {"editor"} ELSE {})
  \cup (IF mb.items # <<>> THEN {"item_title"} ELSE {})
  \cup (IF mb.items # <<>> /\ mb.items[1].k = "a" /\ HasText(mb.items[1].dt) THEN {"displaytitle"} ELSE {})
  \cup (IF mb.wikis # <<>> THEN {"wikiconf_baseurl"} ELSE {})
  \cup (IF mb.licenses # <<>> THEN {"license_wikitext"} ELSE {})
  \cup (IF mb.source # <<>> THEN {"source_name"} ELSE {})
Tweak ==
  /\ Bounded /\ n < TweakDepth
  /\ \E f \in TweakFields, k \in TweakKinds :
       /\ tw' = [f |-> f, k |-> k] /\ n' = n + 1 /\ last' = <<"content", "Tweak", f, k>>
       /\ UNCHANGED <<mb, wiki, rep>>

\* ---- representation edits
PermuteKeys ==
  /\ Bounded
  /\ \E o \in KeyOrders \ {rep.keys} : Repr([rep EXCEPT !.keys = o], <<"PermuteKeys", o>>)
ChangeWhitespace ==
  /\ Bounded
  /\ \E w \in Indents \ {rep.indent} : Repr([rep EXCEPT !.indent = w], <<"ChangeWhitespace", w>>)
ToggleAsciiEscape ==
  /\ Bounded
  /\ Repr([rep EXCEPT !.ascii = ~rep.ascii], <<"ToggleAsciiEscape">>)
Reserialise ==
  /\ Bounded
  /\ \E s \in Sers \ {rep.ser} : Repr([rep EXCEPT !.ser = s], <<"Reserialise", s>>)
SpellDefaults ==                     \* write default-valued fields explicitly / null for absent ones, or omit them
  /\ Bounded
  /\ Repr([rep EXCEPT !.defaults = IF @ = "omit" THEN "explicit" ELSE "omit"], <<"SpellDefaults">>)

Next == \/ AppendArticle \/ AppendInChapter \/ AppendChapter \/ RemoveItem \/ SwapItems
        \/ ChangeRevision \/ ChangeTitle \/ WrapInChapter \/ SetOptional \/ ChangeWiki
        \/ AppendCustom \/ EditWikiConf \/ EditLicense \/ EditSource
        \/ Tweak
        \/ PermuteKeys \/ ChangeWhitespace \/ ToggleAsciiEscape \/ Reserialise \/ SpellDefaults
Spec == Init /\ [][Next]_vars

-----------------------------------------------------------------------------
\* shape of the content (what the harness may rely on)
TypeOK ==
  /\ mb.title \in Titles /\ mb.subtitle \in OptVals /\ mb.editor \in OptVals /\ mb.version \in VerVals
  /\ \A i \in DOMAIN mb.items :
       LET it == mb.items[i] IN
       CASE it.k = "a" -> it.title \in Titles /\ it.rev \in Revs /\ it.dt \in OptVals /\ it.ct \in CtVals
         [] it.k = "x" -> it.title \in Titles
         [] it.k = "c" -> /\ it.title \in Titles
                          /\ \A j \in DOMAIN it.items : it.items[j].k = "a" /\ it.items[j].title \in Titles
  /\ NArt(mb.items) <= MaxArticles /\ NChap(mb.items) <= MaxChapters
  /\ Len(mb.wikis) <= 2
  /\ \A i, j \in DOMAIN mb.wikis : i # j => mb.wikis[i].ident # mb.wikis[j].ident      \* get_wiki(ident) is unambiguous
  /\ Len(mb.licenses) <= 1 /\ Len(mb.source) <= 1
  /\ \A f \in DOMAIN SeedWiki : wiki[f] \in WikiDom[f]
  /\ OneComponent => WDiff(wiki) <= 1

\* oracle sanity, evaluated on every generated transition (ACTION_CONSTRAINT): a representation
\* edit preserves the identity, a content edit changes it, nothing else happens
EditLaw ==
  LET id == IdentOf(mb, wiki, rep, tw)  id2 == IdentOf(mb', wiki', rep', tw') IN
  /\ Assert(last'[1] \in {"rep", "content"}, "unclassified edit")
  /\ Assert(last'[1] = "rep" => id2 = id, "a representation edit changed the identity")
  /\ Assert(last'[1] = "content" => id2 # id, "a content edit left the identity unchanged")
  /\ Assert(last'[1] = "rep" => rep' # rep /\ tw' = tw, "a representation edit that changes nothing")

State(m, w, r, t) == [mb |-> m, wiki |-> w, rep |-> r, tw |-> t]
EmitSeed ==
  (Emit /\ n = 0) => PrintT(EmitPrefix \o ToJson([seed |-> State(mb, wiki, rep, tw)]))
EmitEdge ==
  Emit => PrintT(EmitPrefix \o ToJson([a |-> last', n |-> n', s |-> State(mb, wiki, rep, tw), d |-> State(mb', wiki', rep', tw')]))
=============================================================================
