------------------------------ MODULE Metabook ------------------------------
(* C13 — metabooks round-trip through JSON and identify collections deterministically.

   A render REQUEST is  content + representation:
     content         mb   = [title, subtitle, editor, items]           the collection
                            items: sequence of Article [k="a", title, rev, dt]
                                               or Chapter [k="c", title, items (articles)]
                     wiki = [url, ext, login]                          the wiki coordinates
     representation  rep  = [keys, indent, ascii, ser]                 how the JSON text is written:
                            key order, whitespace, non-ASCII escaped or not, and who serialised it
                            (the client / mwlib's myjson.dumps / Collection.dumps after loads)
   Titles, revisions, URLs are abstract names; checks/c13.py maps them to real (Unicode) strings.
   "none" stands for an absent optional field.

   Two kinds of actions: CONTENT edits (append / remove / swap article, change a revision or a
   title, wrap an article in a chapter, set / unset an optional field, change the wiki
   coordinates) and REPRESENTATION edits (permute keys, change indentation, escape or not,
   re-serialise).  The identity the property demands is the content itself:  Ident == <<mb, wiki>>.
   TLC checks (oracle sanity, every generated transition): representation edits preserve Ident,
   content edits change it; and enumerates the edit graph to MaxDepth from a few seed books.
   checks/c13.py executes every state and every transition on the real myjson / metabook /
   make_collection_id:  id equal across representation edges, different across content edges,
   loads(dumps(x)) projects to the same abstract content, dumps is a fixed point, and two
   independently built equal metabooks share no mutable list. *)
EXTENDS Naturals, Sequences, FiniteSets, TLC, Json

CONSTANTS MaxDepth,      \* length of edit paths explored from each seed
          MaxArticles,   \* articles per metabook (all levels)
          MaxChapters,
          Titles,        \* abstract titles, e.g. {"t1","t2","t3"}
          Revs,          \* revisions incl. "none"
          SeedIds,       \* subset of DOMAIN SeedBook
          Emit,          \* TRUE: print seeds and transitions as JSON
          EmitPrefix,    \* marker in front of every printed JSON line
          IdentMode      \* "content" in the reference; "no-revision" / "with-keyorder" re-introduce
                         \* defect classes (a field left out of the id; unsorted dump feeding the id)

VARIABLES mb, wiki, rep, n, last
vars == <<mb, wiki, rep, n, last>>
View == <<mb, wiki, rep>>

None == "none"
Urls     == {"u1", "u2"}
Exts     == {None, "e1"}
Logins   == {None, "l1"}
OptVals  == {None, "o1"}
KeyOrders == {"sorted", "reversed", "shuffled"}
Indents   == {"compact", "i1", "i4", "airy"}
Sers      == {"client", "myjson", "coll"}

Art(t, r, d) == [k |-> "a", title |-> t, rev |-> r, dt |-> d]
Chap(t, its) == [k |-> "c", title |-> t, items |-> its]

SeedBook ==
  [ empty   |-> <<>>,
    one     |-> <<Art("t1", None, None)>>,
    two     |-> <<Art("t1", None, None), Art("t2", "r1", "o1")>>,
    nested  |-> <<Chap("t3", <<Art("t1", None, None), Art("t2", None, None)>>), Art("t1", "r1", None)>>,
    twochap |-> <<Chap("t1", <<Art("t2", "r1", None)>>), Chap("t2", <<>>)>> ]

-----------------------------------------------------------------------------
RECURSIVE NArt(_)
NArt(its) == IF its = <<>> THEN 0
             ELSE (IF Head(its).k = "a" THEN 1 ELSE Len(Head(its).items)) + NArt(Tail(its))
NChap(its) == Cardinality({i \in DOMAIN its : its[i].k = "c"})

RemoveAt(s, i) == SubSeq(s, 1, i - 1) \o SubSeq(s, i + 1, Len(s))
SwapAt(s, i)   == [s EXCEPT ![i] = s[i + 1], ![i + 1] = s[i]]

\* the identity the property demands: the content and the wiki coordinates, nothing else
DropRevs(its) == [i \in DOMAIN its |->
                    IF its[i].k = "a" THEN [its[i] EXCEPT !.rev = None]
                    ELSE [its[i] EXCEPT !.items = [j \in DOMAIN its[i].items |-> [its[i].items[j] EXCEPT !.rev = None]]]]
IdentOf(m, w, r) ==
  CASE IdentMode = "content"       -> <<m, w>>
    [] IdentMode = "no-revision"   -> <<[m EXCEPT !.items = DropRevs(m.items)], w>>
    [] IdentMode = "with-keyorder" -> <<m, w, r.keys>>
Ident == IdentOf(mb, wiki, rep)

-----------------------------------------------------------------------------
Init ==
  /\ \E s \in SeedIds : mb = [title |-> "t1", subtitle |-> None, editor |-> None, items |-> SeedBook[s]]
  /\ wiki = [url |-> "u1", ext |-> None, login |-> None]
  /\ rep = [keys |-> "sorted", indent |-> "compact", ascii |-> TRUE, ser |-> "client"]
  /\ n = 0
  /\ last = <<"seed", "seed">>

\* every action starts with the conjunct Bounded so that TLC attributes coverage to the action
Bounded == n < MaxDepth
Content(newmb, label) == /\ mb' = newmb /\ n' = n + 1 /\ last' = <<"content">> \o label
                         /\ UNCHANGED <<wiki, rep>>
Coord(neww, label)    == /\ wiki' = neww /\ n' = n + 1 /\ last' = <<"content">> \o label
                         /\ UNCHANGED <<mb, rep>>
Repr(newrep, label)   == /\ rep' = newrep /\ n' = n + 1 /\ last' = <<"rep">> \o label
                         /\ UNCHANGED <<mb, wiki>>
Items(its) == [mb EXCEPT !.items = its]
IsChap(i) == mb.items[i].k = "c"

\* ---- content edits
AppendArticle ==
  /\ Bounded /\ NArt(mb.items) < MaxArticles
  /\ \E t \in Titles, r \in Revs :
       Content(Items(Append(mb.items, Art(t, r, None))), <<"AppendArticle", "top">>)

AppendInChapter ==
  /\ Bounded /\ NArt(mb.items) < MaxArticles
  /\ \E i \in DOMAIN mb.items : \E t \in Titles :
       /\ IsChap(i)
       /\ Content(Items([mb.items EXCEPT ![i].items = Append(@, Art(t, None, None))]), <<"AppendArticle", "chapter">>)

AppendChapter ==
  /\ Bounded /\ NChap(mb.items) < MaxChapters
  /\ \E t \in Titles : Content(Items(Append(mb.items, Chap(t, <<>>))), <<"AppendChapter">>)

RemoveItem ==
  /\ Bounded
  /\ \E i \in DOMAIN mb.items :
       \/ Content(Items(RemoveAt(mb.items, i)), <<"RemoveItem", IF IsChap(i) THEN "chapter" ELSE "top">>)
       \/ /\ IsChap(i)
          /\ \E j \in DOMAIN mb.items[i].items :
               Content(Items([mb.items EXCEPT ![i].items = RemoveAt(@, j)]), <<"RemoveItem", "in-chapter">>)

SwapItems ==                         \* swapping two equal neighbours would not be an edit
  /\ Bounded
  /\ \E i \in DOMAIN mb.items :
       \/ /\ i < Len(mb.items) /\ mb.items[i] # mb.items[i + 1]
          /\ Content(Items(SwapAt(mb.items, i)), <<"SwapItems", "top">>)
       \/ /\ IsChap(i)
          /\ \E j \in DOMAIN mb.items[i].items :
               /\ j < Len(mb.items[i].items) /\ mb.items[i].items[j] # mb.items[i].items[j + 1]
               /\ Content(Items([mb.items EXCEPT ![i].items = SwapAt(@, j)]), <<"SwapItems", "in-chapter">>)

ChangeRevision ==
  /\ Bounded
  /\ \E i \in DOMAIN mb.items :
       \/ /\ ~IsChap(i)
          /\ \E r \in Revs \ {mb.items[i].rev} :
               Content(Items([mb.items EXCEPT ![i].rev = r]), <<"ChangeRevision", "top">>)
       \/ /\ IsChap(i)
          /\ \E j \in DOMAIN mb.items[i].items : \E r \in Revs \ {mb.items[i].items[j].rev} :
               Content(Items([mb.items EXCEPT ![i].items[j].rev = r]), <<"ChangeRevision", "in-chapter">>)

ChangeTitle ==
  /\ Bounded
  /\ \/ \E t \in Titles \ {mb.title} : Content([mb EXCEPT !.title = t], <<"ChangeTitle", "collection">>)
     \/ \E i \in DOMAIN mb.items :
          \/ \E t \in Titles \ {mb.items[i].title} :
               Content(Items([mb.items EXCEPT ![i].title = t]), <<"ChangeTitle", IF IsChap(i) THEN "chapter" ELSE "article">>)
          \/ /\ IsChap(i)
             /\ \E j \in DOMAIN mb.items[i].items : \E t \in Titles \ {mb.items[i].items[j].title} :
                  Content(Items([mb.items EXCEPT ![i].items[j].title = t]), <<"ChangeTitle", "article-in-chapter">>)

WrapInChapter ==
  /\ Bounded /\ NChap(mb.items) < MaxChapters
  /\ \E i \in DOMAIN mb.items : \E t \in Titles :
       /\ ~IsChap(i)
       /\ Content(Items([mb.items EXCEPT ![i] = Chap(t, <<mb.items[i]>>)]), <<"WrapInChapter">>)

SetOptional ==                       \* set or unset ("none") an optional field
  /\ Bounded
  /\ \/ \E v \in OptVals \ {mb.subtitle} : Content([mb EXCEPT !.subtitle = v], <<"SetOptional", "subtitle">>)
     \/ \E v \in OptVals \ {mb.editor} : Content([mb EXCEPT !.editor = v], <<"SetOptional", "editor">>)
     \/ \E i \in DOMAIN mb.items :
          /\ ~IsChap(i)
          /\ \E v \in OptVals \ {mb.items[i].dt} :
               Content(Items([mb.items EXCEPT ![i].dt = v]), <<"SetOptional", "displaytitle">>)

ChangeWiki ==
  /\ Bounded
  /\ \/ \E u \in Urls \ {wiki.url} : Coord([wiki EXCEPT !.url = u], <<"ChangeWiki", "base_url">>)
     \/ \E e \in Exts \ {wiki.ext} : Coord([wiki EXCEPT !.ext = e], <<"ChangeWiki", "script_extension">>)
     \/ \E l \in Logins \ {wiki.login} : Coord([wiki EXCEPT !.login = l], <<"ChangeWiki", "login_credentials">>)

\* ---- representation edits
PermuteKeys ==
  /\ Bounded
  /\ \E o \in KeyOrders \ {rep.keys} : Repr([rep EXCEPT !.keys = o], <<"PermuteKeys", o>>)
ChangeWhitespace ==
  /\ Bounded
  /\ \E w \in Indents \ {rep.indent} : Repr([rep EXCEPT !.indent = w], <<"ChangeWhitespace", w>>)
ToggleAsciiEscape ==
  /\ Bounded
  /\ Repr([rep EXCEPT !.ascii = ~rep.ascii], <<"ToggleAsciiEscape">>)
Reserialise ==
  /\ Bounded
  /\ \E s \in Sers \ {rep.ser} : Repr([rep EXCEPT !.ser = s], <<"Reserialise", s>>)

Next == \/ AppendArticle \/ AppendInChapter \/ AppendChapter \/ RemoveItem \/ SwapItems
        \/ ChangeRevision \/ ChangeTitle \/ WrapInChapter \/ SetOptional \/ ChangeWiki
        \/ PermuteKeys \/ ChangeWhitespace \/ ToggleAsciiEscape \/ Reserialise
Spec == Init /\ [][Next]_vars

-----------------------------------------------------------------------------
\* shape of the content (what the harness may rely on)
TypeOK ==
  /\ mb.title \in Titles /\ mb.subtitle \in OptVals /\ mb.editor \in OptVals
  /\ \A i \in DOMAIN mb.items :
       LET it == mb.items[i] IN
       IF it.k = "a" THEN it.title \in Titles /\ it.rev \in Revs /\ it.dt \in OptVals
       ELSE /\ it.title \in Titles
            /\ \A j \in DOMAIN it.items : it.items[j].k = "a" /\ it.items[j].title \in Titles
  /\ NArt(mb.items) <= MaxArticles /\ NChap(mb.items) <= MaxChapters
  /\ wiki.url \in Urls /\ wiki.ext \in Exts /\ wiki.login \in Logins

\* oracle sanity, evaluated on every generated transition (ACTION_CONSTRAINT): a representation
\* edit preserves the identity, a content edit changes it, nothing else happens
EditLaw ==
  LET id == IdentOf(mb, wiki, rep)  id2 == IdentOf(mb', wiki', rep') IN
  /\ Assert(last'[1] \in {"rep", "content"}, "unclassified edit")
  /\ Assert(last'[1] = "rep" => id2 = id, "a representation edit changed the identity")
  /\ Assert(last'[1] = "content" => id2 # id, "a content edit left the identity unchanged")
  /\ Assert(last'[1] = "rep" => rep' # rep, "a representation edit that changes nothing")

State(m, w, r) == [mb |-> m, wiki |-> w, rep |-> r]
EmitSeed ==
  (Emit /\ n = 0) => PrintT(EmitPrefix \o ToJson([seed |-> State(mb, wiki, rep)]))
EmitEdge ==
  Emit => PrintT(EmitPrefix \o ToJson([a |-> last', n |-> n', s |-> State(mb, wiki, rep), d |-> State(mb', wiki', rep')]))
=============================================================================
