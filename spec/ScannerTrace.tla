--------------------------- MODULE ScannerTrace ---------------------------
(* P-TRACE for C10: every token list the real scanner produced is validated as a behaviour of
   Scanner.tla.  The batch file (IOEnv.TRACE_FILE) is a JSON array of traces

       {"n": <code points>, "e": [offsets of U+EBAD], "z": [offsets of U+0000],
        "ev": [[type, start, len], ..., [0, 0, 0]]}

   one event per token in the order returned, then [0,0,0] = "scan() returned t_end" (type 0 is
   t_end, which found() never records).  tid picks the trace, l is the next event.  Deadlock
   checking is ON: the only legal way to stop is Done (trace consumed and Stop taken), so a
   deadlock means the event Batch[tid].ev[l] is not a step Scanner.tla allows. *)
EXTENDS Scanner, Json, IOUtils

CONSTANT Diagnose      \* TRUE: re-run of one rejected trace; every guard is wrapped in Assert and named

Batch == JsonDeserialize(IOEnv.TRACE_FILE)

VARIABLES tid, l
tvars == <<input, cursor, emitted, stopped, tid, l>>

Tr == Batch[tid]
Ev == Tr.ev[l]
Elems(s) == {s[i] : i \in 1..Len(s)}

InputOf(tr) == LET eb == Elems(tr.e)
                   nu == Elems(tr.z) IN
               [i \in 1..tr.n |-> IF (i - 1) \in eb THEN "E" ELSE IF (i - 1) \in nu THEN "N" ELSE "o"]

TraceInit == /\ tid \in 1..Len(Batch)
             /\ l = 1
             /\ input = InputOf(Batch[tid])
             /\ cursor = 0
             /\ emitted = <<>>
             /\ stopped = FALSE

IsStop(ev) == ev[1] = 0
Advance == l' = l + 1 /\ tid' = tid

TrEmit == /\ l <= Len(Tr.ev)
          /\ ~IsStop(Ev)
          /\ Emit(Ev[1], Ev[2], Ev[3])
          /\ Advance

TrStop == /\ l <= Len(Tr.ev)
          /\ IsStop(Ev)
          /\ Stop
          /\ Advance

\* diagnosis: same steps, but a guard that fails raises a named assertion instead of disabling
DiagEmit == /\ l <= Len(Tr.ev)
            /\ ~IsStop(Ev)
            /\ Assert(~stopped, "token after the scanner stopped")
            /\ Assert(Ev[3] > 0, "empty token")
            /\ Assert(Ev[2] >= cursor, "token starts before the end of the previous one (overlap / disorder)")
            /\ Assert(Ev[2] + Ev[3] <= Limit, "token runs past the first NUL / the end of the text")
            /\ Assert(OnlySkippable(cursor, Ev[2]), "a character that is not U+EBAD lies between two tokens (lost)")
            /\ Emit(Ev[1], Ev[2], Ev[3])
            /\ Advance
DiagStop == /\ l <= Len(Tr.ev)
            /\ IsStop(Ev)
            /\ Assert(OnlySkippable(cursor, Limit), "scanner stopped before the end of the text / the first NUL (tail lost)")
            /\ Stop
            /\ Advance

Consumed == l = Len(Tr.ev) + 1
Done == Consumed /\ stopped /\ UNCHANGED tvars

\* the invariants whose evaluation is quadratic in the number of tokens are checked once per trace
AtStopGaps     == stopped => GapsAreEbad
AtStopLossless == Lossless
AtStopConcat   == stopped => ConcatIsInput

TraceNext == IF Diagnose THEN DiagEmit \/ DiagStop \/ Done
             ELSE TrEmit \/ TrStop \/ Done
TraceSpec == TraceInit /\ [][TraceNext]_tvars
=============================================================================
