----------------------------- MODULE Apostrophes -----------------------------
(* Beyond the listed properties: how runs of apostrophes become bold / italic switches -
   mwlib.parser.styleanalyzer.compute_path (used by refine's parse_style).

   A run of n apostrophes may be read in several ways (get_next):
       2: italic switch                       3: bold switch  |  one literal ' + italic switch
       4: one literal ' + a run of 3          5: italic+bold in either order  |  a run of 4 (one literal ')
       n > 5: n - 5 literal ' + a run of 5
   A reading of a whole line is a path through states (literal apostrophes so far, bold?, italic?);
   its cost is literal apostrophes + styles left open.  compute_path keeps a LIST of candidate
   states (duplicates included), after every run keeps only the best one if that one is clean
   (cost 0), otherwise the best 32 (ties broken arbitrarily), and returns a cheapest survivor.

   `reach` is the full set of states any reading can be in (no pruning): the reference.
   `cand` is the candidate list of the implementation as long as no beam cut happened (`cut`).
   Claim checked by TLC: as long as no cut happened, pruning to a clean state never loses the
   optimum (PruningIsSafe).  After a cut the implementation is a heuristic; the replay then only
   asks that the path is a reading at all and no cheaper than the optimum. *)
EXTENDS Naturals, Sequences, FiniteSets, TLC, Json

CONSTANTS Counts, MaxLen, Beam, EmitCases

VARIABLES counts, cand, reach, cut
vars == <<counts, cand, reach, cut>>

Clean == [a |-> 0, b |-> FALSE, i |-> FALSE]
Cost(s) == s.a + (IF s.b THEN 1 ELSE 0) + (IF s.i THEN 1 ELSE 0)
TI(s) == [s EXCEPT !.i = ~s.i]
TB(s) == [s EXCEPT !.b = ~s.b]
Apo(s, n) == [s EXCEPT !.a = s.a + n]

RECURSIVE Flat(_)
Flat(ss) == IF ss = <<>> THEN <<>> ELSE Head(ss) \o Flat(Tail(ss))
RECURSIVE N(_, _)
N(s, c) == CASE c = 2 -> <<TI(s)>>
             [] c = 3 -> <<TB(s)>> \o N(Apo(s, 1), 2)
             [] c = 4 -> N(Apo(s, 1), 3)
             [] c = 5 -> Flat([k \in 1..Len(N(s, 2)) |-> N(N(s, 2)[k], 3)])
                         \o Flat([k \in 1..Len(N(s, 3)) |-> N(N(s, 3)[k], 2)])
                         \o N(s, 4)
             [] OTHER -> N(Apo(s, c - 5), 5)
Range(sq) == {sq[k] : k \in 1..Len(sq)}
MinCost(S) == CHOOSE m \in {Cost(s) : s \in S} : \A s \in S : m <= Cost(s)

Init == counts = <<>> /\ cand = <<Clean>> /\ reach = {Clean} /\ cut = FALSE

Step(c) ==
  /\ Len(counts) < MaxLen
  /\ counts' = Append(counts, c)
  /\ reach' = UNION {Range(N(s, c)) : s \in reach}
  /\ LET new == Flat([k \in 1..Len(cand) |-> N(cand[k], c)]) IN
     IF cut THEN cand' = cand /\ cut' = cut
     ELSE IF MinCost(Range(new)) = 0 THEN cand' = <<Clean>> /\ cut' = FALSE
     ELSE IF Len(new) > Beam THEN cand' = <<>> /\ cut' = TRUE
     ELSE cand' = new /\ cut' = FALSE
Next == \E c \in Counts : Step(c)
Spec == Init /\ [][Next]_vars

-----------------------------------------------------------------------------
(* keeping only a clean candidate never loses the cheapest reading *)
PruningIsSafe == ~cut => MinCost(Range(cand)) = MinCost(reach)
(* every candidate is a reading *)
CandidatesAreReadings == ~cut => Range(cand) \subseteq reach

Emit == (EmitCases /\ counts # <<>>) =>
   PrintT("@@" \o ToJson([counts |-> counts, opt |-> MinCost(reach), cut |-> cut,
                          reach |-> {<<s.a, s.b, s.i>> : s \in reach}]))
=============================================================================
