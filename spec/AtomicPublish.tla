--------------------------- MODULE AtomicPublish ---------------------------
(* C20 — output files appear atomically: a crash never leaves a partial file.

   A file system (directory entries -> inodes -> content as a sequence of chunks) and ONE process
   with a user-space write buffer.  Kernel-level effects happen only in Flush / Close / Rename /
   Unlink / Open(trunc); BufWrite touches the buffer only.  Crash (SIGKILL) is enabled in every
   state: the buffer vanishes, the file system stays as it is.  An injected I/O error
   (ENOSPC / EIO, at most MaxErrors per behaviour) makes the operation at hand fail - a failing
   write may have written a prefix - and sends the producer down its exception path.

   Producer protocols, transcribed from the code (labels = pc):

     status     utils/status.py Status.dump           open(<file>.tmp,'w') write close rename
                                                      error: log + raise (temp left behind)
     download   network/transport.py                  open(path+'·','wb') write* close rename
                download_with_retries                 error: log + raise (temp left behind)
     createzip  apps/buildzip.py ZipCreator.create_zip  mkstemp(dir of output) os.close
                                                      ZipFile(temp,'w') write* close rename
                                                      error inside try: safe_unlink(temp) + raise
     makezip    apps/buildzip.py make_zip             as createzip with os.replace; the tmpdir
                                                      (mkdtemp next to the output, rmtree at the
                                                      end) lives on other paths and is invisible
                                                      to the final name
     render     apps/render.py main                   mkstemp(dir of output, suffix) os.close
                                                      writer(output=temp): open write* close
                                                      rename; error: traceback + raise (temp left)
     generic    not a transcription: ANY process that obeys the publication discipline (data is
                only written through handles on non-final names, the final name changes only by
                renaming a closed, complete file onto it or by unlinking it).  It is the envelope
                used to tell a changed-but-safe producer from a broken one in trace validation.

   A producer may run again after it finished or failed (rounds): the status file is rewritten
   constantly, a failed download or zip is retried by a later run, and a stale temp file from a
   failed round is then in the way of a fixed temp name.

   Published (the property): in EVERY state, crashed or not, the final path is absent or holds a
   complete version (the previous one or the one of some round).

   Defect switches re-introduce the Must-detect classes for the non-vacuity runs:
   DirectWrite, RenameBeforeClose, SwallowError.  All FALSE in the reference. *)
EXTENDS Naturals, Sequences, FiniteSets, TLC

CONSTANTS Producers,          \* subset of {"status","download","createzip","makezip","render","generic"}
          NChunks,            \* chunks per version
          MaxRounds,          \* how often the producer runs
          PreviousChoices,    \* subset of BOOLEAN: does a previous version exist
          MaxErrors,          \* injected I/O errors per behaviour
          CrashEnabled,
          DirectWrite, RenameBeforeClose, SwallowError

VARIABLES producer, dir, idata, nextino, fd, pc, round, wr, alive, nerr
vars == <<producer, dir, idata, nextino, fd, pc, round, wr, alive, nerr>>

Paths  == {"final", "tmp1", "tmp2"}
MaxIno == 2 + 2 * MaxRounds
Closed == [open |-> FALSE, ino |-> 0, buf |-> <<>>]

Prev        == <<0>>
Chunk(v, i) == v * 100 + i
Complete(v) == [i \in 1..NChunks |-> Chunk(v, i)]
IsWhole(s)  == s = Prev \/ \E v \in 1..MaxRounds : s = Complete(v)

Proto(p) == CASE p = "status"    -> [mk |-> FALSE, cleanup |-> FALSE]
              [] p = "download"  -> [mk |-> FALSE, cleanup |-> FALSE]
              [] p = "createzip" -> [mk |-> TRUE,  cleanup |-> TRUE]
              [] p = "makezip"   -> [mk |-> TRUE,  cleanup |-> TRUE]
              [] p = "render"    -> [mk |-> TRUE,  cleanup |-> FALSE]
              [] OTHER           -> [mk |-> FALSE, cleanup |-> FALSE]

Tmp     == IF Proto(producer).mk /\ round > 1 THEN "tmp2" ELSE "tmp1"   \* mkstemp picks a fresh name
Target  == IF DirectWrite THEN "final" ELSE Tmp
Start   == IF producer = "generic" THEN "g" ELSE IF Proto(producer).mk THEN "mkstemp" ELSE "open"
Handler == IF Proto(producer).cleanup THEN "cleanup" ELSE "failed"
CanErr  == nerr < MaxErrors
Prefixes(s) == {SubSeq(s, 1, k) : k \in 0..Len(s)}
ProperPrefixes(s) == {SubSeq(s, 1, k) : k \in 0..(Len(s) - 1)}

Init == /\ producer \in Producers
        /\ \E wp \in PreviousChoices :
             dir = [p \in Paths |-> IF p = "final" /\ wp THEN 1 ELSE 0]
        /\ idata = [i \in 1..MaxIno |-> IF i = 1 THEN Prev ELSE <<>>]
        /\ nextino = 2
        /\ fd = Closed /\ round = 1 /\ wr = 1 /\ alive = TRUE /\ nerr = 0
        /\ pc = Start

-----------------------------------------------------------------------------
(* file-system primitives *)
OpenOn(p) ==        \* open(p, O_CREAT|O_TRUNC): truncate an existing inode or make a new one
  IF dir[p] # 0
  THEN /\ idata' = [idata EXCEPT ![dir[p]] = <<>>]
       /\ fd' = [open |-> TRUE, ino |-> dir[p], buf |-> <<>>]
       /\ UNCHANGED <<dir, nextino>>
  ELSE /\ dir' = [dir EXCEPT ![p] = nextino]
       /\ idata' = [idata EXCEPT ![nextino] = <<>>]
       /\ fd' = [open |-> TRUE, ino |-> nextino, buf |-> <<>>]
       /\ nextino' = nextino + 1
FlushAll    == idata' = [idata EXCEPT ![fd.ino] = @ \o fd.buf]
RenameFx(a) == dir' = [dir EXCEPT !["final"] = dir[a], ![a] = 0]
Fail        == nerr' = nerr + 1

-----------------------------------------------------------------------------
(* the transcribed producers *)
Live(l) == alive /\ producer # "generic" /\ pc = l

Mkstemp    == /\ Live("mkstemp") /\ dir[Tmp] = 0 /\ OpenOn(Tmp) /\ pc' = "close0"
              /\ UNCHANGED <<producer, round, wr, alive, nerr>>
MkstempErr == /\ Live("mkstemp") /\ CanErr /\ Fail /\ pc' = "failed"
              /\ UNCHANGED <<producer, dir, idata, nextino, fd, round, wr, alive>>
Close0     == /\ Live("close0") /\ fd' = Closed /\ pc' = "open"
              /\ UNCHANGED <<producer, dir, idata, nextino, round, wr, alive, nerr>>
Close0Err  == /\ Live("close0") /\ CanErr /\ Fail /\ fd' = Closed /\ pc' = "failed"   \* os.close is outside the try
              /\ UNCHANGED <<producer, dir, idata, nextino, round, wr, alive>>
Open       == /\ Live("open") /\ OpenOn(Target) /\ wr' = 1 /\ pc' = "write"
              /\ UNCHANGED <<producer, round, alive, nerr>>
OpenErr    == /\ Live("open") /\ CanErr /\ Fail /\ pc' = Handler
              /\ UNCHANGED <<producer, dir, idata, nextino, fd, round, wr, alive>>
\* zipfile.ZipFile.__init__ retries a failing open once with its fallback mode ('w+b' -> 'wb')
OpenRetry  == /\ Live("open") /\ Proto(producer).mk /\ CanErr /\ Fail
              /\ UNCHANGED <<producer, dir, idata, nextino, fd, pc, round, wr, alive>>
BufWrite   == /\ Live("write") /\ wr <= NChunks
              /\ fd' = [fd EXCEPT !.buf = Append(@, Chunk(round, wr))] /\ wr' = wr + 1
              /\ UNCHANGED <<producer, dir, idata, nextino, pc, round, alive, nerr>>
Flush      == /\ alive /\ producer # "generic" /\ pc \in {"write", "unwind"} /\ fd.open /\ fd.buf # <<>>
              /\ FlushAll /\ fd' = [fd EXCEPT !.buf = <<>>]
              /\ UNCHANGED <<producer, dir, nextino, pc, round, wr, alive, nerr>>
\* a failing write(2): some prefix reached the file, the rest stays in the buffer; the exception
\* leaves the `with` block / ZipFile.__exit__, which closes the handle (pc = "unwind")
FlushErr   == /\ Live("write") /\ fd.open /\ fd.buf # <<>> /\ CanErr /\ Fail
              /\ \E pre \in ProperPrefixes(fd.buf) :
                   /\ idata' = [idata EXCEPT ![fd.ino] = @ \o pre]
                   /\ fd' = [fd EXCEPT !.buf = IF SwallowError THEN <<>> ELSE SubSeq(fd.buf, Len(pre) + 1, Len(fd.buf))]
              /\ pc' = IF SwallowError THEN "write" ELSE "unwind"
              /\ UNCHANGED <<producer, dir, nextino, round, wr, alive>>
UnwindClose == /\ Live("unwind") /\ fd.open
               /\ \E pre \in Prefixes(fd.buf) : idata' = [idata EXCEPT ![fd.ino] = @ \o pre]
               /\ fd' = Closed /\ pc' = Handler
               /\ UNCHANGED <<producer, dir, nextino, round, wr, alive, nerr>>
Close      == /\ Live("write") /\ wr > NChunks /\ ~RenameBeforeClose
              /\ FlushAll /\ fd' = Closed /\ pc' = "rename"
              /\ UNCHANGED <<producer, dir, nextino, round, wr, alive, nerr>>
CloseErr   == /\ Live("write") /\ wr > NChunks /\ ~RenameBeforeClose /\ CanErr /\ Fail
              /\ \E pre \in (IF fd.buf = <<>> THEN {<<>>} ELSE ProperPrefixes(fd.buf)) :
                   idata' = [idata EXCEPT ![fd.ino] = @ \o pre]
              /\ fd' = Closed /\ pc' = IF SwallowError THEN "rename" ELSE Handler
              /\ UNCHANGED <<producer, dir, nextino, round, wr, alive>>
Rename     == /\ Live("rename")
              /\ (IF DirectWrite THEN UNCHANGED dir ELSE RenameFx(Tmp))
              /\ pc' = "done"
              /\ UNCHANGED <<producer, idata, nextino, fd, round, wr, alive, nerr>>
RenameErr  == /\ Live("rename") /\ CanErr /\ Fail /\ pc' = Handler
              /\ UNCHANGED <<producer, dir, idata, nextino, fd, round, wr, alive>>
\* the rl writer renders again (fail-safe mode) into the same temp after a failed attempt
\* (bounded through the error budget: it only happens in reaction to an error)
Rerender   == /\ alive /\ producer = "render" /\ pc \in {"rename", "failed"} /\ nerr > 0 /\ CanErr /\ Fail /\ pc' = "open"
              /\ UNCHANGED <<producer, dir, idata, nextino, fd, round, wr, alive>>
\* defect class: rename while the handle is still open and the buffer not yet flushed
RenameEarly == /\ Live("write") /\ wr > NChunks /\ RenameBeforeClose /\ ~DirectWrite
               /\ RenameFx(Tmp) /\ pc' = "lateclose"
               /\ UNCHANGED <<producer, idata, nextino, fd, round, wr, alive, nerr>>
LateClose  == /\ Live("lateclose") /\ FlushAll /\ fd' = Closed /\ pc' = "done"
              /\ UNCHANGED <<producer, dir, nextino, round, wr, alive, nerr>>
Cleanup    == /\ Live("cleanup") /\ dir' = [dir EXCEPT ![Tmp] = 0] /\ pc' = "failed"   \* safe_unlink(temp)
              /\ UNCHANGED <<producer, idata, nextino, fd, round, wr, alive, nerr>>
CleanupErr == /\ Live("cleanup") /\ CanErr /\ Fail /\ pc' = "failed"                   \* the unlink error is swallowed
              /\ UNCHANGED <<producer, dir, idata, nextino, fd, round, wr, alive>>
\* make_zip only: a failing call on the tmpdir next to the output (make_nuwiki raising before the
\* temp zip exists; zip_dir failing to read a source file; rmtree(ignore_errors) at the end)
SubFail    == /\ alive /\ producer = "makezip" /\ pc \in {"mkstemp", "write", "done", "failed"} /\ CanErr /\ Fail
              /\ pc' = (CASE pc = "mkstemp" -> "failed" [] pc = "write" -> "unwind" [] OTHER -> pc)
              /\ UNCHANGED <<producer, dir, idata, nextino, fd, round, wr, alive>>
NextRound  == /\ alive /\ producer # "generic" /\ pc \in {"done", "failed"} /\ round < MaxRounds
              /\ round' = round + 1 /\ wr' = 1 /\ pc' = Start
              /\ UNCHANGED <<producer, dir, idata, nextino, fd, alive, nerr>>

-----------------------------------------------------------------------------
(* the generic discipline: anything goes on temp names; the final name only receives a closed,
   complete temp by rename, or is unlinked *)
G == alive /\ producer = "generic" /\ pc = "g"
GOpen(p)   == /\ G /\ ~fd.open /\ p \in {"tmp1", "tmp2"} /\ OpenOn(p) /\ wr' = 1
              /\ (dir[p] # 0 \/ nextino <= MaxIno)            \* bound of the model, not of the discipline
              /\ UNCHANGED <<producer, pc, round, alive, nerr>>
GBufWrite  == /\ G /\ fd.open /\ wr <= NChunks
              /\ fd' = [fd EXCEPT !.buf = Append(@, Chunk(round, wr))] /\ wr' = wr + 1
              /\ UNCHANGED <<producer, dir, idata, nextino, pc, round, alive, nerr>>
GFlush     == /\ G /\ fd.open /\ fd.buf # <<>>
              /\ \E pre \in Prefixes(fd.buf) \ {<<>>} :
                   /\ idata' = [idata EXCEPT ![fd.ino] = @ \o pre]
                   /\ fd' = [fd EXCEPT !.buf = SubSeq(fd.buf, Len(pre) + 1, Len(fd.buf))]
              /\ UNCHANGED <<producer, dir, nextino, pc, round, wr, alive, nerr>>
GFlushErr  == /\ G /\ fd.open /\ CanErr /\ Fail                                   \* nothing written
              /\ UNCHANGED <<producer, dir, idata, nextino, fd, pc, round, wr, alive>>
GClose     == /\ G /\ fd.open
              /\ \E pre \in Prefixes(fd.buf) : idata' = [idata EXCEPT ![fd.ino] = @ \o pre]
              /\ fd' = Closed
              /\ UNCHANGED <<producer, dir, nextino, pc, round, wr, alive, nerr>>
GCloseErr  == /\ G /\ fd.open /\ CanErr /\ Fail /\ fd' = Closed              \* the handle is gone, its buffer lost
              /\ UNCHANGED <<producer, dir, idata, nextino, pc, round, wr, alive>>
GRename(p) == /\ G /\ p \in {"tmp1", "tmp2"} /\ dir[p] # 0
              /\ (~fd.open \/ fd.ino # dir[p])               \* the temp is closed
              /\ IsWhole(idata[dir[p]])                      \* and complete
              /\ RenameFx(p)
              /\ UNCHANGED <<producer, idata, nextino, fd, pc, round, wr, alive, nerr>>
GUnlink(p) == /\ G /\ p \in Paths /\ dir[p] # 0 /\ dir' = [dir EXCEPT ![p] = 0]
              /\ UNCHANGED <<producer, idata, nextino, fd, pc, round, wr, alive, nerr>>
GErr       == /\ G /\ CanErr /\ Fail                                               \* any other failing call
              /\ UNCHANGED <<producer, dir, idata, nextino, fd, pc, round, wr, alive>>
GNextRound == /\ G /\ ~fd.open /\ round < MaxRounds /\ round' = round + 1 /\ wr' = 1
              /\ UNCHANGED <<producer, dir, idata, nextino, fd, pc, alive, nerr>>

Crash == /\ alive /\ CrashEnabled /\ alive' = FALSE /\ fd' = Closed
         /\ UNCHANGED <<producer, dir, idata, nextino, pc, round, wr, nerr>>

Next == \/ Mkstemp \/ MkstempErr \/ Close0 \/ Close0Err \/ Open \/ OpenErr \/ OpenRetry \/ BufWrite \/ Flush \/ FlushErr
        \/ UnwindClose \/ Close \/ CloseErr \/ Rename \/ RenameErr \/ Rerender \/ RenameEarly \/ LateClose
        \/ Cleanup \/ CleanupErr \/ SubFail \/ NextRound \/ Crash
        \/ (\E p \in Paths : GOpen(p) \/ GRename(p) \/ GUnlink(p))
        \/ GBufWrite \/ GFlush \/ GFlushErr \/ GClose \/ GCloseErr \/ GErr \/ GNextRound

ProgressSteps == Mkstemp \/ Close0 \/ Open \/ BufWrite \/ Close \/ Rename \/ RenameEarly \/ LateClose
                 \/ UnwindClose \/ Cleanup
Spec == Init /\ [][Next]_vars /\ WF_vars(ProgressSteps)

-----------------------------------------------------------------------------
TypeOK ==
  /\ producer \in Producers /\ alive \in BOOLEAN /\ nerr \in 0..MaxErrors
  /\ round \in 1..MaxRounds /\ wr \in 1..(NChunks + 1) /\ nextino \in 2..(MaxIno + 1)
  /\ \A p \in Paths : dir[p] \in 0..MaxIno
  /\ fd.open \in BOOLEAN

\* C20: whatever instant the process is killed, the final path is absent or a complete version
Published == dir["final"] = 0 \/ IsWhole(idata[dir["final"]])

\* functional correctness of a finished round, and "a failed round leaves what was there"
DoneMeansNew ==
  (producer # "generic" /\ pc = "done" /\ ~SwallowError /\ ~DirectWrite)
     => dir["final"] # 0 /\ idata[dir["final"]] = Complete(round)
HandlesClosedAtEnd == pc \in {"done", "failed"} => ~fd.open

\* the discipline behind Published, as action properties
FinalChangesOnlyByRenameOrUnlink ==
  [][dir'["final"] # dir["final"] =>
        \/ dir'["final"] = 0
        \/ \E p \in {"tmp1", "tmp2"} : dir[p] # 0 /\ dir'["final"] = dir[p] /\ dir'[p] = 0]_vars
PublishedInodeIsImmutable ==
  [][\A i \in 1..MaxIno : (dir["final"] = i /\ dir'["final"] = i) => idata'[i] = idata[i]]_vars
FailedRoundKeepsFinal ==
  [][(pc' = "failed" /\ pc # "failed") => dir'["final"] = dir["final"]]_vars

Terminates == <>(~alive \/ pc \in {"done", "failed", "g"})
=============================================================================
