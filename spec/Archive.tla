------------------------------ MODULE Archive ------------------------------
(* C14 — what is written into a collection archive is what is read back.

   The state is the WRITE HISTORY of one collection directory, in the shape of the writer
   (mwlib.network.fetch.FsOutput as driven by fetch.Fetcher) and of the reader
   (mwlib.core.nuwiki.NuWiki behind nuwiki.Adapt / wiki.make_wiki):

     Redirect(f, t)        the fetcher records redirects[f] = t in memory (dumped as
                           redirects.json by finish(), i.e. at Close; its position among the page
                           writes therefore cannot matter and is fixed to "first")
     WritePage(t, r, rt)   FsOutput.write_pages: one raw revision of title t with revision id r
                           (r = 0: no revid, the description-page case).  A revid already in
                           `seen` is SKIPPED by the writer (the record is kept in the history
                           with skip = TRUE: nothing reaches the file).
     WriteExpanded(t,r,rt) FsOutput.write_expanded_page (expanded = 1); never skipped, does not
                           enter `seen`.
     StoreImage            FsOutput.get_imagepath(title) + the downloaded bytes
     Close, Zip, OpenDir / OpenZip
                           FsOutput.close(); buildzip.zip_dir / ZipCreator.create_zip;
                           wiki.make_wiki(directory) / wiki.make_wiki(zip)

   Titles are abstract, pairwise distinct title SLOTS 1..NTitles, images are slots 1..NImages and
   the text of write i is "text atom i".  The oracle below answers every read with the INDEX OF
   THE WRITE whose record must come back (0 = nothing), so it is exact whatever concrete strings
   are substituted: the harness (checks/c14.py) maps slots to entries of its title / image /
   text / revid palettes (adversarial texts and near-colliding titles live there) and compares
   text, title, ns, revid and the expanded flag of what the real reader returns with the record
   the spec names.  Because slots are interchangeable, histories are enumerated up to renaming of
   slots (a slot is first used in increasing order); revision ids are NOT interchangeable (newest =
   largest) and are enumerated in every order.

   rt ("redirect text") can only be TRUE for a title that is a redirect source: the real fetcher
   records a redirect for every page whose text is "#REDIRECT [[..]]" (fetch._find_redirect,
   expand_templates_from_revid), so such a text never occurs without the map entry; the
   converse (source title, ordinary text: an old revision of a page that became a redirect
   later) does occur.

   Read operations (expected results are functions of the history):
     ByRevid(name, r)  get_page(name, revision=r)   name = 0 stands for None
     ByTitle(t, s)     get_page(<canonical t>) and normalize_and_get_page(<spelling s of t>, ns)
     Image(k, s)       get_disk_path(<spelling s of image k>) + the bytes behind the path
   The spelling s is a parameter that must not matter: that is the law the harness checks for
   every spelling its concretiser can produce (underscores, first-letter case, namespace alias /
   canonical name / case, leading colon, default namespace, padding).

   Where the statement leaves freedom the code's behaviour is modelled (BUILDING.md):
   a no-revid record of a title takes precedence over revisions with ids for lookup by title,
   and among several no-revid records the last written wins; a second record with the same revid
   (only possible through WriteExpanded) replaces the first; get_page(name, r) goes through the
   redirect map when name is a redirect source; a revision whose text is a redirect is followed.

   NewestWins = TRUE is the property ("the newest stored revision when several revisions of a
   title were written").  NewestWins = FALSE is today's deviation (nuwiki._read_revisions drops
   the result of python2sort, so the first-written revision id of a title wins); it is never
   used for the reference verdict, only (a) for the non-vacuity run and (b) as the `dev`
   prediction that lets the harness attribute a mismatch to that known finding. *)
EXTENDS Naturals, Sequences, FiniteSets, TLC, Json

CONSTANTS NTitles,       \* title slots 1..NTitles
          NRevids,       \* revision ids 1..NRevids (concretised by an increasing map)
          MaxWrites,     \* bound on the number of write operations
          MinWrites,     \* histories shorter than this are not closed (covered by another plan)
          MaxRedirects,  \* 0..2
          NImages,       \* image slots 1..NImages
          MaxImages,     \* at most this many are stored (the first n slots)
          NewestWins,    \* TRUE in the reference
          EmitCases      \* TRUE: print every opened archive with its predicted reads (P-ENUM)

VARIABLES redir,   \* set of <<from, to>>
          hist,    \* sequence of write records
          nimg,    \* images 1..nimg are stored
          phase,   \* "redir" -> "write" -> "image" -> "closed" -> "zipped" -> "open"
          via      \* how the archive was opened: "none" | "dir" | "zip"
vars == <<redir, hist, nimg, phase, via>>

Max(S) == CHOOSE x \in S : \A y \in S : x >= y
Min(S) == CHOOSE x \in S : \A y \in S : x =< y
Max0(S) == IF S = {} THEN 0 ELSE Max(S)

Sources(rd) == {p[1] : p \in rd}
Targets(rd) == {p[2] : p \in rd}
Target(rd, t) == IF t \in Sources(rd) THEN (CHOOSE p \in rd : p[1] = t)[2] ELSE t

Live(h)        == {i \in DOMAIN h : ~h[i].skip}                  \* records that reached the file
Seen(h)        == {h[i].r : i \in {j \in Live(h) : h[j].k = "page" /\ h[j].r # 0}}
UsedTitles(h, rd) == {h[i].t : i \in DOMAIN h} \cup Sources(rd) \cup Targets(rd)
UsedRevids(h)  == {h[i].r : i \in DOMAIN h} \ {0}
OwnerOK(h, t, r) == r = 0 \/ \A i \in DOMAIN h : h[i].r = r => h[i].t = t

-----------------------------------------------------------------------------
(* the reader, as a function of the history *)
RevRec(h, r)      == Max0({i \in Live(h) : h[i].r = r})                  \* last record under revid r
NoRevRec(h, t)    == Max0({i \in Live(h) : h[i].r = 0 /\ h[i].t = t})    \* last no-revid record of t
StoredRevs(h, t)  == {h[i].r : i \in {j \in Live(h) : h[j].t = t /\ h[j].r # 0}}
FirstWrittenRev(h, t) == h[Min({i \in Live(h) : h[i].t = t /\ h[i].r # 0})].r

TitleRecW(h, t, newest) ==
  IF NoRevRec(h, t) # 0 THEN NoRevRec(h, t)
  ELSE IF StoredRevs(h, t) = {} THEN 0
  ELSE RevRec(h, IF newest THEN Max(StoredRevs(h, t)) ELSE FirstWrittenRev(h, t))

\* revisions.get(redirects.get(name, name)) or revisions.get(name)
ByTitleW(h, rd, t, newest) ==
  LET a == TitleRecW(h, Target(rd, t), newest) IN
  IF a # 0 THEN a ELSE TitleRecW(h, t, newest)

ByRevidW(h, rd, name, r, newest) ==
  IF name # 0 /\ name \in Sources(rd) THEN ByTitleW(h, rd, name, newest)
  ELSE LET i == RevRec(h, r) IN
       IF i = 0 THEN 0
       ELSE IF h[i].rt THEN ByTitleW(h, rd, Target(rd, h[i].t), newest)
       ELSE i

\* the statement itself only says "identical text under the revision id": when the stored text is
\* a redirect and the name does not force the redirect map, returning the record itself is
\* accepted as well (the harness accepts ByRevid or ByRevidAlt)
ByRevidAltW(h, rd, name, r, newest) ==
  IF (name = 0 \/ name \notin Sources(rd)) /\ RevRec(h, r) # 0 THEN RevRec(h, r)
  ELSE ByRevidW(h, rd, name, r, newest)

ByTitle(t)        == ByTitleW(hist, redir, t, NewestWins)
ByRevid(name, r)  == ByRevidW(hist, redir, name, r, NewestWins)
Image(k)          == IF k <= nimg THEN k ELSE 0

-----------------------------------------------------------------------------
Init == /\ redir = {} /\ hist = <<>> /\ nimg = 0 /\ phase = "redir" /\ via = "none"

\* canonical redirect maps: {}, {1->2}, {1->2, 3->2}, {1->2, 3->4}: no chains, no self-redirects
Redirect ==
  /\ phase = "redir" /\ Cardinality(redir) < MaxRedirects
  /\ LET f == Max0(UsedTitles(<<>>, redir)) + 1 IN
     \E t \in Targets(redir) \cup {f + 1} :
        /\ t <= NTitles
        /\ redir' = redir \cup {<<f, t>>}
  /\ UNCHANGED <<hist, nimg, phase, via>>

CanWrite(t, r, rt) ==
  /\ phase \in {"redir", "write"} /\ Len(hist) < MaxWrites
  /\ t <= Max0(UsedTitles(hist, redir)) + 1                         \* slots in order of first use
  /\ OwnerOK(hist, t, r)                                             \* a revid belongs to one title
  /\ (rt => t \in Sources(redir))

WritePage(t, r, rt) ==
  /\ CanWrite(t, r, rt)
  /\ hist' = Append(hist, [k |-> "page", t |-> t, r |-> r, rt |-> rt, skip |-> r \in Seen(hist)])
  /\ phase' = "write"
  /\ UNCHANGED <<redir, nimg, via>>

WriteExpanded(t, r, rt) ==
  /\ CanWrite(t, r, rt)
  /\ hist' = Append(hist, [k |-> "exp", t |-> t, r |-> r, rt |-> rt, skip |-> FALSE])
  /\ phase' = "write"
  /\ UNCHANGED <<redir, nimg, via>>

StoreImage ==
  /\ phase \in {"redir", "write", "image"} /\ nimg < MaxImages /\ nimg < NImages
  /\ nimg' = nimg + 1 /\ phase' = "image"
  /\ UNCHANGED <<redir, hist, via>>

\* every redirect target is stored (a dangling redirect is outside the statement) and the revids
\* used form an initial segment (only their order matters)
Closable ==
  /\ phase \in {"redir", "write", "image"}
  /\ Len(hist) >= MinWrites
  /\ \A t \in Targets(redir) : \E i \in Live(hist) : hist[i].t = t
  /\ UsedRevids(hist) = 1..Cardinality(UsedRevids(hist))

Close   == Closable /\ phase' = "closed" /\ UNCHANGED <<redir, hist, nimg, via>>
Zip     == phase = "closed" /\ phase' = "zipped" /\ UNCHANGED <<redir, hist, nimg, via>>
OpenDir == phase = "closed" /\ phase' = "open" /\ via' = "dir" /\ UNCHANGED <<redir, hist, nimg>>
OpenZip == phase = "zipped" /\ phase' = "open" /\ via' = "zip" /\ UNCHANGED <<redir, hist, nimg>>

\* a lookup on the opened archive: it answers from the history and changes nothing, so the
\* predictions below hold for every SEQUENCE of lookups on one opened archive, in any order and under
\* any mix of default namespaces (the harness issues all reads of a history on one wiki object in a
\* seeded, interleaved order)
Read(kind) == phase = "open" /\ kind \in {"rev", "title", "image"} /\ UNCHANGED vars

Next ==
  \/ Redirect
  \/ \E t \in 1..NTitles, r \in 0..NRevids, rt \in BOOLEAN : WritePage(t, r, rt) \/ WriteExpanded(t, r, rt)
  \/ StoreImage \/ Close \/ Zip \/ OpenDir \/ OpenZip
  \/ \E kind \in {"rev", "title", "image"} : Read(kind)

Spec == Init /\ [][Next]_vars /\ WF_vars(Zip \/ OpenZip \/ OpenDir)

-----------------------------------------------------------------------------
(* model-level laws that keep the oracle honest; checked in every reachable state *)
TypeOK ==
  /\ phase \in {"redir", "write", "image", "closed", "zipped", "open"}
  /\ via \in {"none", "dir", "zip"} /\ (via # "none" <=> phase = "open")
  /\ nimg \in 0..NImages
  /\ \A i \in DOMAIN hist : hist[i].t \in 1..NTitles /\ hist[i].r \in 0..NRevids
  /\ Sources(redir) \cap Targets(redir) = {}
  /\ Cardinality(Sources(redir)) = Cardinality(redir)

\* a revid is retrieved as the last record written under it, and every revid that reached the
\* file is retrievable (unless its text is a redirect, which is followed)
RevidExact ==
  \A r \in 1..NRevids :
    LET i == RevRec(hist, r) IN
    /\ (i # 0 => hist[i].r = r /\ ~hist[i].skip)
    /\ (i # 0 /\ ~hist[i].rt => ByRevid(0, r) = i)
    /\ (r \in {hist[j].r : j \in Live(hist)} <=> i # 0)

\* C14's central clause: a title without no-revid records that is not redirected is retrieved as
\* its largest stored revision id
TitleIsNewest ==
  \A t \in 1..NTitles :
    (t \notin Sources(redir) /\ NoRevRec(hist, t) = 0 /\ StoredRevs(hist, t) # {})
      => /\ ByTitle(t) = RevRec(hist, Max(StoredRevs(hist, t)))
         /\ hist[ByTitle(t)].t = t
         /\ \A i \in Live(hist) : hist[i].t = t => hist[i].r <= hist[ByTitle(t)].r

\* lookup by title returns a record of that title, or of its redirect target
TitleSound ==
  \A t \in 1..NTitles :
    LET i == ByTitle(t) IN
    i # 0 => /\ i \in Live(hist)
             /\ hist[i].t \in {t, Target(redir, t)}
             /\ (hist[i].t = t /\ t \in Sources(redir) => TitleRecW(hist, Target(redir, t), NewestWins) = 0)

\* a stored title is found; an absent, un-redirected title is not
TitleComplete ==
  \A t \in 1..NTitles :
    /\ ((\E i \in Live(hist) : hist[i].t = t) => ByTitle(t) # 0)
    /\ ((\A i \in Live(hist) : hist[i].t # t /\ hist[i].t # Target(redir, t)) => ByTitle(t) = 0)

RedirectResolves ==
  \A p \in redir : (TitleRecW(hist, p[2], NewestWins) # 0) => ByTitle(p[1]) = ByTitle(p[2])

\* what write_pages skips is exactly a revid that an earlier write_pages record put into the file
SkipLaw ==
  \A i \in DOMAIN hist :
    hist[i].skip <=> (hist[i].k = "page" /\ hist[i].r # 0 /\
                      \E j \in 1..(i - 1) : hist[j].k = "page" /\ hist[j].r = hist[i].r /\ ~hist[j].skip)

ActionOrder == [][ /\ (phase' = "open" => phase \in {"closed", "zipped"})
                   /\ (phase \in {"closed", "zipped", "open"} => hist' = hist /\ redir' = redir /\ nimg' = nimg) ]_vars

ReadsArePure == [][phase = "open" => UNCHANGED vars]_vars

\* a closed archive is eventually opened (histories with a gap in the revision ids are dead ends by
\* construction: they are renamings of gap-free ones and are never closed)
Terminates == [](phase = "closed" => <>(phase = "open"))

-----------------------------------------------------------------------------
(* P-ENUM: every opened archive with all predicted reads.  exp = the property, dev = today's
   first-written-wins deviation (used only to attribute mismatches to the known finding). *)
TitleRow(newest) == [t \in 1..NTitles |-> ByTitleW(hist, redir, t, newest)]
RevTable(newest) == [n \in 1..(NTitles + 1) |-> [r \in 1..NRevids |-> ByRevidW(hist, redir, n - 1, r, newest)]]
AltTable == [n \in 1..(NTitles + 1) |-> [r \in 1..NRevids |-> ByRevidAltW(hist, redir, n - 1, r, TRUE)]]
RedirSeq == [i \in 1..Cardinality(redir) |->
               CHOOSE p \in redir : Cardinality({q \in redir : q[1] < p[1]}) = i - 1]

EmitOpen ==
  (EmitCases /\ phase = "open") =>
     PrintT("@@" \o ToJson([w |-> [i \in DOMAIN hist |-> <<hist[i].k, hist[i].t, hist[i].r, hist[i].rt, hist[i].skip>>],
                            rd |-> RedirSeq, im |-> nimg, via |-> via,
                            bt |-> TitleRow(TRUE), btdev |-> TitleRow(FALSE),
                            br |-> RevTable(TRUE), brdev |-> RevTable(FALSE), bralt |-> AltTable,
                            img |-> [k \in 1..NImages |-> Image(k)]]))
=============================================================================
