------------------------------ MODULE Opaque ------------------------------
(* C09 — opaque tags stay opaque.

   A case is (tag, ctx, opener spelling, closer spelling, pair, where, body):
     tag   in {nowiki, pre, math, source, syntaxhighlight, timeline}
     body  a sequence of lexemes (atoms of WikiTokens.tla) that contains neither the tag's own
           closer nor the reserved byte 0x7f (atoms DEL, UNIQ)
     ctx   where the tag sits: top level, list item, table cell, table caption, bold text, template
           argument, inside a template body, argument of a parser function (lc, uc, urlencode, ...)

   Denotation (what the tree must show, whatever the body is):
     Kind(tag)            the node the tag yields
     Decoded(tag, body)   its text, atom-wise: the body itself; for nowiki / pre with character
                          entities replaced by the character; for pre additionally with
                          <nowiki>..</nowiki> pairs unwrapped (MediaWiki's own <pre> hook does that,
                          mwlib mirrors it in core.py ParseUniq.create_pre -> remove_nowiki_tags)
     shape                the structure of the document depends on (tag, ctx, opener spelling) only: it
                          is the shape of the same case with the one-word body <<"a">>  (no link / style / template
                          expansion / tag node originates inside the region)
     Restored(tag, body)  what protecting and restoring the region (uniq.py replace_tags then
                          replace_uniq) leaves in the text: the region itself, for nowiki without
                          its tags; the surrounding text is untouched

   The generator appends one lexeme per step; every state is a case (P-ENUM).  BFS enumerates all
   bodies up to MaxBody; `-simulate` samples longer ones. *)
EXTENDS Naturals, Sequences, FiniteSets, TLC, Json

CONSTANTS BodyAlphabet,   \* "opaque" | "structural"
          MaxBody,        \* bodies of 0..MaxBody lexemes (tags spelled in lower case)
          SpellBody,      \* bodies of 0..SpellBody lexemes for the other spellings of the tags
          PairBody,       \* bodies of 0..PairBody lexemes for documents with a second region
          PfBody,         \* bodies of 0..PfBody lexemes inside a parser-function argument
          EmitFrom        \* print cases with Len(body) >= EmitFrom

WT == INSTANCE WikiTokens WITH Alphabet <- "structural", MaxLen <- 0, MaxNest <- 40, EmitFrom <- 1,
                               seq <- <<>>, nest <- 0, peak <- 0

Tags     == {"nowiki", "pre", "math", "source", "syntaxhighlight", "timeline"}
\* how the opener and the closer are written (tag names are case-insensitive, the opener may carry
\* attributes, both may carry blanks before ">"); concretised by the harness per tag
OpenSpellings  == {"lower", "UPPER", "Mixed", "blank", "attr", "UPPERattr"}
CloseSpellings == {"lower", "UPPER", "Mixed", "blank"}
\* where the region sits.  PfContexts: as the argument of a magic word / parser function that
\* transforms or passes on its argument (MediaWiki skips strip markers there: the body is verbatim)
PfContexts == {"pf-lc", "pf-uc", "pf-lcfirst", "pf-ucfirst", "pf-urlencode", "pf-anchorencode", "pf-padleft",
               "pf-padright", "pf-formatnum", "pf-tag", "pf-if"}
Contexts == {"top", "listitem", "tablecell", "caption", "bold", "tplarg", "tplbody"} \cup PfContexts

\* the reduced body alphabet of the quick tier: one lexeme per kind of markup a body could be
\* mistaken for, every opener / closer of the opaque tags themselves, the include tags of the
\* template preprocessor, entities of every form
OpaqueBody == {
  "SP", "NL", "a", "=", "==", "*", "''", "'''", "[[", "]]", "[", "|", "{|", "|}", "|-", "http://ex.org/a",
  "<b>", "</b>", "<br/>", "<div>", "<ref>", "</ref>",
  "<nowiki>", "</nowiki>", "<pre>", "</pre>", "<math>", "</math>", "<source>", "</source>",
  "<syntaxhighlight>", "</syntaxhighlight>", "<timeline>", "</timeline>",
  "<!-- c -->", "<!--", "-->",
  "&amp;", "&#65;", "&#x41;", "&lt;", "&bogus;", "&#99999999999;",
  "{{", "}}", "{{{", "}}}", "{{Echo|", "{{!}}",
  "<noinclude>", "</noinclude>", "<includeonly>", "</includeonly>", "<onlyinclude>", "</onlyinclude>",
  "__TOC__", "NONBMP", "EBAD",
  \* tags spelled through entities: they are text; ESC_CLOSER is the tag's own closer spelled that way
  "&lt;nowiki&gt;", "&lt;/nowiki&gt;", "&#60;/nowiki&#62;", "&#x3c;nowiki&#x3e;", "&lt;/pre&gt;", "&lt;ref&gt;",
  "&lt;b&gt;", "&lt;!--", "--&gt;", "ESC_CLOSER" }

Reserved == {"DEL", "UNIQ"}                     \* contain 0x7f
Base == IF BodyAlphabet = "opaque" THEN OpaqueBody ELSE WT!Structural \cup {"ESC_CLOSER"}
BodyLex(tag) == (Base \ Reserved) \ {WT!CloseTag(tag)}

\* character entities -> the character they denote (atoms AMP, LT are concretised by the harness)
\* (LIT:... atoms are literal text: "LIT:<nowiki>" is the eight characters <nowiki>, never the tag)
EntityValue == [e \in {"&amp;", "&#65;", "&#x41;", "&lt;", "&#xD800;", "&lt;nowiki&gt;", "&lt;/nowiki&gt;",
                       "&#60;/nowiki&#62;", "&#x3c;nowiki&#x3e;", "&lt;/pre&gt;", "&lt;ref&gt;", "&lt;b&gt;",
                       "&lt;!--", "--&gt;", "ESC_CLOSER"} |->
                 CASE e = "&amp;" -> "AMP" [] e = "&#65;" -> "A" [] e = "&#x41;" -> "A" [] e = "&lt;" -> "LT"
                   [] e = "&#xD800;" -> "SURROGATE"
                   [] e \in {"&lt;nowiki&gt;", "&#x3c;nowiki&#x3e;"} -> "LIT:<nowiki>"
                   [] e \in {"&lt;/nowiki&gt;", "&#60;/nowiki&#62;"} -> "LIT:</nowiki>"
                   [] e = "&lt;/pre&gt;" -> "LIT:</pre>" [] e = "&lt;ref&gt;" -> "LIT:<ref>" [] e = "&lt;b&gt;" -> "LIT:<b>"
                   [] e = "&lt;!--" -> "LIT:<!--" [] e = "--&gt;" -> "LIT:-->" [] e = "ESC_CLOSER" -> "LIT_CLOSER"]
\* "&bogus;" names no character and "&#99999999999;" is no code point: both stay as written
IsEntity(x) == x \in DOMAIN EntityValue
DecodeEntities(b) == [i \in 1..Len(b) |-> IF IsEntity(b[i]) THEN EntityValue[b[i]] ELSE b[i]]

\* <nowiki>(.*?)</nowiki> -> \1, leftmost pairs first
RECURSIVE Unwrap(_)
Unwrap(b) ==
  IF \E i \in 1..Len(b) : b[i] = "<nowiki>" /\ \E j \in (i + 1)..Len(b) : b[j] = "</nowiki>"
  THEN LET i == CHOOSE i \in 1..Len(b) : /\ b[i] = "<nowiki>" /\ \E j \in (i + 1)..Len(b) : b[j] = "</nowiki>"
                                         /\ \A k \in 1..(i - 1) : ~(b[k] = "<nowiki>" /\ \E j \in (k + 1)..Len(b) : b[j] = "</nowiki>")
           j == CHOOSE j \in (i + 1)..Len(b) : b[j] = "</nowiki>" /\ \A k \in (i + 1)..(j - 1) : b[k] # "</nowiki>"
       IN SubSeq(b, 1, i - 1) \o SubSeq(b, i + 1, j - 1) \o Unwrap(SubSeq(b, j + 1, Len(b)))
  ELSE b

Kind(tag) == CASE tag = "nowiki" -> "Text"
               [] tag = "pre" -> "PreFormatted"
               [] tag = "math" -> "Math"
               [] tag = "timeline" -> "Timeline"
               [] tag \in {"source", "syntaxhighlight"} -> "TagNode:source"

Decoded(tag, b) == CASE tag = "nowiki" -> DecodeEntities(b)
                     [] tag = "pre" -> DecodeEntities(Unwrap(b))
                     [] OTHER -> b

\* OPEN / CLOSE: the opener and closer exactly as the case spells them
Restored(tag, b) == IF tag = "nowiki" THEN b ELSE <<"OPEN">> \o b \o <<"CLOSE">>

-----------------------------------------------------------------------------
\* A second protected region elsewhere in the same document (its own paragraph, before or after
\* the first) and how it relates to the first one:
\*   same           the identical region once more
\*   otherTag       the same body under another opaque tag
\*   wrappedNowiki  the first region's complete text (opener + body + closer) as the body of a <nowiki>
\*   wrappedPre     the same as the body of a <pre> (for a nowiki this is the nested-looking
\*                  <pre><nowiki>..</nowiki></pre>, which the <pre> hook unwraps)
\*   otherBody      the same tag around a different body
\* Both regions keep their own denotation; the document shows them in order.
PairKinds == {"none", "same", "otherTag", "wrappedNowiki", "wrappedPre", "otherBody"}
Wheres == {"before", "after"}
OtherTag(t) == CASE t = "nowiki" -> "math" [] t = "pre" -> "source" [] t = "math" -> "nowiki" [] t = "source" -> "pre"
                 [] t = "syntaxhighlight" -> "timeline" [] t = "timeline" -> "math"
Whole(t, b) == <<WT!OpenTag(t)>> \o b \o <<WT!CloseTag(t)>>
Has(b, x) == \E i \in 1..Len(b) : b[i] = x
SecondTag(t, p) == CASE p \in {"same", "otherBody"} -> t [] p = "otherTag" -> OtherTag(t)
                     [] p = "wrappedNowiki" -> "nowiki" [] p = "wrappedPre" -> "pre" [] OTHER -> "-"
SecondBody(t, b, p) == CASE p \in {"same", "otherTag"} -> b
                         [] p \in {"wrappedNowiki", "wrappedPre"} -> Whole(t, b)
                         [] p = "otherBody" -> (IF b = <<"1">> THEN <<"a">> ELSE <<"1">>)
                         [] OTHER -> <<>>
\* the second region must itself be inside the quantifier (no own closer inside its body)
PairOK(t, b, p) == CASE p = "otherTag" -> ~Has(b, WT!CloseTag(OtherTag(t)))
                     [] p = "wrappedNowiki" -> t # "nowiki" /\ ~Has(b, "</nowiki>")
                     [] p = "wrappedPre" -> t # "pre" /\ ~Has(b, "</pre>")
                     [] OTHER -> TRUE
Second(t, b, p) == IF p = "none" THEN [tag |-> "-", body |-> <<>>, kind |-> "-", decoded |-> <<>>]
                   ELSE [tag |-> SecondTag(t, p), body |-> SecondBody(t, b, p), kind |-> Kind(SecondTag(t, p)),
                         decoded |-> Decoded(SecondTag(t, p), SecondBody(t, b, p))]

VARIABLES tag, ctx, ospell, cspell, pair, where, body
ovars == <<tag, ctx, ospell, cspell, pair, where, body>>

Bound == IF ctx \in PfContexts THEN PfBody
         ELSE IF pair # "none" THEN PairBody
         ELSE IF ospell = "lower" /\ cspell = "lower" THEN MaxBody ELSE SpellBody
Init == /\ tag \in Tags /\ ctx \in Contexts /\ ospell \in OpenSpellings /\ cspell \in CloseSpellings
        /\ pair \in PairKinds /\ where \in Wheres
        /\ (pair # "none") => (ospell = "lower" /\ cspell = "lower")
        /\ (pair = "none") => where = "after"
        /\ (ctx \in PfContexts) => (pair = "none" /\ ospell = "lower" /\ cspell = "lower")
        /\ body = <<>>
        /\ PairOK(tag, body, pair)
Extend == /\ Len(body) < Bound
          /\ \E x \in BodyLex(tag) : body' = Append(body, x) /\ PairOK(tag, Append(body, x), pair)
          /\ UNCHANGED <<tag, ctx, ospell, cspell, pair, where>>
Next == Extend
Spec == Init /\ [][Next]_ovars

-----------------------------------------------------------------------------
TypeOK == /\ tag \in Tags /\ ctx \in Contexts /\ ospell \in OpenSpellings /\ cspell \in CloseSpellings
          /\ pair \in PairKinds /\ where \in Wheres
          /\ body \in Seq(BodyLex(tag)) /\ Len(body) <= Bound
\* the second region is inside the quantifier too, and its denotation obeys the same laws
PairLaws == (pair # "none") =>
  LET s == Second(tag, body, pair) IN
  /\ s.tag \in Tags
  /\ \A i \in 1..Len(s.body) : s.body[i] # WT!CloseTag(s.tag) /\ s.body[i] \notin Reserved
  /\ (s.tag \notin {"nowiki", "pre"}) => s.decoded = s.body
  /\ (pair = "same") => s.decoded = Decoded(tag, body)
\* the quantifier of C09: no own closer, no 0x7f
InDomain == \A i \in 1..Len(body) : body[i] # WT!CloseTag(tag) /\ body[i] \notin Reserved
\* laws of the oracle
OracleLaws ==
  LET d == Decoded(tag, body) IN
  /\ Len(d) <= Len(body)
  /\ (tag \notin {"nowiki", "pre"}) => d = body
  /\ (tag \in {"nowiki", "pre"}) => \A i \in 1..Len(d) : ~IsEntity(d[i])
  /\ (tag = "nowiki") => Len(d) = Len(body)
  /\ (tag \in {"nowiki", "pre"}) => DecodeEntities(d) = d     \* decoding is idempotent on its own result
  /\ Len(Unwrap(body)) <= Len(body)
AlphabetOK == (OpaqueBody \ {"ESC_CLOSER"}) \subseteq WT!Structural /\ {WT!OpenTag(t) : t \in Tags} \cup {WT!CloseTag(t) : t \in Tags} \subseteq OpaqueBody

EmitCase == (Len(body) >= EmitFrom) =>
  PrintT("@@" \o ToJson([tag |-> tag, ctx |-> ctx, ospell |-> ospell, cspell |-> cspell, body |-> body, kind |-> Kind(tag),
                         decoded |-> Decoded(tag, body), restored |-> Restored(tag, body),
                         pair |-> pair, where |-> where, second |-> Second(tag, body, pair)]))
=============================================================================
