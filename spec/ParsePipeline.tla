--------------------------- MODULE ParsePipeline ---------------------------
(* C01 — parsing is total.  uparser.parse_string as a (push-down) stage machine:

     article : [Expand]  ->  compat  ->  Post:remove_boilerplate  ->  Post:simplify  -> returns Article
     compat  : txt  ->  (class conversion)  -> returns
     txt     : [Tokenize -> the 20 refinement passes of core.parse_txt, popped from the end of
                `parsers`]  -> returns          (an empty text returns before Tokenize)

   While the pass ParseUniq runs, protected regions are re-parsed: nested `txt` frames
   (ref / poem / gallery / imagemap / pages) or nested `compat` frames (tag extensions that
   call tagext._parse: rot13, idl, syntaxhighlight, time, listing ...).

   The only obligation per stage is "returns": a stage that raises takes the machine to
   status = "raised", which violates Total.  The harness (harness/wikitext.py Recorder) wraps the
   module-level seams of the real code (uparser.process_expander_and_siteinfo, compat.parse_txt,
   core.parse_txt, core.tokenize, the entries of CombinedParser.parsers, uparser.postprocessors)
   and records one event per stage *start*, per frame begin / end, and a final `raise` event when
   an exception leaves parse_string.  ParsePipelineTrace.tla validates every recorded behaviour. *)
EXTENDS Naturals, Sequences, TLC

Passes == << "fix_break_between_pre", "fix_named_url_double_brackets", "ParseUniq", "TableParser",
             "TableFixer", "TableGarbageRemover", "ParseSections", "TagParser:h1,h2,h3,h4,h5,h6",
             "parse_inputbox", "ParseUrls", "ParseLinks", "TagParser:div", "ParseLines",
             "TagParser:blockquote,center,ol,p,references,ul", "ParseParagraphs",
             "TagParser:code,dd,dl,dt,li,span", "ParsePreformatted", "ParseSingleQuote",
             "mark_style_tags", "fix_li_tags" >>
TxtStages == <<"Tokenize">> \o Passes
Kinds == {"article", "compat", "txt"}
StageNames == {TxtStages[i] : i \in 1..Len(TxtStages)} \cup {"Expand", "Post:remove_boilerplate", "Post:simplify"}

CONSTANTS MaxDepth,    \* P-MC: bound on the frame stack
          AllowRaise   \* FALSE in the reference; TRUE adds Raise to Next (non-vacuity: Total must fail)

VARIABLES stack,     \* sequence of [kind, pos]; pos = number of stages started in that frame
          status     \* "idle" | "running" | "returned" | "raised"
pvars == <<stack, status>>

Top == stack[Len(stack)]
Pop == SubSeq(stack, 1, Len(stack) - 1)
SetTopPos(s, p) == [s EXCEPT ![Len(s)] = [kind |-> s[Len(s)].kind, pos |-> p]]

InUniqPass(f) == f.kind = "txt" /\ f.pos >= 1 /\ TxtStages[f.pos] = "ParseUniq"

Init == stack = <<>> /\ status = "idle"

Begin(k) ==
  /\ \/ status = "idle" /\ k = "article"
     \/ /\ status = "running" /\ stack # <<>>
        /\ \/ Top.kind = "article" /\ k = "compat" /\ Top.pos \in {0, 1}
           \/ Top.kind = "compat" /\ k = "txt" /\ Top.pos = 0
           \/ InUniqPass(Top) /\ k \in {"txt", "compat"}
  /\ stack' = Append(stack, [kind |-> k, pos |-> 0])
  /\ status' = "running"

Stage(name) ==
  /\ status = "running" /\ stack # <<>>
  /\ \/ /\ Top.kind = "article"
        /\ \/ name = "Expand" /\ Top.pos = 0 /\ stack' = SetTopPos(stack, 1)
           \/ name = "Post:remove_boilerplate" /\ Top.pos = 2 /\ stack' = SetTopPos(stack, 3)
           \/ name = "Post:simplify" /\ Top.pos = 3 /\ stack' = SetTopPos(stack, 4)
     \/ /\ Top.kind = "txt"
        /\ Top.pos < Len(TxtStages)
        /\ name = TxtStages[Top.pos + 1]
        /\ stack' = SetTopPos(stack, Top.pos + 1)
  /\ UNCHANGED status

Complete(f) == \/ f.kind = "article" /\ f.pos = 4
               \/ f.kind = "compat" /\ f.pos = 1
               \/ f.kind = "txt" /\ f.pos \in {0, Len(TxtStages)}

End(k) ==
  /\ status = "running" /\ stack # <<>>
  /\ Top.kind = k /\ Complete(Top)
  /\ IF Len(stack) = 1 THEN stack' = <<>> /\ status' = "returned"
     ELSE LET rest == Pop
              parent == rest[Len(rest)] IN
          /\ stack' = (IF parent.kind = "article" THEN SetTopPos(rest, 2)
                       ELSE IF parent.kind = "compat" THEN SetTopPos(rest, 1)
                       ELSE rest)
          /\ UNCHANGED status

\* an exception leaves parse_string: legal as a step of the machine, but it violates Total
Raise ==
  /\ status = "running"
  /\ status' = "raised"
  /\ UNCHANGED stack

BeginAny == \E k \in Kinds : Len(stack) < MaxDepth /\ Begin(k)
StageAny == \E n \in StageNames : Stage(n)
EndAny   == \E k \in Kinds : End(k)
Next == BeginAny \/ StageAny \/ EndAny \/ (AllowRaise /\ Raise)
Spec == Init /\ [][Next]_pvars

-----------------------------------------------------------------------------
TypeOK == /\ status \in {"idle", "running", "returned", "raised"}
          /\ \A i \in 1..Len(stack) : stack[i].kind \in Kinds /\ stack[i].pos \in 0..Len(TxtStages)
\* C01: no stage raises
Total == status # "raised"
\* frames nest the way the code calls: article at the bottom only, compat directly above article
\* or inside a ParseUniq pass, txt above compat or inside a ParseUniq pass
WellNested == \A i \in 1..Len(stack) :
                /\ (stack[i].kind = "article") <=> (i = 1)
                /\ (i > 1 /\ stack[i - 1].kind = "compat") => stack[i].kind = "txt"
                /\ (i > 1 /\ stack[i - 1].kind = "txt") => InUniqPass(stack[i - 1])
ReturnedMeansDone == status = "returned" => stack = <<>>
\* a returned parse went through every stage of the outermost frame (End is the only way to
\* "returned", and End requires Complete)
=============================================================================
