---------------------------- MODULE TemplateLang ----------------------------
(* C04 — template expansion computes what the template language says.

   A reference interpreter for the MediaWiki template language, written as TLA+ operators,
   plus a generator automaton that builds template universes and pages bottom-up.

   Strings are sequences of one-character atoms (TLC strings are opaque); the atoms are the
   characters themselves, so the harness concretises by joining.  Multi-character atoms are
   wikitext punctuation ("{{", "}}}", "#if:", "T1" ...) and only occur in serialisations.

   AST (a *body* is a sequence of nodes, i.e. a concatenation):
     [k |-> "text",   s]                          literal characters
     [k |-> "param",  name, hasdef, def]          {{{name}}} / {{{name|def}}}
     [k |-> "call",   t, args]                    {{Tt|arg|name=arg}}     t = 0: a missing template
                                                  arg = [name, val], name = <<>> for positional
     [k |-> "if",     c, t, e, n]                 {{#if:c|t}} (n=2) / {{#if:c|t|e}} (n=3)
     [k |-> "ifeq",   a, b, t, e, n]              {{#ifeq:a|b|t}} (n=3) / {{#ifeq:a|b|t|e}} (n=4)
     [k |-> "switch", v, cases]                   case = [key, hasval, val]; key "#default";
                                                  a case without "=" falls through, a trailing
                                                  one is the default

   Semantics (MediaWiki; Help:Templates, Help:Extension:ParserFunctions):
     * arguments are bound by position ("1","2",... counting only unnamed ones) or by name, a
       later binding of the same name wins; named values are trimmed, positional ones are not
     * a parameter evaluates to its binding, else to its default (evaluated in the same
       frame), else to the literal text {{{name}}}
     * #if tests the trimmed condition for emptiness; #ifeq compares trimmed operands, by value
       when both are numeric; every conditional result is trimmed
     * #switch scans cases in order: key=value returns value on a match (or when an earlier
       key-without-"=" matched: fall-through); #default=value and a trailing item without "="
       give the default; no match and no default gives the empty string
     * a call of a template that does not exist expands to nothing (what mwlib does; the
       statement leaves this open)
*)
EXTENDS Naturals, Sequences, FiniteSets, TLC, Json

CONSTANTS NT,          \* number of templates built before the page (they may call earlier ones only: acyclic)
          FuelT,       \* leaves available for one template body
          FuelP,       \* leaves available for the page
          MaxDepth,    \* nesting depth bound for one body
          Ops,         \* constructors (parameter default, call, #if, #ifeq, #switch) available for one body
          WordSet,     \* "full" | "small" | "num" | "tiny"
          Preset,      \* "none" | "echo": template 1 is the fixed parameter-echoing template (BFS mode)
          AllowDup,    \* TRUE: a call may bind the same parameter twice (MediaWiki: the last binding wins)
          AllowNumDup, \* TRUE: a switch may have constant keys that are numerically equal but spelled differently
          AnyPos,      \* TRUE: reductions at any stack position (simulation); FALSE: top of stack only (BFS)
          Emit         \* TRUE: print every finished program as JSON

VARIABLES univ,        \* finished bodies
          stack,       \* items under construction: [b |-> body, d |-> depth, tag |-> "" | "arg" | "case", x |-> name or case]
          fuel,        \* leaves still available for the body under construction
          ops,         \* constructors still available for the body under construction
          feat         \* features of the program built so far that known findings are keyed on
vars == <<univ, stack, fuel, ops, feat>>

Fuels == [i \in 1..(NT + 1) |-> IF i <= NT THEN FuelT ELSE FuelP]
NBodies == NT + 1
Done == Len(univ) = NBodies

-----------------------------------------------------------------------------
(* ------------------------------ strings ------------------------------ *)
SP == " "
NL == "\n"
WS == {SP, NL}
Digit == {"0", "1", "2", "3", "4", "5", "6", "7", "8", "9"}
POISON == <<"?">>

RECURSIVE LStrip(_), RStrip(_)
LStrip(s) == IF s # <<>> /\ Head(s) \in WS THEN LStrip(Tail(s)) ELSE s
RStrip(s) == IF s # <<>> /\ s[Len(s)] \in WS THEN RStrip(SubSeq(s, 1, Len(s) - 1)) ELSE s
Strip(s) == RStrip(LStrip(s))

Poisoned(s) == \E i \in 1..Len(s) : s[i] = "?"

RECURSIVE Flat(_)
Flat(ss) == IF ss = <<>> THEN <<>> ELSE Head(ss) \o Flat(Tail(ss))

(* numeric strings as Python's int()/float() read them over this alphabet:
   sign? digits+ | sign? digits+ "." digits* | sign? "." digits+                       *)
Unsigned(s) == IF s # <<>> /\ s[1] \in {"+", "-"} THEN Tail(s) ELSE s
Neg(s)      == s # <<>> /\ s[1] = "-"
DotPos(r)   == IF \E i \in 1..Len(r) : r[i] = "." THEN CHOOSE i \in 1..Len(r) : r[i] = "." /\ \A j \in 1..(i - 1) : r[j] # "." ELSE 0
IntPart(r)  == IF DotPos(r) = 0 THEN r ELSE SubSeq(r, 1, DotPos(r) - 1)
FracPart(r) == IF DotPos(r) = 0 THEN <<>> ELSE SubSeq(r, DotPos(r) + 1, Len(r))
AllDigits(r) == \A i \in 1..Len(r) : r[i] \in Digit
IsNumeric(s) == LET r == Unsigned(s) IN
                /\ r # <<>>
                /\ AllDigits(IntPart(r)) /\ AllDigits(FracPart(r))
                /\ Len(IntPart(r)) + Len(FracPart(r)) >= 1
                /\ (DotPos(r) = 0 => Len(IntPart(r)) >= 1)
RECURSIVE DropLeadZ(_), DropTrailZ(_)
DropLeadZ(r)  == IF r # <<>> /\ Head(r) = "0" THEN DropLeadZ(Tail(r)) ELSE r
DropTrailZ(r) == IF r # <<>> /\ r[Len(r)] = "0" THEN DropTrailZ(SubSeq(r, 1, Len(r) - 1)) ELSE r
\* canonical form of a numeric string: equal values <=> equal canonical forms (exact decimal arithmetic)
Canon(s) == LET r == Unsigned(s)
                ip == DropLeadZ(IntPart(r))
                fp == DropTrailZ(FracPart(r)) IN
            <<Neg(s) /\ (ip # <<>> \/ fp # <<>>), ip, fp>>

\* "eq" | "ne" | "?"   ("?": more digits than a double holds exactly — outside the modelled range)
Cmp(x, y) == IF x = y THEN "eq"
             ELSE IF IsNumeric(x) /\ IsNumeric(y)
                  THEN (IF Len(x) > 15 \/ Len(y) > 15 THEN "?"
                        ELSE IF Canon(x) = Canon(y) THEN "eq" ELSE "ne")
             ELSE "ne"

-----------------------------------------------------------------------------
(* ------------------------------ AST ------------------------------ *)
Text(s)           == [k |-> "text", s |-> s]
Param(n)          == [k |-> "param", name |-> n, hasdef |-> FALSE, def |-> <<>>]
ParamD(n, d)      == [k |-> "param", name |-> n, hasdef |-> TRUE, def |-> d]
Call(t, args)     == [k |-> "call", t |-> t, args |-> args]
IfN(c, t, e, n)   == [k |-> "if", c |-> c, t |-> t, e |-> e, n |-> n]
IfEqN(a, b, t, e, n) == [k |-> "ifeq", a |-> a, b |-> b, t |-> t, e |-> e, n |-> n]
SwitchN(v, cases) == [k |-> "switch", v |-> v, cases |-> cases]
DefaultKey == <<"#default">>

PosName(i) == <<CASE i = 1 -> "1" [] i = 2 -> "2" [] i = 3 -> "3" [] i = 4 -> "4" [] OTHER -> "9">>

\* environment: sequence of <<name, value>>, a later binding wins
Bound(env, n)  == \E i \in 1..Len(env) : env[i][1] = n
Lookup(env, n) == env[CHOOSE i \in 1..Len(env) : env[i][1] = n /\ \A j \in (i + 1)..Len(env) : env[j][1] # n][2]

-----------------------------------------------------------------------------
(* ------------------------------ the reference interpreter ------------------------------ *)
RECURSIVE Eval(_, _, _), EvalNode(_, _, _), Bind(_, _, _, _, _), Scan(_, _, _, _, _, _, _, _)

Eval(body, env, U) ==
  IF body = <<>> THEN <<>> ELSE EvalNode(Head(body), env, U) \o Eval(Tail(body), env, U)

\* the frame of a call: arguments are evaluated in the caller's frame
Bind(args, i, pos, env, U) ==
  IF i > Len(args) THEN <<>>
  ELSE LET a == args[i] IN
       IF a.name = <<>>
       THEN <<<<PosName(pos), Eval(a.val, env, U)>>>> \o Bind(args, i + 1, pos + 1, env, U)
       ELSE <<<<Strip(a.name), Strip(Eval(a.val, env, U))>>>> \o Bind(args, i + 1, pos, env, U)

Scan(v, cases, i, found, hasd, d, dfound, eu) ==
  LET env == eu[1]
      U   == eu[2] IN
  IF i > Len(cases)
  THEN (IF Len(cases) > 0 /\ ~cases[Len(cases)].hasval THEN Strip(Eval(cases[Len(cases)].key, env, U))
        ELSE IF hasd THEN Strip(Eval(d, env, U))
        ELSE <<>>)
  ELSE LET c    == cases[i]
           test == Strip(Eval(c.key, env, U))
           m    == IF Poisoned(test) THEN "?" ELSE Cmp(test, v) IN
       IF c.hasval
       THEN (IF found THEN Strip(Eval(c.val, env, U))
             ELSE IF m = "?" THEN POISON
             ELSE IF m = "eq" THEN Strip(Eval(c.val, env, U))
             ELSE IF dfound \/ test = DefaultKey THEN Scan(v, cases, i + 1, found, TRUE, c.val, FALSE, eu)
             ELSE Scan(v, cases, i + 1, found, hasd, d, dfound, eu))
       ELSE (IF found THEN Scan(v, cases, i + 1, found, hasd, d, dfound, eu)
             ELSE IF m = "?" THEN POISON
             ELSE IF m = "eq" THEN Scan(v, cases, i + 1, TRUE, hasd, d, dfound, eu)
             ELSE IF test = DefaultKey THEN Scan(v, cases, i + 1, found, hasd, d, TRUE, eu)
             ELSE Scan(v, cases, i + 1, found, hasd, d, dfound, eu))

EvalNode(n, env, U) ==
  CASE n.k = "text"  -> n.s
    [] n.k = "param" -> (IF Bound(env, n.name) THEN Lookup(env, n.name)
                         ELSE IF n.hasdef THEN Eval(n.def, env, U)
                         ELSE <<"{", "{", "{">> \o n.name \o <<"}", "}", "}">>)
    [] n.k = "call"  -> (IF n.t = 0 \/ n.t > Len(U) THEN <<>>
                         ELSE Eval(U[n.t], Bind(n.args, 1, 1, env, U), U))
    [] n.k = "if"    -> LET c == Strip(Eval(n.c, env, U)) IN
                        (IF Poisoned(c) THEN POISON
                         ELSE IF c # <<>> THEN Strip(Eval(n.t, env, U))
                         ELSE IF n.n >= 3 THEN Strip(Eval(n.e, env, U)) ELSE <<>>)
    [] n.k = "ifeq"  -> LET x == Strip(Eval(n.a, env, U))
                            y == Strip(Eval(n.b, env, U))
                            m == IF Poisoned(x) \/ Poisoned(y) THEN "?" ELSE Cmp(x, y) IN
                        (IF m = "?" THEN POISON
                         ELSE IF m = "eq" THEN Strip(Eval(n.t, env, U))
                         ELSE IF n.n >= 4 THEN Strip(Eval(n.e, env, U)) ELSE <<>>)
    [] n.k = "switch" -> LET v == Strip(Eval(n.v, env, U)) IN
                         (IF Poisoned(v) THEN POISON
                          ELSE Scan(v, n.cases, 1, FALSE, FALSE, <<>>, FALSE, <<env, U>>))

\* the page is the last body; it is expanded in an empty frame against the templates before it
Expected(U) == Eval(U[Len(U)], <<>>, SubSeq(U, 1, Len(U) - 1))

-----------------------------------------------------------------------------
(* ------------------------------ serialisation to wikitext atoms ------------------------------
   ws = 0: no redundant whitespace; 1: blanks; 2: newline + blank — only in places where
   MediaWiki trims (template names, named arguments, arguments of parser functions).        *)
Pad(ws) == CASE ws = 0 -> <<>> [] ws = 1 -> <<SP>> [] OTHER -> <<NL, SP>>
TName(t) == CASE t = 0 -> "T0" [] t = 1 -> "T1" [] t = 2 -> "T2" [] t = 3 -> "T3" [] OTHER -> "T4"

RECURSIVE Ser(_, _), SerNode(_, _), SerArgs(_, _, _), SerCases(_, _, _)
Ser(body, ws) == IF body = <<>> THEN <<>> ELSE SerNode(Head(body), ws) \o Ser(Tail(body), ws)
Padded(body, ws) == Pad(ws) \o Ser(body, ws) \o Pad(ws)

SerArgs(args, i, ws) ==
  IF i > Len(args) THEN <<>>
  ELSE LET a == args[i] IN
       (IF a.name = <<>> THEN <<"|">> \o Ser(a.val, ws)
        ELSE <<"|">> \o Pad(ws) \o a.name \o Pad(ws) \o <<"=">> \o Padded(a.val, ws))
       \o SerArgs(args, i + 1, ws)

SerCases(cases, i, ws) ==
  IF i > Len(cases) THEN <<>>
  ELSE LET c == cases[i] IN
       (IF c.hasval THEN <<"|">> \o Padded(c.key, ws) \o <<"=">> \o Padded(c.val, ws)
        ELSE <<"|">> \o Padded(c.key, ws))
       \o SerCases(cases, i + 1, ws)

SerNode(n, ws) ==
  CASE n.k = "text"  -> n.s
    [] n.k = "param" -> <<"{{{">> \o n.name \o (IF n.hasdef THEN <<"|">> \o Ser(n.def, ws) ELSE <<>>) \o <<"}}}">>
    [] n.k = "call"  -> <<"{{">> \o Pad(ws) \o <<TName(n.t)>> \o Pad(ws) \o SerArgs(n.args, 1, ws) \o <<"}}">>
    [] n.k = "if"    -> <<"{{", "#if:">> \o Padded(n.c, ws) \o <<"|">> \o Padded(n.t, ws)
                        \o (IF n.n >= 3 THEN <<"|">> \o Padded(n.e, ws) ELSE <<>>) \o <<"}}">>
    [] n.k = "ifeq"  -> <<"{{", "#ifeq:">> \o Padded(n.a, ws) \o <<"|">> \o Padded(n.b, ws) \o <<"|">> \o Padded(n.t, ws)
                        \o (IF n.n >= 4 THEN <<"|">> \o Padded(n.e, ws) ELSE <<>>) \o <<"}}">>
    [] n.k = "switch" -> <<"{{", "#switch:">> \o Padded(n.v, ws) \o SerCases(n.cases, 1, ws) \o <<"}}">>

-----------------------------------------------------------------------------
(* ------------------------------ the generator automaton ------------------------------ *)
C(s) == s    \* readability: a character sequence
WordsFull  == {<<>>, <<"a">>, <<"b">>, <<"1">>, <<"0", "1">>, <<"1", ".", "0">>, <<"+", "1">>, <<"2">>, <<SP>>, <<NL>>}
WordsSmall == {<<>>, <<"a">>, <<"1">>, <<"0", "1">>, <<SP>>}
WordsNum   == {<<>>, <<"a">>, <<"1">>, <<"0", "1">>, <<"1", ".", "0">>, <<"+", "1">>, <<"2">>, <<".", "5">>, <<"0", ".", "5", "0">>}
WordsTiny  == {<<"a">>, <<"1">>, <<"0", "1">>}
Words == CASE WordSet = "full" -> WordsFull [] WordSet = "small" -> WordsSmall [] WordSet = "tiny" -> WordsTiny [] OTHER -> WordsNum
Names == CASE WordSet = "small" -> {<<"1">>, <<"x">>} [] WordSet = "tiny" -> {} [] OTHER -> {<<"1">>, <<"2">>, <<"x">>}
Leaves == {Text(w) : w \in Words} \cup {Param(n) : n \in Names} \cup {Text(DefaultKey)}

Item(b, d)       == [b |-> b, d |-> d, tag |-> "", x |-> <<>>]
ArgItem(b, d, n) == [b |-> b, d |-> d, tag |-> "arg", x |-> n]
CaseItem(c, d)   == [b |-> <<>>, d |-> d, tag |-> "case", x |-> c]
Max(a, b) == IF a > b THEN a ELSE b

Positions(k) == IF Len(stack) < k THEN {} ELSE IF AnyPos THEN 1..(Len(stack) - k + 1) ELSE {Len(stack) - k + 1}
Plain(i, k)  == \A j \in i..(i + k - 1) : stack[j].tag = ""
MaxD(i, k)   == LET S == {stack[j].d : j \in i..(i + k - 1)} IN CHOOSE m \in S : \A o \in S : o <= m
Replace(i, k, item) == SubSeq(stack, 1, i - 1) \o <<item>> \o SubSeq(stack, i + k, Len(stack))
\* "#default" may only be used as the key of a switch case
NoDefaultKey(i, k) == \A j \in i..(i + k - 1) : \A m \in 1..Len(stack[j].b) : stack[j].b[m] # Text(DefaultKey)

\* ({{{1}}},{{{2| d }}},{{{x}}}) shows every binding a call makes, with the whitespace it carries
EchoBody == <<Text(<<"(">>), Param(<<"1">>), Text(<<",">>), ParamD(<<"2">>, <<Text(<<SP, "d", SP>>)>>), Text(<<",">>), Param(<<"x">>), Text(<<")">>)>>

\* tagged items (named arguments, switch cases) still need constructors to absorb them: one
\* #switch per run of case items, one call per three adjacent named arguments
RunStart(st, j, tag) == IF \E m \in 1..(j - 1) : st[m].tag # tag
                        THEN (CHOOSE m \in 1..(j - 1) : st[m].tag # tag /\ \A o \in (m + 1)..(j - 1) : st[o].tag = tag) + 1
                        ELSE 1
PendingOf(st) == Cardinality({j \in 1..Len(st) : st[j].tag = "case" /\ RunStart(st, j, "case") = j})
                 + Cardinality({j \in 1..Len(st) : st[j].tag = "arg" /\ (j - RunStart(st, j, "arg")) % 3 = 0})
Pending == PendingOf(stack)
\* every action keeps enough constructors in reserve to absorb what is pending afterwards
Affordable == ops' >= PendingOf(stack')

Init == /\ univ = IF Preset = "echo" THEN <<EchoBody>> ELSE <<>>
        /\ stack = <<>>
        /\ fuel = Fuels[Len(univ) + 1]
        /\ ops = Ops
        /\ feat = {}

Push == /\ ~Done /\ fuel > 0
        /\ \E l \in Leaves : stack' = Append(stack, Item(<<l>>, 0))
        /\ fuel' = fuel - 1 /\ UNCHANGED <<univ, ops, feat>>

Cat == /\ ~Done
       /\ \E i \in Positions(2) :
            /\ Plain(i, 2) /\ NoDefaultKey(i, 2)
            /\ stack' = Replace(i, 2, Item(stack[i].b \o stack[i + 1].b, MaxD(i, 2)))
       /\ UNCHANGED <<univ, fuel, ops, feat>>

MkParamD == /\ ~Done /\ ops > 0 /\ ops' = ops - 1
            /\ \E i \in Positions(1), n \in Names :
                 /\ Plain(i, 1) /\ NoDefaultKey(i, 1) /\ stack[i].d < MaxDepth
                 /\ stack' = Replace(i, 1, Item(<<ParamD(n, stack[i].b)>>, stack[i].d + 1))
            /\ Affordable /\ UNCHANGED <<univ, fuel, feat>>

MkIf == /\ ~Done /\ ops > 0 /\ ops' = ops - 1
        /\ \E k \in {2, 3} : \E i \in Positions(k) :
             /\ Plain(i, k) /\ NoDefaultKey(i, k) /\ MaxD(i, k) < MaxDepth
             /\ stack' = Replace(i, k, Item(<<IfN(stack[i].b, stack[i + 1].b, IF k = 3 THEN stack[i + 2].b ELSE <<>>, k)>>, MaxD(i, k) + 1))
        /\ Affordable /\ UNCHANGED <<univ, fuel, feat>>

MkIfEq == /\ ~Done /\ ops > 0 /\ ops' = ops - 1
          /\ \E k \in {3, 4} : \E i \in Positions(k) :
               /\ Plain(i, k) /\ NoDefaultKey(i, k) /\ MaxD(i, k) < MaxDepth
               /\ stack' = Replace(i, k, Item(<<IfEqN(stack[i].b, stack[i + 1].b, stack[i + 2].b,
                                                        IF k = 4 THEN stack[i + 3].b ELSE <<>>, k)>>, MaxD(i, k) + 1))
          /\ Affordable /\ UNCHANGED <<univ, fuel, feat>>

\* a switch is assembled from case items: key=value (2 bodies), key alone (1 body); a run of case
\* items is always headed by a plain body (the switch value), so that it can be absorbed
Headed(i) == IF i = 1 THEN FALSE ELSE stack[i - 1].tag \in {"", "case"}
\* a #switch takes at most three cases: a run of case items never grows beyond that
RECURSIVE CasesBefore(_), CasesAfter(_)
CasesBefore(i) == IF i >= 1 /\ stack[i].tag = "case" THEN 1 + CasesBefore(i - 1) ELSE 0
CasesAfter(i)  == IF i <= Len(stack) /\ stack[i].tag = "case" THEN 1 + CasesAfter(i + 1) ELSE 0
RoomForCase(i, k) == CasesBefore(i - 1) + CasesAfter(i + k) <= 2
FollowedByCase(i, k) == IF i + k > Len(stack) THEN FALSE ELSE stack[i + k].tag = "case"
IsDefaultCase(c) == c.key = <<Text(DefaultKey)>>
PlainBody(b) == \A i \in 1..Len(b) : b[i].k = "text"
KeyText(c) == Strip(Flat([i \in 1..Len(c.key) |-> c.key[i].s]))
\* MediaWiki takes the last default; at most one is generated
OneDefault(cs) == Cardinality({j \in 1..Len(cs) : IsDefaultCase(cs[j])}) + (IF cs[Len(cs)].hasval THEN 0 ELSE 1) <= 1
NumDupKeys(cs) == \E i, j \in 1..Len(cs) :
                    /\ i < j /\ PlainBody(cs[i].key) /\ PlainBody(cs[j].key)
                    /\ KeyText(cs[i]) # KeyText(cs[j]) /\ Cmp(KeyText(cs[i]), KeyText(cs[j])) = "eq"
BoundName(args, j) == IF args[j].name = <<>>
                      THEN PosName(Cardinality({m \in 1..j : args[m].name = <<>>}))
                      ELSE Strip(args[j].name)
DupArgs(args) == \E i, j \in 1..Len(args) : i < j /\ BoundName(args, i) = BoundName(args, j)
MkCase == /\ ~Done
          /\ \/ \E i \in Positions(2) :
                  /\ Plain(i, 2) /\ NoDefaultKey(i + 1, 1) /\ Headed(i) /\ RoomForCase(i, 2)
                  /\ (IF stack[i].b = <<Text(DefaultKey)>> THEN TRUE ELSE NoDefaultKey(i, 1))
                  /\ stack' = Replace(i, 2, CaseItem([key |-> stack[i].b, hasval |-> TRUE, val |-> stack[i + 1].b], MaxD(i, 2)))
                  /\ feat' = IF Ser(stack[i].b, 0) = <<>> /\ Ser(stack[i + 1].b, 0) = <<>> THEN feat \cup {"emptycase"} ELSE feat   \* "|="
             \/ \E i \in Positions(1) :
                  /\ Plain(i, 1) /\ Headed(i) /\ RoomForCase(i, 1)
                  /\ (IF stack[i].b = <<Text(DefaultKey)>> THEN TRUE ELSE NoDefaultKey(i, 1))
                  /\ stack' = Replace(i, 1, CaseItem([key |-> stack[i].b, hasval |-> FALSE, val |-> <<>>], stack[i].d))
                  /\ UNCHANGED feat
          /\ ops' = ops /\ Affordable /\ UNCHANGED <<univ, fuel>>

CasesAt(i, k) == [j \in 1..k |-> stack[i + j - 1].x]
\* value body followed by k case items; without a value body in front the switch tests the empty string
MkSwitch == /\ ~Done /\ ops > 0 /\ ops' = ops - 1
            /\ \E k \in 1..3 : \E i \in Positions(k + 1) :
                 /\ Plain(i, 1) /\ NoDefaultKey(i, 1) /\ \A j \in (i + 1)..(i + k) : stack[j].tag = "case"
                 /\ ~FollowedByCase(i, k + 1)
                 /\ MaxD(i, k + 1) < MaxDepth
                 /\ OneDefault(CasesAt(i + 1, k))
                 /\ (AllowNumDup \/ ~NumDupKeys(CasesAt(i + 1, k)))
                 /\ stack' = Replace(i, k + 1, Item(<<SwitchN(stack[i].b, CasesAt(i + 1, k))>>, MaxD(i, k + 1) + 1))
                 /\ feat' = IF NumDupKeys(CasesAt(i + 1, k)) THEN feat \cup {"numdupkeys"} ELSE feat
            /\ Affordable /\ UNCHANGED <<univ, fuel>>

\* a template that does not exist (T0) can only be called while no template exists yet
Callable == IF univ = <<>> THEN (IF NT = 0 THEN {} ELSE {0}) ELSE 1..Len(univ)
\* a named argument is a tagged body; untagged bodies are positional arguments
TagArg == /\ ~Done /\ Callable # {}
          /\ \E i \in Positions(1), n \in Names :
               /\ Plain(i, 1) /\ NoDefaultKey(i, 1) /\ ~FollowedByCase(i, 1)
               /\ stack' = Replace(i, 1, ArgItem(stack[i].b, stack[i].d, n))
          /\ ops' = ops /\ Affordable /\ UNCHANGED <<univ, fuel, feat>>

ArgsAt(i, k) == [j \in 1..k |-> [name |-> stack[i + j - 1].x, val |-> stack[i + j - 1].b]]
MkCall == /\ ~Done /\ ops > 0 /\ ops' = ops - 1
          /\ \E k \in 0..3 : \E t \in Callable :
               IF k = 0
               THEN /\ fuel > 0
                    /\ stack' = Append(stack, Item(<<Call(t, <<>>)>>, 1))
                    /\ fuel' = fuel - 1
                    /\ UNCHANGED feat
               ELSE \E i \in Positions(k) :
                      /\ \A j \in i..(i + k - 1) : stack[j].tag \in {"", "arg"}
                      /\ NoDefaultKey(i, k) /\ MaxD(i, k) < MaxDepth
                      /\ (AllowDup \/ ~DupArgs(ArgsAt(i, k)))
                      /\ stack' = Replace(i, k, Item(<<Call(t, ArgsAt(i, k))>>, MaxD(i, k) + 1))
                      /\ feat' = IF DupArgs(ArgsAt(i, k)) THEN feat \cup {"dupbind"} ELSE feat
                      /\ UNCHANGED fuel
          /\ Affordable /\ UNCHANGED univ

Finish == /\ ~Done /\ Len(stack) = 1 /\ Plain(1, 1) /\ NoDefaultKey(1, 1)
          /\ univ' = Append(univ, stack[1].b)
          /\ stack' = <<>>
          /\ fuel' = IF Len(univ) + 1 < NBodies THEN Fuels[Len(univ) + 2] ELSE 0
          /\ ops' = IF Len(univ) + 1 < NBodies THEN Ops ELSE 0
          /\ UNCHANGED feat

Next == Push \/ Cat \/ MkParamD \/ MkIf \/ MkIfEq \/ MkCase \/ MkSwitch \/ TagArg \/ MkCall \/ Finish
Spec == Init /\ [][Next]_vars

-----------------------------------------------------------------------------
(* ------------------------------ oracle sanity ------------------------------ *)
ASSUME \A w \in WordsFull \cup WordsNum : Eval(<<Text(w)>>, <<>>, <<>>) = w
ASSUME Strip(<<SP, NL, "a", SP, "b", NL>>) = <<"a", SP, "b">>
ASSUME Strip(<<SP, NL>>) = <<>>
ASSUME Cmp(<<"0", "1">>, <<"1">>) = "eq" /\ Cmp(<<"1", ".", "0">>, <<"+", "1">>) = "eq" /\ Cmp(<<"1">>, <<"2">>) = "ne"
ASSUME Cmp(<<".", "5">>, <<"0", ".", "5", "0">>) = "eq" /\ Cmp(<<"a">>, <<"a">>) = "eq" /\ Cmp(<<"a">>, <<"b">>) = "ne"
ASSUME Cmp(<<"1", "a">>, <<"1">>) = "ne" /\ Cmp(<<"1", ".", "0", ".">>, <<"1">>) = "ne" /\ Cmp(<<"-", "0">>, <<"0">>) = "eq"
ASSUME Cmp(<<"1", SP, "1">>, <<"1", "1">>) = "ne" /\ ~IsNumeric(<<".">>) /\ ~IsNumeric(<<"+">>) /\ IsNumeric(<<"1", ".">>)
\* binding: later wins, positional unstripped, named stripped, default, literal
ASSUME LET T == <<<<Text(<<"[">>), Param(<<"1">>), Text(<<"|">>), ParamD(<<"x">>, <<Text(<<"d">>)>>), Text(<<"|">>), Param(<<"2">>), Text(<<"]">>)>>>>
           call(args) == Eval(<<Call(1, args)>>, <<>>, T)
           A(n, v) == [name |-> n, val |-> <<Text(v)>>] IN
       /\ call(<<A(<<>>, <<SP, "a", SP>>)>>) = <<"[", SP, "a", SP, "|", "d", "|", "{", "{", "{", "2", "}", "}", "}", "]">>
       /\ call(<<A(<<>>, <<"a">>), A(<<"1">>, <<SP, "b", SP>>), A(<<"x">>, <<NL, "c">>)>>) = <<"[", "b", "|", "c", "|", "{", "{", "{", "2", "}", "}", "}", "]">>
       /\ call(<<A(<<"2">>, <<"a">>), A(<<>>, <<"b">>), A(<<>>, <<"c">>)>>) = <<"[", "b", "|", "d", "|", "c", "]">>

TypeOK == /\ Len(univ) <= NBodies
          /\ fuel \in 0..20 /\ ops \in 0..Ops /\ Pending <= ops
          /\ \A i \in 1..Len(stack) : stack[i].d <= MaxDepth

Squeeze(s) == SelectSeq(s, LAMBDA c : c \notin WS)
OracleLaws ==
  Done =>
    LET page == univ[NBodies]
        e    == Expected(univ) IN
    /\ (PlainBody(page) => e = Ser(page, 0))                       \* text without template syntax is unchanged
    /\ Squeeze(Ser(page, 0)) = Squeeze(Ser(page, 1))               \* the spellings differ in whitespace only
    /\ Squeeze(Ser(page, 0)) = Squeeze(Ser(page, 2))
    /\ (Len(page) = 1 /\ page[1].k \in {"if", "ifeq", "switch"} /\ ~Poisoned(e) => Strip(e) = e)   \* conditional results are trimmed

EmitProgram ==
  (Emit /\ Done) =>
    LET e == Expected(univ) IN
    IF Poisoned(e) THEN PrintT("@@" \o ToJson([oos |-> TRUE]))
    ELSE PrintT("@@" \o ToJson([w0 |-> [i \in 1..NBodies |-> Ser(univ[i], 0)],
                                w2 |-> [i \in 1..NBodies |-> Ser(univ[i], 2)],
                                feat |-> feat,
                                expected |-> e]))
=============================================================================
