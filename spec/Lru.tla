-------------------------------- MODULE Lru --------------------------------
(* Beyond the listed properties: mwlib.utils.lrucache.LRUCache - the cache behind
   nserve.collid2qserve (which queue server a collection talks to: Front.tla's Sticky holds as long
   as nothing is evicted) and behind the template parser's parse cache.

   Abstract meaning: a map plus a recency order; a hit and a store make the key the most recent;
   after every operation at most `Max` keys remain, and the ones that went are the least recently
   used.  (The implementation keeps an access queue with duplicates, reference counts, and compacts
   the queue when it is longer than 4 * Max - none of which may show.)  *)
EXTENDS Naturals, Sequences, FiniteSets, TLC, Json

CONSTANTS Keys, Vals, Max, MaxLen, EmitCases

VARIABLES order,   \* sequence of the cached keys, least recently used first
          val,     \* Keys -> Vals \cup {0}    (0: not cached)
          hist
vars == <<order, val, hist>>

Init == order = <<>> /\ val = [k \in Keys |-> 0] /\ hist = <<>>

Without(s, k) == SelectSeq(s, LAMBDA x : x # k)
Touch(k) == Append(Without(order, k), k)
(* drop least recently used keys until Max remain *)
Trim(s) == IF Len(s) > Max THEN SubSeq(s, Len(s) - Max + 1, Len(s)) ELSE s
Dropped(s) == {s[i] : i \in 1..(Len(s) - Len(Trim(s)))}

Get(k) ==
  IF val[k] # 0
  THEN /\ order' = Touch(k) /\ UNCHANGED val
       /\ hist' = Append(hist, [op |-> "get", k |-> k, ret |-> val[k], keys |-> {order[i] : i \in 1..Len(order)}])
  ELSE /\ UNCHANGED <<order, val>>
       /\ hist' = Append(hist, [op |-> "get", k |-> k, ret |-> 0, keys |-> {order[i] : i \in 1..Len(order)}])

Set(k, v) ==
  LET t == Touch(k) IN
  /\ order' = Trim(t)
  /\ val' = [x \in Keys |-> IF x \in Dropped(t) THEN 0 ELSE IF x = k THEN v ELSE val[x]]
  /\ hist' = Append(hist, [op |-> "set", k |-> k, v |-> v, keys |-> {Trim(t)[i] : i \in 1..Len(Trim(t))}])

Room == Len(hist) < MaxLen
DoGet == Room /\ \E k \in Keys : Get(k)
DoSet == Room /\ \E k \in Keys, v \in Vals : Set(k, v)
Next == DoGet \/ DoSet
Spec == Init /\ [][Next]_vars

TypeOK == Len(order) <= Max
Consistent == \A k \in Keys : (val[k] # 0) <=> (\E i \in 1..Len(order) : order[i] = k)
NoDuplicates == \A i, j \in 1..Len(order) : order[i] = order[j] => i = j
(* a key that was just stored or hit is not the next to go *)
RecentSurvives == [][\A i \in 1..Len(hist') : (i = Len(hist') /\ (hist'[i].op = "set" \/ hist'[i].ret # 0) /\ Max >= 1)
                       => order'[Len(order')] = hist'[i].k]_vars

EmitFull == (EmitCases /\ Len(hist) = MaxLen) => PrintT("@@" \o ToJson([hist |-> hist]))
=============================================================================
