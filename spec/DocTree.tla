------------------------------ MODULE DocTree ------------------------------
(* C05 — the tree-edit API of mwlib.parser.advtree.AdvancedNode as a state machine.

   State: an object heap `parent`, `kids` over a fixed set of node identities (some allocated,
   some still free), one of which is the document root.  The five operations are transcribed
   from advtree.py:94-150 *with their real effects*, including the unsafe ones:

     append_child(p, c)          kids[p] += c ; parent[c] = p               (does NOT detach c)
     remove_child(p, c)          = replace_child(p, c, <<>>)
     replace_child(p, c, news)   first occurrence of c in kids[p] replaced by news ;
                                 parent[c] = None ; parent[x] = p for x in news
     move_to(n, t, prefix)       parent[n].remove_child(n) if parent[n] ; insert n before/behind t
                                 in kids[parent[t]] ; parent[n] = parent[t]
     copy(n)                     deep copy of the subtree of n into fresh objects, parent = None;
                                 if the deep copy raises, nothing has changed

   An operation is *enabled* exactly when the real method returns without raising (ValueError
   from _id_index, AttributeError on a None parent).  With Guarded = TRUE each operation
   additionally carries the precondition under which it preserves WellFormed — the call
   patterns the cleaning passes may use; TLC shows WellFormed is then an invariant.  With
   Guarded = FALSE the very same operations break it (non-vacuity: append_child of an attached
   node).  Every transition TLC generates is printed and replayed on real AdvancedNode objects
   (P-REPLAY): the model must predict the real heap after each call, safe or not. *)
EXTENDS Naturals, Sequences, FiniteSets, TLC, Json

CONSTANTS N,            \* node identities 1..N
          MaxOps,       \* operation sequences up to this length
          Guarded,      \* TRUE: only safe call patterns
          EmitOps       \* TRUE: print every transition as JSON

Nodes == 1..N
Root  == 1

VARIABLES parent, kids, alloc, text, ops
vars == <<parent, kids, alloc, text, ops>>

Range(s) == {s[i] : i \in 1..Len(s)}
IdIndex(s, c) == CHOOSE i \in 1..Len(s) : s[i] = c /\ \A j \in 1..(i - 1) : s[j] # c
RemoveAt(s, i) == SubSeq(s, 1, i - 1) \o SubSeq(s, i + 1, Len(s))
ReplaceAt(s, i, news) == SubSeq(s, 1, i - 1) \o news \o SubSeq(s, i + 1, Len(s))
InsertAt(s, i, x) == SubSeq(s, 1, i - 1) \o <<x>> \o SubSeq(s, i, Len(s))      \* x becomes element i

\* nodes reachable from n through the children lists (n included)
RECURSIVE ReachFrom(_, _)
ReachFrom(frontier, seen) ==
  IF frontier = {} THEN seen
  ELSE LET nxt == UNION {Range(kids[x]) : x \in frontier} \ seen IN ReachFrom(nxt, seen \cup nxt)
Sub(n) == ReachFrom({n}, {n})
Reach  == Sub(Root)

(* C05, first sentence: the document is a proper tree *)
NoDup(s) == \A i, j \in 1..Len(s) : s[i] = s[j] => i = j
WellFormed ==
  /\ parent[Root] = 0                                                   \* the root has no parent
  /\ \A n \in Reach : \A k \in 1..Len(kids[n]) : parent[kids[n][k]] = n \* child's parent link = lister
  /\ \A n \in Reach : NoDup(kids[n])                                    \* listed once (with the line above: once overall)
  /\ \A n \in Reach : Root \notin Range(kids[n])                        \* no cycle through the root
  /\ \A n \in Reach : text[n] => kids[n] = <<>>                         \* text leaves

\* a self-contained, consistent subtree hanging at n (what copy() returns, what Div() is)
ConsistentSub(n) ==
  /\ \A m \in Sub(n) : \A k \in 1..Len(kids[m]) : parent[kids[m][k]] = m
  /\ \A m \in Sub(n) : NoDup(kids[m])
  /\ n \notin UNION {Range(kids[m]) : m \in Sub(n)}
  /\ \A m \in Sub(n) : text[m] => kids[m] = <<>>
ListedBy(c) == {p \in alloc : c \in Range(kids[p])}
\* a detached consistent subtree that shares nothing with the document
Detached(c) == /\ c # Root /\ parent[c] = 0 /\ ListedBy(c) = {}
               /\ ConsistentSub(c) /\ Sub(c) \cap Reach = {}
               /\ \A m \in Sub(c) \ {c} : ListedBy(m) \subseteq Sub(c)

-----------------------------------------------------------------------------
Shapes ==   \* initial heaps: [parent, kids, text] over nodes 1..3 (+ free identities)
  { [p |-> <<0, 1, 1>>, k |-> <<<<2, 3>>, <<>>, <<>>>>, t |-> <<FALSE, FALSE, TRUE>>],
    [p |-> <<0, 1, 2>>, k |-> <<<<2>>, <<3>>, <<>>>>,    t |-> <<FALSE, FALSE, TRUE>>],
    [p |-> <<0, 1, 2>>, k |-> <<<<2>>, <<3>>, <<>>>>,    t |-> <<FALSE, FALSE, FALSE>>] }

Init == \E s \in Shapes :
          /\ parent = [n \in Nodes |-> IF n <= 3 THEN s.p[n] ELSE 0]
          /\ kids   = [n \in Nodes |-> IF n <= 3 THEN s.k[n] ELSE <<>>]
          /\ text   = [n \in Nodes |-> IF n <= 3 THEN s.t[n] ELSE FALSE]
          /\ alloc  = 1..3
          /\ ops    = 0

Out(op, args) == EmitOps => PrintT("@@" \o ToJson([pre |-> [parent |-> parent, kids |-> kids, alloc |-> alloc, text |-> text],
                                                  op |-> op, args |-> args,
                                                  post |-> [parent |-> parent', kids |-> kids', alloc |-> alloc']]))

\* a fresh childless node (what a pass creates with Div(), Item(), ...)
Bound == ops < MaxOps /\ ops' = ops + 1
New == /\ Bound /\ alloc # Nodes
       /\ UNCHANGED <<parent, kids, text>>
       /\ LET f == CHOOSE x \in Nodes \ alloc : \A y \in Nodes \ alloc : x <= y IN
          /\ alloc' = alloc \cup {f}
          /\ Out("new", <<f>>)

AppendChild(p, c) ==
  /\ Bound /\ p # c
  /\ (Guarded => (p \in Reach /\ ~text[p] /\ Detached(c)))
  /\ kids' = [kids EXCEPT ![p] = Append(@, c)]
  /\ parent' = [parent EXCEPT ![c] = p]
  /\ UNCHANGED <<alloc, text>>
  /\ Out("append_child", <<p, c>>)

RemoveChild(p, c) ==
  /\ Bound /\ c \in Range(kids[p])                                     \* otherwise ValueError
  /\ (Guarded => (p \in Reach \/ c \notin Reach))               \* not through a stale lister
  /\ kids' = [kids EXCEPT ![p] = RemoveAt(@, IdIndex(@, c))]
  /\ parent' = [parent EXCEPT ![c] = 0]
  /\ UNCHANGED <<alloc, text>>
  /\ Out("remove_child", <<p, c>>)

\* replacement lists the passes use: the child's own children (the "keep the content" idiom),
\* one detached subtree, the child's children plus a detached one
NewsChoices(c) ==
  {kids[c]} \cup {<<x>> : x \in alloc \ {c}} \cup {<<x>> \o kids[c] : x \in alloc \ {c}}
Independent(news) == /\ NoDup(news)
                     /\ \A i, j \in 1..Len(news) : i # j => news[i] \notin Sub(news[j])
ReplaceChild(p, c, news) ==
  /\ Bound /\ c \in Range(kids[p])
  /\ (Guarded => (/\ p \in Reach /\ c \notin Range(news) /\ Independent(news)
                  /\ \A i \in 1..Len(news) :
                       \/ Detached(news[i])
                       \/ (news[i] \in Sub(c) \ {c} /\ ConsistentSub(c))))
  /\ kids' = [kids EXCEPT ![p] = ReplaceAt(@, IdIndex(@, c), news)]
  /\ parent' = [n \in Nodes |-> IF n \in Range(news) THEN p ELSE IF n = c THEN 0 ELSE parent[n]]
  /\ UNCHANGED <<alloc, text>>
  /\ Out("replace_child", <<p, c>> \o news)

MoveTo(n, t, prefix) ==
  /\ Bound
  /\ (parent[n] # 0 => n \in Range(kids[parent[n]]))            \* otherwise ValueError
  /\ LET k1 == IF parent[n] = 0 THEN kids ELSE [kids EXCEPT ![parent[n]] = RemoveAt(@, IdIndex(@, n))]
         p1 == [parent EXCEPT ![n] = 0]
         tp == p1[t] IN
     /\ tp # 0                                                \* otherwise AttributeError
     /\ t \in Range(k1[tp])                                   \* otherwise ValueError
     /\ (Guarded => (/\ n # t /\ n # Root /\ t \in Reach /\ tp \in Reach
                     /\ t \notin Sub(n) /\ ConsistentSub(n)
                     /\ (parent[n] = 0 => Detached(n))
                     /\ (parent[n] # 0 => parent[n] \in Reach)))
     /\ LET idx == IdIndex(k1[tp], t) + (IF prefix THEN 0 ELSE 1) IN
        kids' = [k1 EXCEPT ![tp] = InsertAt(@, idx, n)]
     /\ parent' = [p1 EXCEPT ![n] = tp]
  /\ UNCHANGED <<alloc, text>>
  /\ Out("move_to", <<n, t, IF prefix THEN 1 ELSE 0>>)

\* deep copy: fresh identities in preorder of the copied subtree
RECURSIVE Preorder(_)
RECURSIVE PreorderSeq(_)
Preorder(n) == <<n>> \o PreorderSeq(kids[n])
PreorderSeq(s) == IF s = <<>> THEN <<>> ELSE Preorder(Head(s)) \o PreorderSeq(Tail(s))
RECURSIVE Smallest(_, _)
Smallest(S, k) == IF k = 0 THEN <<>> ELSE LET m == CHOOSE x \in S : \A y \in S : x <= y IN <<m>> \o Smallest(S \ {m}, k - 1)
Copy(n) ==
  /\ Bound /\ ConsistentSub(n)                                         \* deepcopy stays inside the subtree
  /\ LET src == Preorder(n)
         free == Nodes \ alloc IN
     /\ Cardinality(free) >= Len(src)
     /\ LET dst == Smallest(free, Len(src))
            img == [i \in 1..Len(src) |-> dst[i]]
            Map(x) == dst[CHOOSE i \in 1..Len(src) : src[i] = x] IN
        /\ alloc' = alloc \cup Range(dst)
        /\ kids' = [m \in Nodes |-> IF m \in Range(dst)
                                    THEN LET s == src[CHOOSE i \in 1..Len(dst) : dst[i] = m] IN
                                         [j \in 1..Len(kids[s]) |-> Map(kids[s][j])]
                                    ELSE kids[m]]
        /\ parent' = [m \in Nodes |-> IF m \in Range(dst)
                                      THEN LET s == src[CHOOSE i \in 1..Len(dst) : dst[i] = m] IN
                                           IF s = n THEN 0 ELSE Map(parent[s])
                                      ELSE parent[m]]
        /\ text' = [m \in Nodes |-> IF m \in Range(dst) THEN text[src[CHOOSE i \in 1..Len(dst) : dst[i] = m]] ELSE text[m]]
  /\ Out("copy", <<n>>)

\* copy() is atomic: when the deep copy fails half way (RecursionError on a very deep subtree,
\* an attribute that cannot be copied) the heap is exactly what it was — in particular the node's
\* parent link, which copy() clears for the duration of the copy, is back
CopyFails(n) ==
  /\ Bound /\ ConsistentSub(n)
  /\ UNCHANGED <<parent, kids, alloc, text>>
  /\ Out("copy_fails", <<n>>)

DoAppend  == \E p, c \in alloc : AppendChild(p, c)
DoRemove  == \E p, c \in alloc : RemoveChild(p, c)
DoReplace == \E p, c \in alloc : \E news \in NewsChoices(c) : ReplaceChild(p, c, news)
DoMove    == \E n, t \in alloc : \E prefix \in BOOLEAN : MoveTo(n, t, prefix)
DoCopy    == \E n \in alloc : Copy(n)
DoCopyFails == \E n \in alloc : CopyFails(n)
Next == New \/ DoAppend \/ DoRemove \/ DoReplace \/ DoMove \/ DoCopy \/ DoCopyFails

Spec == Init /\ [][Next]_vars

\* free identities are untouched
FreeClean == \A n \in Nodes \ alloc : parent[n] = 0 /\ kids[n] = <<>>
=============================================================================
