----------------------------- MODULE WorkQProps -----------------------------
(* The properties C16, C17, C18 state about the queue server, over spec/WorkQ.tla. *)
EXTENDS WorkQ

InHeap(s)    == \E c \in Channels : s \in heap[c]
InBox(s)     == \E w \in Workers : waiter[w].on /\ waiter[w].box = s
InRunning(s) == \E w \in Workers : s \in Range(running[w])
Places(s) == Cardinality({c \in Channels : s \in heap[c]})
           + Cardinality({w \in Workers : waiter[w].on /\ waiter[w].box = s})
           + Cardinality({w \in Workers : s \in Range(running[w])})

TypeOK ==
  /\ count \in 0..MaxJobs /\ Len(job) = count
  /\ \A i \in JobIds : id2job[i] \in 0..count
  /\ \A c \in Channels : heap[c] \subseteq 1..count
  /\ \A w \in Workers : /\ waiter[w].box \in 0..count
                        /\ conn[w] \in {"idle", "blocked", "closing", "closed"}
                        /\ Range(running[w]) \subseteq 1..count
  /\ \A s \in DOMAIN job : s \in heap[job[s].ch] \/ ~InHeap(s)     \* a job only ever sits in its own channel

\* ---------------------------------------------------------------- C16
(* every accepted, unfinished job is in exactly one place: its channel's queue, the mailbox of
   one blocked puller (hand-off in progress), or the running set of one worker *)
Exclusive == \A s \in DOMAIN job : Live(s) => Places(s) = 1
UnfinishedIsBound == \A s \in DOMAIN job : Live(s) => Bound(s)

(* no lost wake-up: no live job waits in a queue that a blocked, empty-handed puller watches *)
NoStarvedWaiter ==
  \A w \in Workers : waiter[w].on /\ waiter[w].box = NoJob =>
     \A c \in (IF waiter[w].chs = {} THEN Channels ELSE waiter[w].chs) : \A s \in heap[c] : ~Live(s)

IsRestartStep == last'.op = "restart"

(* a job is handed out once per enqueueing: it enters a running set only from its queue or from
   that worker's own mailbox, and leaves one unfinished only when the connection dropped *)
HandOutOnce ==
  [][\A w \in Workers :
       /\ \A s \in Range(running'[w]) \ Range(running[w]) :
            (InHeap(s) \/ (waiter[w].on /\ waiter[w].box = s)) /\ ~InRunning(s)
       /\ \A s \in Range(running[w]) \ Range(running'[w]) :
            job'[s].done \/ conn'[w] = "closed" \/ IsRestartStep]_vars

\* ---------------------------------------------------------------- C17
NeverFinished ==       \* a worker never receives a job that is already finished
  [][\A w \in Workers : \A s \in Range(running'[w]) \ Range(running[w]) : ~job[s].done]_vars

EligibleChannel ==     \* ... and only from a channel it asked for
  /\ [][last'.op = "pull" /\ last'.got # NoJob =>
          (last'.chs = {} \/ job[last'.got].ch \in last'.chs)]_vars
  /\ [][\A w \in Workers : waiter[w].on =>
          \A s \in Range(running'[w]) \ Range(running[w]) :
             waiter[w].chs = {} \/ job[s].ch \in waiter[w].chs]_vars
MailboxEligible ==
  \A w \in Workers : waiter[w].on /\ waiter[w].box # NoJob =>
     waiter[w].chs = {} \/ job[waiter[w].box].ch \in waiter[w].chs

PriorityFifo ==        \* an immediate pop returns the <<priority, serial>>-minimum of the live candidates
  [][last'.op = "pull" /\ last'.got # NoJob =>
       \A c \in (IF last'.chs = {} THEN Channels ELSE last'.chs) : \A t \in heap[c] :
          (Live(t) /\ t # last'.got) => Less(job, last'.got, t)]_vars

Final ==               \* the first of finish / kill / timeout wins
  [][\A s \in DOMAIN job : job[s].done =>
        /\ job'[s].done /\ job'[s].err = job[s].err /\ job'[s].res = job[s].res]_vars

FinishedNotRequeued == \* a finished job never re-enters a queue or a mailbox
  [][IsRestartStep \/
     \A s \in DOMAIN job : (job[s].done /\ ~InHeap(s) /\ ~InBox(s)) =>
        ( /\ \A c \in Channels : s \notin heap'[c]
          /\ \A w \in Workers : ~(waiter'[w].on /\ waiter'[w].box = s) )]_vars

IdempotentAdd ==       \* adding under a live id changes nothing
  [][(last'.op = "add" /\ ~last'.new) => view' = view]_vars
(* a second job is created under an id only if no job is known under it (never added, or dropped
   and forgotten) or the known one was killed *)
OneJobPerId ==
  [][count' > count =>
       LET id == job'[count'].id IN id2job[id] = NoJob \/ job[id2job[id]].err = "killed"]_vars

Sum(st) == st.success + st.killed + st.timeout + st.error
CountersAddUp ==
  (~WithRestart) => \A c \in Channels :
     Sum(stats[c]) = Cardinality({s \in DOMAIN job : job[s].done /\ job[s].ch = c})

WaitPending ==         \* a client whose job is finished is released by a callback already queued
  \A c \in Clients : (fwait[c] # NoJob /\ job[fwait[c]].done) =>
     \E i \in DOMAIN wake : wake[i] = [k |-> "evt", w |-> c]
WaitExact ==           \* ... and it is released only when the job is finished
  [][\A c \in Clients : (fwait[c] # NoJob /\ fwait'[c] = NoJob) => (job[fwait[c]].done \/ IsRestartStep)]_vars

\* ---------------------------------------------------------------- C18
RestartKeepsLive ==
  [][IsRestartStep => \A s \in DOMAIN job : (Live(s) /\ Bound(s)) => s \in heap'[job[s].ch]]_vars
RestartKeepsJobs ==
  [][IsRestartStep => (job' = job /\ id2job' = id2job /\ count' = count)]_vars
NoIdReuse == [][count' >= count /\ \A s \in DOMAIN job : s \in DOMAIN job' /\ job'[s].id = job[s].id]_vars

=============================================================================
