------------------------------- MODULE WorkQ -------------------------------
(* The qs job-queue server: qs/jobs.py (workq, job), qs/qserve.py (QPlugin, save/restore) and
   the connection life-cycle of qs/rpcserver.py handle_client.

   One action per atomic stretch of code between two gevent yields:
     Add          rpc_qadd -> workq.push -> pushjob          (hand to one eligible blocked puller, else heap)
     PullStart    rpc_qpull -> workq.pop up to ev.get()      (preen heads, take minimum head, or register + block)
     Deliver      one callback of the event loop's FIFO:
                    value w : the resumption of a blocked puller after ev.get()
                    kill  w : GreenletExit delivered to connection w (EOF on its socket) -> pop's
                              exception path, then QPlugin.shutdown
                    evt   c : a client blocked in waitjobs is resumed
     Finish Kill AdvanceClock(handletimeouts) Disconnect SetInfo Drop Watchdog(dropdead) Wait Restart
   `wake` is the hub's callback queue (gevent runs callbacks FIFO).  With AtomicDrain = TRUE the
   action RunLoop starts a drain during which only Deliver steps happen until the queue is empty
   (exactly one gevent loop iteration; used for replay / trace validation); with FALSE, Deliver
   steps interleave freely with operations (a superset, used for model checking).

   The reference behaviour (all defect switches FALSE) is what C16-C18 demand; the switches
   re-introduce the defect classes found in the pinned code (non-vacuity runs). *)
EXTENDS Naturals, Sequences, FiniteSets, TLC

CONSTANTS Workers, Channels, JobIds, Prios, Tmos, Ttls, Clients, Killers,
          MaxJobs, MaxTime,
          OverwriteMailbox,    \* pushjob may pick a waiter whose mailbox is already filled
          DropOnKill,          \* a job sitting in the mailbox of a killed puller is dropped
          RequeueDone,         \* shutdown re-pushes finished jobs too
          DeliverDone,         \* pop returns a job that finished while in the mailbox
          WithRestart, WithWait, WithInfo, WithDrop, WithReconnect, AtomicDrain,
          AnyRequeueOrder,    \* TRUE: the unfinished jobs of a dropped connection may be re-queued in any order
                              \* (the code uses the insertion order of running_jobs; the property leaves it free)
          AnyDeadlineStart    \* TRUE: the time-to-live of a finished job may start when it finishes OR at the
                              \* first watchdog run after that (the code does the latter; the properties fix neither)

VARIABLES count,     \* serial counter (workq.count)
          job,       \* sequence of job records indexed by serial
          id2job,    \* JobIds -> serial or 0
          heap,      \* Channels -> set of serials (heap order is derived from <<prio, serial>>)
          waiter,    \* Workers -> [on, chs, box]: registration in workq._waiters + AsyncResult value
          conn,      \* Workers -> "idle" | "blocked" | "closing" | "closed"
          running,   \* Workers -> sequence of serials (QPlugin.running_jobs, insertion order)
          wake,      \* FIFO of pending event-loop callbacks
          now,       \* clock
          stats,     \* Channels -> [success, killed, timeout, error] (this incarnation)
          fwait,     \* Clients -> serial waited for, or 0
          draining,  \* a RunLoop is in progress (AtomicDrain only)
          last       \* [op, ...] of the step just taken (for replay; hidden by VIEW in exhaustive runs)

vars  == <<count, job, id2job, heap, waiter, conn, running, wake, now, stats, fwait, draining, last>>
view  == <<count, job, id2job, heap, waiter, conn, running, wake, now, stats, fwait, draining>>

NoJob == 0
ZeroStats == [success |-> 0, killed |-> 0, timeout |-> 0, error |-> 0]
Range(f) == {f[x] : x \in DOMAIN f}
Min(a, b) == IF a < b THEN a ELSE b

Less(jb, s, t) == jb[s].prio < jb[t].prio \/ (jb[s].prio = jb[t].prio /\ s < t)
Live(s)  == s \in DOMAIN job /\ ~job[s].done
Bound(s) == s \in DOMAIN job /\ id2job[job[s].id] = s

-----------------------------------------------------------------------------
(* pushjob's hand-off, as a function on the part of the state it touches.
   st = [waiter, heap, wake]; returns the SET of possible results (random.choice). *)
Eligible(st, ch) ==
  {w \in Workers : /\ st.waiter[w].on
                   /\ (st.waiter[w].chs = {} \/ ch \in st.waiter[w].chs)
                   /\ (OverwriteMailbox \/ st.waiter[w].box = NoJob)}

Push(st, s, ch) ==
  IF Eligible(st, ch) # {}
  THEN {[st EXCEPT !.waiter[w].box = s,
                   !.wake = IF st.waiter[w].box = NoJob
                            THEN Append(st.wake, [k |-> "value", w |-> w])
                            ELSE st.wake] : w \in Eligible(st, ch)}
  ELSE {[st EXCEPT !.heap[ch] = @ \cup {s}]}

RECURSIVE PushAll(_, _)
PushAll(sts, ss) ==
  IF ss = <<>> THEN sts
  ELSE PushAll(UNION {Push(st, Head(ss), job[Head(ss)].ch) : st \in sts}, Tail(ss))

St(wt, hp, wk) == [waiter |-> wt, heap |-> hp, wake |-> wk]

(* all orders in which a set of jobs can be pushed (sets of <= 4 jobs) *)
PermSeqs(S) == {p \in [1..Cardinality(S) -> S] : \A i, j \in 1..Cardinality(S) : i # j => p[i] # p[j]}
PushInOrder(st, sq) ==
  IF AnyRequeueOrder THEN UNION {PushAll({st}, p) : p \in PermSeqs(Range(sq))}
  ELSE PushAll({st}, sq)

(* _preenjobq: pop done heads, i.e. drop the done jobs smaller than every undone one *)
Preen(jb, h) == {s \in h : ~(jb[s].done /\ \A t \in h : ~jb[t].done => Less(jb, s, t))}
PreenAll(jb, hp) == [c \in Channels |-> Preen(jb, hp[c])]

HeadOf(jb, h) == CHOOSE s \in h : \A t \in h : t # s => Less(jb, s, t)

(* workq.pop up to the point where it returns or blocks: result [found, s, heap] *)
PopNow(jb, hp, chs) ==
  LET ph    == PreenAll(jb, hp)
      req   == IF chs = {} THEN Channels ELSE chs
      heads == {HeadOf(jb, ph[c]) : c \in {c \in req : ph[c] # {}}}
  IN IF heads = {} THEN [found |-> FALSE, s |-> NoJob, heap |-> ph]
     ELSE LET j == HeadOf(jb, heads) IN
          [found |-> TRUE, s |-> j, heap |-> [ph EXCEPT ![jb[j].ch] = @ \ {j}]]

(* running_jobs[j.jobid] = j : a later job under the same id replaces the entry in place *)
AddRun(run, s) ==
  IF \E i \in DOMAIN run : job[run[i]].id = job[s].id
  THEN [i \in DOMAIN run |-> IF job[run[i]].id = job[s].id THEN s ELSE run[i]]
  ELSE Append(run, s)
DelRun(run, id) == SelectSeq(run, LAMBDA s : job[s].id # id)

(* _mark_finished on a set of serials (no-op on done ones), with the event notification of
   clients blocked in waitjobs *)
Outcome(e) == IF e = "none" THEN "success" ELSE IF e \in {"killed", "timeout"} THEN e ELSE "error"
Eagers == IF AnyDeadlineStart THEN BOOLEAN ELSE {FALSE}
MarkJobs(ss, e, r, capTtl, eager, t) ==      \* capTtl: finishjob lowers the ttl of a failed job to <= 10
  [s \in DOMAIN job |-> IF s \in ss /\ ~job[s].done
                        THEN LET nttl == IF capTtl /\ e # "none" THEN Min(10, job[s].ttl) ELSE job[s].ttl IN
                             [job[s] EXCEPT !.done = TRUE, !.err = e, !.res = r, !.ttl = nttl,
                                            !.deadline = IF eager THEN t + nttl ELSE @]
                        ELSE job[s]]
MarkStats(ss, e) ==
  [c \in Channels |->
     LET n == Cardinality({s \in ss : ~job[s].done /\ job[s].ch = c}) IN
     [stats[c] EXCEPT ![Outcome(e)] = @ + n]]
WakeClients(wk, ss) ==
  LET cs == {c \in Clients : fwait[c] # NoJob /\ fwait[c] \in ss /\ ~job[fwait[c]].done
                             /\ ~\E i \in DOMAIN wk : wk[i] = [k |-> "evt", w |-> c]}
  IN IF cs = {} THEN wk ELSE Append(wk, [k |-> "evt", w |-> CHOOSE c \in cs : TRUE])   \* |Clients| <= 1

-----------------------------------------------------------------------------
Init ==
  /\ count = 0 /\ job = <<>> /\ id2job = [i \in JobIds |-> NoJob]
  /\ heap = [c \in Channels |-> {}]
  /\ waiter = [w \in Workers |-> [on |-> FALSE, chs |-> {}, box |-> NoJob]]
  /\ conn = [w \in Workers |-> "idle"]
  /\ running = [w \in Workers |-> <<>>]
  /\ wake = <<>> /\ now = 1
  /\ stats = [c \in Channels |-> ZeroStats]
  /\ fwait = [c \in Clients |-> NoJob]
  /\ draining = FALSE
  /\ last = [op |-> "init"]

Quiet == ~draining          \* operations are not interleaved with an atomic drain

(* rpc_qadd / workq.push *)
Add(id, ch, p, t, ttl) ==
  /\ Quiet
  /\ IF id2job[id] # NoJob /\ job[id2job[id]].err # "killed"
     THEN /\ UNCHANGED <<count, job, id2job, heap, waiter, conn, running, wake, now, stats, fwait, draining>>
          /\ last' = [op |-> "add", id |-> id, ch |-> ch, prio |-> p, tmo |-> t, ttl |-> ttl, new |-> FALSE, to |-> "none"]
     ELSE /\ count < MaxJobs
          /\ LET s == count + 1 IN
             /\ count' = s
             /\ job' = Append(job, [id |-> id, ch |-> ch, prio |-> p, done |-> FALSE, err |-> "none",
                                    res |-> "none", tmo |-> now + t, info |-> 0, ttl |-> ttl,
                                    deadline |-> 0, drop |-> FALSE])
             /\ id2job' = [id2job EXCEPT ![id] = s]
             /\ \E st \in Push(St(waiter, heap, wake), s, ch) :
                  /\ waiter' = st.waiter /\ heap' = st.heap /\ wake' = st.wake
                  /\ last' = [op |-> "add", id |-> id, ch |-> ch, prio |-> p, tmo |-> t, ttl |-> ttl, new |-> TRUE,
                              to |-> IF \E w \in Workers : st.waiter[w].box = s
                                     THEN CHOOSE w \in Workers : st.waiter[w].box = s ELSE "heap"]
          /\ UNCHANGED <<conn, running, now, stats, fwait, draining>>

(* rpc_qpull up to the first yield *)
PullStart(w, chs) ==
  /\ Quiet /\ conn[w] = "idle"
  /\ LET r == PopNow(job, heap, chs) IN
     /\ heap' = r.heap
     /\ IF r.found
        THEN /\ running' = [running EXCEPT ![w] = AddRun(@, r.s)]
             /\ UNCHANGED <<waiter, conn>>
        ELSE /\ waiter' = [waiter EXCEPT ![w] = [on |-> TRUE, chs |-> chs, box |-> NoJob]]
             /\ conn' = [conn EXCEPT ![w] = "blocked"]
             /\ UNCHANGED running
     /\ last' = [op |-> "pull", w |-> w, chs |-> chs, got |-> r.s]
  /\ UNCHANGED <<count, job, id2job, wake, now, stats, fwait, draining>>

(* QPlugin.shutdown as handle_client's `finally` runs it: re-queue the unfinished jobs of
   connection w (reference) and forget the connection.  st carries waiter/heap/wake. *)
ShutdownOf(w, st, run) ==
  PushInOrder(st, SelectSeq(run, LAMBDA s : RequeueDone \/ ~job[s].done))

(* the resumption of a blocked puller: `finally: _waiters.remove`, then rpc_qpull records the job.
   Reference: a job that finished while in the mailbox is discarded and the pop is retried.
   If the connection's EOF has been seen meanwhile ("closing"), the client greenlet finds the
   empty line in its queue right after answering and leaves its loop: shutdown runs in the very
   same callback, before the kill that is still queued arrives. *)
DeliverValue(w, rest) ==
  IF ~waiter[w].on \/ waiter[w].box = NoJob
  THEN /\ wake' = rest                       \* stale notification (of an AsyncResult that is gone)
       /\ UNCHANGED <<heap, waiter, conn, running>>
  ELSE LET b   == waiter[w].box
           off == [waiter EXCEPT ![w] = [on |-> FALSE, chs |-> {}, box |-> NoJob]]
           retry == job[b].done /\ ~DeliverDone
           r   == PopNow(job, heap, waiter[w].chs)
           got == IF retry THEN r.s ELSE b
           hp  == IF retry THEN r.heap ELSE heap IN
       IF retry /\ ~r.found
       THEN /\ waiter' = [waiter EXCEPT ![w].box = NoJob]          \* blocks again
            /\ heap' = hp /\ wake' = rest
            /\ UNCHANGED <<running, conn>>
       ELSE IF conn[w] = "closing"
       THEN /\ \E st \in ShutdownOf(w, St(off, hp, rest), AddRun(running[w], got)) :
                 waiter' = st.waiter /\ heap' = st.heap /\ wake' = st.wake
            /\ running' = [running EXCEPT ![w] = <<>>]
            /\ conn' = [conn EXCEPT ![w] = "closed"]
       ELSE /\ waiter' = off /\ heap' = hp /\ wake' = rest
            /\ running' = [running EXCEPT ![w] = AddRun(@, got)]
            /\ conn' = [conn EXCEPT ![w] = "idle"]

(* GreenletExit reaches connection w while it is blocked in pop: pop's exception path re-queues a
   job already sitting in the mailbox (reference), then shutdown.  A kill that arrives after the
   connection has already shut down is a no-op. *)
Requeued(w) ==
  (IF waiter[w].on /\ waiter[w].box # NoJob /\ ~DropOnKill /\ (RequeueDone \/ ~job[waiter[w].box].done)
   THEN <<waiter[w].box>> ELSE <<>>)
  \o SelectSeq(running[w], LAMBDA s : RequeueDone \/ ~job[s].done)

DeliverKill(w, rest) ==
  IF conn[w] # "closing"
  THEN wake' = rest /\ UNCHANGED <<heap, waiter, conn, running>>
  ELSE LET off == [waiter EXCEPT ![w] = [on |-> FALSE, chs |-> {}, box |-> NoJob]] IN
       /\ \E st \in PushInOrder(St(off, heap, rest), Requeued(w)) :
            waiter' = st.waiter /\ heap' = st.heap /\ wake' = st.wake
       /\ running' = [running EXCEPT ![w] = <<>>]
       /\ conn' = [conn EXCEPT ![w] = "closed"]

(* a client blocked in waitjobs is resumed: released iff its job is done *)
DeliverEvt(c) ==
  IF fwait[c] # NoJob /\ job[fwait[c]].done
  THEN /\ fwait' = [fwait EXCEPT ![c] = NoJob]
       /\ id2job' = IF job[fwait[c]].drop /\ id2job[job[fwait[c]].id] = fwait[c]   \* forget only THIS job
                    THEN [id2job EXCEPT ![job[fwait[c]].id] = NoJob] ELSE id2job
  ELSE UNCHANGED <<fwait, id2job>>

Deliver ==
  /\ wake # <<>>
  /\ (AtomicDrain => draining)
  /\ LET e == Head(wake) IN
     /\ CASE e.k = "value" -> /\ DeliverValue(e.w, Tail(wake)) /\ UNCHANGED <<fwait, id2job>>
          [] e.k = "kill"  -> /\ DeliverKill(e.w, Tail(wake)) /\ UNCHANGED <<fwait, id2job>>
          [] e.k = "evt"   -> /\ DeliverEvt(e.w) /\ wake' = Tail(wake) /\ UNCHANGED <<heap, waiter, conn, running>>
     /\ last' = [op |-> "deliver", k |-> e.k, w |-> e.w]
  /\ UNCHANGED <<count, job, now, stats, draining>>

RunLoop ==      \* AtomicDrain: let the event loop run until its callback queue is empty
  /\ AtomicDrain /\ ~draining /\ wake # <<>>
  /\ draining' = TRUE
  /\ last' = [op |-> "runloop"]
  /\ UNCHANGED <<count, job, id2job, heap, waiter, conn, running, wake, now, stats, fwait>>
DrainDone ==
  /\ AtomicDrain /\ draining /\ wake = <<>>
  /\ draining' = FALSE
  /\ last' = [op |-> "drained"]
  /\ UNCHANGED <<count, job, id2job, heap, waiter, conn, running, wake, now, stats, fwait>>

(* rpc_qfinish by connection w for job id `id` (whatever job object is bound to the id now) *)
Finish(w, id, e) ==
  /\ Quiet /\ conn[w] = "idle" /\ id2job[id] # NoJob
  /\ LET s == id2job[id] IN
     /\ \E eager \in Eagers : job' = MarkJobs({s}, e, IF e = "none" THEN "r" ELSE "none", TRUE, eager, now)
     /\ stats' = MarkStats({s}, e)
     /\ wake' = WakeClients(wake, {s})
  /\ running' = [running EXCEPT ![w] = DelRun(@, id)]
  /\ last' = [op |-> "finish", w |-> w, id |-> id, err |-> e]
  /\ UNCHANGED <<count, id2job, heap, waiter, conn, now, fwait, draining>>

(* rpc_qkill by connection k (a worker or the admin client) *)
Kill(k, id) ==
  /\ Quiet /\ (k \in Workers => conn[k] = "idle")
  /\ LET ss == IF id2job[id] # NoJob THEN {id2job[id]} ELSE {} IN
     /\ \E eager \in Eagers : job' = MarkJobs(ss, "killed", "none", FALSE, eager, now)
     /\ stats' = MarkStats(ss, "killed")
     /\ wake' = WakeClients(wake, ss)
  /\ running' = IF k \in Workers THEN [running EXCEPT ![k] = DelRun(@, id)] ELSE running
  /\ last' = [op |-> "kill", k |-> k, id |-> id]
  /\ UNCHANGED <<count, id2job, heap, waiter, conn, now, fwait, draining>>

(* one tick of the clock followed by handletimeouts *)
AdvanceClock ==
  /\ Quiet /\ now < MaxTime
  /\ now' = now + 1
  /\ LET ss == {s \in DOMAIN job : ~job[s].done /\ job[s].tmo <= now + 1} IN
     /\ \E eager \in Eagers : job' = MarkJobs(ss, "timeout", "none", FALSE, eager, now + 1)
     /\ stats' = MarkStats(ss, "timeout")
     /\ wake' = WakeClients(wake, ss)
     /\ heap' = PreenAll(job', heap)
  /\ last' = [op |-> "tick"]
  /\ UNCHANGED <<count, id2job, waiter, conn, running, fwait, draining>>

(* EOF on connection w.  An idle connection's client greenlet reads the empty line and leaves its
   loop at once: shutdown runs right here.  A connection blocked in pull is killed through the
   hub (reader greenlet's link -> kill): that GreenletExit arrives as a later callback. *)
Disconnect(w) ==
  /\ Quiet /\ conn[w] \in {"idle", "blocked"}
  /\ IF conn[w] = "idle"
     THEN /\ \E st \in ShutdownOf(w, St(waiter, heap, wake), running[w]) :
               waiter' = st.waiter /\ heap' = st.heap /\ wake' = st.wake
          /\ running' = [running EXCEPT ![w] = <<>>]
          /\ conn' = [conn EXCEPT ![w] = "closed"]
     ELSE /\ conn' = [conn EXCEPT ![w] = "closing"]
          /\ wake' = Append(wake, [k |-> "kill", w |-> w])
          /\ UNCHANGED <<heap, waiter, running>>
  /\ last' = [op |-> "disconnect", w |-> w]
  /\ UNCHANGED <<count, job, id2job, now, stats, fwait, draining>>

Reconnect(w) ==
  /\ WithReconnect /\ Quiet /\ conn[w] = "closed"
  /\ conn' = [conn EXCEPT ![w] = "idle"]
  /\ last' = [op |-> "connect", w |-> w]
  /\ UNCHANGED <<count, job, id2job, heap, waiter, running, wake, now, stats, fwait, draining>>

SetInfo(id) ==
  /\ WithInfo /\ Quiet /\ id2job[id] # NoJob /\ job[id2job[id]].info < 2
  /\ job' = [job EXCEPT ![id2job[id]].info = @ + 1]
  /\ last' = [op |-> "setinfo", id |-> id]
  /\ UNCHANGED <<count, id2job, heap, waiter, conn, running, wake, now, stats, fwait, draining>>

Drop(id) ==
  /\ WithDrop /\ Quiet /\ id2job[id] # NoJob /\ ~job[id2job[id]].drop
  /\ job' = [job EXCEPT ![id2job[id]].drop = TRUE]
  /\ last' = [op |-> "drop", id |-> id]
  /\ UNCHANGED <<count, id2job, heap, waiter, conn, running, wake, now, stats, fwait, draining>>

(* dropdead: forget bound jobs whose deadline passed; give finished ones a deadline *)
Watchdog ==
  /\ WithDrop /\ Quiet
  /\ LET bs      == {s \in DOMAIN job : Bound(s)}
         expired == {s \in bs : job[s].deadline # 0 /\ job[s].deadline < now} IN
     /\ id2job' = [i \in JobIds |-> IF id2job[i] \in expired THEN NoJob ELSE id2job[i]]
     /\ job' = [s \in DOMAIN job |-> IF s \in bs /\ job[s].done /\ job[s].deadline = 0
                                     THEN [job[s] EXCEPT !.deadline = now + job[s].ttl] ELSE job[s]]
  /\ last' = [op |-> "watchdog"]
  /\ UNCHANGED <<count, heap, waiter, conn, running, wake, now, stats, fwait, draining>>

(* rpc_qwait([id]) by client c *)
Wait(c, id) ==
  /\ WithWait /\ Quiet /\ fwait[c] = NoJob /\ id2job[id] # NoJob
  /\ LET s == id2job[id] IN
     IF job[s].done
     THEN /\ id2job' = IF job[s].drop THEN [id2job EXCEPT ![id] = NoJob] ELSE id2job
          /\ UNCHANGED fwait
          /\ last' = [op |-> "wait", c |-> c, id |-> id, blocked |-> FALSE]
     ELSE /\ fwait' = [fwait EXCEPT ![c] = s]
          /\ UNCHANGED id2job
          /\ last' = [op |-> "wait", c |-> c, id |-> id, blocked |-> TRUE]
  /\ UNCHANGED <<count, job, heap, waiter, conn, running, wake, now, stats, draining>>

(* stop the server, pickle db, start again from the pickle (workq.__getstate__/__setstate__) *)
(* the outcome counters are not part of what C18 asks a restart to preserve: today's code starts
   them at zero; a server that saved them would be just as good - st0 is what they start with *)
RestartTo(st0) ==
  /\ WithRestart /\ Quiet
  /\ heap' = [c \in Channels |-> {s \in DOMAIN job : Bound(s) /\ ~job[s].done /\ job[s].ch = c}]
  /\ waiter' = [w \in Workers |-> [on |-> FALSE, chs |-> {}, box |-> NoJob]]
  /\ conn' = [w \in Workers |-> "idle"]
  /\ running' = [w \in Workers |-> <<>>]
  /\ wake' = <<>>
  /\ stats' = st0
  /\ fwait' = [c \in Clients |-> NoJob]
  /\ last' = [op |-> "restart"]
  /\ UNCHANGED <<count, job, id2job, now, draining>>
Restart == RestartTo([c \in Channels |-> ZeroStats])

(* Canonical representatives (sound because unused ids, and idle workers that hold nothing, are
   interchangeable): an Add uses a bound id or ONE unused id; PullStart / Disconnect by a worker
   that holds nothing is tried for ONE such worker.  Only Next is restricted - the actions
   themselves stay general (the trace modules use them with arbitrary arguments). *)
UnusedIds == {i \in JobIds : id2job[i] = NoJob /\ \A s \in DOMAIN job : job[s].id # i}
AddIds == {i \in JobIds : i \notin UnusedIds} \cup (IF UnusedIds = {} THEN {} ELSE {CHOOSE i \in UnusedIds : TRUE})
FreshWorkers == {w \in Workers : conn[w] = "idle" /\ running[w] = <<>>}
ActWorkers == {w \in Workers : w \notin FreshWorkers} \cup (IF FreshWorkers = {} THEN {} ELSE {CHOOSE w \in FreshWorkers : TRUE})

DoAdd ==
  \E id \in AddIds, ch \in Channels, p \in Prios, t \in Tmos, ttl \in Ttls :
     /\ (id2job[id] # NoJob /\ job[id2job[id]].err # "killed") =>       \* a no-op re-add: one representative
           (ch = job[id2job[id]].ch /\ p = job[id2job[id]].prio /\ \A t2 \in Tmos : t <= t2)
     /\ Add(id, ch, p, t, ttl)
DoPull       == \E w \in ActWorkers, chs \in {{}} \cup {{c} : c \in Channels} : PullStart(w, chs)
DoFinish     == \E w \in Workers : \E i \in DOMAIN running[w] : \E e \in {"none", "err"} :
                   Finish(w, job[running[w][i]].id, e)
DoKill       == \E k \in Killers, id \in JobIds : id2job[id] # NoJob /\ Kill(k, id)
DoDisconnect == \E w \in ActWorkers : Disconnect(w)
DoReconnect  == \E w \in Workers : Reconnect(w)
DoSetInfo    == \E id \in JobIds : SetInfo(id)
DoDrop       == \E id \in JobIds : Drop(id)
DoWait       == \E c \in Clients, id \in JobIds : Wait(c, id)

Next ==
  \/ DoAdd \/ DoPull \/ Deliver \/ RunLoop \/ DrainDone \/ DoFinish \/ DoKill \/ AdvanceClock
  \/ DoDisconnect \/ DoReconnect \/ DoSetInfo \/ DoDrop \/ Watchdog \/ DoWait \/ Restart

Spec == Init /\ [][Next]_vars

=============================================================================
