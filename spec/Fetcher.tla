------------------------------ MODULE Fetcher ------------------------------
(* C11 -- fetching a collection yields a complete and faithful archive.

   Model of mwlib/network/fetch.py Fetcher (with sapi.MwApi.do_request and workflow.py) at the
   granularity of gevent's cooperative scheduling: a *work item* is one greenlet spawned by
   _refcall/_refcall_noinc (or the download pool); an *action* is the stretch an item runs
   between two yields (semaphore wait, request in flight, pool join).  Item kinds:

     FH  fetch_html(name, list)            spawns one H1 per entry
     H1  fetch(content)                    html semaphore -> api semaphore -> parse request
     FU  fetch_used(name, list)            spawns one UB per ReqLimit block, joins them
     UB  fetch_used_block(name, block)     query prop=images with continuation; on the final
                                           answer: redirects, enqueue_missing -> todoImg, scheduled
     ET  expand_templates_from_title(t)    expandtemplates -> write page; contributors -> authors
     ER  expand_templates_from_revid(r)    revisions -> expandtemplates (POST) -> redirect?
                                           (redirects, spawn ET + FU for the target) write page;
                                           contributors -> authors
     II  fetch_imageinfo(block)            imageinfo -> info, schedule download, descTodo, NB
     DL  _download_image(title)            spawns GET in the download pool
     GET download_to_file                  stream to temp, rename
     NB  handle_new_basepath(host)         api lookup (ping for an unknown host), take descTodo,
                                           mark "d:" titles scheduled, siteinfo -> spawn IP, IE
     IP  fetch_image_page(block, host)     revisions -> categories (continuation) -> write pages
     IE  get_image_edits(title, host)      contributors -> authors under the local title
   plus Dispatch (dispatcher greenlet, woken by the event every finished item sets) and Join
   (main greenlet: pool.join, finish, "not all items processed" check).

   In today's expanded=True mode revids_todo / pages_todo are never filled (prop=images carries
   no revisions/templates) and title2latest stays empty; they are not modelled.

   The reference model stores contributors (what the statement demands).  Today's code does
   not -- that is a finding of the conformance check, not part of this module (Mut="noauthors"
   re-creates it for the non-vacuity run). *)
EXTENDS WikiApi

CONSTANTS Family,      \* set of configurations [wiki, book, reqlimit, reslimit, fetchimages, html]
          Mut,         \* "none" in the reference; a defect class for non-vacuity runs
          Eager        \* TRUE: a response is processed only when no internal step (start of a
                       \* spawned item, semaphore wake-up, block join, dispatch) is possible -- the
                       \* schedules of gevent's callback queue, where those run before the loop
                       \* polls again; FALSE: every interleaving

VARIABLES cfg,         \* the configuration of this behaviour (never changes)
          items,       \* bag of work items
          scheduled,   \* Fetcher.scheduled: "i:"img (imageinfo), "g:"img (download), "d:"img (description)
          todoImg,     \* Fetcher.imageinfo_todo
          descTodo,    \* Fetcher.imagedescription_todo: host -> sequence of image titles
          redirects,   \* Fetcher.redirects
          sem,         \* free slots of limit_fetch_semaphore per api host
          hsem,        \* free slots of Fetcher.api_semaphore (html)
          sharedKnown, \* the shared repository's api object is in api_cache
          dp,          \* dispatch_event is set
          phase,       \* "run" | "done" | "failed"
          aTitle, aRev, aHtml, aInfo, aFiles, aAuth, aRedir,     \* the archive
          issued,      \* history: guarded requests issued ("ii:"img, "g:"img, "d:"img) and
          dup,         \*          whether one of them was issued twice
          last         \* history: the step just taken (for trace validation; not in VIEW)

ctl   == <<scheduled, todoImg, descTodo, redirects>>
sems  == <<sem, hsem, sharedKnown>>
arch  == <<aTitle, aRev, aHtml, aInfo, aFiles, aAuth>>
hist  == <<issued, dup>>
vars  == <<cfg, items, ctl, sems, dp, phase, arch, aRedir, hist, last>>
view  == <<cfg, items, ctl, sems, dp, phase, arch, aRedir, hist>>

W  == cfg.wiki
L  == cfg.reqlimit          \* api_request_limit: block size and semaphore size
RL == cfg.reslimit          \* api_result_limit (imlimit, cllimit) and rvlimit (pclimit)

-----------------------------------------------------------------------------
Item(k, a, h, pc, off, n, s) == [k |-> k, a |-> a, h |-> h, pc |-> pc, off |-> off, n |-> n, s |-> s]
New(k, a, h) == Item(k, a, h, "new", 0, 0, {})
Gone         == Item("", <<>>, "", "done", 0, 0, {})

EmptyBag == [x \in {} |-> 0]
BagRem1(b, e) == IF b[e] = 1 THEN [x \in DOMAIN b \ {e} |-> b[x]] ELSE [b EXCEPT ![e] = @ - 1]
BagAddSet(b, S) == [x \in DOMAIN b \cup S |-> (IF x \in DOMAIN b THEN b[x] ELSE 0) + (IF x \in S THEN 1 ELSE 0)]
Put(b, nxt) == IF nxt.pc = "done" THEN b ELSE BagAddSet(b, {nxt})

FnPut(f, k, v) == [x \in DOMAIN f \cup {k} |-> IF x = k THEN v ELSE f[x]]
FnPutAll(f, K, g(_)) == [x \in DOMAIN f \cup K |-> IF x \in K THEN g(x) ELSE f[x]]

\* split_blocks(lst, limit)
RECURSIVE SplitBlocks(_, _)
SplitBlocks(s, lim) == IF s = <<>> THEN <<>>
                       ELSE IF Len(s) <= lim THEN <<s>>
                       ELSE <<SubSeq(s, 1, lim)>> \o SplitBlocks(SubSeq(s, lim + 1, Len(s)), lim)
\* repeated get_block(lst, limit): the last `limit` entries first
RECURSIVE TailBlocks(_, _)
TailBlocks(s, lim) == IF s = <<>> THEN {}
                      ELSE IF Len(s) <= lim THEN {s}
                      ELSE {SubSeq(s, Len(s) - lim + 1, Len(s))} \cup TailBlocks(SubSeq(s, 1, Len(s) - lim), lim)
Filter(s, P(_)) == SelectSeq(s, P)
IsPermOf(sq, S) == Range(sq) = S /\ Len(sq) = Cardinality(S)
IsSplitOf(bl, S, lim) ==      \* bl = split_blocks(some ordering of S, lim)
  /\ UNION {Range(bl[i]) : i \in DOMAIN bl} = S
  /\ \A i \in DOMAIN bl : Len(bl[i]) = Cardinality(Range(bl[i])) /\ Len(bl[i]) = (IF i < Len(bl) THEN lim ELSE Len(bl[i]))
  /\ \A i \in DOMAIN bl : Len(bl[i]) >= 1 /\ Len(bl[i]) <= lim
  /\ \A i, j \in DOMAIN bl : i # j => Range(bl[i]) \cap Range(bl[j]) = {}
RECURSIVE Orderings(_)
Orderings(S) == IF S = {} THEN {<<>>} ELSE UNION {{<<x>> \o p : p \in Orderings(S \ {x})} : x \in S}

\* an item stops existing or moves on; children appear; a refcall item's end sets the event
Commit(it, nxt, sp, w, base) ==
  /\ items' = BagAddSet(Put(BagRem1(base, it), nxt), sp)
  /\ dp' = IF nxt.pc = "done" /\ it.k # "GET" /\ Mut # "noarm" THEN TRUE ELSE dp
  /\ last' = [k |-> it.k, a |-> it.a, h |-> it.h, to |-> nxt.pc, w |-> w,
              sp |-> {<<x.k, x.a, x.h>> : x \in sp}]

\* do_request: take a slot of the api semaphore or block
Enter(it, s) == IF s[it.h] > 0 THEN <<[it EXCEPT !.pc = "r1", !.off = 0], [s EXCEPT ![it.h] = @ - 1]>>
                ELSE <<[it EXCEPT !.pc = "wsem"], s>>
Release(h) == [sem EXCEPT ![h] = @ + 1]

Note(keys) == /\ issued' = issued \cup keys
              /\ dup' = (dup \/ keys \cap issued # {})

-----------------------------------------------------------------------------
\* ---- first stretch of an item
StartFH(it) ==
  /\ it.k = "FH" /\ it.pc = "new"
  /\ Commit(it, Gone, {New("H1", <<it.a[1], it.a[i]>>, "local") : i \in 2..Len(it.a)}, {}, items)
  /\ UNCHANGED <<cfg, ctl, sems, phase, arch, aRedir, hist>>

HEnter(it) ==     \* with self.api_semaphore: ... do_request(...)
  IF hsem > 0 THEN LET e == Enter(it, sem) IN /\ hsem' = hsem - 1 /\ sem' = e[2] /\ Commit(it, e[1], {}, {}, items)
  ELSE /\ Commit(it, [it EXCEPT !.pc = "whsem"], {}, {}, items) /\ UNCHANGED <<sem, hsem>>
StartH1(it) ==
  /\ it.k = "H1" /\ it.pc = "new"
  /\ HEnter(it)
  /\ UNCHANGED <<cfg, ctl, sharedKnown, phase, arch, aRedir, hist>>

StartFU(it) ==
  /\ it.k = "FU" /\ it.pc = "new"
  /\ LET bl == SplitBlocks(Tail(it.a), L) IN
     IF bl = <<>> THEN Commit(it, Gone, {}, {}, items)
     ELSE Commit(it, [it EXCEPT !.pc = "join", !.n = Len(bl)],
                 {New("UB", <<it.a[1]>> \o bl[i], "local") : i \in DOMAIN bl}, {}, items)
  /\ UNCHANGED <<cfg, ctl, sems, phase, arch, aRedir, hist>>

StartReq(it) ==
  /\ it.k \in {"UB", "ET", "ER", "II", "IP", "IE"} /\ it.pc = "new"
  /\ LET e == Enter(it, sem) IN sem' = e[2] /\ Commit(it, e[1], {}, {}, items)
  /\ UNCHANGED <<cfg, ctl, hsem, sharedKnown, phase, arch, aRedir, hist>>

StartDL(it) ==
  /\ it.k = "DL" /\ it.pc = "new"
  /\ Commit(it, Gone, {New("GET", it.a, "")}, {}, items)
  /\ UNCHANGED <<cfg, ctl, sems, phase, arch, aRedir, hist>>

StartGET(it) ==
  /\ it.k = "GET" /\ it.pc = "new"
  /\ Commit(it, [it EXCEPT !.pc = "r1"], {}, {}, items)
  /\ UNCHANGED <<cfg, ctl, sems, phase, arch, aRedir, hist>>

\* handle_new_basepath after the api object is known
NBBody(it) ==
  /\ it.h \in DOMAIN descTodo
  /\ LET todo == descTodo[it.h]
         fresh == {t \in Range(todo) : ("d:" \o t) \notin scheduled} IN
     /\ descTodo' = [x \in DOMAIN descTodo \ {it.h} |-> descTodo[x]]
     /\ scheduled' = scheduled \cup {"d:" \o t : t \in fresh}
     /\ IF fresh = {} THEN Commit(it, Gone, {}, {}, items) /\ UNCHANGED sem
        ELSE LET e == Enter([it EXCEPT !.s = fresh], sem) IN sem' = e[2] /\ Commit(it, e[1], {}, {}, items)
  /\ UNCHANGED <<todoImg, redirects, hsem>>
StartNB(it) ==
  /\ it.k = "NB" /\ it.pc = "new"
  /\ IF it.h = "shared" /\ ~sharedKnown
     THEN Commit(it, [it EXCEPT !.pc = "ping"], {}, {}, items) /\ UNCHANGED <<ctl, sems>>
     ELSE NBBody(it) /\ UNCHANGED sharedKnown
  /\ UNCHANGED <<cfg, phase, arch, aRedir, hist>>

\* ---- a blocked item gets its semaphore
WakeH(it) ==
  /\ it.pc = "whsem" /\ hsem > 0
  /\ HEnter(it)
  /\ UNCHANGED <<cfg, ctl, sharedKnown, phase, arch, aRedir, hist>>
WakeS(it) ==
  /\ it.pc = "wsem" /\ sem[it.h] > 0
  /\ LET e == Enter(it, sem) IN sem' = e[2] /\ Commit(it, e[1], {}, {}, items)
  /\ UNCHANGED <<cfg, ctl, hsem, sharedKnown, phase, arch, aRedir, hist>>

\* ---- a response arrives
RespH1(it) ==
  /\ it.k = "H1" /\ it.pc = "r1"
  /\ sem' = Release("local") /\ hsem' = hsem + 1
  /\ IF HtmlOk(W, it.a[1], it.a[2])
     THEN aHtml' = aHtml \cup {it.a[2]} /\ Commit(it, Gone, {}, {"h:" \o it.a[2]}, items)
     ELSE UNCHANGED aHtml /\ Commit(it, Gone, {}, {}, items)          \* API error: the greenlet dies
  /\ UNCHANGED <<cfg, ctl, sharedKnown, phase, aTitle, aRev, aInfo, aFiles, aAuth, aRedir, hist>>

\* the parent fetch_used of a finished block
Parents(it) == {p \in DOMAIN items : p.k = "FU" /\ p.pc = "join" /\ p.n > 0 /\ p.a[1] = it.a[1]
                                      /\ Range(Tail(it.a)) \subseteq Range(Tail(p.a))}
UBName(it)  == it.a[1]
UBBlock(it) == Tail(it.a)
UBCount(it) == IF cfg.fetchimages THEN UsedCount(W, UBName(it), UBBlock(it)) ELSE 0
UBImgs(it)  == IF ~cfg.fetchimages THEN {}
               ELSE IF Mut = "replace" THEN {e[2] : e \in UsedWindow(W, UBName(it), UBBlock(it), it.off, RL)}
               ELSE UsedImages(W, UBName(it), UBBlock(it))       \* _do_request merges every window
UBFresh(it) == {i \in UBImgs(it) : ("i:" \o i) \notin scheduled}
\* an answer with a query-continue: the next window is requested, the semaphore stays taken
RespUBMore(it) ==
  /\ it.k = "UB" /\ it.pc = "r1" /\ MoreAfter(it.off, RL, UBCount(it))
  /\ Commit(it, [it EXCEPT !.off = it.off + RL], {}, {}, items)
  /\ UNCHANGED <<cfg, ctl, sems, phase, arch, aRedir, hist>>
\* the last answer: _update_redirects, collect_page_data, enqueue_missing (set iteration order = ord)
RespUBFinal(it, ord) ==
  /\ it.k = "UB" /\ it.pc = "r1" /\ ~MoreAfter(it.off, RL, UBCount(it))
  /\ LET hops == UsedRedirects(W, UBName(it), UBBlock(it))
         fresh == UBFresh(it) IN
     /\ sem' = Release("local")
     /\ redirects' = FnPutAll(redirects, {h[1] : h \in hops}, LAMBDA t : (CHOOSE h \in hops : h[1] = t)[2])
     /\ IsPermOf(ord, fresh)
     /\ todoImg' = IF Mut = "nolist" THEN todoImg ELSE todoImg \o ord
     /\ scheduled' = IF Mut = "nosched" THEN scheduled ELSE scheduled \cup {"i:" \o i : i \in fresh}
     /\ UNCHANGED descTodo
     /\ \E par \in Parents(it) :
          Commit(it, Gone, {}, {}, BagAddSet(BagRem1(items, par), {[par EXCEPT !.n = par.n - 1]}))
  /\ UNCHANGED <<cfg, hsem, sharedKnown, phase, arch, aRedir, hist>>

\* the contributors query (with continuation) that ends ET, ER and IE
ContribStep(it, n, key, value) ==
  IF MoreAfter(it.off, RL, n)
  THEN Commit(it, [it EXCEPT !.off = it.off + RL], {}, {}, items) /\ UNCHANGED <<sem, aAuth>>
  ELSE /\ sem' = Release(it.h)
       /\ aAuth' = IF key = "" \/ Mut = "noauthors" THEN aAuth ELSE FnPut(aAuth, key, value)
       /\ Commit(it, Gone, {}, {}, items)

RespET(it) ==
  /\ it.k = "ET" /\ it.pc \in {"r1", "r2"}
  /\ LET t == it.a[1] IN
     IF it.pc = "r1"
     THEN /\ aTitle' = FnPut(aTitle, t, ExpandTitleAtom(W, t))     \* the stub of a missing page is stored too
          /\ Commit(it, [it EXCEPT !.pc = "r2", !.off = 0], {}, {"p:" \o t}, items)
          /\ UNCHANGED <<sem, aAuth>>
     ELSE /\ ContribStep(it, ContribCount(W, t), ContribKey(W, t), PageAuthors(W, ContribKey(W, t)))
          /\ UNCHANGED aTitle
  /\ UNCHANGED <<cfg, ctl, hsem, sharedKnown, phase, aRev, aHtml, aInfo, aFiles, aRedir, hist>>

RespER(it) ==
  /\ it.k = "ER" /\ it.pc \in {"r1", "r2", "r3"}
  /\ LET r == it.a[1] IN
     CASE it.pc = "r1" ->
            /\ IF RevExists(W, r) THEN Commit(it, [it EXCEPT !.pc = "r2"], {}, {}, items) /\ UNCHANGED sem
               ELSE sem' = Release("local") /\ Commit(it, Gone, {}, {}, items)      \* KeyError: the greenlet dies
            /\ UNCHANGED <<redirects, aRev, aAuth>>
       [] it.pc = "r2" ->
            LET p == PageOfRev(W, r) IN
            /\ aRev' = FnPut(aRev, r, [title |-> p.title, atom |-> TextAtom(W, r)])
            /\ redirects' = IF IsRedirectPage(p) THEN FnPut(redirects, p.title, p.redirect) ELSE redirects
            /\ Commit(it, [it EXCEPT !.pc = "r3", !.off = 0],
                      IF IsRedirectPage(p) THEN {New("ET", <<p.redirect>>, "local"), New("FU", <<"titles", p.redirect>>, "local")} ELSE {},
                      {"p:" \o p.title \o "@" \o r}, items)
            /\ UNCHANGED <<sem, aAuth>>
       [] it.pc = "r3" ->
            LET t == PageOfRev(W, r).title IN
            /\ ContribStep(it, ContribCount(W, t), ContribKey(W, t), PageAuthors(W, ContribKey(W, t)))
            /\ UNCHANGED <<redirects, aRev>>
  /\ UNCHANGED <<cfg, scheduled, todoImg, descTodo, hsem, sharedKnown, phase, aTitle, aHtml, aInfo, aFiles, aRedir, hist>>

RespII(it) ==
  /\ it.k = "II" /\ it.pc = "r1"
  /\ LET have == Filter(it.a, LAMBDA t : ImageExists(W, t))
         dl == {t \in Range(have) : ("g:" \o t) \notin scheduled}
         of(h) == Filter(have, LAMBDA t : HostOf(W, t) = h)
         touched == {h \in {"local", "shared"} : of(h) # <<>>}
         newhosts == touched \ DOMAIN descTodo IN
     /\ sem' = Release("local")
     /\ aInfo' = aInfo \cup Range(have)
     /\ scheduled' = scheduled \cup {"g:" \o t : t \in dl}
     /\ descTodo' = [h \in DOMAIN descTodo \cup touched |->
                        (IF h \in DOMAIN descTodo THEN descTodo[h] ELSE <<>>) \o (IF h \in touched THEN of(h) ELSE <<>>)]
     /\ Note({"g:" \o t : t \in dl})
     /\ Commit(it, Gone, {New("DL", <<t>>, "") : t \in dl} \cup {New("NB", <<>>, h) : h \in newhosts},
               {"ii:" \o t : t \in Range(have)}, items)
  /\ UNCHANGED <<cfg, todoImg, redirects, hsem, sharedKnown, phase, aTitle, aRev, aHtml, aFiles, aAuth, aRedir>>

RespGET(it) ==
  /\ it.k = "GET" /\ it.pc = "r1"
  /\ aFiles' = aFiles \cup {it.a[1]}
  /\ Commit(it, Gone, {}, {"f:" \o it.a[1]}, items)
  /\ UNCHANGED <<cfg, ctl, sems, phase, aTitle, aRev, aHtml, aInfo, aAuth, aRedir, hist>>

RespNB(it, bl) ==
  /\ it.k = "NB" /\ it.pc \in {"ping", "r1"}
  /\ IF it.pc = "ping"
     THEN /\ sharedKnown' = TRUE
          /\ NBBody(it)
          /\ UNCHANGED hist
     ELSE /\ sem' = Release(it.h)
          /\ IsSplitOf(bl, it.s, L)
          /\ Note({"d:" \o t : t \in it.s})
          /\ Commit(it, Gone, {New("IP", bl[i], it.h) : i \in DOMAIN bl} \cup {New("IE", <<t>>, it.h) : t \in it.s}, {}, items)
          /\ UNCHANGED <<ctl, hsem, sharedKnown>>
  /\ UNCHANGED <<cfg, phase, arch, aRedir>>

RespIP(it) ==
  /\ it.k = "IP" /\ it.pc \in {"r1", "r2"}
  /\ IF it.pc = "r1"
     THEN Commit(it, [it EXCEPT !.pc = "r2", !.off = 0], {}, {}, items) /\ UNCHANGED <<sem, aTitle>>
     ELSE IF MoreAfter(it.off, RL, DescCount(W, it.a))
     THEN Commit(it, [it EXCEPT !.off = it.off + RL], {}, {}, items) /\ UNCHANGED <<sem, aTitle>>
     ELSE LET have == {t \in Range(it.a) : ImageExists(W, t)} IN
          /\ sem' = Release(it.h)
          /\ aTitle' = FnPutAll(aTitle, have, DescAtom)          \* stored under the LOCAL namespace name
          /\ Commit(it, Gone, {}, {"dp:" \o t : t \in have}, items)
  /\ UNCHANGED <<cfg, ctl, hsem, sharedKnown, phase, aRev, aHtml, aInfo, aFiles, aAuth, aRedir, hist>>

RespIE(it) ==
  /\ it.k = "IE" /\ it.pc = "r1"
  /\ LET t == it.a[1] IN ContribStep(it, ImgContribCount(W, t), t, Authors(ImageOf(W, t)))
  /\ UNCHANGED <<cfg, ctl, hsem, sharedKnown, phase, aTitle, aRev, aHtml, aInfo, aFiles, aRedir, hist>>

\* ---- fetch_used: all its blocks are done
JoinBlocks(it) ==
  /\ it.k = "FU" /\ it.pc = "join" /\ it.n = 0
  /\ Commit(it, Gone, {}, {}, items)
  /\ UNCHANGED <<cfg, ctl, sems, phase, arch, aRedir, hist>>

\* ---- the dispatcher greenlet: event.wait(); event.clear(); dispatch()
\* Which queued titles travel together in one imageinfo request, in which order the list is
\* taken, and whether it is drained completely are NOT the property's business (it quantifies
\* over batch sizes): a dispatch may spawn any blocks of at most L queued titles.  What must hold:
\* every queued title either stays queued or goes into a block (nothing lost, nothing invented);
\* a title going out twice is double work (NoDoubleWork); titles left behind at the join are
\* leftovers (NoLeftovers).
Count(sq, t) == Cardinality({i \in DOMAIN sq : sq[i] = t})
RECURSIVE CountIn(_, _)
CountIn(bs, t) == IF bs = {} THEN 0 ELSE LET b == CHOOSE x \in bs : TRUE IN Count(b, t) + CountIn(bs \ {b}, t)
Titles(bs) == UNION {Range(b) : b \in bs}
DispatchOk(bs, rest) ==
  /\ \A b \in bs : Len(b) >= 1 /\ Len(b) <= L
  /\ \A t \in Range(todoImg) \cup Range(rest) \cup Titles(bs) : Count(todoImg, t) = Count(rest, t) + CountIn(bs, t)
DispatchDo(bs, rest, twice) ==
  /\ dp /\ phase = "run"
  /\ dp' = FALSE
  /\ todoImg' = rest
  /\ items' = BagAddSet(items, {New("II", b, "local") : b \in bs})
  /\ issued' = issued \cup {"ii:" \o t : t \in Titles(bs)}
  /\ dup' = (dup \/ twice \/ {"ii:" \o t : t \in Titles(bs)} \cap issued # {})
  /\ last' = [k |-> "D", a |-> <<>>, h |-> "", to |-> "event", w |-> {}, sp |-> {<<"II", b, "local">> : b \in bs}]
  /\ UNCHANGED <<cfg, scheduled, descTodo, redirects, sems, phase, arch, aRedir>>
\* today's code: while imageinfo_todo and api.idle(): get_block takes the last L entries; spawning
\* takes no semaphore slot, so an idle api drains the whole list
Dispatch ==
  IF todoImg # <<>> /\ sem["local"] > 0
  THEN DispatchDo(TailBlocks(todoImg, L), <<>>, Len(todoImg) > Cardinality(Range(todoImg)))
  ELSE DispatchDo({}, todoImg, FALSE)

\* ---- main greenlet: pool.join() returned; finish(); leftover check
\* A1: the dispatcher's wake-up runs before the pool's empty notification (gevent FIFO), so the
\*     join never overtakes a pending dispatch.  Asserted on every recorded trace.
Join ==
  /\ phase = "run" /\ DOMAIN items = {} /\ ~dp
  /\ aRedir' = redirects
  /\ phase' = IF todoImg = <<>> THEN "done" ELSE "failed"       \* ValueError("not all items processed")
  /\ last' = [k |-> "J", a |-> <<>>, h |-> "", to |-> phase', w |-> {}, sp |-> {}]
  /\ UNCHANGED <<cfg, items, ctl, sems, dp, arch, hist>>

Finished == phase # "run" /\ UNCHANGED vars

Internal ==
  \/ dp
  \/ \E it \in DOMAIN items : \/ it.pc = "new"
                              \/ it.pc = "wsem" /\ sem[it.h] > 0
                              \/ it.pc = "whsem" /\ hsem > 0
                              \/ it.pc = "join" /\ it.n = 0
MayRespond == ~Eager \/ ~Internal

\* one named action per kind of step (TLC reports coverage per action)
DoStartFH  == \E it \in DOMAIN items : StartFH(it)
DoStartH1  == \E it \in DOMAIN items : StartH1(it)
DoStartFU  == \E it \in DOMAIN items : StartFU(it)
DoStartReq == \E it \in DOMAIN items : StartReq(it)
DoStartDL  == \E it \in DOMAIN items : StartDL(it)
DoStartGET == \E it \in DOMAIN items : StartGET(it)
DoStartNB  == \E it \in DOMAIN items : StartNB(it)
DoWakeH    == \E it \in DOMAIN items : WakeH(it)
DoWakeS    == \E it \in DOMAIN items : WakeS(it)
DoJoinBlocks == \E it \in DOMAIN items : JoinBlocks(it)
DoRespH1   == MayRespond /\ \E it \in DOMAIN items : RespH1(it)
DoRespET   == MayRespond /\ \E it \in DOMAIN items : RespET(it)
DoRespER   == MayRespond /\ \E it \in DOMAIN items : RespER(it)
DoRespII   == MayRespond /\ \E it \in DOMAIN items : RespII(it)
DoRespGET  == MayRespond /\ \E it \in DOMAIN items : RespGET(it)
DoRespIP   == MayRespond /\ \E it \in DOMAIN items : RespIP(it)
DoRespIE   == MayRespond /\ \E it \in DOMAIN items : RespIE(it)
DoRespUBMore  == MayRespond /\ \E it \in DOMAIN items : RespUBMore(it)
DoRespUBFinal == MayRespond /\ \E it \in DOMAIN items :
                   it.k = "UB" /\ it.pc = "r1" /\ \E ord \in Orderings(UBFresh(it)) : RespUBFinal(it, ord)
DoRespNBPing  == MayRespond /\ \E it \in DOMAIN items : it.k = "NB" /\ it.pc = "ping" /\ RespNB(it, <<>>)
DoRespNB      == MayRespond /\ \E it \in DOMAIN items :
                   it.k = "NB" /\ it.pc = "r1" /\ \E o \in Orderings(it.s) : RespNB(it, SplitBlocks(o, L))

Next == \/ DoStartFH \/ DoStartH1 \/ DoStartFU \/ DoStartReq \/ DoStartDL \/ DoStartGET \/ DoStartNB
        \/ DoWakeH \/ DoWakeS \/ DoJoinBlocks
        \/ DoRespH1 \/ DoRespET \/ DoRespER \/ DoRespII \/ DoRespGET \/ DoRespIP \/ DoRespIE
        \/ DoRespUBMore \/ DoRespUBFinal \/ DoRespNBPing \/ DoRespNB
        \/ Dispatch
        \/ Join
        \/ Finished

-----------------------------------------------------------------------------
\* Fetcher.__init__: _split_titles_revids, then the initial fan-out (nothing runs before run())
BookTitles(c) == {c.book[i].title : i \in {j \in DOMAIN c.book : c.book[j].rev = ""}}
BookRevs(c)   == {c.book[i].rev : i \in {j \in DOMAIN c.book : c.book[j].rev # ""}}
InitItems(c, ts, rs) ==
  BagAddSet(EmptyBag,
    (IF c.html THEN {New("FH", <<"page">> \o ts, "local"), New("FH", <<"oldid">> \o rs, "local")} ELSE {})
    \cup {New("FU", <<"titles">> \o ts, "local"), New("FU", <<"revids">> \o rs, "local")}
    \cup {New("ET", <<ts[i]>>, "local") : i \in DOMAIN ts}
    \cup {New("ER", <<rs[i]>>, "local") : i \in DOMAIN rs})

InitWith(c, ts, rs) ==
  /\ cfg = c
  /\ IsPermOf(ts, BookTitles(c)) /\ IsPermOf(rs, BookRevs(c))
  /\ items = InitItems(c, ts, rs)
  /\ scheduled = {} /\ todoImg = <<>> /\ descTodo = [x \in {} |-> <<>>] /\ redirects = [x \in {} |-> ""]
  /\ sem = [local |-> c.reqlimit, shared |-> c.reqlimit] /\ hsem = c.reqlimit /\ sharedKnown = FALSE
  /\ dp = FALSE /\ phase = "run"
  /\ aTitle = [x \in {} |-> ""] /\ aRev = [x \in {} |-> [title |-> "", atom |-> ""]]
  /\ aHtml = {} /\ aInfo = {} /\ aFiles = {} /\ aAuth = [x \in {} |-> NoAuthors] /\ aRedir = [x \in {} |-> ""]
  /\ issued = {} /\ dup = FALSE
  /\ last = [k |-> "init", a |-> <<>>, h |-> "", to |-> "", w |-> {}, sp |-> {}]

AnOrdering(S) == CHOOSE s \in Orderings(S) : TRUE
Init == \E c \in Family : InitWith(c, AnOrdering(BookTitles(c)), AnOrdering(BookRevs(c)))

Spec == Init /\ [][Next]_vars /\ WF_vars(Next)

-----------------------------------------------------------------------------
\* ---- the archive as the renderer reads it (core/nuwiki.py: NuWiki._get_page, Adapt.get_authors,
\*      normalize_and_get_image_path, get_image_description_page), for the model's own archive
ByTitle(t) == IF t \in DOMAIN aTitle THEN aTitle[t]
              ELSE IF \E r \in DOMAIN aRev : aRev[r].title = t THEN aRev[CHOOSE r \in DOMAIN aRev : aRev[r].title = t].atom
              ELSE ""
GetByTitle(t) == LET n == IF t \in DOMAIN aRedir THEN aRedir[t] ELSE t IN
                 IF ByTitle(n) # "" THEN ByTitle(n) ELSE ByTitle(t)
IsRedirectAtom(x) == RevExists(W, x) /\ IsRedirectPage(PageOfRev(W, x))
GetByRev(r) == IF r \notin DOMAIN aRev THEN ""
               ELSE IF IsRedirectAtom(aRev[r].atom) THEN GetByTitle(PageOfRev(W, aRev[r].atom).redirect)
               ELSE aRev[r].atom
GetAuthors(t) == LET k == IF t \in DOMAIN aRedir /\ aRedir[t] \in DOMAIN aAuth THEN aRedir[t] ELSE t IN
                 IF k \in DOMAIN aAuth THEN [present |-> TRUE, names |-> aAuth[k].names, anon |-> aAuth[k].anon]
                 ELSE [present |-> FALSE, names |-> {}, anon |-> 0]
ModelView ==
  [arts |-> [i \in DOMAIN cfg.book |->
               [text |-> IF cfg.book[i].rev # "" THEN GetByRev(cfg.book[i].rev) ELSE GetByTitle(cfg.book[i].title),
                authors |-> GetAuthors(cfg.book[i].title)]],
   imgs |-> [j \in DOMAIN W.images |->
               LET t == W.images[j].title IN
               [file |-> IF t \in aFiles THEN t ELSE "",
                desc |-> IF t \in DOMAIN aTitle THEN aTitle[t] ELSE "",
                info |-> IF t \in aInfo THEN t ELSE "",
                authors |-> GetAuthors(t)]]]

\* ---- Expected: the closure the property statement describes, from the wiki alone
\* what the wiki serves for a listed article: the requested revision else the current one, a
\* redirect resolved to its target (one hop); kind "skip" = page / revision does not exist or the
\* redirect leads nowhere; kind "free" = two or more hops or a circle (only termination asserted)
Serve(kind, page, atom, via) == [kind |-> kind, page |-> page, atom |-> atom, via |-> via]
Served(a) ==
  LET base == IF a.rev # "" THEN (IF RevExists(W, a.rev) THEN PageOfRev(W, a.rev).title ELSE "")
              ELSE (IF Exists(W, a.title) THEN a.title ELSE "")
      how == IF a.rev # "" THEN "revid" ELSE "title" IN
  IF base = "" THEN Serve("skip", "", "", how)
  ELSE LET p == PageOf(W, base) IN
       IF ~IsRedirectPage(p) THEN Serve("text", base, IF a.rev # "" THEN a.rev ELSE CurRev(p), how)
       ELSE IF ~Exists(W, p.redirect) THEN Serve("skip", "", "", how)
       ELSE LET q == PageOf(W, p.redirect) IN
            IF IsRedirectPage(q) THEN Serve("free", "", "", how)
            ELSE Serve("text", q.title, CurRev(q), "redirect-" \o how)
ExpectedImages(c) ==
  IF ~c.fetchimages THEN {}
  ELSE UNION {ImageLinks(c.wiki, Served(c.book[i]).page) : i \in {j \in DOMAIN c.book : Served(c.book[j]).kind = "text"}}
       \cap ImageTitles(c.wiki)

AuthorsOk(got, want) ==
  IF want.names = {} /\ want.anon = 0 THEN got.names = {} /\ got.anon = 0
  ELSE got.present /\ got.names = want.names /\ got.anon = want.anon
\* every way a read-back view can fall short of Expected, as <<what, how, subject>>
Failures(v) ==
  UNION {LET s == Served(cfg.book[i]) IN
         IF s.kind # "text" THEN {}
         ELSE (IF v.arts[i].text = s.atom THEN {}
               ELSE {<<IF v.arts[i].text = "" THEN "text missing" ELSE "text wrong", s.via, cfg.book[i].title>>})
              \cup (IF AuthorsOk(v.arts[i].authors, PageAuthors(W, s.page)) THEN {}
                    ELSE {<<IF v.arts[i].authors.present THEN "authors wrong" ELSE "authors missing", s.via, cfg.book[i].title>>})
         : i \in DOMAIN cfg.book}
  \cup
  UNION {LET t == W.images[j].title IN
         IF t \notin ExpectedImages(cfg)
         THEN (IF ~cfg.fetchimages /\ (v.imgs[j].file # "" \/ v.imgs[j].info # "")
               THEN {<<"image stored despite no-images option", "image", t>>} ELSE {})
         ELSE (IF v.imgs[j].file = t THEN {} ELSE {<<IF v.imgs[j].file = "" THEN "image file missing" ELSE "image file wrong", "image", t>>})
              \cup (IF v.imgs[j].desc = DescAtom(t) THEN {} ELSE {<<IF v.imgs[j].desc = "" THEN "description page missing" ELSE "description page wrong", "image", t>>})
              \cup (IF v.imgs[j].info = t THEN {} ELSE {<<IF v.imgs[j].info = "" THEN "image info missing" ELSE "image info wrong", "image", t>>})
              \cup (IF AuthorsOk(v.imgs[j].authors, Authors(W.images[j])) THEN {}
                    ELSE {<<IF v.imgs[j].authors.present THEN "authors wrong" ELSE "authors missing", "image", t>>})
         : j \in DOMAIN W.images}

\* ---- properties
Complete     == phase = "done" => Failures(ModelView) = {}
NoLeftovers  == phase # "failed"
NoDoubleWork == ~dup
SemOk        == /\ \A h \in DOMAIN sem : sem[h] >= 0 /\ sem[h] <= L
                /\ hsem >= 0 /\ hsem <= L
\* every slot taken is held by an item with a request in flight on that host's semaphore
SemAccounted ==
  \A h \in {"local", "shared"} :
    L - sem[h] = LET holders == {x \in DOMAIN items : x.h = h /\ x.pc \in {"r1", "r2", "r3"} /\ x.k \notin {"GET"}} IN
                 IF holders = {} THEN 0 ELSE
                 LET RECURSIVE Sum(_)
                     Sum(S) == IF S = {} THEN 0 ELSE LET x == CHOOSE y \in S : TRUE IN items[x] + Sum(S \ {x}) IN Sum(holders)
\* description pages are scheduled at most once, todo entries are scheduled
TodoScheduled == \A i \in DOMAIN todoImg : Mut = "nosched" \/ ("i:" \o todoImg[i]) \in scheduled
Terminates == <>(phase # "run")
=============================================================================
