---------------------------- MODULE CleanerTrace ----------------------------
(* C05 / C06 / C07 — P-TRACE: every recorded run of the cleaning pipeline is validated as a
   behaviour of this module.

   The batch (IOEnv.TRACE_FILE) is a JSON array of traces
       { "id": .., "lossless": BOOLEAN, "truncated": BOOLEAN, "order": [pass names], "snaps": [snapshot, ...] }
   (`order` is TreeCleaner.cleaner_methods as the code under test declares it)
   with one snapshot after advtree.build_advanced_tree ("build") and one after EACH pass the
   harness called directly on one TreeCleaner, in the order it called them:
       { "pass": name, "status": "ok" | "raised" | "budget", "stable": BOOLEAN, "errkey": string,
         "same": BOOLEAN,                 -- the projection is identical to the previous one
         "n": .., "cls": [..], "par": [..], "kids": [[..]], "text": [..],      -- unless same
         "words": [ {"w": string, "sec": [levels], "li": [kinds], "ref": k, "node": i}, .. ] }
   Nodes are numbered 1..n in preorder over the *distinct objects* reachable through the
   children lists; par[i] = 0 for "no parent", n+1 for "an object that is not in the tree".

   One step consumes one snapshot.  It is accepted when
       the pass is the next entry of the order the code itself declares (Tr.order)      (all)
            -- CleanerMethods below is the list as documented at the pinned revision; a difference
               between the two is reported by the harness as a note, it is not a verdict: the
               properties quantify over the passes "in the documented order", they do not forbid
               renaming or re-ordering them
       C05  the new tree is WellFormed, and WriterContract holds after the last pass
       C06  status = "ok", and the fixed-point passes are stable
       C07  (lossless domain) SameWords with the previous snapshot; big tables survive
   A step that is not accepted names the first failing clause, prints it and ends the trace; the
   KnownDeviation branch accepts a raise whose key is a recorded finding so that the rest of the
   trace is still validated.  Deadlock checking stays on: Step (accept / known deviation /
   reject) and Done cover every case, so a deadlock can only mean broken machinery. *)
EXTENDS Naturals, Sequences, FiniteSets, TLC, Json, IOUtils

CONSTANTS CheckC05, CheckC06, CheckC07,     \* which property's clauses are applied
          KnownRaised,                      \* error keys of recorded findings (C06: a pass raises)
          KnownSteps                        \* "pass|clause" of recorded findings (a clause fails after a pass)

Batch == JsonDeserialize(IOEnv.TRACE_FILE)

\* treecleaner.py:87-146, the documented order
CleanerMethods == <<
  "clean_vlist", "mark_infoboxes", "remove_edit_links", "remove_empty_text_nodes", "remove_invisible_links",
  "clean_section_captions", "remove_childless_nodes", "remove_no_print_nodes", "remove_list_only_paragraphs",
  "remove_invalid_file_types", "fix_paragraphs", "simplify_block_nodes", "remove_absolute_positioned_node",
  "remove_scroll_elements", "gallery_fix", "fix_region_list_tables", "remove_train_templates", "fix_nesting",
  "remove_childless_nodes", "unnest_ending_cell_content", "remove_critical_tables", "remove_textless_styles",
  "remove_broken_children", "fix_table_colspans", "remove_empty_training_table_rows", "split_table_lists",
  "transform_single_col_tables", "split_table_to_columns", "linearize_wide_nested_tables", "remove_breaking_returns",
  "remove_empty_ref_lists", "swap_nodes", "remove_big_sections_from_cells", "transform_nested_tables",
  "split_big_table_cells", "limit_image_caption_size", "remove_dup_links_in_refs", "fix_item_lists", "fix_sub_sup",
  "remove_leading_para_in_list", "remove_childless_nodes", "remove_new_lines", "remove_breaking_returns",
  "remove_see_also", "build_def_lists", "restrict_children", "fix_reference_nodes", "remove_broken_children",
  "fix_math_dir", "fix_nesting", "fix_preformatted", "fix_list_nesting", "handle_only_in_print",
  "remove_empty_text_nodes", "remove_childless_nodes", "remove_breaking_returns", "remove_empty_sections",
  "mark_short_paragraph" >>
FixedPoint == {"fix_paragraphs", "fix_nesting", "remove_breaking_returns"}

\* cur = index of the snapshot that holds the current tree (the last one with same = FALSE)
\* dev = a recorded finding was met on this trace (its words may be gone: the end-of-trace table
\*       clause, which aligns words by position with the first snapshot, no longer applies)
VARIABLES tid, l, cur, rej, dev
tvars == <<tid, l, cur, rej, dev>>

Tr == Batch[tid]
Expected(k) == IF k = 1 THEN "build" ELSE IF k - 1 <= Len(Tr.order) THEN Tr.order[k - 1] ELSE "?"   \* name of the k-th snapshot
NSnaps == Len(Tr.order) + 1

Range(s) == {s[i] : i \in 1..Len(s)}
Occurrences(s, x) == Cardinality({k \in 1..Len(s) : s[k] = x})

-----------------------------------------------------------------------------
(* C05: a proper tree *)
OneRoot(t)     == t.par[1] = 0 /\ \A i \in 2..t.n : t.par[i] # 0                           \* the root, and only it, has no parent
ParentLinks(t) == \A i \in 1..t.n : \A k \in 1..Len(t.kids[i]) : t.par[t.kids[i][k]] = i   \* child's parent = the node that lists it
ListedOnce(t)  == \A i \in 2..t.n : t.par[i] \in 1..t.n /\ Occurrences(t.kids[t.par[i]], i) = 1   \* every node exactly once
\* nodes are numbered in preorder over the children lists, so in a proper tree every parent
\* precedes its children; a parent link that points forward (or to itself) closes a cycle
Acyclic(t)     == \A i \in 2..t.n : t.par[i] < i
TextLeaves(t)  == \A i \in 1..t.n : t.text[i] => t.kids[i] = <<>>
WellFormed(t)  == OneRoot(t) /\ ParentLinks(t) /\ ListedOnce(t) /\ Acyclic(t) /\ TextLeaves(t)

(* C05: what the writers rely on after the full sequence *)
ParentCls(t, i) == IF t.par[i] \in 1..t.n THEN t.cls[t.par[i]] ELSE "none"
TableKids(t) == \A i \in 1..t.n : t.cls[i] = "Table"    => \A c \in Range(t.kids[i]) : t.cls[c] \in {"Row", "Caption"}
RowKids(t)   == \A i \in 1..t.n : t.cls[i] = "Row"      => \A c \in Range(t.kids[i]) : t.cls[c] = "Cell"
ListKids(t)  == \A i \in 1..t.n : t.cls[i] = "ItemList" => \A c \in Range(t.kids[i]) : t.cls[c] = "Item"
CellHome(t)  == \A i \in 1..t.n : t.cls[i] = "Cell" => ParentCls(t, i) = "Row"
RowHome(t)   == \A i \in 1..t.n : t.cls[i] = "Row"  => ParentCls(t, i) = "Table"
ItemHome(t)  == \A i \in 1..t.n : t.cls[i] = "Item" => ParentCls(t, i) = "ItemList"
WriterContract(t) == TableKids(t) /\ RowKids(t) /\ ListKids(t) /\ CellHome(t) /\ RowHome(t) /\ ItemHome(t)

(* C07: same visible words, same order, same section levels / list nesting / reference *)
Coarse(x) == [w |-> x.w, sec |-> x.sec, li |-> x.li, ref |-> x.ref]
SameCount(s, t) == Len(s.words) = Len(t.words)
SameOrder(s, t) == \A k \in 1..Len(s.words) : k <= Len(t.words) => s.words[k].w = t.words[k].w
SamePlace(s, t) == \A k \in 1..Len(s.words) : k <= Len(t.words) => Coarse(s.words[k]) = Coarse(t.words[k])

\* tables with at least two rows and two columns remain tables
\* rows / cells without any content do not count (the cleaner documents the removal of empty
\* trailing rows and cells)
FullCells(t, r) == {c \in Range(t.kids[r]) : t.cls[c] = "Cell" /\ t.kids[c] # <<>>}
Rows(t, i) == {r \in Range(t.kids[i]) : t.cls[r] = "Row" /\ FullCells(t, r) # {}}
BigTable(t, i) == /\ t.cls[i] = "Table" /\ Cardinality(Rows(t, i)) >= 2
                  /\ \E r \in Rows(t, i) : Cardinality(FullCells(t, r)) >= 2
RECURSIVE AncBig(_, _, _), AncTable(_, _, _)
AncBig(t, i, fuel) ==
  IF i = 0 \/ i > t.n \/ fuel = 0 THEN FALSE ELSE IF BigTable(t, i) THEN TRUE ELSE AncBig(t, t.par[i], fuel - 1)
AncTable(t, i, fuel) ==
  IF i = 0 \/ i > t.n \/ fuel = 0 THEN FALSE ELSE IF t.cls[i] = "Table" THEN TRUE ELSE AncTable(t, t.par[i], fuel - 1)
InBigTable(t, i) == AncBig(t, i, t.n)
InTable(t, i)    == AncTable(t, i, t.n)
\* words that started out (after build) inside a table with >= 2 rows and >= 2 columns
TablesKept(f, t) == \A k \in 1..Len(t.words) :
                      (k <= Len(f.words) /\ InBigTable(f, f.words[k].node)) => InTable(t, t.words[k].node)

-----------------------------------------------------------------------------
TraceInit == /\ tid \in 1..Len(Batch) /\ l = 0 /\ cur = 1 /\ rej = "" /\ dev = FALSE

S      == Tr.snaps[l + 1]
Old    == Tr.snaps[cur]                        \* the tree before this pass (meaningless for l = 0)
New    == IF S.same THEN Old ELSE S            \* the tree after it
IsLast == l + 1 = NSnaps
Fresh  == ~S.same                              \* tree clauses need re-evaluation only when the tree changed
\* (after a recorded finding the tree of this trace is known to be damaged: later failures are its
\*  consequence, the tree clauses are not applied to the rest of that trace)
C5     == CheckC05 /\ Fresh /\ ~dev
C5End  == CheckC05 /\ IsLast /\ ~dev
\* after a recorded loss (dev) later losses can be its consequence (a section left without text is
\* removed as empty): the word clauses are not applied to the rest of that trace
C7     == CheckC07 /\ Tr.lossless /\ l >= 1 /\ Fresh /\ ~dev

\* the clauses, in the order they are reported
Clauses == <<
  [name |-> "pass-order",        ok |-> S.pass = Expected(l + 1) /\ (l = 0 => Fresh)],
  [name |-> "C06 status",        ok |-> CheckC06 => S.status = "ok"],
  [name |-> "C06 fixed-point",   ok |-> CheckC06 => (S.pass \in FixedPoint /\ S.status = "ok" => S.stable)],
  [name |-> "C05 one-root",      ok |-> C5 => OneRoot(New)],
  [name |-> "C05 parent-links",  ok |-> C5 => ParentLinks(New)],
  [name |-> "C05 listed-once",   ok |-> C5 => (ParentLinks(New) => ListedOnce(New))],
  [name |-> "C05 acyclic",       ok |-> C5 => (ParentLinks(New) /\ ListedOnce(New) => Acyclic(New))],
  [name |-> "C05 text-leaves",   ok |-> C5 => TextLeaves(New)],
  [name |-> "C05 table-kids",    ok |-> C5End => TableKids(New)],
  [name |-> "C05 row-kids",      ok |-> C5End => RowKids(New)],
  [name |-> "C05 list-kids",     ok |-> C5End => ListKids(New)],
  [name |-> "C05 cell-home",     ok |-> C5End => CellHome(New)],
  [name |-> "C05 row-home",      ok |-> C5End => RowHome(New)],
  [name |-> "C05 item-home",     ok |-> C5End => ItemHome(New)],
  [name |-> "C07 word-count",    ok |-> C7 => SameCount(Old, New)],
  [name |-> "C07 word-order",    ok |-> (C7 /\ SameCount(Old, New)) => SameOrder(Old, New)],
  [name |-> "C07 word-place",    ok |-> (C7 /\ SameCount(Old, New) /\ SameOrder(Old, New)) => SamePlace(Old, New)],
  [name |-> "C07 tables-kept",   ok |-> (CheckC07 /\ Tr.lossless /\ IsLast /\ ~dev) => TablesKept(Tr.snaps[1], New)] >>

Least(F) == CHOOSE k \in F : \A j \in F : k <= j

Advance == l' = l + 1 /\ tid' = tid /\ cur' = IF S.same THEN cur ELSE l + 1
Live == rej = "" /\ l < Len(Tr.snaps)

\* one snapshot is consumed: accepted, accepted as a recorded finding (KnownDeviation: the pass
\* raised at a known place, everything else still holds), or rejected with the first failing clause
Step ==
  /\ Live
  /\ LET cl == Clauses                                   \* evaluated once per step
         f  == {k \in 1..Len(cl) : ~cl[k].ok}
         Tolerated(k) == IF k = 2 THEN S.status = "raised" /\ S.errkey \in KnownRaised
                         ELSE (S.pass \o "|" \o cl[k].name) \in KnownSteps
         known == f # {} /\ \A k \in f : Tolerated(k) IN
     \/ /\ f = {}
        /\ Advance /\ rej' = rej /\ dev' = dev
     \/ /\ known                                      \* KnownDeviation: a recorded finding, the trace goes on
        /\ PrintT("@@" \o ToJson([kind |-> "known", tid |-> tid, id |-> Tr.id, l |-> l + 1, pass |-> S.pass,
                                  clause |-> cl[Least(f)].name, status |-> S.status, errkey |-> S.errkey]))
        /\ Advance /\ rej' = rej /\ dev' = TRUE
     \/ /\ f # {} /\ ~known
        /\ dev' = dev
        /\ rej' = cl[Least(f)].name
        /\ PrintT("@@" \o ToJson([kind |-> "reject", tid |-> tid, id |-> Tr.id, l |-> l + 1, pass |-> S.pass,
                                  clause |-> cl[Least(f)].name, status |-> S.status, errkey |-> S.errkey]))
        /\ Advance

Done == ~Live /\ UNCHANGED tvars

TraceNext == Step \/ Done
TraceSpec == TraceInit /\ [][TraceNext]_tvars

\* a complete accepted trace has exactly one snapshot per documented pass (+ build)
\* (a trace the recorder had to cut because a pass exhausted its memory budget ends in that event)
Complete == (rej = "" /\ l = Len(Tr.snaps)) => (l = NSnaps \/ Tr.truncated)
=============================================================================
