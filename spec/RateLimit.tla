------------------------------ MODULE RateLimit ------------------------------
(* Beyond the listed properties: mwlib.network.sapi.RateLimiter - at most MaxCalls acquisitions
   in any window of Period ticks (sliding window over the time stamps of the granted calls); a
   caller that finds the window full sleeps exactly until the oldest stamp leaves the window.

   Time is in ticks of 1/8 s (binary-exact, so the real float arithmetic has no rounding), Period =
   8 ticks = 1 s.  Callers arrive one after the other (the limiter's lock serialises them); the
   gaps between a grant and the next arrival are chosen by TLC. *)
EXTENDS Naturals, Integers, Sequences, FiniteSets, TLC, Json

CONSTANTS MaxCalls, Period, Gaps, NCalls, EmitCases

VARIABLES now, stamps, grants, sleeps, hist
vars == <<now, stamps, grants, sleeps, hist>>

Init == now = 0 /\ stamps = <<>> /\ grants = <<>> /\ sleeps = <<>> /\ hist = <<>>

RECURSIVE DropOld(_, _)
DropOld(s, t) == IF s # <<>> /\ Head(s) <= t - Period THEN DropOld(Tail(s), t) ELSE s

(* the acquire loop at arrival time t: returns [t |-> grant time, s |-> stamps, z |-> sleeps made] *)
RECURSIVE Acquire(_, _, _)
Acquire(s, t, z) ==
  LET s1 == DropOld(s, t) IN
  IF Len(s1) < MaxCalls THEN [t |-> t, s |-> Append(s1, t), z |-> z]
  ELSE LET w == Period - (t - Head(s1)) IN Acquire(s1, t + w, Append(z, w))

Arrive(g) ==
  /\ Len(grants) < NCalls
  /\ LET r == Acquire(stamps, now + g, <<>>) IN
     /\ now' = r.t /\ stamps' = r.s
     /\ grants' = Append(grants, r.t)
     /\ sleeps' = Append(sleeps, r.z)
     /\ hist' = Append(hist, g)
Next == \E g \in Gaps : Arrive(g)
Spec == Init /\ [][Next]_vars

-----------------------------------------------------------------------------
(* the property of a rate limiter: any MaxCalls + 1 consecutive grants span at least one period *)
SlidingWindow == \A i \in 1..Len(grants) : i + MaxCalls <= Len(grants) => grants[i + MaxCalls] - grants[i] >= Period
(* and it does not delay anybody without need *)
NoNeedlessWait == \A i \in 1..Len(grants) : sleeps[i] # <<>> =>
                     (i > MaxCalls /\ grants[i] - grants[i - MaxCalls] = Period)
Ordered == \A i, j \in 1..Len(grants) : i < j => grants[i] <= grants[j]

EmitFull == (EmitCases /\ Len(grants) = NCalls) => PrintT("@@" \o ToJson([gaps |-> hist, grants |-> grants, sleeps |-> sleeps]))
=============================================================================
