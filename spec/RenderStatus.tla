---------------------------- MODULE RenderStatus ----------------------------
(* C19 - the render status reported to the wiki is faithful to the job's real state.

   nserve.Application.do_render_status is a function of two job snapshots read from the queue
   server: the render job "<cid>:render-<writer>" and the fetch job "<cid>:makezip".  It is
   composed here with the queue server itself (EXTENDS WorkQ): the job ids of one collection are
   MkId (makezip) and RenderId[w] for each writer w, so that the status is evaluated in every
   reachable queue state - job absent, queued, pulled, info updates, finished with / without
   result, failed, killed, timed out, dropped after its time-to-live, re-added after a kill.

   Status(w) transcribes the code; the properties below are what C19 demands of it. *)
EXTENDS WorkQProps

CONSTANTS Writers,     \* e.g. {"rl", "odf"}
          MkId,        \* job id of the fetch job
          RenderId     \* [Writers -> JobIds]

Null == [absent |-> TRUE, done |-> FALSE, err |-> "none", res |-> "none", info |-> 0]
Snap(id) == IF id2job[id] = NoJob THEN Null
            ELSE LET j == job[id2job[id]] IN
                 [absent |-> FALSE, done |-> j.done, err |-> j.err, res |-> j.res, info |-> j.info]

Status(w) ==
  LET r == Snap(RenderId[w])
      z == Snap(MkId) IN
  IF r.err # "none" THEN [state |-> "failed", error |-> r.err, url |-> FALSE, source |-> "none"]
  ELSE IF r.done THEN [state |-> "finished", error |-> "none", url |-> (r.res # "none"), source |-> "none"]
  ELSE [state |-> "progress", error |-> "none", url |-> FALSE,
        source |-> IF r.info > 0 THEN "render"
                   ELSE IF z.done THEN "fetched"
                   ELSE IF z.info > 0 THEN "makezip" ELSE "none"]

RenderJob(w) == id2job[RenderId[w]]

\* 'finished' only if the render job of THIS writer is bound, done and has no error
FinishedOnlyIfSucceeded ==
  \A w \in Writers : Status(w).state = "finished" =>
     (RenderJob(w) # NoJob /\ job[RenderJob(w)].done /\ job[RenderJob(w)].err = "none")
\* 'failed' (with the error) iff it finished with an error: failed, killed or timed out
FailedIffError ==
  \A w \in Writers : (Status(w).state = "failed") <=>
     (RenderJob(w) # NoJob /\ job[RenderJob(w)].done /\ job[RenderJob(w)].err # "none")
FailedShowsError ==
  \A w \in Writers : Status(w).state = "failed" => Status(w).error = job[RenderJob(w)].err
\* 'progress' otherwise: absent (never added / dropped), queued, pulled, running
ProgressOtherwise ==
  \A w \in Writers : (Status(w).state = "progress") <=> (RenderJob(w) = NoJob \/ ~job[RenderJob(w)].done)
\* the fetch job's progress is shown until rendering has its own
ProgressSource ==
  \A w \in Writers : Status(w).state = "progress" =>
     /\ (RenderJob(w) # NoJob /\ job[RenderJob(w)].info > 0) => Status(w).source = "render"
     /\ Status(w).source \in {"makezip", "fetched"} => (RenderJob(w) = NoJob \/ job[RenderJob(w)].info = 0)
\* a step that touches only another writer's job never changes this writer's status
WriterIsolation ==
  [][\A w \in Writers :
       (Snap(RenderId[w])' = Snap(RenderId[w]) /\ Snap(MkId)' = Snap(MkId)) => Status(w)' = Status(w)]_vars
=============================================================================
