----------------------------- MODULE FetchRetry -----------------------------
(* Beyond the listed properties: the retry loop of one API request -
   mwlib.network.sapi.MwApi._fetch with mwlib.network.api (should_retry, compute_effective_delay,
   handle_retry, retry_or_raise).

     loop:  send the request
            success                       -> return the content
            HTTP status error, protocol error, read time-out, request error:
                retryable (429, 5xx, protocol, time-out, request error) and retries < max_retries
                     -> sleep(min(delay, max_delay)); delay := that * backoff_factor; retries += 1; again
                otherwise -> raise it
            any other exception           -> raise it at once

   initial_delay = 1, backoff_factor = 2, no jitter; max_delay 0 stands for "none".
   The environment's answers are chosen by TLC; terminal states are replayed into the real
   MwApi._fetch over a scripted http client and a virtual clock (P-REPLAY). *)
EXTENDS Naturals, Sequences, FiniteSets, TLC, Json

CONSTANTS MaxRetriesSet, MaxDelaySet, EmitCases

Outcomes == {"ok", "h404", "h403", "h429", "h500", "h503", "timeout", "protocol", "url", "other"}
Retryable == {"h429", "h500", "h503", "timeout", "protocol", "url"}

VARIABLES mr, md, method, pc, retries, delay, env, ops, out
vars == <<mr, md, method, pc, retries, delay, env, ops, out>>

Init == /\ mr \in MaxRetriesSet /\ md \in MaxDelaySet /\ method \in {"GET", "POST"}
        /\ pc = "send" /\ retries = 0 /\ delay = 1 /\ env = <<>> /\ ops = <<>> /\ out = "none"

Send(o) ==
  /\ pc = "send"
  /\ env' = Append(env, o)
  /\ ops' = Append(ops, [op |-> "send"])
  /\ IF o = "ok" THEN pc' = "done" /\ out' = "content"
     ELSE IF o \in Retryable /\ retries < mr THEN pc' = "sleep" /\ out' = out
     ELSE pc' = "done" /\ out' = o
  /\ UNCHANGED <<mr, md, method, retries, delay>>

Eff == IF md # 0 /\ delay > md THEN md ELSE delay
Sleep ==
  /\ pc = "sleep"
  /\ ops' = Append(ops, [op |-> "sleep", d |-> Eff])
  /\ delay' = Eff * 2
  /\ retries' = retries + 1
  /\ pc' = "send"
  /\ UNCHANGED <<mr, md, method, env, out>>

DoSend == \E o \in Outcomes : Send(o)
Next == DoSend \/ Sleep
Spec == Init /\ [][Next]_vars /\ WF_vars(Sleep)

-----------------------------------------------------------------------------
Sends == {i \in 1..Len(ops) : ops[i].op = "send"}
Sleeps == {i \in 1..Len(ops) : ops[i].op = "sleep"}
TypeOK == pc \in {"send", "sleep", "done"} /\ retries <= mr
(* never more than max_retries + 1 requests, never a request without a sleep in between *)
SendsBounded == Cardinality(Sends) <= mr + 1
SleepBetweenSends == \A i \in Sends : i > 1 => ops[i - 1].op = "sleep"
(* a client error (4xx except 429) and a non-network exception are never retried *)
NoRetryOfClientErrors == \A i \in 1..Len(env) : env[i] \in {"h404", "h403", "other"} => i = Len(env)
(* the pauses double and never exceed max_delay *)
Backoff == \A i, j \in Sleeps : (i < j /\ \A k \in Sleeps : ~(i < k /\ k < j)) =>
              (ops[j].d = ops[i].d * 2 \/ (md # 0 /\ ops[j].d = md))
Capped == md # 0 => \A i \in Sleeps : ops[i].d <= md
(* the result is that of the LAST request *)
LastWins == pc = "done" => (out = (IF env[Len(env)] = "ok" THEN "content" ELSE env[Len(env)]))

EmitTerminal == (EmitCases /\ pc = "done") =>
   PrintT("@@" \o ToJson([mr |-> mr, md |-> md, method |-> method, env |-> env, ops |-> ops, out |-> out]))
=============================================================================
