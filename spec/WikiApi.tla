------------------------------ MODULE WikiApi ------------------------------
(* C11 -- the synthetic MediaWiki the collection fetcher talks to, as data plus the answers to
   exactly the requests mwlib/network/sapi.py issues.  harness/synthwiki.py (class SynthWiki)
   is the executable twin of this module; a case file carries the same record as JSON.

   A wiki W is a record
     filens   : name of the File namespace on the local wiki ("Datei")
     pages    : sequence of pages  [title, ns, revs, redirect, uses, images, users, bots, anon]
                  revs      sequence of revision ids (strings), oldest first, last = current
                  redirect  "" or the title all revisions of the page redirect to
                  uses      templates the text transcludes directly (titles, may be absent pages)
                  images    image titles the text links directly
                  users / bots / anon   contributors as prop=contributors reports them
     images   : sequence of existing files [title, shared, cats, users, bots, anon]
                  title   local spelling ("Datei:X.png"), shared = lives on the shared repository
     imgorder : every image title mentioned anywhere, in the order the API lists them
   Texts are atoms: the server-expanded text of revision r is r itself (for a redirect page the
   first revision id, all its revisions having the same text); the description page of image t
   is "d:" \o t.  A page absent from `pages` does not exist.

   Requests and what they answer (legacy query-continue, result windows of `lim` entries):
     expandtemplates {{:t}}          ExpandTitleAtom     one hop of redirect is followed
     query revisions revids=r        PageOfRev / TextAtom
     parse page=|oldid=              HtmlOk
     query prop=images  titles|revids, redirects=1 for titles
                                     UsedFinalPages, UsedRedirects, UsedImages, windows over
                                     UsedCount entries ordered by (page, image)
     query prop=imageinfo|info       ImageExists, IsShared (description URL host)
     query prop=revisions / categories on the repository   DescCount (category entries)
     query prop=contributors redirects=1                   ContribKey, ContribCount, Authors *)
EXTENDS Naturals, Sequences, FiniteSets, TLC

Range(s) == {s[i] : i \in DOMAIN s}
Min(a, b) == IF a < b THEN a ELSE b

PageTitles(W)  == {W.pages[i].title : i \in DOMAIN W.pages}
Exists(W, t)   == t \in PageTitles(W)
PageIdx(W, t)  == CHOOSE i \in DOMAIN W.pages : W.pages[i].title = t
PageOf(W, t)   == W.pages[PageIdx(W, t)]
AllRevs(W)     == UNION {Range(W.pages[i].revs) : i \in DOMAIN W.pages}
RevExists(W, r) == r \in AllRevs(W)
PageOfRev(W, r) == W.pages[CHOOSE i \in DOMAIN W.pages : r \in Range(W.pages[i].revs)]
CurRev(p)      == p.revs[Len(p.revs)]
IsRedirectPage(p) == p.redirect # ""
IsRedirect(W, t)  == Exists(W, t) /\ IsRedirectPage(PageOf(W, t))

ImageTitles(W) == {W.images[i].title : i \in DOMAIN W.images}
ImageExists(W, t) == t \in ImageTitles(W)
ImageOf(W, t)  == W.images[CHOOSE i \in DOMAIN W.images : W.images[i].title = t]
IsShared(W, t) == ImageOf(W, t).shared
HostOf(W, t)   == IF IsShared(W, t) THEN "shared" ELSE "local"
ImgOrd(W, t)   == CHOOSE i \in DOMAIN W.imgorder : W.imgorder[i] = t

\* ---- texts
TextAtom(W, r) == LET p == PageOfRev(W, r) IN IF IsRedirectPage(p) THEN p.revs[1] ELSE r
StubAtom       == "?"           \* "[[:Title]]", what the server expands a missing page to
\* action=expandtemplates text={{:t}}: transclusion follows exactly one redirect hop
ExpandTitleAtom(W, t) ==
  IF ~Exists(W, t) THEN StubAtom
  ELSE LET p == PageOf(W, t) IN
       IF ~IsRedirectPage(p) THEN CurRev(p)
       ELSE IF ~Exists(W, p.redirect) THEN StubAtom
       ELSE LET q == PageOf(W, p.redirect) IN
            IF IsRedirectPage(q) THEN q.revs[1] ELSE CurRev(q)

\* action=parse: page= follows one hop (redirects=1); an absent page / revision is an API error
HtmlOk(W, name, x) ==
  IF name = "oldid" THEN RevExists(W, x)
  ELSE /\ Exists(W, x)
       /\ IsRedirect(W, x) => Exists(W, PageOf(W, x).redirect)

\* ---- redirects=1: chains are followed, every hop reported; a circular chain resolves to nothing
RECURSIVE Chase(_, _, _)
Chase(W, t, seen) ==        \* <<final title or "", set of hops <<from,to>> >>
  IF ~IsRedirect(W, t) THEN <<t, {}>>
  ELSE IF t \in seen THEN <<"", {}>>
  ELSE LET n == PageOf(W, t).redirect
           r == Chase(W, n, seen \cup {t}) IN
       <<r[1], r[2] \cup {<<t, n>>}>>
Resolve(W, t) == Chase(W, t, {})[1]
Hops(W, t)    == Chase(W, t, {})[2]
HopCount(W, t) == Cardinality(Hops(W, t))

\* ---- image links as MediaWiki reports them: links of the current text including those that
\*      arrive through (nested) templates; a redirect page has none
RECURSIVE Reach(_, _, _)
Reach(W, todo, seen) ==
  IF todo = {} THEN seen
  ELSE LET t == CHOOSE x \in todo : TRUE IN
       IF t \in seen \/ ~Exists(W, t) \/ IsRedirect(W, t) THEN Reach(W, todo \ {t}, seen)
       ELSE Reach(W, (todo \ {t}) \cup Range(PageOf(W, t).uses), seen \cup {t})
ImageLinks(W, t) ==
  IF ~Exists(W, t) \/ IsRedirect(W, t) THEN {}
  ELSE UNION {Range(PageOf(W, p).images) : p \in Reach(W, {t}, {})}

\* ---- query prop=images for one block of titles / revids
UsedFinalPages(W, name, block) ==
  IF name = "titles" THEN {Resolve(W, t) : t \in Range(block)} \ {""}
  ELSE {PageOfRev(W, r).title : r \in {x \in Range(block) : RevExists(W, x)}}
UsedRedirects(W, name, block) ==
  IF name = "titles" THEN UNION {Hops(W, t) : t \in Range(block)} ELSE {}
UsedEntries(W, name, block) ==      \* set of <<page, image>> entries of the complete answer
  UNION {{<<p, i>> : i \in ImageLinks(W, p)} : p \in UsedFinalPages(W, name, block)}
UsedCount(W, name, block) == Cardinality(UsedEntries(W, name, block))
UsedImages(W, name, block) == {e[2] : e \in UsedEntries(W, name, block)}
\* the k-th result window [off+1 .. off+lim] in (page index, image order) order
EntryLess(W, e, f) ==
  \/ PageIdx(W, e[1]) < PageIdx(W, f[1])
  \/ e[1] = f[1] /\ ImgOrd(W, e[2]) < ImgOrd(W, f[2])
EntryRank(W, S, e) == Cardinality({f \in S : EntryLess(W, f, e)}) + 1
UsedWindow(W, name, block, off, lim) ==
  LET S == UsedEntries(W, name, block) IN {e \in S : EntryRank(W, S, e) > off /\ EntryRank(W, S, e) <= off + lim}

\* ---- contributors (redirects=1): the answer is keyed by the resolved title
ContribKey(W, t) == Resolve(W, t)                     \* "" for a circular redirect
ContribCount(W, t) ==
  LET k == ContribKey(W, t) IN
  IF k = "" \/ ~Exists(W, k) THEN 0 ELSE Len(PageOf(W, k).users) + Len(PageOf(W, k).bots)
\* what the statement promises: bots excluded, anonymous edits counted
Authors(rec) == [names |-> Range(rec.users) \ Range(rec.bots), anon |-> rec.anon]
NoAuthors    == [names |-> {}, anon |-> 0]
PageAuthors(W, t) == IF Exists(W, t) THEN Authors(PageOf(W, t)) ELSE NoAuthors
ImgContribCount(W, t) == Len(ImageOf(W, t).users) + Len(ImageOf(W, t).bots)

\* ---- description pages on the repository
DescAtom(t) == "d:" \o t
RECURSIVE SumCats(_, _)
SumCats(W, S) == IF S = {} THEN 0 ELSE LET t == CHOOSE x \in S : TRUE IN ImageOf(W, t).cats + SumCats(W, S \ {t})
DescCount(W, block) == SumCats(W, {t \in Range(block) : ImageExists(W, t)})

\* number of round trips of a windowed query over n entries: the first answer plus one per
\* further window
MoreAfter(off, lim, n) == off + lim < n
=============================================================================
