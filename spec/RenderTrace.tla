----------------------------- MODULE RenderTrace -----------------------------
(* P-TRACE for C08: validates recorded writer runs against RenderPipeline.

   IOEnv.TRACE_FILE is a JSON array of runs
       [n |-> articles, den |-> <<word ids the verdict requires>>, req |-> BOOLEAN,
        ev |-> << [s |-> event name, a |-> article index or 0] >>,
        found |-> <<word ids found in the output>>, ok |-> BOOLEAN]
   One behaviour per run (tid chosen in TraceInit).

   The VERDICT is about the output (what the statement of C08 claims): the archive opens,
   the writer returns without raising, without a second (fail-safe) pass and without hanging,
   an output file exists, it is readable (ok) and contains the required words (Judge).  The
   events that decide it are observed at the caller's side of the public entry points
   (OpenArchive, SecondPass / Fail, Raise, Hang, Crash, Output, Judge); those that the
   pipeline has no action for (SecondPass, Fail, Raise, Hang, Crash) or whose guard fails
   (Judge with words missing / unreadable output) reject the run.

   The per-article STAGE events (Expand, Parse, Clean, Layout) come from wrappers around
   internal seams of the code; a refactoring can move a seam without changing any output.
   They are therefore matched against the stage machine as OBSERVATIONS: an event that is a
   step of RenderPipeline is taken; one that is not (missing predecessor, repetition) is
   skipped and the run is flagged `deviated`; Output of a run whose articles were not all
   seen in stage Layout is taken with the flag set as well.  The flag is reported (evidence,
   sanity check of the seams) and never decides a verdict.

   A run is  accepted  when all events are consumed and the machine is in "judged",
   rejected  at the first verdict event (index l) the pipeline does not allow,
   incomplete  when the events end before the verdict.  Rejection is an explicit terminal
   step, so one TLC run judges all recorded runs; deadlock checking stays on. *)
EXTENDS RenderPipeline, Sequences, TLC, Json, IOUtils

Runs == JsonDeserialize(IOEnv.TRACE_FILE)

VARIABLES tid, l, verdict, deviated
tvars == <<n, denoted, req, st, phase, found, good, tid, l, verdict, deviated>>

ToSet(s) == {s[k] : k \in DOMAIN s}
Run == Runs[tid]
Ev  == Run.ev[l]

TraceInit == /\ tid \in 1..Len(Runs)
             /\ l = 1
             /\ verdict = "running"
             /\ deviated = FALSE
             /\ n = Runs[tid].n
             /\ denoted = ToSet(Runs[tid].den)
             /\ req = Runs[tid].req
             /\ st = [i \in 1..Runs[tid].n |-> 0]
             /\ phase = "closed"
             /\ found = {}
             /\ good = FALSE

StageNames == {"Expand", "Parse", "Clean", "Layout"}
StageStep ==
  \/ Ev.s = "Expand" /\ Expand(Ev.a)
  \/ Ev.s = "Parse"  /\ Parse(Ev.a)
  \/ Ev.s = "Clean"  /\ Clean(Ev.a)
  \/ Ev.s = "Layout" /\ Layout(Ev.a)
AllLaidOut == \A i \in 1..n : st[i] = LastStage
\* Output as observed: the file exists; whether every article was seen in every stage is recorded
ObservedOutput == /\ phase = "open"
                  /\ phase' = "output"
                  /\ UNCHANGED <<n, denoted, req, st, found, good>>
VerdictStep ==
  \/ Ev.s = "OpenArchive" /\ OpenArchive /\ UNCHANGED deviated
  \/ Ev.s = "Output" /\ ObservedOutput /\ deviated' = (deviated \/ ~AllLaidOut)
  \/ Ev.s = "Judge"  /\ Judge(ToSet(Run.found), Run.ok) /\ UNCHANGED deviated

Step == /\ verdict = "running" /\ l <= Len(Run.ev)
        /\ \/ VerdictStep
           \/ Ev.s \in StageNames /\ StageStep /\ UNCHANGED deviated
           \/ Ev.s \in StageNames /\ ~ENABLED StageStep          \* an observation the machine cannot place
              /\ deviated' = TRUE
              /\ UNCHANGED <<n, denoted, req, st, phase, found, good>>
        /\ l' = l + 1
        /\ UNCHANGED <<tid, verdict>>

Reject == /\ verdict = "running" /\ l <= Len(Run.ev)
          /\ Ev.s \notin StageNames
          /\ ~ENABLED VerdictStep
          /\ verdict' = "rejected"
          /\ UNCHANGED <<n, denoted, req, st, phase, found, good, tid, l, deviated>>

Finish == /\ verdict = "running" /\ l > Len(Run.ev)
          /\ verdict' = IF phase = "judged" THEN "accepted" ELSE "incomplete"
          /\ UNCHANGED <<n, denoted, req, st, phase, found, good, tid, l, deviated>>

Stutter == verdict # "running" /\ UNCHANGED tvars

TraceNext == Step \/ Reject \/ Finish \/ Stutter
TraceSpec == TraceInit /\ [][TraceNext]_tvars

\* an accepted run satisfies the obligations of C08 (checked on every state of every run)
AcceptedIsComplete ==
  verdict = "accepted" => /\ phase = "judged" /\ good
                          /\ (~deviated => \A i \in 1..n : st[i] = LastStage)
                          /\ (req => denoted \subseteq found)

Missing == IF l <= Len(Run.ev) /\ Ev.s = "Judge" THEN denoted \ ToSet(Run.found) ELSE {}
Lagging == {i \in 1..n : st[i] < LastStage}
EmitVerdict ==
  verdict # "running" =>
     PrintT("@@" \o ToJson([tid |-> tid, verdict |-> verdict, l |-> l, phase |-> phase, deviated |-> deviated,
                            missing |-> Missing, lagging |-> Lagging,
                            stages |-> [i \in 1..n |-> st[i]]]))
=============================================================================
