----------------------------- MODULE RenderTrace -----------------------------
(* P-TRACE for C08: validates recorded writer runs against RenderPipeline.

   IOEnv.TRACE_FILE is a JSON array of runs
       [n |-> articles, den |-> <<word ids denoted by Collection.tla>>, req |-> BOOLEAN,
        ev |-> << [s |-> stage name, a |-> article index or 0] >>,
        found |-> <<word ids found in the output>>, ok |-> BOOLEAN]
   One behaviour per run (tid chosen in TraceInit).  Every recorded event must be a step the
   stage machine allows; the run is
       accepted    when all events are consumed and the machine is in "judged",
       rejected    at the first event (index l) that no action of RenderPipeline allows,
       incomplete  when the events end before the verdict (the writer stopped early).
   Rejection is an explicit terminal step (enabled exactly when the spec's step is not), so
   one TLC run judges all recorded runs; deadlock checking stays on and a deadlock would be a
   defect of this module.  The verdicts are printed as JSON for the harness, which only names
   what was rejected. *)
EXTENDS RenderPipeline, Sequences, TLC, Json, IOUtils

Runs == JsonDeserialize(IOEnv.TRACE_FILE)

VARIABLES tid, l, verdict
tvars == <<n, denoted, req, st, phase, found, good, tid, l, verdict>>

ToSet(s) == {s[k] : k \in DOMAIN s}
Run == Runs[tid]
Ev  == Run.ev[l]

TraceInit == /\ tid \in 1..Len(Runs)
             /\ l = 1
             /\ verdict = "running"
             /\ n = Runs[tid].n
             /\ denoted = ToSet(Runs[tid].den)
             /\ req = Runs[tid].req
             /\ st = [i \in 1..Runs[tid].n |-> 0]
             /\ phase = "closed"
             /\ found = {}
             /\ good = FALSE

SpecStep ==
  \/ Ev.s = "OpenArchive" /\ OpenArchive
  \/ Ev.s = "Expand" /\ Expand(Ev.a)
  \/ Ev.s = "Parse"  /\ Parse(Ev.a)
  \/ Ev.s = "Clean"  /\ Clean(Ev.a)
  \/ Ev.s = "Layout" /\ Layout(Ev.a)
  \/ Ev.s = "Output" /\ Output
  \/ Ev.s = "Judge"  /\ Judge(ToSet(Run.found), Run.ok)

Step == /\ verdict = "running" /\ l <= Len(Run.ev)
        /\ SpecStep
        /\ l' = l + 1
        /\ UNCHANGED <<tid, verdict>>

Reject == /\ verdict = "running" /\ l <= Len(Run.ev)
          /\ ~ENABLED SpecStep
          /\ verdict' = "rejected"
          /\ UNCHANGED <<n, denoted, req, st, phase, found, good, tid, l>>

Finish == /\ verdict = "running" /\ l > Len(Run.ev)
          /\ verdict' = IF phase = "judged" THEN "accepted" ELSE "incomplete"
          /\ UNCHANGED <<n, denoted, req, st, phase, found, good, tid, l>>

Stutter == verdict # "running" /\ UNCHANGED tvars

TraceNext == Step \/ Reject \/ Finish \/ Stutter
TraceSpec == TraceInit /\ [][TraceNext]_tvars

\* an accepted run satisfies the obligations of C08 (checked on every state of every run)
AcceptedIsComplete ==
  verdict = "accepted" => /\ phase = "judged" /\ good
                          /\ \A i \in 1..n : st[i] = LastStage
                          /\ (req => denoted \subseteq found)

Missing == IF l <= Len(Run.ev) /\ Ev.s = "Judge" THEN denoted \ ToSet(Run.found) ELSE {}
Lagging == {i \in 1..n : st[i] < LastStage}
EmitVerdict ==
  verdict # "running" =>
     PrintT("@@" \o ToJson([tid |-> tid, verdict |-> verdict, l |-> l, phase |-> phase,
                            missing |-> Missing, lagging |-> Lagging,
                            stages |-> [i \in 1..n |-> st[i]]]))
=============================================================================
