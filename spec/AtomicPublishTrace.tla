------------------------ MODULE AtomicPublishTrace ------------------------
(* C20, code -> spec: the syscalls a real producer issued on its output directory (recorded with
   strace, abstracted by checks/c20.py) must be a behaviour of the protocol transcribed in
   AtomicPublish.tla (UseGeneric = FALSE), or at least of the generic publication discipline
   (UseGeneric = TRUE).

   A batch is a sequence of traces  [producer, prev, expect, ev]  where ev is a sequence of events
   [op, p, src, mode, err]:
       op   "open" | "write" | "close" | "rename" | "unlink" | "suberr" | "kill" | "end"
            ("suberr": a failing call on a sub-directory of the output directory)
       p    "tmp" | "final" | "outside"      path class of the (destination) path
       src  path class of the rename source ("-" otherwise)
       mode "excl" | "trunc" | "-"           O_EXCL (mkstemp) / O_TRUNC-or-create
       err  TRUE when the call returned an (injected) error
   "write" stands for a maximal run of successful write(2) calls on one descriptor - one Flush of
   the model; a failing write is its own event.  Calls that never change a file (read-only opens
   and their closes, stat, lseek) and calls on sub-directories of the output directory are
   dropped by the abstraction.  expect is how the run ended: "done" (the producer returned),
   "failed" (it raised), "killed".

   The model's internal steps (BufWrite, NextRound) are not observable, so a trace may branch;
   acceptance is therefore decided positively: a trace is accepted iff some state with the whole
   trace consumed is reachable; such states are printed ("@@{"acc": tid}") and the harness treats
   every trace that was not printed as rejected (deadlock checking is off).  Published and
   TypeOK are checked in every state visited on the way. *)
EXTENDS AtomicPublish, Json, IOUtils

CONSTANT UseGeneric

Batch == JsonDeserialize(IOEnv.TRACE_FILE)

VARIABLES tid, l
tvars == <<producer, dir, idata, nextino, fd, pc, round, wr, alive, nerr, tid, l>>

Tr   == Batch[tid]
Has  == l <= Len(Tr.ev)
Ev   == Tr.ev[l]
Adv  == l' = l + 1 /\ tid' = tid
Keep == l' = l /\ tid' = tid
Is(op) == Has /\ Ev.op = op
OnTmp  == Ev.p = "tmp"
NoData == idata' = idata                      \* a close(2) never writes: every write is its own event
OK  == ~Ev.err
ERR == Ev.err

TraceInit ==
  /\ tid \in 1..Len(Batch) /\ l = 1
  /\ Init
  /\ producer = (IF UseGeneric THEN "generic" ELSE Batch[tid].producer)
  /\ (dir["final"] # 0) = Batch[tid].prev

(* transcribed protocols *)
TrMkstemp == Is("open") /\ Ev.mode = "excl" /\ OnTmp /\ ((OK /\ Mkstemp) \/ (ERR /\ MkstempErr)) /\ Adv
TrOpen    == Is("open") /\ Ev.mode = "trunc"
             /\ ((OK /\ Open /\ (IF Ev.p = "final" THEN Target = "final" ELSE Target # "final")) \/ (ERR /\ (OpenErr \/ OpenRetry))) /\ Adv
TrWrite   == Is("write") /\ ((OK /\ Flush) \/ (ERR /\ FlushErr)) /\ Adv
TrClose   == Is("close")
             /\ \/ OK /\ (Close0 \/ Close \/ UnwindClose \/ LateClose) /\ NoData
                \/ ERR /\ (Close0Err \/ CloseErr) /\ NoData
             /\ Adv
TrRename  == Is("rename") /\ Ev.src = "tmp" /\ Ev.p = "final"
             /\ ((OK /\ (Rename \/ RenameEarly)) \/ (ERR /\ RenameErr)) /\ Adv
TrUnlink  == Is("unlink") /\ OnTmp /\ ((OK /\ Cleanup) \/ (ERR /\ CleanupErr)) /\ Adv
TrSubErr  == Is("suberr") /\ ((producer = "makezip" /\ SubFail) \/ (producer = "generic" /\ GErr)) /\ Adv
\* Known finding (known_findings.json, C20 "makezip fault at openat sub [ro]"): os.walk in
\* ZipCreator._write_zip swallows a failing scandir, so zip_dir carries on and the zip is published
\* without that directory's files.  The deviation is accepted here only so that the rest of such a
\* trace is still validated; the reference spec (AtomicPublish.tla) does not contain it and the
\* reader check of the fault enumeration reports it.
KnownDeviation_WalkSwallowsError ==
  /\ Is("suberr") /\ producer = "makezip" /\ pc = "write" /\ CanErr /\ Fail
  /\ UNCHANGED <<producer, dir, idata, nextino, fd, pc, round, wr, alive>> /\ Adv
TrInternal == (BufWrite \/ NextRound \/ Rerender) /\ Keep

(* the generic discipline *)
GPath == IF Ev.p = "final" THEN "final" ELSE "tmp1"
TrGOpen   == Is("open") /\ OnTmp /\ ((OK /\ GOpen("tmp1")) \/ (ERR /\ GErr)) /\ Adv
TrGWrite  == Is("write") /\ ((OK /\ GFlush) \/ (ERR /\ GFlushErr)) /\ Adv
TrGClose  == Is("close") /\ ((OK /\ GClose /\ NoData) \/ (ERR /\ GCloseErr)) /\ Adv
TrGRename == Is("rename") /\ Ev.src = "tmp" /\ Ev.p = "final" /\ ((OK /\ GRename("tmp1")) \/ (ERR /\ GErr)) /\ Adv
TrGUnlink == Is("unlink") /\ Ev.p \in {"tmp", "final"} /\ ((OK /\ GUnlink(GPath)) \/ (ERR /\ GErr)) /\ Adv
TrGInternal == (GBufWrite \/ GNextRound) /\ Keep

TrKill == Is("kill") /\ Crash /\ Adv
TrEnd  == /\ Is("end")
          /\ \/ producer = "generic" /\ pc = "g"           \* handles still open at exit are lost like in a crash
             \/ producer # "generic" /\ Tr.expect = "done" /\ pc = "done"
             \/ producer # "generic" /\ Tr.expect = "failed" /\ pc = "failed"
             \* a writer that raises without closing its handle (the process exits with it)
             \/ producer # "generic" /\ Tr.expect = "failed" /\ pc = "unwind" /\ Handler = "failed"
             \/ Tr.expect = "killed" /\ ~alive
          /\ UNCHANGED vars /\ Adv

TraceNext == TrMkstemp \/ TrOpen \/ TrWrite \/ TrClose \/ TrRename \/ TrUnlink \/ TrSubErr \/ KnownDeviation_WalkSwallowsError \/ TrInternal
             \/ TrGOpen \/ TrGWrite \/ TrGClose \/ TrGRename \/ TrGUnlink \/ TrGInternal
             \/ TrKill \/ TrEnd
TraceSpec == TraceInit /\ [][TraceNext]_tvars

Accepted == (l = Len(Tr.ev) + 1) => PrintT("@@" \o ToJson([acc |-> tid]))
\* diagnosis (single rejected trace): how far did any branch get
Progress == PrintT("@@" \o ToJson([tid |-> tid, l |-> l, pc |-> pc]))
=============================================================================
