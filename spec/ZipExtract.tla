---------------------------- MODULE ZipExtract ----------------------------
(* C15 — opening a collection archive never writes outside its extraction directory.

   Models mwlib.core.nuwiki.extractall / extract_member:
       dst        = normpath(abspath(dst)) + "/"
       targetpath = normpath(join(dst, member.filename))
       reject (RuntimeError) unless targetpath.startswith(dst)
       makedirs(upper directories); write the file unless the name ends in "/"
   members are extracted in archive order, so a hostile member k leaves members < k in place.

   Paths are sequences of components counted from the file-system root.  The destination lives
   at  Prefix \o <<"S","D">>;  the harness maps Prefix to real scratch directories, so that an
   escaping write of a broken implementation still lands inside the scratch area where the
   tree diff sees it.  POSIX semantics: "" and "." vanish, ".." pops (the root is a fixpoint),
   an absolute member replaces the destination in join(), a path starting with exactly two
   slashes keeps them under normpath (and therefore never has dst as a prefix), and "\" is an
   ordinary character of a name - whatever host system the archive header claims for the member
   (`host`: 0 = MS-DOS/Windows, 3 = Unix; chosen per archive, never consulted by the reference). *)
EXTENDS Naturals, Sequences, FiniteSets, TLC, Json

CONSTANTS MaxDepth,          \* components per member name, single-member archives
          PairDepth,         \* components per member name, two-member archives (0: no pairs)
          DstForms,          \* subset of {"abs","trail","rel","reldot","dotdot"}
          HostSystems,       \* subset of {0, 3}: the members' create_system header byte
          ForceTrailingSep,  \* TRUE in the reference: the prefix test is on "dst/"
          NormBeforeCheck,   \* TRUE in the reference: the prefix test is on the normalised target
          EmitCases          \* TRUE: print every terminal state as JSON (P-ENUM)

Comps   == {"..", ".", "", "a", "D", "Dx", "b\\c", "..\\x"}
Roots   == {"rel", "abs", "abs2"}
Prefix  == <<"r1", "r2", "r3", "r4", "r5", "r6">>
Sandbox == Prefix \o <<"S">>
DstAbs  == Sandbox \o <<"D">>
SiblingNames == {"D", "Dx"}        \* names having the destination's own name as a string prefix

VARIABLES dstform, members, host, i, fs, status
vars == <<dstform, members, host, i, fs, status>>

CompSeqs(n) == UNION {[1..k -> Comps] : k \in 1..n}
\* a relative name must not start with an empty component: that spelling *is* an absolute name
\* ("/D/a") and is covered by root = "abs", which the harness keeps inside the scratch area
MemberSet(n) == {m \in [root : Roots, comps : CompSeqs(n), dir : BOOLEAN] :
                   m.root = "rel" => m.comps[1] # ""}

-----------------------------------------------------------------------------
RECURSIVE NormR(_, _)
NormR(rest, acc) ==
  IF rest = <<>> THEN acc
  ELSE LET c == Head(rest) IN
       NormR(Tail(rest),
             IF c \in {"", "."} THEN acc
             ELSE IF c = ".." THEN (IF acc = <<>> THEN acc ELSE SubSeq(acc, 1, Len(acc) - 1))
             ELSE Append(acc, c))
Norm(p) == NormR(p, <<>>)

\* the destination as the caller spells it (current directory = Sandbox)
DstSpelling(f) ==
  CASE f = "abs"    -> [root |-> "abs", comps |-> <<"S", "D">>]
    [] f = "trail"  -> [root |-> "abs", comps |-> <<"S", "D", "">>]
    [] f = "rel"    -> [root |-> "rel", comps |-> <<"D">>]
    [] f = "reldot" -> [root |-> "rel", comps |-> <<".", "D", "">>]
    [] f = "dotdot" -> [root |-> "rel", comps |-> <<"D", "a", "..">>]

\* normpath(abspath(dst)): always DstAbs for every spelling above (checked: DstResolves)
DstNorm(f) == LET s == DstSpelling(f) IN
              Norm(IF s.root = "abs" THEN Prefix \o s.comps ELSE Sandbox \o s.comps)

\* join(dst, name): an absolute name replaces dst
Joined(d, m)  == IF m.root = "rel" THEN d \o m.comps ELSE Prefix \o m.comps
Target(d, m)  == Norm(Joined(d, m))

IsProperPrefix(p, q) == Len(q) > Len(p) /\ SubSeq(q, 1, Len(p)) = p

\* the implementation's test `targetpath.startswith(dst)` on strings
StartsWith(d, t) ==
  IF ForceTrailingSep THEN IsProperPrefix(d, t)
  ELSE /\ Len(t) >= Len(d)
       /\ SubSeq(t, 1, Len(d) - 1) = SubSeq(d, 1, Len(d) - 1)
       /\ t[Len(d)] \in SiblingNames

Accepts(d, m) ==
  /\ m.root # "abs2"
  /\ IF NormBeforeCheck THEN StartsWith(d, Target(d, m))
     ELSE \* un-normalised join: a relative name always "starts with" dst
          m.root = "rel" \/ StartsWith(d, Joined(d, m))

\* directories that must exist for target t: its proper prefixes strictly below the destination
\* (the destination directory itself is created on demand too; it is not an "effect")
Dirs(t, isdir) == { SubSeq(t, 1, k) : k \in (Len(DstAbs) + 1)..(IF isdir THEN Len(t) ELSE Len(t) - 1) }

Kind(p) == IF \E e \in fs : e.path = p THEN (CHOOSE e \in fs : e.path = p).kind ELSE "none"

\* the code treats a member as a directory iff its *name* ends in "/": an explicit trailing
\* slash, or an empty last component
IsDir(m) == m.dir \/ m.comps[Len(m.comps)] = ""

Conflict(t, isdir) ==
  \/ \E d \in Dirs(t, isdir) : Kind(d) = "f"      \* a file sits where a directory is needed
  \/ ~isdir /\ Kind(t) = "d"                     \* a directory sits where the file goes

-----------------------------------------------------------------------------
Archives ==
  {<<m>> : m \in MemberSet(MaxDepth)} \cup
  (IF PairDepth = 0 THEN {} ELSE {<<m1, m2>> : m1 \in MemberSet(PairDepth), m2 \in MemberSet(PairDepth)})

Init == /\ dstform \in DstForms
        /\ members \in Archives
        /\ host \in HostSystems
        /\ i = 1
        /\ fs = {}
        /\ status = "running"

Extract ==
  /\ status = "running" /\ i <= Len(members)
  /\ LET d == DstNorm(dstform)
         m == members[i]
         t == Target(d, m) IN
     IF m.root # "abs2" /\ t = d THEN status' = "atdst" /\ UNCHANGED <<fs, i>>
     ELSE IF ~Accepts(d, m) THEN status' = "rejected" /\ UNCHANGED <<fs, i>>
     ELSE IF Conflict(t, IsDir(m)) THEN status' = "oserror" /\ UNCHANGED <<fs, i>>
     ELSE /\ fs' = fs \cup {[path |-> p, kind |-> "d"] : p \in Dirs(t, IsDir(m))}
                      \cup (IF IsDir(m) THEN {} ELSE {[path |-> t, kind |-> "f"]})
          /\ i' = i + 1
          /\ UNCHANGED status
  /\ UNCHANGED <<dstform, members, host>>

Finish == /\ status = "running" /\ i > Len(members)
          /\ status' = "done"
          /\ UNCHANGED <<dstform, members, host, i, fs>>

(* a member that names the destination directory ITSELF ("./", "a/..", the absolute spelling of the
   destination) neither escapes nor lies inside: the statement fixes nothing for it - the code
   rejects it, accepting a directory entry "./" (as archive tools write) would be as good.  The
   model stops there with status "atdst": verdict and effect inside the destination are free. *)
Next == Extract \/ Finish
Spec == Init /\ [][Next]_vars /\ WF_vars(Next)

-----------------------------------------------------------------------------
\* C15: every path ever created lies strictly inside the destination
Contained == \A e \in fs : IsProperPrefix(DstAbs, e.path)

\* an archive is rejected exactly when one of its members (up to the first failure) escapes
EscapingMember(m) == ~IsProperPrefix(DstAbs, Target(DstAbs, m)) \/ m.root = "abs2"
RejectedIffEscaping ==
  status = "rejected" => EscapingMember(members[i])
DoneMeansAllInside ==
  status = "done" => \A k \in 1..Len(members) : ~EscapingMember(members[k])

\* oracle sanity: every spelling of the destination denotes the same directory
DstResolves == DstNorm(dstform) = DstAbs
\* normalisation is idempotent and yields no special components
NormLaw == \A k \in 1..Len(members) :
             LET t == Target(DstAbs, members[k]) IN
             Norm(t) = t /\ \A j \in 1..Len(t) : t[j] \notin {"", ".", ".."}

Terminates == <>(status # "running")

Terminal == status # "running"
EmitTerminal ==
  (EmitCases /\ Terminal) =>
     PrintT("@@" \o ToJson([dst |-> DstSpelling(dstform), form |-> dstform, members |-> members, host |-> host,
                            status |-> status, failed_at |-> i,
                            fs |-> {<<e.path, e.kind>> : e \in fs}]))
=============================================================================
