------------------------------ MODULE WikiDoc ------------------------------
(* C02 / C05-C07 — generator automaton for well-formed wikitext documents together with the
   structure each piece of visible text denotes.

   A push-down automaton.  Every action is one grammar production: it appends source tokens to
   `out` AND extends the denotation `den` (one entry [w, path, t] per visible word, in reading
   order).  Guards keep the document well-formed (styles closed on their line, table syntax at
   line start, no adjacent apostrophe runs, ...).  Tokens are abstract records [t, a, b]; Python
   (harness/wikidoc.py) turns them into characters and projects the real parse tree back onto
   the label vocabulary used in `path`:

     Sec(l)  SecTitle(l)  UL(i) OL(i) DT DD  Table Caption Row(i) Cell(2*j+hdr)  Pre  Ref
     Bold Italic Link(t) Ext(u)            -- the last four form an unordered "inline" suffix,
                                              emitted here in this fixed order; inline labels
                                              opened outside a <ref> do not apply inside it.

   Beyond the clean grammar (constants switch these on):
     Palette  attribute / snippet palette built from the constants of treecleaner.py that switch
              cleaning passes on (C05/C06); any use clears flags.clean.
     Free     arbitrary lexemes at any point (malformed markup, C05/C06); sets flags.mal.
   C02 uses documents with flags.clean /\ ~flags.mal.  C07 uses those that additionally have
   flags.lossless: ordinary lists (a deeper level only below an open shallower one), no empty
   section (a heading with no visible word before the next heading / the end). *)
EXTENDS Naturals, Sequences, FiniteSets, TLC, Json

CONSTANTS MaxProd,        \* productions per document (fuel)
          MaxWords,       \* visible words per document
          MaxList,        \* list prefix depth (<= 3)
          MaxTables,      \* table nesting depth
          OrdinaryLists,  \* TRUE: a deeper list level only below an open shallower one
          Variants,       \* TRUE: whitespace / spelling variants are free choices
          Palette,        \* TRUE: attribute palette + snippets + macro tables
          Free,           \* TRUE: free lexemes
          NTargets,       \* link targets 1..NTargets (meaning: harness table)
          NAttrs,         \* palette attribute sets 1..NAttrs (fixed sets: classes, ids, positions, ...)
          NDimProps,      \* palette: properties that carry a length / number (height with overflow:auto, width,
                          \*          font-size, margin, border-width, colspan, rowspan, border, ...)
          NReadProps,     \* palette: the first NReadProps dimension properties are read by the passes themselves
          NDimShapes,     \* palette: spellings of such a value (px pt em % unitless decimal negative zero empty
                          \*          garbage upper-case ...); attribute NAttrs + (p-1)*NDimShapes + s is property p
                          \*          written with shape s — the whole product is part of the palette
          NSnips,         \* palette snippets 1..NSnips
          NCont, NBlk, NHost,  \* palette: HTML nesting product — inline style container x block-ish child
                          \*          (as only / first / last child) x host element (meaning: harness tables)
          NestMode,       \* 0: one combination picked by the rotor (simulation)
                          \* 1: every container x child x position, host derived   (BFS, exhaustive depth 2)
                          \* 2: every host x child x position, container derived  (BFS)
                          \* 3: the full product (BFS, thorough)
                          \* 4: the combinations listed in NestWitness (codes recorded from an earlier
                          \*    full-product run: for every pass some combinations that made it fire)
          NestWitness,    \* set of NestCode values (mode 4)
          NLex,           \* free lexemes 1..NLex
          MaxLine,        \* tokens per line (keeps lines short so that documents get many blocks)
          MinOut,         \* End only when Len(out) >= MinOut (simulation: avoid trivial documents)
          EmitDocs        \* TRUE: print every finished document as JSON

VARIABLES out, den, stack, sec, lctx, pos, fuel, flags, done
vars == <<out, den, stack, sec, lctx, pos, fuel, flags, done>>

Tok(t, a, b)   == [t |-> t, a |-> a, b |-> b]
Fr(k, a, b, c) == [k |-> k, a |-> a, b |-> b, c |-> c]
Lab(k, a)      == [k |-> k, a |-> a]

Last   == IF out = <<>> THEN Tok("nl", 0, 0) ELSE out[Len(out)]
Top    == stack[Len(stack)]
Pop(s) == SubSeq(s, 1, Len(s) - 1)
NW     == Len(den) + 1

InlineKinds == {"style", "link", "ext", "span"}
LineKinds   == {"head", "para", "li", "pre", "cap"}

AtBol  == ~done /\ pos = "bol"
Container == IF stack = <<>> THEN "top" ELSE Top.k       \* meaningful at bol: top / table / cell / div
BlockOK == AtBol /\ Container \in {"top", "cell", "div"}
Has(k) == \E i \in 1..Len(stack) : stack[i].k = k
Count(k) == Cardinality({i \in 1..Len(stack) : stack[i].k = k})

\* index of the first token of the current line
RECURSIVE BackToNl(_)
BackToNl(i) == IF i = 0 THEN 1 ELSE IF out[i].t \in {"nl", "bl"} THEN i + 1 ELSE BackToNl(i - 1)
LineStart == BackToNl(Len(out))
WordsOnLine == \E i \in LineStart..Len(out) : out[i].t = "w"
IsWordTok(tk) == tk.t = "w" \/ (tk.t = "lo" /\ tk.b = 0)
IsApos(tk) == tk.t \in {"so", "sc"} /\ tk.b = 0
AposOnLine == Cardinality({i \in LineStart..Len(out) : IsApos(out[i])})

-----------------------------------------------------------------------------
(* the path the next visible word gets *)
ListKind(c) == CASE c = 1 -> "UL" [] c = 2 -> "OL" [] c = 3 -> "DT" [] c = 4 -> "DD"
ListPath == [i \in 1..Len(lctx) |-> Lab(ListKind(lctx[i].c), IF lctx[i].c \in {1, 2} THEN lctx[i].n ELSE 0)]
SecPath  == [i \in 1..Len(sec) |-> Lab("Sec", sec[i])]

FrameLabels(f) ==
  CASE f.k = "table" -> <<Lab("Table", 0)>>
    [] f.k = "cell"  -> <<Lab("Row", f.a), Lab("Cell", 2 * f.b + f.c)>>
    [] f.k = "cap"   -> <<Lab("Caption", 0)>>
    [] f.k = "head"  -> <<Lab("SecTitle", f.a)>>
    [] f.k = "li"    -> ListPath
    [] f.k = "pre"   -> <<Lab("Pre", 0)>>
    [] f.k = "ref"   -> <<Lab("Ref", 0)>>
    [] OTHER         -> <<>>

RECURSIVE BlockPart(_)
BlockPart(s) == IF s = <<>> THEN <<>> ELSE FrameLabels(Head(s)) \o BlockPart(Tail(s))

RefIdx == LET r == {i \in 1..Len(stack) : stack[i].k = "ref"} IN
          IF r = {} THEN 0 ELSE CHOOSE i \in r : TRUE
InlinePart ==
  LET fs   == {stack[i] : i \in (RefIdx + 1)..Len(stack)}
      bold == \E f \in fs : f.k = "style" /\ f.a \in {1, 3}
      ital == \E f \in fs : f.k = "style" /\ f.a \in {2, 3}
      lk   == {f \in fs : f.k = "link"}
      ex   == {f \in fs : f.k = "ext"} IN
  (IF bold THEN <<Lab("Bold", 0)>> ELSE <<>>) \o (IF ital THEN <<Lab("Italic", 0)>> ELSE <<>>)
  \o (IF lk = {} THEN <<>> ELSE <<Lab("Link", (CHOOSE f \in lk : TRUE).a)>>)
  \o (IF ex = {} THEN <<>> ELSE <<Lab("Ext", (CHOOSE f \in ex : TRUE).a)>>)

CurPath == SecPath \o BlockPart(stack) \o InlinePart

-----------------------------------------------------------------------------
(* fuel: a production that opens something must leave enough fuel to close everything *)
CloseCost == Len(stack) + 1
CanOpen  == fuel > CloseCost + 2
CanStep  == fuel > CloseCost
Spend    == fuel' = fuel - 1

Same(vs) == UNCHANGED vs

\* the spelling a human would choose: a blank after a word / closer / line-start marker
Natural == Last.t \in {"w", "lc", "ec", "sc", "rc", "xc", "snip", "li", "tc", "tcc", "tcap", "h"} \/ (Last.t \in {"lo", "ro"} /\ Last.b # 1)
SpChoices(must, mustnot) ==
  IF must THEN {TRUE} ELSE IF mustnot THEN {FALSE} ELSE IF Variants THEN {TRUE, FALSE} ELSE {Natural}
SpTok(sp) == IF sp THEN <<Tok("sp", 0, 0)>> ELSE <<>>

\* a space is needed between this token and what follows
PlainLo(tk) == tk.t = "lo" /\ tk.b = 0
Glue == Last.t \in {"w", "lc", "ec", "eo"} \/ PlainLo(Last)
\* nothing on the line yet (a leading blank would start a preformatted line)
LineEmpty == Last.t \in {"nl", "bl"} \/ out = <<>>

-----------------------------------------------------------------------------
Init == /\ out = <<>> /\ den = <<>> /\ stack = <<>> /\ sec = <<>> /\ lctx = <<>>
        /\ pos = "bol" /\ fuel = MaxProd
        /\ flags = [clean |-> TRUE, mal |-> FALSE, lossless |-> TRUE]
        /\ done = FALSE

(* ---------------------------------------------------------------- inline productions *)
InInline == ~done /\ pos = "inl"
\* room for more inline material on this line
Room(k) == Len(out) - LineStart + k <= MaxLine
InRef  == Has("ref")
InLink == Has("link") \/ Has("ext")
InHead == Has("head")
InPre  == Has("pre")

Word ==
  /\ InInline /\ Room(2) /\ CanStep /\ NW <= MaxWords
  /\ \E sp \in SpChoices(Glue, LineEmpty \/ Last.t \in {"pre"}) :
       out' = out \o SpTok(sp) \o <<Tok("w", NW, 0)>>
  /\ den' = Append(den, [w |-> NW, path |-> CurPath, t |-> 0])
  /\ Spend /\ Same(<<stack, sec, lctx, pos, flags, done>>)

StyleOpen(kind) == \E i \in 1..Len(stack) : stack[i].k = "style" /\
                      (stack[i].a = kind \/ stack[i].a = 3 \/ kind = 3)
Spellings(kind) == IF kind = 3 THEN {0} ELSE IF Variants THEN {0, 1, 2} ELSE {0, 1}

OpenStyle ==
  /\ InInline /\ Room(4) /\ CanOpen /\ NW <= MaxWords
  /\ \E kind \in {1, 2, 3} : \E spell \in Spellings(kind) :
       /\ ~StyleOpen(kind)
       /\ Count("style") < 2
       /\ spell = 0 => AposOnLine < 6
       /\ \E sp \in SpChoices(Glue \/ (spell = 0 /\ IsApos(Last)), LineEmpty) :
            out' = out \o SpTok(sp) \o <<Tok("so", kind, spell)>>
       /\ stack' = Append(stack, Fr("style", kind, spell, 0))
  /\ Spend /\ Same(<<den, sec, lctx, pos, flags, done>>)

\* something visible was produced since the opener
NonEmpty == Last.t \in {"w", "sc", "lc", "ec", "rc", "xc", "snip"} \/ PlainLo(Last) \/ (Last.t = "ro" /\ Last.b = 2)

CloseStyle ==
  /\ InInline /\ fuel > 0 /\ stack # <<>> /\ Top.k = "style" /\ NonEmpty
  /\ \E sp \in SpChoices(Top.b = 0 /\ IsApos(Last), FALSE) :
       out' = out \o SpTok(sp) \o <<Tok("sc", Top.a, Top.b)>>
  /\ stack' = Pop(stack)
  /\ Spend /\ Same(<<den, sec, lctx, pos, flags, done>>)

\* [[Target]] : the target text itself is the visible word
PlainLink ==
  /\ InInline /\ Room(2) /\ CanStep /\ ~InLink /\ NW <= MaxWords
  /\ \E t \in 1..NTargets, sp \in SpChoices(Glue, LineEmpty) :
       /\ out' = out \o SpTok(sp) \o <<Tok("lo", t, 0)>>
       /\ den' = Append(den, [w |-> NW, path |-> CurPath \o <<Lab("Link", t)>>, t |-> t])
  /\ Spend /\ Same(<<stack, sec, lctx, pos, flags, done>>)

OpenLink ==
  /\ InInline /\ Room(4) /\ CanOpen /\ ~InLink /\ NW <= MaxWords
  /\ \E t \in 1..NTargets, sp \in SpChoices(Glue, LineEmpty) :
       /\ out' = out \o SpTok(sp) \o <<Tok("lo", t, 1)>>
       /\ stack' = Append(stack, Fr("link", t, 0, 0))
  /\ Spend /\ Same(<<den, sec, lctx, pos, flags, done>>)

CloseLink ==
  /\ InInline /\ fuel > 0 /\ stack # <<>> /\ Top.k = "link" /\ NonEmpty
  /\ out' = Append(out, Tok("lc", 0, 0))
  /\ stack' = Pop(stack)
  /\ Spend /\ Same(<<den, sec, lctx, pos, flags, done>>)

OpenExt ==
  /\ InInline /\ Room(4) /\ CanOpen /\ ~InLink /\ NW <= MaxWords
  /\ \E u \in 1..2, sp \in SpChoices(Glue, LineEmpty) :
       /\ out' = out \o SpTok(sp) \o <<Tok("eo", u, 1)>>
       /\ stack' = Append(stack, Fr("ext", u, 0, 0))
  /\ Spend /\ Same(<<den, sec, lctx, pos, flags, done>>)

CloseExt ==
  /\ InInline /\ fuel > 0 /\ stack # <<>> /\ Top.k = "ext" /\ NonEmpty
  /\ out' = Append(out, Tok("ec", 0, 0))
  /\ stack' = Pop(stack)
  /\ Spend /\ Same(<<den, sec, lctx, pos, flags, done>>)

\* <ref>…</ref>; mode 0 anonymous, 1 named definition (each name defined once: name = number of
\* named definitions so far + 1)
NamedDefs == Cardinality({i \in 1..Len(out) : out[i].t = "ro" /\ out[i].b = 1})
OpenRef ==
  /\ InInline /\ Room(4) /\ CanOpen /\ ~InRef /\ ~InLink /\ ~InHead /\ ~InPre /\ (Palette \/ ~Has("cap")) /\ NW <= MaxWords
  /\ (Last.t \in {"w", "sc", "lc", "ec"} \/ PlainLo(Last))
  /\ \E mode \in {0, 1} :
       /\ mode = 1 => NamedDefs < 2
       /\ out' = Append(out, Tok("ro", IF mode = 1 THEN NamedDefs + 1 ELSE 0, mode))
  /\ stack' = Append(stack, Fr("ref", 0, 0, 0))
  /\ flags' = IF Has("cap") THEN [flags EXCEPT !.clean = FALSE, !.lossless = FALSE] ELSE flags
  /\ Spend /\ Same(<<den, sec, lctx, pos, done>>)

CloseRef ==
  /\ InInline /\ fuel > 0 /\ stack # <<>> /\ Top.k = "ref" /\ NonEmpty
  /\ out' = Append(out, Tok("rc", 0, 0))
  /\ stack' = Pop(stack)
  /\ Spend /\ Same(<<den, sec, lctx, pos, flags, done>>)

\* re-use of a name: <ref name=.. />  (no visible word of its own).  Either a name defined earlier,
\* or — once — the name the NEXT named definition will get (use before definition, as infoboxes
\* do); End is then only possible after that definition has been written.
ForwardUses == {i \in 1..Len(out) : out[i].t = "ro" /\ out[i].b = 2 /\ out[i].a > NamedDefs}
ReuseRef ==
  /\ InInline /\ Room(1) /\ CanStep /\ ~InRef /\ ~InLink /\ ~InHead /\ ~InPre /\ (Palette \/ ~Has("cap"))
  /\ (Last.t \in {"w", "sc", "lc", "ec"} \/ PlainLo(Last))
  /\ \E n \in 1..(NamedDefs + 1) :
       /\ n = NamedDefs + 1 => (NamedDefs < 2 /\ ForwardUses = {} /\ fuel > CloseCost + 8)
       /\ out' = Append(out, Tok("ro", n, 2))
  /\ Spend /\ Same(<<den, stack, sec, lctx, pos, flags, done>>)

\* "; term : description" on one line: from the separator on, the words of this line belong to a
\* definition description at the same depth as the term (core.py ParseLines.splitdl)
DefSep ==
  /\ InInline /\ Room(4) /\ CanStep /\ NW <= MaxWords
  /\ stack # <<>> /\ Top.k = "li" /\ lctx # <<>> /\ lctx[Len(lctx)].c = 3 /\ WordsOnLine
  /\ (Last.t \in {"w", "sc", "lc", "ec", "rc"} \/ PlainLo(Last))
  /\ out' = Append(out, Tok("dsep", 0, 0))
  /\ lctx' = [lctx EXCEPT ![Len(lctx)] = [c |-> 4, n |-> 1]]
  /\ Spend /\ Same(<<den, stack, sec, pos, flags, done>>)

(* ---------------------------------------------------------------- line level *)
EndLine ==
  /\ InInline /\ fuel > 0 /\ stack # <<>>
  /\ \/ /\ Top.k \in {"para", "li", "pre", "cap"} /\ WordsOnLine
        /\ out' = Append(out, Tok("nl", 0, 0))
        /\ stack' = Pop(stack)
     \/ /\ Top.k = "head" /\ WordsOnLine
        /\ \E sp \in SpChoices(FALSE, FALSE) :
             out' = out \o SpTok(sp) \o <<Tok("h", Top.a, 1), Tok("nl", 0, 0)>>
        /\ stack' = Pop(stack)
     \/ /\ Top.k = "cell"                            \* the cell stays open for block content
        /\ out' = Append(out, Tok("nl", 0, 0))
        /\ stack' = stack
  /\ pos' = "bol"
  /\ Spend /\ Same(<<den, sec, lctx, flags, done>>)

RECURSIVE PopSec(_, _)
PopSec(s, l) == IF s # <<>> /\ s[Len(s)] >= l THEN PopSec(Pop(s), l) ELSE s

\* a heading with no visible word after it (before the next heading / the end): an empty section,
\* which the cleaner documents as removable (outside C07's lossless domain)
HeadingOpen == \E i \in 1..Len(out) : out[i].t = "h" /\ out[i].b = 1 /\ \A j \in (i + 1)..Len(out) : ~IsWordTok(out[j])
NoEmptySection == IF HeadingOpen THEN [flags EXCEPT !.lossless = FALSE] ELSE flags

Heading ==
  /\ AtBol /\ stack = <<>> /\ CanOpen /\ NW <= MaxWords
  /\ \E l \in 2..4 :
       /\ out' = Append(out, Tok("h", l, 0))
       /\ sec' = Append(PopSec(sec, l), l)
       /\ stack' = Append(stack, Fr("head", l, 0, 0))
  /\ pos' = "inl" /\ lctx' = <<>>
  /\ flags' = NoEmptySection
  /\ Spend /\ Same(<<den, done>>)

ParaLine ==
  /\ BlockOK /\ CanOpen /\ NW <= MaxWords
  /\ stack' = Append(stack, Fr("para", 0, 0, 0))
  /\ pos' = "inl" /\ lctx' = <<>>
  /\ Spend /\ Same(<<out, den, sec, flags, done>>)

ParagraphBreak ==
  /\ BlockOK /\ CanStep /\ out # <<>> /\ Last.t = "nl"
  /\ \E n \in (IF Variants THEN {1, 2} ELSE {1}) : out' = Append(out, Tok("bl", n, 0))
  /\ lctx' = <<>>
  /\ Spend /\ Same(<<den, stack, sec, pos, flags, done>>)

PreLine ==
  /\ AtBol /\ stack = <<>> /\ CanOpen /\ NW <= MaxWords
  /\ out' = Append(out, Tok("pre", 0, 0))
  /\ stack' = Append(stack, Fr("pre", 0, 0, 0))
  /\ pos' = "inl" /\ lctx' = <<>>
  /\ Spend /\ Same(<<den, sec, flags, done>>)

(* list lines: prefix over 1="*" 2="#" 3=";" 4=":" *)
Prefixes == UNION {[1..k -> 1..4] : k \in 1..MaxList}
RECURSIVE Common(_, _, _)
Common(p, c, k) == IF k < Len(p) /\ k < Len(c) /\ p[k + 1] = c[k + 1].c THEN Common(p, c, k + 1) ELSE k
\* the open list context after a line with prefix p (see core.py ParseLines.collect_items):
\* a line whose prefix equals an open prefix starts the next item at its last level; a longer or
\* diverging prefix continues the item at the common level and opens fresh lists below it
NewCtx(p) ==
  LET k == Common(p, lctx, 0) IN
  IF k = Len(p)
  THEN [i \in 1..k |-> IF i = k THEN [c |-> lctx[i].c, n |-> lctx[i].n + 1] ELSE lctx[i]]
  ELSE [i \in 1..Len(p) |-> IF i <= k THEN lctx[i] ELSE [c |-> p[i], n |-> 1]]
PrefixCode(p) == IF Len(p) = 1 THEN p[1] ELSE IF Len(p) = 2 THEN p[1] * 5 + p[2] ELSE p[1] * 25 + p[2] * 5 + p[3]

\* ordinary lists: a deeper level only below an open shallower one
Ordinary(p) == Len(p) <= Len(lctx) + 1 /\ \A i \in 1..(Len(p) - 1) : p[i] = lctx[i].c

ListLine ==
  /\ BlockOK /\ CanOpen /\ NW <= MaxWords
  /\ \E p \in Prefixes :
       /\ OrdinaryLists => Ordinary(p)
       /\ out' = Append(out, Tok("li", PrefixCode(p), Len(p)))
       /\ lctx' = NewCtx(p)
       /\ flags' = IF Ordinary(p) THEN flags ELSE [flags EXCEPT !.lossless = FALSE]
  /\ stack' = Append(stack, Fr("li", 0, 0, 0))
  /\ pos' = "inl"
  /\ Spend /\ Same(<<den, sec, done>>)

Rotor(m) == IF m = 0 THEN 0 ELSE ((Len(out) * 7 + NW * 3 + fuel) % m) + 1
NDim == NDimProps * NDimShapes
DimRotor == IF NDim = 0 THEN 0 ELSE ((Len(out) * 11 + NW * 5 + fuel * 3) % NDim) + 1
AttrChoices == IF Palette THEN {0, Rotor(NAttrs), NAttrs + DimRotor} ELSE {0}

(* ---------------------------------------------------------------- tables *)
\* table frame: a = current row ordinal, b = cells in it,
\*              c = 2 fresh / 3 after the caption / 1 row separator pending / 0 inside a row
TableCtx == AtBol /\ Container \in {"table", "cell"}
TStack == IF Container = "cell" THEN Pop(stack) ELSE stack
TFrame == TStack[Len(TStack)]
SetT(f) == [TStack EXCEPT ![Len(TStack)] = f]

OpenTable ==
  /\ BlockOK /\ CanOpen /\ fuel > CloseCost + 4 /\ Count("table") < MaxTables /\ NW <= MaxWords
  /\ \E at \in AttrChoices :
       /\ out' = out \o <<Tok("tb", at, 0), Tok("nl", 0, 0)>>
       /\ flags' = IF at = 0 THEN flags ELSE [flags EXCEPT !.clean = FALSE, !.lossless = FALSE]
  /\ stack' = Append(stack, Fr("table", 0, 0, 2))
  /\ lctx' = <<>>
  /\ Spend /\ Same(<<den, sec, pos, done>>)

Caption ==
  /\ TableCtx /\ CanOpen /\ TFrame.c = 2 /\ NW <= MaxWords
  /\ \E at \in AttrChoices :
       /\ out' = Append(out, Tok("tcap", at, 0))
       /\ flags' = IF at = 0 THEN flags ELSE [flags EXCEPT !.clean = FALSE, !.lossless = FALSE]
  /\ stack' = Append(SetT([TFrame EXCEPT !.c = 3]), Fr("cap", 0, 0, 0))
  /\ pos' = "inl"
  /\ Spend /\ Same(<<den, sec, lctx, done>>)

NextRow ==
  /\ TableCtx /\ CanStep /\ TFrame.c \in {0, 2, 3}
  /\ \E at \in AttrChoices :
       /\ out' = out \o <<Tok("tr", at, 0), Tok("nl", 0, 0)>>
       /\ flags' = IF at = 0 THEN flags ELSE [flags EXCEPT !.clean = FALSE, !.lossless = FALSE]
  /\ stack' = SetT([TFrame EXCEPT !.c = 1])
  /\ lctx' = <<>>
  /\ Spend /\ Same(<<den, sec, pos, done>>)

NewCellFrames(h) ==
  LET f  == TFrame
      nf == IF f.c = 0 THEN [f EXCEPT !.b = f.b + 1] ELSE [f EXCEPT !.a = f.a + 1, !.b = 1, !.c = 0] IN
  Append(SetT(nf), Fr("cell", nf.a, nf.b, h))

Cell ==
  /\ TableCtx /\ CanOpen
  /\ \E h \in {0, 1}, at \in AttrChoices :
       /\ out' = Append(out, Tok("tc", h, at))
       /\ stack' = NewCellFrames(h)
       /\ flags' = IF at = 0 THEN flags ELSE [flags EXCEPT !.clean = FALSE, !.lossless = FALSE]
  /\ pos' = "inl" /\ lctx' = <<>>
  /\ Spend /\ Same(<<den, sec, done>>)

\* "||" / "!!" on the line that started the current cell
CellSep ==
  /\ InInline /\ stack # <<>> /\ Top.k = "cell" /\ CanOpen
  /\ \E spell \in (IF Top.c = 1 /\ Variants THEN {0, 1} ELSE {0}), sp \in SpChoices(FALSE, FALSE) :
       out' = out \o SpTok(sp) \o <<Tok("tcc", spell, 0)>>
  /\ LET f  == stack[Len(stack) - 1]
         nf == [f EXCEPT !.b = f.b + 1] IN
     stack' = Append([Pop(stack) EXCEPT ![Len(stack) - 1] = nf], Fr("cell", nf.a, nf.b, Top.c))
  /\ Spend /\ Same(<<den, sec, lctx, pos, flags, done>>)

CloseTable ==
  /\ TableCtx /\ fuel > 0 /\ TFrame.c = 0
  /\ out' = out \o <<Tok("te", 0, 0), Tok("nl", 0, 0)>>
  /\ stack' = Pop(TStack)
  /\ lctx' = <<>>
  /\ Spend /\ Same(<<den, sec, pos, flags, done>>)

(* ---------------------------------------------------------------- block wrapper *)
OpenDiv ==
  /\ BlockOK /\ CanOpen /\ Count("div") < 2
  /\ \E at \in AttrChoices :
       /\ out' = out \o <<Tok("do", at, 0), Tok("nl", 0, 0)>>
       /\ flags' = IF at = 0 THEN flags ELSE [flags EXCEPT !.clean = FALSE, !.lossless = FALSE]
  /\ stack' = Append(stack, Fr("div", 0, 0, 0))
  /\ lctx' = <<>>
  /\ Spend /\ Same(<<den, sec, pos, done>>)

CloseDiv ==
  /\ AtBol /\ fuel > 0 /\ Container = "div" /\ Last.t = "nl" /\ out[Len(out) - 1].t # "do"
  /\ out' = out \o <<Tok("dc", 0, 0), Tok("nl", 0, 0)>>
  /\ stack' = Pop(stack)
  /\ lctx' = <<>>
  /\ Spend /\ Same(<<den, sec, pos, flags, done>>)

(* ---------------------------------------------------------------- palette (C05/C06 only) *)
\* Which attribute set / snippet is used does not matter to the grammar; to keep the branching
\* of the generator small it is picked by a rotor over the position in the document instead of
\* being a free choice (different documents reach a point with different positions).
Dirty == flags' = [flags EXCEPT !.clean = FALSE, !.lossless = FALSE]

\* inline wrapper <span ATTR>…</span>
OpenSpan ==
  /\ Palette /\ InInline /\ Room(4) /\ CanOpen /\ ~InPre /\ Count("span") < 2
  /\ \E sp \in SpChoices(Glue, LineEmpty), at \in AttrChoices \ {0} :
       out' = out \o SpTok(sp) \o <<Tok("xo", at, 0)>>
  /\ stack' = Append(stack, Fr("span", 0, 0, 0))
  /\ Dirty /\ Spend /\ Same(<<den, sec, lctx, pos, done>>)

CloseSpan ==
  /\ InInline /\ fuel > 0 /\ stack # <<>> /\ Top.k = "span"
  /\ out' = Append(out, Tok("xc", 0, 0))
  /\ stack' = Pop(stack)
  /\ Spend /\ Same(<<den, sec, lctx, pos, flags, done>>)

\* self-contained snippets (images, galleries, category links, <br/>, html headings, ...);
\* b = 1: block snippet on a line of its own, b = 0: inline
Snippet ==
  /\ Palette /\ CanStep
  /\ \/ /\ BlockOK
        /\ \E k \in (IF NestMode = 0 THEN {Rotor(NSnips)} ELSE 1..NSnips) :     \* BFS plans: every snippet on its own
             out' = out \o <<Tok("snip", k, 1), Tok("nl", 0, 0)>>
     \/ /\ InInline /\ ~InPre
        /\ \E sp \in SpChoices(Glue, LineEmpty) : out' = out \o SpTok(sp) \o <<Tok("snip", Rotor(NSnips), 0)>>
  /\ lctx' = IF AtBol THEN <<>> ELSE lctx
  /\ Dirty /\ Spend /\ Same(<<den, stack, sec, pos, done>>)

\* HTML nesting product: host( container( child ) ) with the child as only / first / last child of
\* the container.  Passes such as swap_nodes, fix_nesting, remove_broken_children, simplify_block_nodes
\* only fire on particular container/child/host combinations; the product makes every combination
\* of depth 2 part of the input space.  The attribute of the host is a function of the combination.
NestCode(c, b, h, p) == (((h - 1) * NBlk + (b - 1)) * NCont + (c - 1)) * 3 + (p - 1)
NestAttr(code) == IF ~Palette \/ code % 3 = 0 THEN 0
                  ELSE IF code % 3 = 1 THEN (code % NAttrs) + 1
                  ELSE IF NDim = 0 THEN 0 ELSE NAttrs + (code % NDim) + 1
NNest == Cardinality({i \in 1..Len(out) : out[i].t = "nest"})
NestTok(c, b, h, p) == Tok("nest", NestCode(c, b, h, p), NestAttr(NestCode(c, b, h, p)))
Nest ==
  /\ Palette /\ NCont > 0 /\ BlockOK /\ CanStep /\ NNest < 2
  /\ IF NestMode = 0
     THEN out' = out \o <<NestTok(Rotor(NCont), ((Len(out) * 5 + fuel) % NBlk) + 1, ((Len(out) * 3 + NW + fuel * 7) % NHost) + 1,
                                  ((Len(out) + fuel) % 3) + 1), Tok("nl", 0, 0)>>
     ELSE IF NestMode = 4
     THEN \E code \in NestWitness :
            /\ code < NCont * NBlk * NHost * 3
            /\ out' = out \o <<Tok("nest", code, NestAttr(code)), Tok("nl", 0, 0)>>
     ELSE \E c \in 1..NCont, b \in 1..NBlk, h \in 1..NHost, p \in 1..3 :
            /\ NestMode = 1 => h = ((c * 5 + b * 3 + p) % NHost) + 1
            /\ NestMode = 2 => c = ((h * 7 + b * 3 + p) % NCont) + 1
            /\ out' = out \o <<NestTok(c, b, h, p), Tok("nl", 0, 0)>>
  /\ lctx' = <<>>
  /\ Dirty /\ Spend /\ Same(<<den, stack, sec, pos, done>>)

\* every attribute set of the palette (fixed sets and the whole dimension product) on an element of
\* its own; the host element (div / span / table / row / cell / caption / list) rotates with the id
AttrDoc ==
  /\ Palette /\ NestMode \in {1, 3} /\ BlockOK /\ CanStep /\ out = <<>>
  /\ \E at \in 1..(NAttrs + NDim) :
       \* quick (mode 1): all fixed sets, every shape of the properties the passes read, a quarter of the rest
       /\ NestMode = 1 => (at <= NAttrs + NReadProps * NDimShapes \/ at % 4 = 0)
       /\ out' = <<Tok("adoc", at, at % 7), Tok("nl", 0, 0)>>
  /\ lctx' = <<>>
  /\ Dirty /\ Spend /\ Same(<<den, stack, sec, pos, done>>)

\* macro tables: r rows x c columns, one word per cell (sizes around the cleaner's thresholds)
RECURSIVE RowToks(_, _, _), TableToks(_, _, _, _)
RowToks(c, j, w) == IF j > c THEN <<>> ELSE <<Tok("tc", 0, 0), Tok("sp", 0, 0), Tok("w", w + j - 1, 0), Tok("nl", 0, 0)>> \o RowToks(c, j + 1, w)
TableToks(r, c, i, w) == IF i > r THEN <<>> ELSE <<Tok("tr", 0, 0), Tok("nl", 0, 0)>> \o RowToks(c, 1, w + (i - 1) * c) \o TableToks(r, c, i + 1, w)
BigDen(r, c, base) ==
  [k \in 1..(r * c) |-> [w |-> NW + k - 1,
                         path |-> base \o <<Lab("Table", 0), Lab("Row", ((k - 1) \div c) + 1), Lab("Cell", 2 * (((k - 1) % c) + 1))>>,
                         t |-> 0]]
BigShapes == {<<26, 2>>, <<2, 16>>, <<3, 1>>, <<1, 3>>, <<36, 1>>}
NBig == Cardinality({i \in 1..Len(out) : out[i].t = "tb" /\ out[i].b = 1})
BigTable ==
  /\ Palette /\ BlockOK /\ CanStep /\ Count("table") < MaxTables /\ NBig < 2
  /\ \E sh \in BigShapes, at \in AttrChoices :
       /\ out' = out \o <<Tok("tb", at, 1), Tok("nl", 0, 0)>> \o TableToks(sh[1], sh[2], 1, NW) \o <<Tok("te", 0, 0), Tok("nl", 0, 0)>>
       /\ den' = den \o BigDen(sh[1], sh[2], CurPath)
  /\ lctx' = <<>>
  /\ Dirty /\ Spend /\ Same(<<stack, sec, pos, done>>)

\* a cell that holds only a list of n items (split_table_lists fires above 5)
RECURSIVE ItemToks(_, _, _)
ItemToks(n, i, w) == IF i > n THEN <<>> ELSE <<Tok("li", 1, 1), Tok("sp", 0, 0), Tok("w", w + i - 1, 0), Tok("nl", 0, 0)>> \o ItemToks(n, i + 1, w)
ListCell ==
  /\ Palette /\ TableCtx /\ CanStep
  /\ \E n \in {3, 7} :
       /\ out' = out \o <<Tok("tc", 0, 0), Tok("nl", 0, 0)>> \o ItemToks(n, 1, NW)
       /\ stack' = NewCellFrames(0)
       /\ LET base == SecPath \o BlockPart(NewCellFrames(0)) IN
          den' = den \o [k \in 1..n |-> [w |-> NW + k - 1, path |-> base \o <<Lab("UL", k)>>, t |-> 0]]
  /\ lctx' = <<>>
  /\ Dirty /\ Spend /\ Same(<<sec, pos, done>>)

\* Clean grammar (inside C07's lossless domain: far below 2500 / 5000 characters and 25 rows): a
\* one-column, two-row table whose first cell holds a line, a list of n short items and a closing
\* line — tall enough (n >= 15) for the cleaner to split the row (treecleanerhelper.split_row); with
\* one column the split keeps the reading order.
TallDen(n, base) ==
  LET cell == base \o <<Lab("Table", 0), Lab("Row", 1), Lab("Cell", 2)>> IN
  [k \in 1..(n + 3) |->
     [w |-> NW + k - 1, t |-> 0,
      path |-> IF k = 1 \/ k = n + 2 THEN cell
               ELSE IF k = n + 3 THEN base \o <<Lab("Table", 0), Lab("Row", 2), Lab("Cell", 2)>>
               ELSE cell \o <<Lab("UL", k - 1)>>]]
TallCell ==
  /\ BlockOK /\ stack = <<>> /\ CanStep /\ \E n \in {16, 22} :
       /\ NW + n + 3 <= MaxWords
       /\ out' = out \o <<Tok("tb", 0, 0), Tok("nl", 0, 0), Tok("tc", 0, 0), Tok("sp", 0, 0), Tok("w", NW, 0), Tok("nl", 0, 0)>>
                      \o ItemToks(n, 1, NW + 1)
                      \o <<Tok("w", NW + n + 1, 0), Tok("nl", 0, 0), Tok("tr", 0, 0), Tok("nl", 0, 0),
                           Tok("tc", 0, 0), Tok("sp", 0, 0), Tok("w", NW + n + 2, 0), Tok("nl", 0, 0), Tok("te", 0, 0), Tok("nl", 0, 0)>>
       /\ den' = den \o TallDen(n, CurPath)
  /\ lctx' = <<>>
  /\ Spend /\ Same(<<stack, sec, pos, flags, done>>)

(* ---------------------------------------------------------------- malformed markup *)
Lexeme ==
  /\ Free /\ ~done /\ fuel > 0
  /\ \E k \in 1..NLex : out' = Append(out, Tok("lex", k, 0))
  /\ flags' = [clean |-> FALSE, mal |-> TRUE, lossless |-> FALSE]
  /\ Spend /\ Same(<<den, stack, sec, lctx, pos, done>>)

-----------------------------------------------------------------------------
End == /\ ~done /\ AtBol /\ stack = <<>> /\ (Len(out) >= MinOut \/ fuel <= 2) /\ (den # <<>> \/ NNest > 0 \/ \E i \in 1..Len(out) : out[i].t \in {"snip", "adoc"})
       /\ ForwardUses = {}
       /\ done' = TRUE
       /\ flags' = NoEmptySection
       /\ Same(<<out, den, stack, sec, lctx, pos, fuel>>)

\* a free document may end anywhere
EndFree == /\ Free /\ ~done /\ flags.mal /\ fuel = 0
           /\ done' = TRUE
           /\ Same(<<out, den, stack, sec, lctx, pos, fuel, flags>>)

Next ==
  \/ Word \/ OpenStyle \/ CloseStyle \/ PlainLink \/ OpenLink \/ CloseLink \/ OpenExt \/ CloseExt
  \/ OpenRef \/ CloseRef \/ ReuseRef \/ DefSep \/ EndLine
  \/ Heading \/ ParaLine \/ ParagraphBreak \/ PreLine \/ ListLine
  \/ OpenTable \/ Caption \/ NextRow \/ Cell \/ CellSep \/ CloseTable
  \/ OpenDiv \/ CloseDiv
  \/ OpenSpan \/ CloseSpan \/ Snippet \/ Nest \/ AttrDoc \/ BigTable \/ ListCell \/ TallCell
  \/ Lexeme
  \/ End \/ EndFree
Spec == Init /\ [][Next]_vars

-----------------------------------------------------------------------------
(* invariants of the generator itself (oracle sanity) *)
WordToks == SelectSeq(out, IsWordTok)

\* every word occurs exactly once in den
\* den only ever grows at its end, so while a document is being built it suffices to look at the
\* newest entry; the finished document is checked as a whole (keeps long simulations affordable)
Scope == IF done THEN 1..Len(den) ELSE IF den = <<>> THEN {} ELSE {Len(den)}
WordsOnce == \A i \in Scope : den[i].w = i             \* words are numbered in the order they are produced
\* den order = order of the word tokens in out (only meaningful without free lexemes)
DenOrder == (done /\ ~flags.mal) =>
              /\ Len(WordToks) = Len(den)
              /\ \A i \in 1..Len(den) :
                   IF WordToks[i].t = "w" THEN WordToks[i].a = den[i].w /\ den[i].t = 0
                   ELSE den[i].t = WordToks[i].a
\* a path is a section chain, then blocks, then the inline suffix in canonical order
BlockLabels  == {"Sec", "SecTitle", "UL", "OL", "DT", "DD", "Table", "Caption", "Row", "Cell", "Pre", "Ref"}
InlineLabels == {"Bold", "Italic", "Link", "Ext"}
InlineRank(k) == CASE k = "Bold" -> 1 [] k = "Italic" -> 2 [] k = "Link" -> 3 [] k = "Ext" -> 4
PathOK(p) ==
  /\ \A i \in 1..Len(p) : p[i].k \in BlockLabels \cup InlineLabels
  /\ \A i \in 1..(Len(p) - 1) :
       /\ p[i].k = "Sec" /\ p[i + 1].k = "Sec" => p[i].a < p[i + 1].a
       /\ p[i + 1].k = "Sec" => p[i].k = "Sec"
       /\ p[i].k \in InlineLabels => p[i + 1].k \in InlineLabels /\ InlineRank(p[i].k) < InlineRank(p[i + 1].k)
       /\ p[i].k = "Table" => p[i + 1].k \in {"Row", "Caption"}
       /\ p[i].k = "Row" => p[i + 1].k = "Cell" /\ p[i].a >= 1 /\ p[i + 1].a >= 2
       /\ p[i + 1].k = "Cell" => p[i].k = "Row"
       /\ p[i + 1].k \in {"Row", "Caption"} => p[i].k = "Table"
  /\ \A i \in 1..Len(p) : p[i].k = "SecTitle" => i > 1 /\ p[i - 1].k = "Sec" /\ p[i - 1].a = p[i].a
PathsOK == \A i \in Scope : PathOK(den[i].path)
\* the path of the next word agrees with the open constructs
CurPathOK == PathOK(CurPath) /\ (sec # <<>> => \A i \in 1..(Len(sec) - 1) : sec[i] < sec[i + 1])
\* a finished document has everything closed
DoneClosed == (done /\ ~flags.mal) => stack = <<>> /\ pos = "bol"
\* line frames only while inside a line
PosOK == /\ pos = "bol" => (stack = <<>> \/ Top.k \in {"table", "cell", "div"})
         /\ pos = "inl" => stack # <<>>
         /\ fuel >= 0

EmitDoc == (EmitDocs /\ done) => PrintT("@@" \o ToJson([out |-> out, den |-> den, flags |-> flags]))
=============================================================================
