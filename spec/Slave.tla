------------------------------- MODULE Slave -------------------------------
(* Beyond the listed properties: the worker side of the queue protocol -
   qs.slave.main.handle_one_job / start_worker, one worker.

     loop:  job := qpull(channels)        on ANY exception: sleep(t); t doubles while t < 60; retry
            result := dispatch(job)       rpc_<channel> called with the payload as keyword arguments; unknown channel -> RuntimeError
            on exception:  qfinish(jobid, error = "<ExcType>: ...")    (exceptions of qfinish swallowed)
            otherwise:     qfinish(jobid, result = result)              (exceptions of qfinish swallowed)

   The environment (queue server reachable or not, which job it hands out, whether the handler
   raises, whether qfinish gets through) is chosen by TLC, one choice per step; the variable `env`
   records the choices and `calls` what the worker does.  Every terminal state is printed; the
   harness feeds `env` to the REAL qs.slave.main (ServerProxy and time.sleep replaced by scripted
   fakes) and compares the calls it observes with `calls` (P-REPLAY).

   Sleep times are 2^(e-1) seconds, e = 0 (0.5 s) .. 7 (64 s); e resets with every job. *)
EXTENDS Naturals, Sequences, FiniteSets, TLC, Json

CONSTANTS MaxJobs,      \* jobs handed out before the environment stops the worker
          MaxFails,     \* total failed qpull calls
          EmitCases

(* what the handler does with the job the server hands out *)
Kinds == {"ok",          \* known channel, handler returns a value
          "raises",      \* known channel, handler raises ZeroDivisionError
          "nochannel",   \* no rpc_<channel> method: RuntimeError
          "badargs",     \* payload has a key the handler does not accept: TypeError
          "nopayload"}   \* payload is null: handler called without arguments, returns

VARIABLES pc,      \* "pull" | "sleep" | "dispatch" | "finish" | "stopped"
          e,       \* back-off exponent of the current pull loop
          job,     \* kind of the job in hand ("none")
          outcome, \* "result" | "error" | "none": what dispatch produced
          njobs, nfails,
          env,     \* environment choices, in order
          calls    \* what the worker did, in order
vars == <<pc, e, job, outcome, njobs, nfails, env, calls>>

Init == /\ pc = "pull" /\ e = 0 /\ job = "none" /\ outcome = "none"
        /\ njobs = 0 /\ nfails = 0 /\ env = <<>> /\ calls = <<>>

ErrType(k) == CASE k = "raises" -> "ZeroDivisionError"
                [] k = "nochannel" -> "RuntimeError"
                [] k = "badargs" -> "TypeError"
                [] OTHER -> "none"

(* qpull: the server answers with a job, the call fails, or the harness stops the worker *)
PullJob(k) ==
  /\ pc = "pull" /\ njobs < MaxJobs
  /\ env' = Append(env, [pull |-> k])
  /\ calls' = Append(calls, [c |-> "qpull"])
  /\ job' = k /\ njobs' = njobs + 1
  /\ pc' = "dispatch"
  /\ UNCHANGED <<e, outcome, nfails>>
PullFails ==
  /\ pc = "pull" /\ nfails < MaxFails
  /\ env' = Append(env, [pull |-> "fail"])
  /\ calls' = Append(calls, [c |-> "qpull"])
  /\ nfails' = nfails + 1
  /\ pc' = "sleep"
  /\ UNCHANGED <<e, job, outcome, njobs>>
Stop ==
  /\ pc = "pull"
  /\ env' = Append(env, [pull |-> "stop"])
  /\ calls' = Append(calls, [c |-> "qpull"])
  /\ pc' = "stopped"
  /\ UNCHANGED <<e, job, outcome, njobs, nfails>>

(* time.sleep(sleeptime); if sleeptime < 60: sleeptime *= 2     (0.5 * 2^7 = 64 >= 60) *)
Sleep ==
  /\ pc = "sleep"
  /\ calls' = Append(calls, [c |-> "sleep", e |-> e])
  /\ e' = IF e < 7 THEN e + 1 ELSE e
  /\ pc' = "pull"
  /\ UNCHANGED <<job, outcome, njobs, nfails, env>>

(* dispatch: the handler's body runs unless the channel is unknown or the arguments do not fit *)
Dispatch ==
  /\ pc = "dispatch"
  /\ calls' = IF job \in {"nochannel", "badargs"} THEN calls      \* TypeError is raised by the call itself
              ELSE Append(calls, [c |-> "rpc", k |-> job])
  /\ outcome' = IF ErrType(job) = "none" THEN "result" ELSE "error"
  /\ pc' = "finish"
  /\ UNCHANGED <<e, job, njobs, nfails, env>>

(* exactly one qfinish attempt; whether it gets through does not matter to the worker *)
Finish(through) ==
  /\ pc = "finish"
  /\ env' = Append(env, [finish |-> IF through THEN "ok" ELSE "fail"])
  /\ calls' = Append(calls, [c |-> "qfinish", kind |-> outcome, err |-> ErrType(job)])
  /\ pc' = "pull" /\ e' = 0 /\ job' = "none" /\ outcome' = "none"
  /\ UNCHANGED <<njobs, nfails>>

Next == \/ \E k \in Kinds : PullJob(k)
        \/ PullFails \/ Stop \/ Sleep \/ Dispatch
        \/ \E b \in BOOLEAN : Finish(b)
Spec == Init /\ [][Next]_vars /\ WF_vars(Sleep) /\ WF_vars(Dispatch) /\ WF_vars(\E b \in BOOLEAN : Finish(b))

-----------------------------------------------------------------------------
TypeOK == /\ pc \in {"pull", "sleep", "dispatch", "finish", "stopped"}
          /\ e \in 0..7 /\ job \in Kinds \cup {"none"}

Idx(c) == {i \in 1..Len(calls) : calls[i].c = c}

(* every job pulled is reported exactly once before the next pull, error iff the handler failed *)
ReportedOnce ==
  \A i \in Idx("qfinish") :
     /\ (i < Len(calls)) => calls[i + 1].c = "qpull"
     /\ calls[i].kind = "error" <=> calls[i].err # "none"
FinishCountMatches ==
  LET done == Cardinality(Idx("qfinish")) IN
  done = njobs - (IF pc \in {"dispatch", "finish"} THEN 1 ELSE 0)

(* a worker never gives up: after a failed pull it sleeps and pulls again; sleeps never shrink
   within one pull loop and never exceed 64 s *)
BackoffMonotone ==
  \A i, j \in Idx("sleep") :
     (i < j /\ \A m \in i..j : calls[m].c \in {"sleep", "qpull"}) => calls[i].e <= calls[j].e
NeverBusyLoops ==    \* two qpull calls in a row only with a sleep between them
  \A i \in Idx("qpull") : (i > 1 /\ calls[i - 1].c = "qpull") => FALSE

(* the handler runs at most once per job *)
HandlerOncePerJob == Cardinality(Idx("rpc")) <= njobs

(* liveness: a job in hand is always reported *)
JobReported == (pc = "dispatch") ~> (pc = "pull")

EmitTerminal ==
  (EmitCases /\ pc = "stopped") => PrintT("@@" \o ToJson([env |-> env, calls |-> calls]))
=============================================================================
