---------------------------- MODULE WikiTokens ----------------------------
(* The explicit input space of C10 / C01 / C09: wikitext as a sequence of LEXEMES.

   A lexeme is an atom.  Printable atoms denote themselves ("[[" is the two characters [[);
   atoms written in capitals (NL, SP, EBAD, NONBMP, UNIQ, ...) are concretised by the harness
   (harness/wikitext.py CONCRETE; the harness refuses to run when its table and the alphabets
   below disagree).  TLC strings are opaque, so nothing below looks inside a lexeme; what the spec
   knows about a lexeme is its membership in the sets below (alphabet, opener / closer).

   Five alphabets (Core < Extended < Markup < Full, Structural < Markup):
     Core        the lexemes that take part in the scanner's hand-written cursor adjustments and in
                 token merging (C10, exhaustive to 4 lexemes)
     Extended    every token kind of _uscan.re with its boundary variants (C10, exhaustive to 3)
     Structural  the lexemes that create structure in the refinement passes / the template
                 expander, one per code path (C01 exhaustive to 3, C09 bodies)
     Markup      Extended + Structural + representative HTML / extension tags with attribute
                 variants, link parts, odd entities and characters (C01 long random texts)
     Full        Markup + every allowed HTML tag and every extension tag in open / close /
                 self-closing form (C01 exhaustive to 2)

   The generator appends one lexeme per step and keeps a conservative NESTING COUNTER: every
   opener (table / link / template / argument brackets, non-void tags, list-prefix characters)
   counts +1, every closer -1 (never below 0).  C01 quantifies over nesting depth <= 40 only
   (deeper nesting exhausts the interpreter stack by construction); `peak` over-approximates the
   depth of the real tree, so every generated text is inside the quantifier, and the harness uses
   `net` / `peak` to bound how often a text may be repeated or wrapped. *)
EXTENDS Naturals, Sequences, FiniteSets, TLC, Json

CONSTANTS Alphabet,     \* "core" | "extended" | "structural" | "markup" | "full" | "extbody"
          MaxLen,       \* sequences of 0..MaxLen lexemes
          MaxNest,      \* bound on the nesting counter (40)
          EmitFrom      \* print sequences of length >= EmitFrom as JSON (P-ENUM); MaxLen+1: none

-----------------------------------------------------------------------------
Core == {
  "SP", "NL", "NLNL", "NL_SP_NL", "TAB", "CR", "CRNL",
  "=", "==", "*", ":", "{|", "|}", "|", "||", "!!", "|+", "|-",
  "[[", "]]", "[", "''", "a", "1", "_", "<", "&", "EBAD", "NUL" }

Extended == Core \cup {
  \* blanks, line ends
  "CR", "SP_NL", "NL_SP", "NLNLNL",
  \* words
  "ab1", "__", "-", "---", "----", "/", ">", "]", "'", "'''", "'''''", ";", "#", "*#:", "!", "|!",
  \* section markers with trailing blanks
  "== ", "=TAB", "===",
  \* table markup with the blank / colon prefixes the line-start rules accept
  ":{|", "SP{|", "SP|}", "|--", "SP|-", "TAB|-", "SP|", "SP!", "TAB|", "|++", "SP|+",
  \* tags, comments
  "<b>", "</b>", "<br/>", "<div class=\"x\">", "<foo>", "<!-- c -->", "<!--", "-->", "</",
  \* the three entity forms and near misses
  "&amp;", "&#65;", "&#x41;", "&bogus;", "&#", "&#x;",
  \* URLs of every scheme, a scheme without a rest, a protocol-relative one
  "http://ex.org/a", "https://ex.org/?q=1&r=2", "ftp://ex.org/f", "mailto:a@ex.org", "irc://ex.org/c",
  "news:a.b", "//ex.org/p", "http://", "mailto:", "[http://ex.org",
  \* magic words
  "__TOC__", "__NOTOC__", "__END__",
  \* the UNIQ marker, whole and broken; DEL
  "UNIQ", "UNIQ_HEAD", "DEL",
  \* characters around the reserved ones, non-BMP, a lone surrogate
  "NONBMP", "EBAC", "EBAE", "SURROGATE", "U_FFFF" }

\* every tag CompatScanner lets through (utoken.py allowed_tags)
HtmlTags == {"abbr", "b", "big", "blockquote", "br", "center", "cite", "code", "del", "div", "em",
  "endfeed", "font", "h1", "h2", "h3", "h4", "h5", "h6", "hr", "i", "index", "inputbox", "ins", "kbd",
  "li", "ol", "p", "pages", "references", "rss", "s", "small", "span", "startfeed", "strike", "strong",
  "sub", "sup", "caption", "table", "td", "th", "tr", "tt", "u", "ul", "var", "dl", "dt", "dd", "mapframe"}
VoidTags == {"br", "hr"}
\* tags protected by uniq.py + the extensions registered in tagext.py (one "ignored" representative: chem)
ExtTags == {"nowiki", "math", "imagemap", "gallery", "source", "pre", "ref", "timeline", "poem", "pages",
  "syntaxhighlight", "rot13", "idl", "rdf", "time", "hiero", "section", "listing", "see", "chem",
  "templatestyles"}
\* the representative tags of the Markup alphabet: one per code path of the refinement passes
ReprTags == {"b", "i", "sup", "sub", "div", "span", "p", "li", "ul", "ol", "dl", "dt", "dd", "center",
  "blockquote", "code", "table", "tr", "td", "th", "caption", "h2", "br", "hr", "references", "inputbox",
  "font", "ref", "nowiki", "math", "pre", "source", "gallery", "poem", "imagemap", "timeline",
  "syntaxhighlight", "rot13", "listing", "chem"}

OpenTag(t)  == "<" \o t \o ">"
CloseTag(t) == "</" \o t \o ">"
SelfTag(t)  == "<" \o t \o "/>"

TemplateSyntax == {
  "{{", "}}", "{{{", "}}}", "{{Echo|", "{{Loop}}", "{{Tbl|", "{{Open}}", "{{Missing}}", "{{#if:", "{{#switch:",
  "{{#expr:", "{{#tag:ref|", "{{!}}", "{{PAGENAME}}", "{{lc:", "{{DISPLAYTITLE:", "1=",
  "<noinclude>", "</noinclude>", "<includeonly>", "</includeonly>", "<onlyinclude>", "</onlyinclude>" }

\* one lexeme per structure-building code path of core.py / parse_table.py / tagparser.py / uniq.py /
\* templ (scanner, pp, parser): what a body must not be interpreted as (C09), and the alphabet of
\* the exhaustive 3-lexeme enumeration of C01
Structural == {
  "SP", "NL", "NLNL", "SP_NL", "a", "1", "=", "==", "----", "*", "#", ":", ";",
  "''", "'''", "[[", "]]", "[", "]", "|", "||", "!", "{|", "|}", "|-", "|+", "http://ex.org/a", "Image:a.png",
  "<b>", "</b>", "<br/>", "<div>", "</div>", "<li>", "<td>", "<ref>", "</ref>", "<references/>",
  "<nowiki>", "</nowiki>", "<pre>", "</pre>", "<math>", "</math>", "<source>", "</source>",
  "<syntaxhighlight>", "</syntaxhighlight>", "<timeline>", "</timeline>", "<gallery>", "</gallery>",
  "<!-- c -->", "<!--", "-->",
  "&amp;", "&#65;", "&#x41;", "&lt;", "&bogus;", "&#99999999999;", "&#xD800;",
  "{{", "}}", "{{{", "}}}", "{{Echo|", "{{!}}", "{{Loop}}", "{{#if:",
  "<noinclude>", "</noinclude>", "<includeonly>", "</includeonly>", "<onlyinclude>", "</onlyinclude>",
  "__TOC__", "NONBMP", "EBAD", "UNIQ", "DEL", "NUL",
  \* tags and comment delimiters spelled through character entities (named, decimal, hex): text, not markup
  "&lt;nowiki&gt;", "&lt;/nowiki&gt;", "&#60;/nowiki&#62;", "&#x3c;nowiki&#x3e;", "&lt;/pre&gt;", "&lt;ref&gt;",
  "&lt;b&gt;", "&lt;!--", "--&gt;" }

Markup == Extended \cup Structural \cup TemplateSyntax
  \cup {OpenTag(t) : t \in ReprTags} \cup {CloseTag(t) : t \in ReprTags}
  \cup {
  \* self-closing / attribute variants that switch code paths
  "<br />", "<references/>", "<ref name=\"a\"/>", "<ref name=a>", "<span style=\"display:block\">",
  "<div style=\"display:inline\">", "<td colspan=2>", "<ol start=3>", "<li value=2>", "<source lang=\"c\">",
  "<source enclose=none>", "<pages from=1 to=2 index=x/>", "<pages from=a to=b/>", "<gallery caption=x>",
  "<font color=red size=+1>", "<div class=5>", "<br clear=all>", "<B>", "</B >", "< b>", "<b",
  \* links
  "Image:a.png", "File:", "Category:", "en:", "wikt:", "thumb", "100px", "x20px", "upright=", "link=", "alt=",
  "[[Image:a.png|", "[[:", "#top", "%41", "../",
  \* entities: out of range, surrogate, zero, huge, named odd
  "&#99999999999;", "&#x110000;", "&#1114111;", "&#xD800;", "&#0;", "&#x7f;", "&nbsp;", "&#xEBAD;", "&lt;", "&#x3C;",
  \* control and unusual characters
  "SOH", "VT", "FF", "US", "NEL", "LSEP", "LRM", "BOM", "COMBINING", "NBSP", "ZWSP", "RTLO",
  \* imagemap / gallery / timeline / math bodies that their own parsers look at
  "rect 0 0 1 1 [[a]]", "default [[a]]", "\\frac{1}{2}", "\\begin{x}" }

\* image links with one option of every family the image-modifier code knows (util.ImageMod /
\* handle_imagemod): sizes well-formed and malformed, upright, frame / alignment words, link / alt /
\* page, unknown and empty options; as a whole link (one lexeme, so that the single-lexeme
\* enumeration reaches the option code), after another option, through a template argument, and
\* under the canonical, the legacy and two localised namespace names
ImgOptions == {"200px", "x200px", "100x200px", "1x2x3px", "xxpx", "xpx", "0px", "99999999999px", "100 px", "px",
  "upright", "upright=1.5", "upright=x", "upright 2", "thumb", "thumbnail=b.png", "frame", "frameless", "border",
  "left", "right", "center", "none", "baseline", "link=", "link=http://ex.org", "alt=", "alt=a b", "page=2",
  "page=x", "bogus=1", "", " "}
ImgLink(ns, pre, opt) == "[[" \o ns \o ":a.png|" \o pre \o opt \o "]]"
ImageLinks == {ImgLink("Image", "", o) : o \in ImgOptions}
         \cup {ImgLink("File", "thumb|", o) : o \in ImgOptions}
         \cup {"{{Echo|" \o ImgLink("Image", "", o) \o "}}" : o \in ImgOptions}
         \cup {ImgLink("Bild", "", o) : o \in {"1x2x3px", "100x200px", "hochkant=1.5", "miniatur", "links"}}
         \cup {ImgLink("Fichier", "", o) : o \in {"1x2x3px", "vignette", "gauche"}}

Full == Markup \cup ImageLinks
  \cup {OpenTag(t) : t \in HtmlTags \cup ExtTags}
  \cup {CloseTag(t) : t \in HtmlTags \cup ExtTags}
  \cup {SelfTag(t) : t \in HtmlTags \cup ExtTags}

\* in-context, character-level pumping (growth clause of C01): a UNIT is repeated n times inside a
\* ZONE, i.e. a place whose content is handed to a sub-parser (attribute parsers, link / URL / entity /
\* heading / template-name scanners).  The harness concretises zones as (prefix, suffix) and units as
\* text (harness/wikitext.py ZONES, UNITS) and refuses to run when the tables disagree with these sets.
Zones == {"tag-attr", "unknown-tag-attr", "closing-tag-attr", "ext-tag-attr", "opaque-tag-attr", "attr-value",
          "table-attr", "row-attr", "cell-attr", "header-cell-attr", "caption-attr",
          "link-target", "link-label", "image-option", "url", "bracket-url", "bracket-url-label", "mailto",
          "entity-name", "entity-number", "heading", "list-item", "pre-line", "comment",
          "template-name", "template-arg", "template-param", "parser-function", "magic-word", "nowiki-body"}
\* numeric attribute values the parser itself interprets: the DIGITS of the value are pumped (1, 11, 111,
\* 1111): work must grow with the length of the text, not with the value it spells (ten times more per digit)
DigitZones == {"pages-to", "pages-from", "gallery-perrow", "gallery-widths", "gallery-heights", "source-start", "ol-start",
               "li-value", "cell-colspan", "cell-rowspan", "td-colspan", "imagemap-coordinate", "image-px", "image-upright",
               "padleft-width", "entity-number", "formatnum", "expr-operand"}
PumpUnits == {"a", "1", "_", "-", ":", "SP_a", "=", "a=", "QUOTE", "APOS", "x", "|", "&", ";", "NONBMP", "/"}

\* ---- bodies and attribute zones of the tag extensions that have a parser of their own.  Each
\* lexeme is one whole tag (so that the single-lexeme enumeration reaches the mini-parser):
\*   <imagemap>  extensions/imgmap.py (pyparsing grammar): image line, then ONE line of the grammar.
\*               Shape lines are the well-formed line with one coordinate replaced by, or one token
\*               appended from, ImapCoord (one fault per line), captions with / without link and
\*               label, `default`, `desc`, comments, empty and unknown lines
\*   <gallery>   core._parse_gallery_txt turns every line into "[[line]]" and parses it as an image link
\*   <ref>, <references>, <pages>, <listing>, <source>: attribute zones handed to util.parse_params
\*               and to code that converts the values
RECURSIVE JoinSp(_)
JoinSp(q) == IF q = <<>> THEN "" ELSE IF Len(q) = 1 THEN q[1] ELSE q[1] \o " " \o JoinSp(Tail(q))
ImapCoord == {"1", "57", ".", "..", "...", "1.5", "15.5.2", "-1", "", "1e3", "x"}
ImapBase(k) == CASE k = "rect" -> <<"0", "0", "10", "10">> [] k = "circle" -> <<"57", "57", "20">>
                 [] k = "poly" -> <<"1", "2", "3", "4", "5", "6">>
ImapCoordVariants(k) ==
  LET b == ImapBase(k) IN
  {[b EXCEPT ![i] = c] : i \in 1..Len(b), c \in ImapCoord}
  \cup {b \o <<c>> : c \in ImapCoord} \cup {SubSeq(b, 1, Len(b) - 1), <<>>}
ImapCaptions == {"[[a]]", "[[a|b]]", "[http://ex.org x]", "a", "", "[[a]] [[b]]", "... [[a]]", ". [[a]]"}
ImapLines == {k \o " " \o JoinSp(v) \o " [[a|b]]" : k \in {"rect", "circle", "poly"}, v \in UNION {ImapCoordVariants(kk) : kk \in {"rect", "circle", "poly"}}}
       \cup {k \o " " \o JoinSp(ImapBase(k)) \o " " \o c : k \in {"rect", "circle", "poly"}, c \in ImapCaptions}
       \cup {"default [[a]]", "default", "default [[a|b]] x", "desc bottom-left", "desc none", "desc x", "desc", "# c", "#", "",
             "x", "rect", "poly", "circle", "Image:b.png", "rect 0 0 10 10 [[a]]\ncircle 1 1 1 [[b]]\ndefault [[c]]\ndesc top-right"}
ImageMaps == {"<imagemap>\nImage:a.png|100px|alt\n" \o l \o "\n</imagemap>" : l \in ImapLines}
       \cup {"<imagemap>\n" \o i \o "\nrect 0 0 10 10 [[a]]\n</imagemap>" : i \in {"", "a.png", "[[Image:a.png]]", "Image:a.png|", "{{Echo|Image:a.png}}", "Image:a.png|1x2x3px"}}
GalleryLines == {"Image:a.png", "Image:a.png|a", "Image:a.png|[[b]] ''c''", "Image:a.png|1x2x3px", "File:a.png|link=x|alt=y|c", "a.png", "a.png|b",
                 "|", "]]", "[[", "Image:a.png|]]", "{{Echo|Image:a.png}}", "Image:a.png|<ref>x</ref>", "Image:a.png|{|", "Category:a", ":Image:a.png", " Image:a.png ", "Image:|"}
Galleries == {"<gallery>\n" \o l \o "\n</gallery>" : l \in GalleryLines}
       \cup {"<gallery" \o a \o ">\nImage:a.png|a\n</gallery>" : a \in {" perrow=3", " perrow=x", " widths=\"1x\" heights=-1", " caption=\"[[a]]\"", " mode=packed", " perrow=", " ="}}
AttrZones == {"<ref" \o a \o ">x</ref>" : a \in {" name=a", " name=\"a b\"", " name=", " name", " group=g name=a", " follow=a", " name='a\"b'", " name=a name=b", " =a", " name=1"}}
       \cup {"<ref" \o a \o "/>" : a \in {" name=a", " name=\"a\" ", " group=\"g\"", ""}}
       \cup {"<references" \o a \o "/>" : a \in {"", " group=g", " group=\"\"", " responsive=1", " x"}}
       \cup {"<pages" \o a \o "/>" : a \in {" from=1 to=3 index=x", " from=3 to=1 index=x", " from=a to=b", " from=1 to=b", " from=1", " index=x", " from=1.5 to=2", " from=-1 to=1 index=x", " from=\"\" to=\"\"", " from=1 to=3"}}
       \cup {"<listing" \o a \o ">x</listing>" : a \in {" name=a", " name=1 alt=2 url=3", " name=\"%s\"", " phone=\"%\"", " name=", ""}}
       \cup {"<source" \o a \o ">x</source>" : a \in {" lang=c", " enclose=none", " enclose=\"none\" lang=1", " line start=5", " lang"}}
       \cup {"<timeline>\nImageSize = width:1 height:1\n</timeline>", "<hiero>A1-B1</hiero>", "<hiero></hiero>", "<math>\\frac{1}{</math>",
             "<poem>\n a\n\n:b\n</poem>", "<inputbox>\ntype=search\n</inputbox>", "<rot13>''a''</rot13>", "<time>[[a]]</time>"}
ExtBodies == ImageMaps \cup Galleries \cup AttrZones

Lexemes == CASE Alphabet = "core" -> Core
             [] Alphabet = "extended" -> Extended
             [] Alphabet = "structural" -> Structural
             [] Alphabet = "markup" -> Markup
             [] Alphabet = "full" -> Full
             [] Alphabet = "extbody" -> ExtBodies

-----------------------------------------------------------------------------
\* nesting
AllTags == HtmlTags \cup ExtTags
Openers == {"{|", ":{|", "SP{|", "[[", "[", "[[:", "[[Image:a.png|", "[http://ex.org", "{{", "{{{", "{{Echo|", "{{Tbl|",
            "{{#if:", "{{#switch:", "{{#expr:", "{{#tag:ref|", "{{lc:", "{{DISPLAYTITLE:", "{{Open}}",
            "*", ":", ";", "#", "*#:", "''", "'''", "'''''",
            "<ref name=a>", "<span style=\"display:block\">", "<div style=\"display:inline\">", "<td colspan=2>",
            "<ol start=3>", "<li value=2>", "<source lang=\"c\">", "<source enclose=none>", "<gallery caption=x>",
            "<font color=red size=+1>", "<div class=5>", "<div class=\"x\">", "<B>", "<foo>",
            "<noinclude>", "<includeonly>", "<onlyinclude>"}
           \cup {OpenTag(t) : t \in AllTags \ VoidTags}
Closers == {"|}", "SP|}", "]]", "]", "}}", "}}}", "</B >", "</noinclude>", "</includeonly>", "</onlyinclude>"}
           \cup {CloseTag(t) : t \in AllTags}
\* "*#:" is three list-prefix characters
Weight(x) == IF x = "*#:" THEN 3 ELSE 1

\* the lexemes whose interpretation depends on the site language (namespace names, image
\* modifiers, magic words, template expansion): texts containing one are parsed for every bundled
\* language, the others for a rotating subset (harness planning only; no verdict depends on it)
LangSensitive == {"[[", "]]", "[[:", "[[Image:a.png|", "Image:a.png", "File:", "Category:", "en:", "wikt:", "thumb",
                  "100px", "x20px", "upright=", "link=", "alt=", "__TOC__", "__NOTOC__", "__END__",
                  "<gallery>", "<gallery caption=x>", "<imagemap>", "<pages from=1 to=2 index=x/>", "<pages from=a to=b/>",
                  "rect 0 0 1 1 [[a]]", "default [[a]]"} \cup TemplateSyntax

\* the lexemes whose repetition interacts (apostrophe runs, brackets, table / list / section starters,
\* style and ref tags, template braces): the quick tier pumps every pair over them (growth clause)
PumpCore == {"a", "SP", "NL", "''", "'''", "'''''", "[[", "]]", "|", "{|", "|-", "*", ":", "==", "<b>", "<ref>", "</ref>",
             "{{", "}}", "[http://ex.org"}

VARIABLES seq, nest, peak
vars == <<seq, nest, peak>>

Init == seq = <<>> /\ nest = 0 /\ peak = 0

Append1(x) ==
  /\ Len(seq) < MaxLen
  /\ LET n == IF x \in Openers THEN nest + Weight(x)
              ELSE IF x \in Closers /\ nest > 0 THEN nest - 1
              ELSE nest IN
     /\ n <= MaxNest
     /\ nest' = n
     /\ peak' = IF n > peak THEN n ELSE peak
  /\ seq' = Append(seq, x)

Extend == \E x \in Lexemes : Append1(x)
Next == Extend
Spec == Init /\ [][Next]_vars

-----------------------------------------------------------------------------
TypeOK == /\ seq \in Seq(Lexemes) /\ Len(seq) <= MaxLen
          /\ nest \in 0..MaxNest /\ peak \in 0..MaxNest
NestBounded == nest <= peak /\ peak <= MaxNest
\* the counter never under-counts: it is at least (#openers - #closers)
RECURSIVE Balance(_)
Balance(s) == IF s = <<>> THEN 0
              ELSE LET b == Balance(SubSeq(s, 1, Len(s) - 1))
                       x == s[Len(s)] IN
                   IF x \in Openers THEN b + Weight(x)
                   ELSE IF x \in Closers /\ b > 0 THEN b - 1 ELSE b
CounterIsBalance == nest = Balance(seq)
AlphabetsNested == Core \subseteq Extended /\ Extended \subseteq Markup /\ Markup \subseteq Full
                   /\ Structural \subseteq Markup /\ PumpCore \subseteq Markup
                   /\ Openers \cap Closers = {}

\* P-ENUM: every generated sequence of the requested lengths, with its nesting profile
EmitSeq == (Len(seq) >= EmitFrom) =>
             PrintT("@@" \o ToJson([s |-> seq, net |-> nest, peak |-> peak]))
\* once per run: the alphabet itself, so that the harness can check its concretisation table
ASSUME PrintT("@@" \o ToJson([alphabet |-> Lexemes, openers |-> Openers \cap Lexemes, closers |-> Closers \cap Lexemes,
                              structural |-> Structural \cap Lexemes, langsensitive |-> LangSensitive \cap Lexemes,
                              pumpcore |-> PumpCore \cap Lexemes, imagelinks |-> ImageLinks \cap Lexemes,
                              zones |-> Zones, units |-> PumpUnits, digitzones |-> DigitZones]))
=============================================================================
