----------------------------- MODULE RenderFlow -----------------------------
(* Beyond the listed properties: the life of a render request end to end.

     nserve.Application.do_render     adds "<cid>:makezip" (channel makezip) and then
                                      "<cid>:render-<writer>" (channel render) to the queue server
     qs.slave workers (nslave.Commands) pull from both channels:
        rpc_makezip   runs mw-zip, reports result / error
        rpc_render    FIRST re-adds the makezip job with wait=True (Worker.qaddw: blocks until that
                      job is finished, raises if it finished with an error), THEN runs mw-render
     the queue server times jobs out, re-queues the job of a worker whose connection drops, and an
     operator may kill jobs.

   The queue is abstracted to what matters here (one global <<priority, serial>> order, ids,
   idempotent add unless killed - all of which WorkQ.tla models in detail and C16/C17 bind to the
   code).  What this module adds is the two-level dependency: a worker that holds a render job
   occupies its slot while it waits for a makezip job that needs a free worker. *)
EXTENDS Naturals, FiniteSets, Sequences, TLC

CONSTANTS Colls, Workers, WithKill, WithDie,
          WithPost      \* TRUE: nserve.do_zip_post requests occur ("post" channel)

VARIABLES job,      \* [Colls \X {"mk","rd"} -> [st, err, serial]]   st: absent | queued | running | done
          next,     \* next serial
          wk,       \* Workers -> [pc, c]   pc: idle | mk | rdwait | rdrun
          zipok,    \* history: collections whose makezip finished successfully before their render ran mw-render
          log       \* last step, for trace validation of the worker programs
vars == <<job, next, wk, zipok, log>>

Kinds == {"mk", "rd", "po"}
(* the channels a worker pulls from are the rpc_* methods of nslave.Commands: makezip and render.
   do_zip_post adds a job to a third channel, "post" - for which no worker has a method *)
Handled == {"mk", "rd"}
Key(c, k) == <<c, k>>
Absent == [st |-> "absent", err |-> "none", serial |-> 0]

Init == /\ job = [x \in Colls \X Kinds |-> Absent]
        /\ next = 1
        /\ wk = [w \in Workers |-> [pc |-> "idle", c |-> CHOOSE c \in Colls : TRUE]]
        /\ zipok = {} /\ log = <<"init">>

(* workq.push: returns the existing job unless that one was killed *)
Added(j) == IF j.st = "absent" \/ j.err = "killed"
            THEN [st |-> "queued", err |-> "none", serial |-> next]
            ELSE j
IsNew(j) == j.st = "absent" \/ j.err = "killed"

(* do_render: two requests, makezip first *)
ReqMk(c) == /\ job[Key(c, "rd")].st = "absent" /\ job[Key(c, "mk")].st = "absent"
            /\ job' = [job EXCEPT ![Key(c, "mk")] = Added(@)]
            /\ next' = next + 1
            /\ log' = <<"reqmk", c>>
            /\ UNCHANGED <<wk, zipok>>
ReqRd(c) == /\ job[Key(c, "mk")].st # "absent" /\ job[Key(c, "rd")].st = "absent"
            /\ job' = [job EXCEPT ![Key(c, "rd")] = Added(@)]
            /\ next' = next + 1
            /\ log' = <<"reqrd", c>>
            /\ UNCHANGED <<wk, zipok>>

(* do_zip_post: one job on channel "post" (added without a job id: every request is a new job;
   one per collection is enough here) *)
ReqPo(c) == /\ WithPost /\ job[Key(c, "po")].st = "absent"
            /\ job' = [job EXCEPT ![Key(c, "po")] = Added(@)]
            /\ next' = next + 1
            /\ log' = <<"reqpo", c>>
            /\ UNCHANGED <<wk, zipok>>

Queued == {x \in Colls \X Kinds : job[x].st = "queued"}
Pullable == {x \in Queued : x[2] \in Handled}
First(x) == x \in Pullable /\ \A y \in Pullable : job[x].serial <= job[y].serial

(* a free worker pulls the oldest queued job of either channel; a render worker at once re-adds
   the makezip job (wait=True) *)
Pull(w) ==
  /\ wk[w].pc = "idle"
  /\ \E x \in Pullable :
       /\ First(x)
       /\ IF x[2] = "mk"
          THEN /\ job' = [job EXCEPT ![x].st = "running"]
               /\ wk' = [wk EXCEPT ![w] = [pc |-> "mk", c |-> x[1]]]
               /\ next' = next
          ELSE /\ job' = [job EXCEPT ![x].st = "running",
                                     ![Key(x[1], "mk")] = Added(@)]
               /\ next' = IF IsNew(job[Key(x[1], "mk")]) THEN next + 1 ELSE next
               /\ wk' = [wk EXCEPT ![w] = [pc |-> "rdwait", c |-> x[1]]]
       /\ log' = <<"pull", w, x[1], x[2]>>
  /\ UNCHANGED zipok

(* finishjob is a no-op on a job that is already done (timed out / killed meanwhile) *)
Finish(x, e) == IF job[x].st = "done" THEN job[x] ELSE [job[x] EXCEPT !.st = "done", !.err = e]

MkDone(w, ok) ==
  /\ wk[w].pc = "mk"
  /\ job' = [job EXCEPT ![Key(wk[w].c, "mk")] = Finish(Key(wk[w].c, "mk"), IF ok THEN "none" ELSE "fail")]
  /\ wk' = [wk EXCEPT ![w].pc = "idle"]
  /\ log' = <<"mkdone", w, wk[w].c, ok>>
  /\ UNCHANGED <<next, zipok>>

(* qaddw returns when the makezip job is finished: error -> RuntimeError -> the render job fails *)
RdProceed(w) ==
  /\ wk[w].pc = "rdwait" /\ job[Key(wk[w].c, "mk")].st = "done"
  /\ IF job[Key(wk[w].c, "mk")].err # "none"
     THEN /\ job' = [job EXCEPT ![Key(wk[w].c, "rd")] = Finish(Key(wk[w].c, "rd"), "fail")]
          /\ wk' = [wk EXCEPT ![w].pc = "idle"]
          /\ UNCHANGED zipok
     ELSE /\ wk' = [wk EXCEPT ![w].pc = "rdrun"]
          /\ zipok' = zipok \cup {wk[w].c}
          /\ UNCHANGED job
  /\ log' = <<"rdproceed", w, wk[w].c, job[Key(wk[w].c, "mk")].err>>
  /\ UNCHANGED next

RdDone(w, ok) ==
  /\ wk[w].pc = "rdrun"
  /\ job' = [job EXCEPT ![Key(wk[w].c, "rd")] = Finish(Key(wk[w].c, "rd"), IF ok THEN "none" ELSE "fail")]
  /\ wk' = [wk EXCEPT ![w].pc = "idle"]
  /\ log' = <<"rddone", w, wk[w].c, ok>>
  /\ UNCHANGED <<next, zipok>>

(* handletimeouts: every queued or running job has a deadline; when it passes the server marks
   the job finished with error "timeout" (the clock is abstracted to "may happen at any time") *)
Expire(x) ==
  /\ job[x].st \in {"queued", "running"}
  /\ job' = [job EXCEPT ![x] = [@ EXCEPT !.st = "done", !.err = "timeout"]]
  /\ log' = <<"expire", x[1], x[2]>>
  /\ UNCHANGED <<next, wk, zipok>>

Kill(x) ==
  /\ WithKill /\ job[x].st \in {"queued", "running"}
  /\ job' = [job EXCEPT ![x] = [@ EXCEPT !.st = "done", !.err = "killed"]]
  /\ log' = <<"kill", x[1], x[2]>>
  /\ UNCHANGED <<next, wk, zipok>>

(* the worker's connection drops: its unfinished job goes back to the queue with its old serial *)
Die(w) ==
  /\ WithDie /\ wk[w].pc # "idle"
  /\ LET x == Key(wk[w].c, IF wk[w].pc = "mk" THEN "mk" ELSE "rd") IN
     job' = [job EXCEPT ![x] = IF @.st = "running" THEN [@ EXCEPT !.st = "queued"] ELSE @]
  /\ wk' = [wk EXCEPT ![w].pc = "idle"]
  /\ log' = <<"die", w>>
  /\ UNCHANGED <<next, zipok>>

Next == \/ \E c \in Colls : ReqMk(c) \/ ReqRd(c) \/ ReqPo(c)
        \/ \E w \in Workers : Pull(w) \/ RdProceed(w) \/ Die(w) \/ \E ok \in BOOLEAN : MkDone(w, ok) \/ RdDone(w, ok)
        \/ \E x \in Colls \X Kinds : Kill(x) \/ Expire(x)

WorkerFair == /\ \A w \in Workers : WF_vars(Pull(w)) /\ WF_vars(RdProceed(w))
                                    /\ WF_vars(\E ok \in BOOLEAN : MkDone(w, ok)) /\ WF_vars(\E ok \in BOOLEAN : RdDone(w, ok))
              /\ \A c \in Colls : WF_vars(ReqRd(c))
TimeoutFair == \A x \in Colls \X Kinds : WF_vars(Expire(x))
Spec            == Init /\ [][Next]_vars /\ WorkerFair /\ TimeoutFair   \* timeouts eventually fire
SpecNoTimeouts  == Init /\ [][Next]_vars /\ WorkerFair                 \* ... or may never fire

-----------------------------------------------------------------------------
TypeOK == /\ \A x \in Colls \X Kinds : job[x].st \in {"absent", "queued", "running", "done"}
          /\ \A w \in Workers : wk[w].pc \in {"idle", "mk", "rdwait", "rdrun"}

(* a render job succeeds only after its makezip job had succeeded *)
RenderOkOnlyAfterZipOk ==
  \A c \in Colls : (job[Key(c, "rd")].st = "done" /\ job[Key(c, "rd")].err = "none") => c \in zipok
ZipOkIsTrue == \A c \in zipok : job[Key(c, "mk")].st = "done" /\ job[Key(c, "mk")].err = "none"

(* at most one worker works on a collection's makezip / render job at a time - unless an operator
   kills a running makezip job: the render worker's qaddw re-creates it and a second mw-zip starts
   for the same collection directory while the first is still running (a hazard of kill) *)
OneRunner ==
  (~WithKill) => \A w1, w2 \in Workers : (w1 # w2 /\ wk[w1].c = wk[w2].c) =>
     /\ ~(wk[w1].pc = "mk" /\ wk[w2].pc = "mk")
     /\ ~(wk[w1].pc \in {"rdwait", "rdrun"} /\ wk[w2].pc \in {"rdwait", "rdrun"})

(* without kills and worker deaths the makezip job is always ahead of its render job, so the
   workers can never all sit in rdwait while the makezip jobs they wait for are queued *)
Starved == /\ \A w \in Workers : wk[w].pc = "rdwait"
           /\ \A w \in Workers : job[Key(wk[w].c, "mk")].st = "queued"
NoStarvationWithoutFaults == (~WithKill /\ ~WithDie) => ~Starved

(* every queued job sits in a channel some worker serves - NOT true of "post": the hazard run
   (WithPost = TRUE) must find the counterexample; such a job can only ever time out *)
NoOrphanChannel == \A x \in Colls \X Kinds : job[x].st = "queued" => x[2] \in Handled
PostOnlyTimesOut == \A c \in Colls : job[Key(c, "po")].st = "done" => job[Key(c, "po")].err \in {"timeout", "killed"}

SerialBound == next <= 7          \* kill + re-add creates new jobs for ever: bound for safety runs

(* every accepted request is eventually decided - thanks to the timeouts even when starved *)
Decided(c) == job[Key(c, "rd")].st = "done"
EventuallyDecided == \A c \in Colls : (job[Key(c, "mk")].st # "absent") ~> Decided(c)
=============================================================================
