---------------------------- MODULE TemplateVM ----------------------------
(* C03 — the recursion guard of template expansion (templ/evaluate.pyx flatten,
   templ/nodes.pyx Template.flatten).

       flatten(node):  text -> append
                       recursion_count > recursion_limit -> raise TemplateRecursion
                       recursion_count += 1
                       try:    flatten the children (a tuple: each element; a Template: its
                               parsed body; a Variable: its value / literal)
                       except TemplateRecursion:
                               re-raise while recursion_count > 2, else drop what this node
                               has produced and carry on
                       finally: recursion_count -= 1

   The machine below runs that guard over EVERY call graph on NT templates: a universe maps each
   template to a short body of  "a" (text) | "P" ({{{1}}}, a node without children) |
   "C1".."C3" (a call without arguments; a callee above NT does not exist).  Self- and mutual
   recursion are ordinary universes here.  The parser collapses a one-element body to that
   element and merges adjacent text, so bodies are kept in that canonical form.

   State: the stack of active flatten frames, the counter, the output produced so far, the
   pending exception, and a log of (callee, counter) at every template lookup — which the harness
   compares with the real Expander's get_parsed_template calls (P-REPLAY).

   Checked by TLC: depth never exceeds Limit+1, the counter equals the depth, an exception is
   swallowed only at depth <= 2 and never leaves the machine, and — liveness, under weak
   fairness — every expansion terminates with an empty stack.                                  *)
EXTENDS Naturals, Sequences, FiniteSets, TLC, Json

CONSTANTS NT,            \* templates in the universe (1..3)
          MaxBody,       \* items per template body
          Limit,         \* recursion_limit
          SwallowDepth,  \* 2 in the reference; mechanism switch for non-vacuity
          Decrement,     \* TRUE in the reference: the counter is decremented when a frame is left by an exception
          Emit

VARIABLES univ, page, stack, count, out, exc, log, started, escaped
vars == <<univ, page, stack, count, out, exc, log, started, escaped>>

Items == {"a", "P", "C1", "C2", "C3"}
Callee(it) == CASE it = "C1" -> 1 [] it = "C2" -> 2 [] it = "C3" -> 3 [] OTHER -> 0
IsCall(it) == it \in {"C1", "C2", "C3"}
Canonical(b) == \A i \in 1..(Len(b) - 1) : ~(b[i] = "a" /\ b[i + 1] = "a")
Bodies(n) == {b \in UNION {[1..k -> Items] : k \in 0..n} : Canonical(b)}
Pages == {b \in Bodies(3) : Len(b) >= 1 /\ \A i \in 1..Len(b) : b[i] \in {"a", "C1", "C2"}}

\* what flatten is called with: a single item, or a sequence of >= 2 items (or the empty page)
Item(it) == [k |-> "item", it |-> it, body |-> <<>>]
SeqO(b)  == [k |-> "seq", it |-> "", body |-> b]
ObjOf(b) == IF Len(b) = 1 THEN Item(b[1]) ELSE SeqO(b)

Exists(t) == t \in 1..NT
Top == stack[Len(stack)]
Below == SubSeq(stack, 1, Len(stack) - 1)

\* frames: a sequence being iterated, a template call, a parameter node
SeqF(b)  == [k |-> "seq", body |-> b, pc |-> 1, t |-> 0, st |-> 0, mark |-> Len(out)]
CallF(t) == [k |-> "call", body |-> <<>>, pc |-> 1, t |-> t, st |-> 0, mark |-> Len(out)]
ParF     == [k |-> "param", body |-> <<>>, pc |-> 1, t |-> 0, st |-> 0, mark |-> Len(out)]
FrameFor(o) == IF o.k = "seq" THEN SeqF(o.body) ELSE IF IsCall(o.it) THEN CallF(Callee(o.it)) ELSE ParF

\* the object the running code flattens next, and the stack once the parent has noted that
HasPending ==
  IF ~started THEN TRUE
  ELSE IF stack = <<>> THEN FALSE
  ELSE \/ Top.k = "seq" /\ Top.pc <= Len(Top.body)
       \/ Top.k = "call" /\ Top.st = 0 /\ Exists(Top.t) /\ univ[Top.t] # <<>>
Pending ==
  IF ~started THEN ObjOf(page)
  ELSE IF Top.k = "seq" THEN Item(Top.body[Top.pc])
  ELSE ObjOf(univ[Top.t])
Advanced ==
  IF ~started THEN stack
  ELSE IF Top.k = "seq" THEN Append(Below, [Top EXCEPT !.pc = @ + 1])
  ELSE Append(Below, [Top EXCEPT !.st = 1])
IsText(o) == o.k = "item" /\ o.it = "a"

Init == /\ univ \in [1..NT -> Bodies(MaxBody)]
        /\ page \in Pages
        /\ stack = <<>> /\ count = 0 /\ out = <<>> /\ exc = FALSE /\ log = <<>>
        /\ started = FALSE /\ escaped = FALSE

\* flatten(str)
Text == /\ ~exc /\ HasPending /\ IsText(Pending)
        /\ out' = Append(out, "a")
        /\ stack' = Advanced /\ started' = TRUE
        /\ UNCHANGED <<univ, page, count, exc, log, escaped>>

\* flatten(node) below the limit: a new frame
Enter == /\ ~exc /\ HasPending /\ ~IsText(Pending) /\ count <= Limit
         /\ stack' = Append(Advanced, FrameFor(Pending))
         /\ count' = count + 1 /\ started' = TRUE
         /\ log' = IF Pending.k = "item" /\ IsCall(Pending.it) THEN Append(log, <<Callee(Pending.it), count + 1>>) ELSE log
         /\ UNCHANGED <<univ, page, out, exc, escaped>>

\* flatten(node) above the limit
Raise == /\ ~exc /\ HasPending /\ ~IsText(Pending) /\ count > Limit
         /\ exc' = TRUE /\ stack' = Advanced /\ started' = TRUE
         /\ UNCHANGED <<univ, page, count, out, log, escaped>>

\* a parameter without binding and default stays literal
ParamOut == /\ ~exc /\ started /\ stack # <<>> /\ Top.k = "param" /\ Top.st = 0
            /\ out' = Append(out, "P")
            /\ stack' = Append(Below, [Top EXCEPT !.st = 1])
            /\ UNCHANGED <<univ, page, count, exc, log, started, escaped>>

Complete == /\ started /\ stack # <<>> /\ ~HasPending
            /\ (Top.k = "param" => Top.st = 1)
Leave == /\ ~exc /\ Complete
         /\ stack' = Below /\ count' = count - 1
         /\ UNCHANGED <<univ, page, out, exc, log, started, escaped>>

\* the exception passes a frame deeper than SwallowDepth ('finally' still decrements)
Unwind == /\ exc /\ stack # <<>> /\ count > SwallowDepth
          /\ stack' = Below
          /\ count' = IF Decrement THEN count - 1 ELSE count
          /\ UNCHANGED <<univ, page, out, exc, log, started, escaped>>

\* at depth <= SwallowDepth the frame drops its output and returns normally
Swallow == /\ exc /\ stack # <<>> /\ count <= SwallowDepth
           /\ out' = SubSeq(out, 1, Top.mark)
           /\ exc' = FALSE
           /\ stack' = Below /\ count' = count - 1
           /\ UNCHANGED <<univ, page, log, started, escaped>>

\* the exception leaves expandTemplates (must be unreachable)
Escape == /\ exc /\ stack = <<>> /\ ~escaped
          /\ escaped' = TRUE
          /\ UNCHANGED <<univ, page, stack, count, out, exc, log, started>>

Finished == started /\ stack = <<>> /\ ~exc
Next == Text \/ Enter \/ Raise \/ ParamOut \/ Leave \/ Unwind \/ Swallow \/ Escape
Spec == Init /\ [][Next]_vars /\ WF_vars(Next)

-----------------------------------------------------------------------------
DepthBound   == Len(stack) <= Limit + 1
CountIsDepth == Decrement => count = Len(stack)
NoEscape     == ~escaped /\ ~(exc /\ stack = <<>>)
MarksOK      == \A i \in 1..Len(stack) : stack[i].mark <= Len(out)
\* an exception is only ever cleared by a frame at depth <= 2
SwallowShallow == [][(exc /\ ~exc') => count <= 2]_vars
Terminates == <>Finished
\* the counter is back to 0 when the expansion is over
CounterRestored == Finished => count = 0

EmitRun ==
  (Emit /\ Finished) =>
    PrintT("@@" \o ToJson([univ |-> univ, page |-> page, limit |-> Limit, out |-> out, log |-> log]))
=============================================================================
