---------------------------- MODULE TemplateVM ----------------------------
(* C03 — the recursion guard of template expansion (templ/evaluate.pyx flatten,
   templ/nodes.pyx Template.flatten) and the size limit on template arguments.

       flatten(node):  text -> append
                       recursion_count > recursion_limit -> raise TemplateRecursion
                       recursion_count += 1
                       try:    flatten the children (a tuple: each element; a Template: its
                               parsed body; a Variable: its value / literal)
                       except TemplateRecursion:
                               re-raise while recursion_count > 2, else drop what this node
                               has produced and carry on
                       finally: recursion_count -= 1
       Template.flatten:       MemoryLimitError -> an inline error, the article goes on
       ArgumentList.get:       an argument is flattened lazily, in the caller's frame, into a
                               buffer of its own, the first time the callee uses it; the value
                               is cached; a value longer than 256 KiB raises MemoryLimitError

   The machine runs that over EVERY call graph on NT templates: a universe maps each template to a
   short body of  "a" (text) | "P" ({{{1}}}) | "C1".."C3" (a call without arguments; a callee
   above NT does not exist) and, with Growth, "D1".."D3" (a call that passes {{{1}}}{{{1}}}: the
   argument DOUBLES on every level — the way a wiki page buys unbounded memory from a recursive
   template) and, with PF, "I1".."I3" (a call of T1..T3 inside the lazily evaluated branch argument
   of a parser function — {{#ifexpr:1|{{T1}}}}, {{#if:1|{{T1}}}}, {{#ifeq:1|1|{{T1}}}},
   {{#switch:1|1={{T1}}}}, {{#iferror:{{T1}}}}: one more flatten frame, the branch is flattened
   into a buffer of its own and appended; TemplateRecursion must pass through it); pages may then start the recursion with a block argument ("S1": {{T1|A}}, A being
   BlockSize characters of text).  Self- and mutual recursion are ordinary universes here.  The
   parser collapses a one-element body to that element and merges adjacent text, so bodies are
   kept in that canonical form.

   State: the stack of active flatten frames, the counter, the stack of output buffers (the
   article and one per argument being evaluated), the pending exception, and a log of
   (callee, counter) at every template lookup — which the harness compares with the real
   Expander's get_parsed_template calls (P-REPLAY).

   Checked by TLC: depth never exceeds Limit+1, the counter equals the depth, TemplateRecursion is
   swallowed only at depth <= 2, no exception leaves the machine, no argument value exceeds the
   cap, and — liveness, under weak fairness — every expansion terminates with an empty stack.   *)
EXTENDS Naturals, Sequences, FiniteSets, TLC, Json

CONSTANTS NT,            \* templates in the universe (1..3)
          MaxBody,       \* items per template body
          Limit,         \* recursion_limit
          FewPages,      \* TRUE: three pages only (a call, text + call, two calls) — for the larger universes
          PF,            \* TRUE: calls inside a lazily evaluated parser-function branch are part of the alphabet
          Growth,        \* TRUE: doubling calls and block arguments are part of the alphabet
          BlockSize,     \* characters in the block "A"
          Cap,           \* 262144: the longest argument value
          SwallowDepth,  \* 2 in the reference; mechanism switch for non-vacuity
          Decrement,     \* TRUE in the reference: the counter is decremented when a frame is left by an exception
          CapByName,     \* TRUE in the reference: the cap also guards arguments looked up by name ({{{1}}})
          Emit

VARIABLES univ, page, stack, count, bufs, exc, log, started, escaped,
          capped         \* history: some argument outgrew the cap in this expansion (findings are keyed on it)
vars == <<univ, page, stack, count, bufs, exc, log, started, escaped, capped>>

Calls  == {"C1", "C2", "C3"}
Dbls   == {"D1", "D2", "D3"}
Starts == {"S1", "S2"}
Wraps  == {"I1", "I2", "I3"}
CItem(t) == CASE t = 1 -> "C1" [] t = 2 -> "C2" [] OTHER -> "C3"
Items == {"a", "P"} \cup Calls \cup (IF Growth THEN {"D1", "D2"} ELSE {})
Callee(it) == CASE it \in {"C1", "D1", "S1", "I1"} -> 1 [] it \in {"C2", "D2", "S2", "I2"} -> 2 [] it \in {"C3", "D3", "I3"} -> 3 [] OTHER -> 0
IsCall(it) == it \in Calls \cup Dbls \cup Starts
ArgOf(it)  == IF it \in Dbls THEN "dbl" ELSE IF it \in Starts THEN "block" ELSE "none"
Canonical(b) == \A i \in 1..(Len(b) - 1) : ~(b[i] = "a" /\ b[i + 1] = "a")
BodiesOver(S, n) == {b \in UNION {[1..k -> S] : k \in 0..n} : Canonical(b)}
TemplateItems == IF PF THEN (IF NT = 1 THEN {"a", "C1", "I1"} ELSE {"a", "C1", "C2", "I1", "I2"}) ELSE IF Growth THEN (IF NT = 1 THEN {"a", "P", "C1", "D1"} ELSE {"a", "P", "C1", "C2", "D1", "D2"}) ELSE {"a", "P", "C1", "C2", "C3"}
PageItems == IF Growth THEN (IF NT = 1 THEN {"a", "C1", "S1"} ELSE {"a", "C1", "S1", "S2"}) ELSE {"a", "C1", "C2"}
Bodies == BodiesOver(TemplateItems, MaxBody)
Pages  == IF FewPages THEN {<<"C1">>, <<"a", "C1">>, <<"C1", "C2">>}
          ELSE {b \in BodiesOver(PageItems, IF Growth THEN 2 ELSE 3) : Len(b) >= 1}

\* size in characters of a value made of atoms; "E" is an inline error message
AtomSize(x) == CASE x = "A" -> BlockSize [] x = "P" -> 7 [] x = "E" -> 70 [] OTHER -> 1
RECURSIVE Size(_)
Size(v) == IF v = <<>> THEN 0 ELSE AtomSize(Head(v)) + Size(Tail(v))

\* what flatten is called with: a single item, or a sequence of >= 2 items (or the empty page)
Item(it) == [k |-> "item", it |-> it, body |-> <<>>]
SeqO(b)  == [k |-> "seq", it |-> "", body |-> b]
ObjOf(b) == IF Len(b) = 1 THEN Item(b[1]) ELSE SeqO(b)
ArgExpr  == <<"P", "P">>          \* {{{1}}}{{{1}}}

Exists(t) == t \in 1..NT
Top == stack[Len(stack)]
Below == SubSeq(stack, 1, Len(stack) - 1)
D == Len(stack)

(* frames.  env: index of the call frame whose arguments are in scope (0: none).  buf: the buffer
   the frame writes to, mark: its length when the frame was entered.  A call frame carries its
   argument: arg in {"none","block","dbl"}, cached / val once the callee has used it.  A sequence
   frame with forarg = c evaluates the argument of call frame c into a buffer of its own; so does a
   "wrap" frame (a parser function flattening the branch it selected).                           *)
Own(f) == f.forarg # 0 \/ f.k = "wrap"
Frame(k, body, t, env, buf, arg, forarg) ==
  [k |-> k, body |-> body, pc |-> 1, t |-> t, st |-> 0, env |-> env, buf |-> buf,
   mark |-> IF buf > Len(bufs) THEN 0 ELSE Len(bufs[buf]),
   arg |-> arg, cached |-> FALSE, val |-> <<>>, forarg |-> forarg]

\* the scope and buffer a new child of the running frame gets
CurEnv == IF ~started \/ stack = <<>> THEN 0
          ELSE IF Top.k = "call" THEN D              \* the body of a template sees that call's argument
          ELSE Top.env
CurBuf == IF ~started \/ stack = <<>> THEN 1 ELSE Top.buf

\* does the parameter node on top have to evaluate its argument first?
Binding(e) == IF e = 0 THEN "none" ELSE stack[e].arg
NeedsEval == started /\ stack # <<>> /\ Top.k = "param" /\ Top.st = 0
             /\ Binding(Top.env) = "dbl" /\ ~stack[Top.env].cached

\* the object the running code flattens next, and the stack once the parent has noted that
HasPending ==
  IF ~started THEN TRUE
  ELSE IF stack = <<>> THEN FALSE
  ELSE \/ Top.k = "seq" /\ Top.pc <= Len(Top.body)
       \/ Top.k = "call" /\ Top.st = 0 /\ Exists(Top.t) /\ univ[Top.t] # <<>>
       \/ Top.k = "wrap" /\ Top.st = 0
       \/ NeedsEval
Pending ==
  IF ~started THEN ObjOf(page)
  ELSE IF Top.k = "seq" THEN Item(Top.body[Top.pc])
  ELSE IF Top.k = "call" THEN ObjOf(univ[Top.t])
  ELSE IF Top.k = "wrap" THEN Item(CItem(Top.t))
  ELSE SeqO(ArgExpr)
Advanced ==
  IF ~started THEN stack
  ELSE IF Top.k = "seq" THEN Append(Below, [Top EXCEPT !.pc = @ + 1])
  ELSE IF Top.k \in {"call", "wrap"} THEN Append(Below, [Top EXCEPT !.st = 1])
  ELSE Append(Below, [Top EXCEPT !.st = 2])            \* the parameter waits for its value
IsText(o) == o.k = "item" /\ o.it = "a"
ForArg == started /\ stack # <<>> /\ Top.k = "param"   \* the pending object is an argument expression

NewFrame(o) ==
  IF ForArg THEN Frame("seq", o.body, 0, stack[Top.env].env, Len(bufs) + 1, "none", Top.env)
  ELSE IF o.k = "seq" THEN Frame("seq", o.body, 0, CurEnv, CurBuf, "none", 0)
  ELSE IF IsCall(o.it) THEN Frame("call", <<>>, Callee(o.it), CurEnv, CurBuf, ArgOf(o.it), 0)
  ELSE IF o.it \in Wraps THEN Frame("wrap", <<>>, Callee(o.it), CurEnv, Len(bufs) + 1, "none", 0)
  ELSE Frame("param", <<>>, 0, CurEnv, CurBuf, "none", 0)

Put(b, v) == [bufs EXCEPT ![b] = @ \o v]

Init == /\ univ \in [1..NT -> Bodies]
        /\ page \in Pages
        /\ stack = <<>> /\ count = 0 /\ bufs = <<<<>>>> /\ exc = "none" /\ log = <<>>
        /\ started = FALSE /\ escaped = FALSE /\ capped = FALSE

\* flatten(str)
Text == /\ exc = "none" /\ HasPending /\ IsText(Pending)
        /\ bufs' = Put(CurBuf, <<"a">>)
        /\ stack' = Advanced /\ started' = TRUE
        /\ UNCHANGED <<univ, page, count, exc, log, escaped, capped>>

\* flatten(node) below the limit: a new frame (and a new buffer for an argument)
Enter == /\ exc = "none" /\ HasPending /\ ~IsText(Pending) /\ count <= Limit
         /\ bufs' = IF ForArg \/ (Pending.k = "item" /\ Pending.it \in Wraps) THEN Append(bufs, <<>>) ELSE bufs
         /\ stack' = Append(Advanced, NewFrame(Pending))
         /\ count' = count + 1 /\ started' = TRUE
         /\ log' = IF Pending.k = "item" /\ IsCall(Pending.it) THEN Append(log, <<Callee(Pending.it), count + 1>>) ELSE log
         /\ UNCHANGED <<univ, page, exc, escaped, capped>>

\* flatten(node) above the limit
Raise == /\ exc = "none" /\ HasPending /\ ~IsText(Pending) /\ count > Limit
         /\ exc' = "rec" /\ stack' = Advanced /\ started' = TRUE
         /\ UNCHANGED <<univ, page, count, bufs, log, escaped, capped>>

\* a parameter: its binding, else the literal {{{1}}}
ParamOut == /\ exc = "none" /\ started /\ stack # <<>> /\ Top.k = "param" /\ Top.st = 0 /\ ~NeedsEval
            /\ bufs' = Put(Top.buf, CASE Binding(Top.env) = "block" -> <<"A">>
                                      [] Binding(Top.env) = "dbl"   -> stack[Top.env].val
                                      [] OTHER -> <<"P">>)
            /\ stack' = Append(Below, [Top EXCEPT !.st = 1])
            /\ UNCHANGED <<univ, page, count, exc, log, started, escaped, capped>>

Complete == /\ started /\ stack # <<>> /\ ~HasPending
            /\ (Top.k = "param" => Top.st = 1)
Leave == /\ exc = "none" /\ Complete /\ ~Own(Top)
         /\ stack' = Below /\ count' = count - 1
         /\ UNCHANGED <<univ, page, bufs, exc, log, started, escaped, capped>>

\* the parser function appends the branch it has flattened
LeaveWrap == /\ exc = "none" /\ Complete /\ Top.k = "wrap"
             /\ bufs' = SubSeq(Put(Top.buf - 1, bufs[Top.buf]), 1, Len(bufs) - 1)
             /\ stack' = Below /\ count' = count - 1
             /\ UNCHANGED <<univ, page, exc, log, started, escaped, capped>>

\* the argument has been flattened: within the cap it is cached in the call frame and handed to
\* the waiting parameter, beyond the cap ArgumentList.get raises MemoryLimitError
LeaveArg == /\ exc = "none" /\ Complete /\ Top.forarg # 0
            /\ LET v == bufs[Top.buf]
                   c == Top.forarg
                   p == Len(stack) - 1 IN          \* the waiting parameter frame
               /\ count' = count - 1
               /\ IF CapByName /\ Size(v) > Cap
                  THEN /\ exc' = "mem"
                       /\ bufs' = SubSeq(bufs, 1, Len(bufs) - 1)
                       /\ stack' = Below
                  ELSE /\ exc' = exc
                       /\ bufs' = SubSeq(Put(stack[p].buf, v), 1, Len(bufs) - 1)
                       /\ stack' = [i \in 1..p |-> IF i = c THEN [stack[i] EXCEPT !.cached = TRUE, !.val = v]
                                                   ELSE IF i = p THEN [stack[i] EXCEPT !.st = 1]
                                                   ELSE stack[i]]
            /\ capped' = (capped \/ (CapByName /\ Size(bufs[Top.buf]) > Cap))
            /\ UNCHANGED <<univ, page, log, started, escaped>>

PopBufs == IF Own(Top) THEN SubSeq(bufs, 1, Len(bufs) - 1) ELSE bufs

\* TemplateRecursion passes a frame deeper than SwallowDepth ('finally' still decrements)
Unwind == /\ exc = "rec" /\ stack # <<>> /\ count > SwallowDepth
          /\ stack' = Below /\ bufs' = PopBufs
          /\ count' = IF Decrement THEN count - 1 ELSE count
          /\ UNCHANGED <<univ, page, exc, log, started, escaped, capped>>

\* at depth <= SwallowDepth the frame drops its output and returns normally
Swallow == /\ exc = "rec" /\ stack # <<>> /\ count <= SwallowDepth
           /\ bufs' = [PopBufs EXCEPT ![Top.buf] = SubSeq(@, 1, Top.mark)]
           /\ exc' = "none"
           /\ stack' = Below /\ count' = count - 1
           /\ UNCHANGED <<univ, page, log, started, escaped, capped>>

\* MemoryLimitError passes every frame that is not a template call ...
UnwindMem == /\ exc = "mem" /\ stack # <<>> /\ Top.k # "call"
             /\ stack' = Below /\ bufs' = PopBufs /\ count' = count - 1
             /\ UNCHANGED <<univ, page, exc, log, started, escaped, capped>>

\* ... and the enclosing template call reports it inline and returns normally
CatchMem == /\ exc = "mem" /\ stack # <<>> /\ Top.k = "call"
            /\ bufs' = Put(Top.buf, <<"E">>)
            /\ stack' = Append(Below, [Top EXCEPT !.st = 1])
            /\ exc' = "none"
            /\ UNCHANGED <<univ, page, count, log, started, escaped, capped>>

\* an exception leaves expandTemplates (must be unreachable)
Escape == /\ exc # "none" /\ stack = <<>> /\ ~escaped
          /\ escaped' = TRUE
          /\ UNCHANGED <<univ, page, stack, count, bufs, exc, log, started, capped>>

Finished == started /\ stack = <<>> /\ exc = "none"
Next == Text \/ Enter \/ Raise \/ ParamOut \/ Leave \/ LeaveWrap \/ LeaveArg \/ Unwind \/ Swallow \/ UnwindMem \/ CatchMem \/ Escape
Spec == Init /\ [][Next]_vars /\ WF_vars(Next)

-----------------------------------------------------------------------------
DepthBound   == Len(stack) <= Limit + 1
CountIsDepth == Decrement => count = Len(stack)
NoEscape     == ~escaped /\ ~(exc # "none" /\ stack = <<>>)
BufsOK       == /\ Len(bufs) >= 1
                /\ \A i \in 1..Len(stack) : stack[i].buf <= Len(bufs) /\ stack[i].mark <= Len(bufs[stack[i].buf])
                /\ Len(bufs) = 1 + Cardinality({i \in 1..Len(stack) : Own(stack[i])})
                /\ (stack # <<>> => Top.buf = Len(bufs))
\* no argument value ever held exceeds the cap
ArgBound     == \A i \in 1..Len(stack) : stack[i].cached => Size(stack[i].val) <= Cap
\* a TemplateRecursion is only ever cleared by a frame at depth <= 2
SwallowShallow == [][(exc = "rec" /\ exc' = "none") => count <= 2]_vars
Terminates == <>Finished
\* the counter is back to 0 and only the article's buffer is left when the expansion is over
CounterRestored == Finished => count = 0 /\ Len(bufs) = 1

EmitRun ==
  (Emit /\ Finished) =>
    PrintT("@@" \o ToJson([univ |-> univ, page |-> page, limit |-> Limit, out |-> bufs[1], log |-> log, capped |-> capped]))
=============================================================================
