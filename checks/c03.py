"""C03 — template expansion always terminates with a string, whatever templates contain.

P-MC + P-REPLAY  spec/TemplateVM.tla models the recursion guard of flatten (counter, limit,
        TemplateRecursion raised above the limit, re-raised down to depth 2 and swallowed there
        with the node's output dropped) over ALL call graphs on NT templates (self- and mutual
        recursion, missing templates).  TLC checks DepthBound, CountIsDepth, NoEscape,
        SwallowShallow, CounterRestored and the liveness property Terminates under weak fairness
        for Limit in {2,3,4}.  Every terminal state (universe, page, predicted output, predicted
        sequence of (callee, counter) at each template lookup) is replayed on the real
        Expander(page, wikidb, recursion_limit=Limit): same output, same lookup log, counter back
        to 0, no exception.  Mechanism switches (SwallowDepth=0, Decrement=FALSE) must make TLC
        fail (non-vacuity).
P-ENUM  spec/MagicCalls.tla enumerates Name x Arity(0..3) x Shape^arity — Name being an index
        into a table GENERATED from the running code (every upper-case attribute MagicResolver
        resolves, every magic_nodes.registry key, every magic word and alias of the site's bundled
        siteinfo, with and without '#') — and all junk sequences of <= 3 lexemes over the template
        alphabet.  The harness expands each call with the real code: it must return a str without
        raising; output length, deterministic step count (sys.setprofile call events) and peak
        traced allocation of a call with a huge / exponent / oversize argument must stay within a
        constant factor of its small twin (the twin is defined by the spec).  A watchdog only
        catches hangs.
"""
import hashlib
import json
import multiprocessing
import os
import shutil
import re
import signal
import time
import traceback

from harness import tlc
from harness.common import MachineryError, chunks
from harness.templwiki import harness_error, seam

PROPERTY = "C03"
LEVEL = "exploration"

VM_ACTIONS = ["Text", "Enter", "Raise", "ParamOut", "Leave", "LeaveWrap", "LeaveArg", "Unwind", "Swallow", "UnwindMem", "CatchMem"]
BLOCK = 100000

VM_CFG = """SPECIFICATION Spec
CONSTANTS
  NT = %(nt)d
  MaxBody = %(maxbody)d
  Limit = %(limit)d
  FewPages = %(fewpages)s
  PF = %(pf)s
  Growth = %(growth)s
  BlockSize = %(block)d
  Cap = 262144
  SwallowDepth = %(swallow)d
  Decrement = %(dec)s
  CapByName = %(capbyname)s
  Emit = %(emit)s
INVARIANTS DepthBound CountIsDepth NoEscape BufsOK ArgBound CounterRestored EmitRun
PROPERTIES SwallowShallow Terminates
CHECK_DEADLOCK FALSE
"""

MC_CFG = """SPECIFICATION Spec
CONSTANTS
  Mode = "%(mode)s"
  NNames = %(nnames)d
  NPairNames = %(npair)d
  NFnNames = %(nfn)d
  MaxArity = %(arity)d
  Stride2 = %(stride2)d
  Stride = %(stride)d
  Phase = %(phase)d
  NFormats = %(nformats)d
  NTimeFns = %(ntimefns)d
  NFormatFns = %(nformatfns)d
  MaxLex = %(maxlex)d
  MaxDeepLex = %(maxdeep)d
  Emit = TRUE
INVARIANTS TypeOK TwinLaw CoverLaw EachLaw EmitCase
PROPERTIES AllHanded
CHECK_DEADLOCK FALSE
"""

SHAPES = {
    "empty": "",
    "zero": "0",
    "word": "Foo bar",
    "small": "3",
    "huge": "300000",
    "negative": "-5",
    "decimal": "2.5",
    "exponent": "1e5000000",
    "path": "Aa/Bb/Cc",
    "nested": "{{lc:ABC}}",
    "oversize": "x" * 270000 + "{{lc:Y}}",
    # arithmetic reaching the edges of the number representation
    "posinf": "1e308*10",
    "neginf": "-1e200*1e200",
    "nan": "1e308*10-1e308*10",
    "zerotimesinf": "0*(1e308*10)",
    "bigint": "1" + "0" * 310,
    "negzero": "-0.0",
    "subnormal": "5e-324",
    "divzero": "1/0",
    "modzero": "1 mod 0",
    "roundneg": "5 round -3000000",
    "roundpos": "5 round 3000000",
    "powhuge": "2^99999999",
    "deepparen": "(" * 400 + "1" + ")" * 400,
    "expneg": "1e-300000",
    "expmid": "1e5000",
}
def mc_cfg(mode, nnames=1, npair=0, nfn=0, arity=0, stride2=0, stride=1, phase=0, nformats=1, ntimefns=1, nformatfns=1, maxlex=1, maxdeep=0):
    return MC_CFG % dict(mode=mode, nnames=nnames, npair=npair, nfn=nfn, arity=arity, stride2=stride2, stride=stride, phase=phase,
                         nformats=nformats, ntimefns=ntimefns, nformatfns=nformatfns, maxlex=maxlex, maxdeep=maxdeep)


# ---- private names of mwlib the check reads: each through seam(), so that a rename is reported by name (exit 2)
def _registry():
    return seam("mwlib.parser.templ.magic_nodes", "registry")


def _time_node():
    return seam("mwlib.parser.templ.magic_nodes", "Time")


def _resolver_class():
    seam("mwlib.parser.templ.magics", "MagicResolver.has_magic")
    return seam("mwlib.parser.templ.magics", "MagicResolver")


def _clock_words():
    return set(vars(seam("mwlib.parser.templ.magics", "TimeMagic"))) | set(vars(seam("mwlib.parser.templ.magics", "LocaltimeMagic")))


def _expander_class():
    for a in ("expandTemplates", "get_parsed_template"):
        seam("mwlib.parser.templ.evaluate", "Expander." + a)
    return seam("mwlib.parser.templ.evaluate", "Expander")


_PROBE_DATE = "2001-02-03 04:05:06"


def format_table(db):
    """Every #time format code the running code knows — found through the public route: a letter is a code
    if {{#time:<letter>|date}} does not just echo it."""
    from harness.templwiki import expand
    codes = []
    for ch in "abcdefghijklmnopqrstuvwxyzABCDEFGHIJKLMNOPQRSTUVWXYZ":
        try:
            out = expand(db, "{{#time:%s|%s}}" % (ch, _PROBE_DATE))[0]
        except Exception:                                       # noqa: BLE001   (a code that crashes is a code)
            out = None
        if out != ch:
            codes.append(ch)
    if len(codes) < 5:
        raise MachineryError("probing {{#time:<letter>|%s}} found only the format codes %r" % (_PROBE_DATE, codes))
    return sorted(codes)


TIMEISH = ("time", "date", "day", "month", "year", "week", "hour", "dow")


def time_fn_table(lang):
    """The names of the site that deal with dates, from the running code: first those that resolve to the
    #time node (they take a format), then every TimeMagic / LocaltimeMagic word and every other
    magic word whose canonical name mentions a date/time unit.  -> (names, number of format-taking ones)"""
    clock = _clock_words()
    registry, time_node = _registry(), _time_node()
    fmt, other = [], []
    for n in name_table(lang):
        canon = canonical(lang, n)
        if registry.get(canon.lower()) is time_node:
            fmt.append(n)
        elif canon in clock or any(w in canon.lower() for w in TIMEISH):
            other.append(n)
    return fmt + other, len(fmt)


def time_text(fn, code, pre, date):
    """fn: the name as written; code: a format code or None; date: token list (["NONE"]: no date argument)."""
    d = None if date == ["NONE"] else "".join(date)
    args = []
    if code is not None:
        args.append(("xr" if pre == "xr" else "") + code)
    if d is not None:
        args.append(d)
    return "{{%s}}" % fn if not args else "{{%s:%s}}" % (fn, "|".join(args))


WATCHDOG_S = 60          # only for hangs; a normal call takes milliseconds
# proportionality (measured, generous): a call with an inflated argument vs. its small twin
OUT_C, OUT_K = 20, 4000            # len(output) <= OUT_C * len(arguments) + OUT_K
STEP_RATIO, STEP_FLOOR = 50, 20000
MEM_PER_CHAR, MEM_FLOOR = 40, 2 * 1024 * 1024   # peak(call) - peak(twin) <= max(MEM_FLOOR, MEM_PER_CHAR * len(arguments))


def B(x):
    return "TRUE" if x else "FALSE"


def vm_cfg(nt, limit, maxbody=2, growth=False, pf=False, swallow=2, dec=True, capbyname=True, emit=True):
    return VM_CFG % dict(nt=nt, maxbody=maxbody, limit=limit, growth=B(growth), pf=B(pf), fewpages=B(nt >= 3), block=BLOCK, swallow=swallow, dec=B(dec),
                         capbyname=B(capbyname), emit=B(emit))


# ----------------------------------------------------------------------------- name table
def name_table(lang):
    """Every name the running code resolves as magic word / parser function on this site."""
    from harness.templwiki import preload
    preload()
    from mwlib.network import siteinfo
    registry, resolver_class = _registry(), _resolver_class()
    names = set()
    for n in dir(resolver_class):
        if not n.startswith("_") and n.upper() == n and any(ch.isalpha() for ch in n):
            names.add(n)
    names.update(registry.keys())
    resolver = resolver_class()
    for mw in siteinfo.get_siteinfo(lang).get("magicwords", []):
        hashed = "#" + mw["name"]
        # the site lists parser functions without '#': the spelling with '#' is a name as well
        # wherever the running code resolves it (registry node or resolver method)
        with_hash = hashed in registry or resolver.has_magic(hashed)
        for a in [mw["name"]] + list(mw["aliases"]):
            a = a.rstrip(":")
            if not a or any(ch in a for ch in "{}|=<>[]\n"):
                continue
            names.add(a)
            if with_hash and not a.startswith("#"):
                names.add("#" + a)
    fns = sorted(n for n in names if is_function(lang, n, resolver))
    pair = [n for n in fns if accepts_two(lang, n)]
    return pair + [n for n in fns if n not in set(pair)] + sorted(names - set(fns))


def accepts_two(lang, name):
    """Does the function take two or more arguments in the running code?  Parser-function nodes do; a resolver
    method does unless it is wrapped by no_arg / single_arg / _wrap_pagename, is a dummy resolver or has no parameter."""
    import inspect

    registry, resolver_class = _registry(), _resolver_class()
    canon = canonical(lang, name)
    if canon.lower() in registry or name.lower() in registry:
        return True
    m = getattr(resolver_class, canon.upper(), None) or getattr(resolver_class, name.upper(), None)
    if m is None or isinstance(m, str) or hasattr(m, "__wrapped__") or getattr(getattr(m, "__code__", None), "co_name", "") == "resolve":
        return False
    try:
        return len(inspect.signature(m).parameters) >= 2
    except (TypeError, ValueError):
        return True


def is_function(lang, name, resolver=None):
    """Does the running code resolve this name to a magic word / parser function (rather than look it up as a template)?"""
    registry = _registry()
    resolver = resolver or _resolver_class()()
    canon = canonical(lang, name)
    return canon.lower() in registry or name.lower() in registry or resolver.has_magic(canon) or resolver.has_magic(name)


def fn_count(lang, names):
    """-> (functions of two or more arguments, functions): the table lists them in that order"""
    r = _resolver_class()()
    fns = [n for n in names if is_function(lang, n, r)]
    return sum(1 for n in fns if accepts_two(lang, n)), len(fns)


_ALIAS = {}


def canonical(lang, name):
    """The function a site alias stands for (what the running code resolves it to)."""
    if lang not in _ALIAS:
        from mwlib.network import siteinfo
        seam("mwlib.parser.templ.parser", "AliasMap.resolve_magic_alias")
        _ALIAS[lang] = seam("mwlib.parser.templ.parser", "AliasMap")(siteinfo.get_siteinfo(lang))
    return (_ALIAS[lang].resolve_magic_alias(name) or name).upper()


def call_text(name, shapes):
    if not shapes:
        return "{{%s}}" % name
    return "{{%s:%s}}" % (name, "|".join(SHAPES[s] for s in shapes))


# ----------------------------------------------------------------------------- real executions
class Hang(Exception):
    pass


def _alarm(signum, frame):
    raise Hang()


def where_of(err):
    tb = traceback.extract_tb(err.__traceback__)
    fr = [f for f in tb if "/mwlib/" in f.filename]
    return "%s:%s" % (os.path.basename(fr[-1].filename), fr[-1].name) if fr else "?"


def errclass(err):
    msg = str(err)
    if isinstance(err, TypeError) and ("positional argument" in msg or "takes no arguments" in msg):
        return "TypeError(arity)"
    return type(err).__name__


class _NoSteps:
    n = 0

    def __enter__(self):
        return self

    def __exit__(self, *a):
        return False


def measure(db, text, mem=False, limit=None, steps=True):
    """One real expansion: Expander(...) then expandTemplates(), both under the step counter; the
    allocation peak (tracemalloc) is taken over expandTemplates() only — setting up an Expander
    allocates the same ~130 KiB for every input and tracing it costs more than the expansion.
    -> dict(ok, out_len, steps, peak, err, where, cls)"""
    import tracemalloc

    from harness.templwiki import StepCounter
    Expander = _expander_class()
    kw = {} if limit is None else {"recursion_limit": limit}
    # #expr memoises results per process; where the memo can be reached it is emptied so that every case is
    # measured cold (a memo hit only makes a case cheaper: it cannot cause a disagreement, only hide one)
    _expr = seam("mwlib.parser.expr")
    memo = getattr(_expr, "_cache", None)
    if hasattr(memo, "clear"):
        memo.clear()
    for f in (getattr(_expr, "expr", None), getattr(getattr(_expr, "Expr", None), "parse_expr", None)):
        if hasattr(f, "cache_clear"):
            f.cache_clear()
    r = {"ok": False, "out_len": 0, "steps": 0, "peak": 0, "err": None, "where": None, "cls": None, "count": None}
    signal.signal(signal.SIGPROF, _alarm)
    signal.setitimer(signal.ITIMER_PROF, WATCHDOG_S)
    sc = StepCounter() if steps else _NoSteps()
    try:
        with sc:
            e = Expander(text, pagename="Main", wikidb=db, **kw)
            if mem:
                tracemalloc.start()
            out = e.expandTemplates()
        r["steps"] = sc.n
        if not hasattr(e, "recursion_count"):
            raise MachineryError("seam mwlib.parser.templ.evaluate.Expander().recursion_count does not exist")
        r["count"] = e.recursion_count
        if isinstance(out, str):
            r["ok"] = True
            r["out_len"] = len(out)
        else:
            r["err"], r["cls"], r["where"] = "returned %r" % type(out), "NotStr", "expandTemplates"
    except Hang:
        r["err"], r["cls"], r["where"] = "no result after %ds" % WATCHDOG_S, "Hang", "watchdog"
    except BaseException as err:                               # noqa: BLE001
        if isinstance(err, MachineryError) or harness_error(err):
            raise MachineryError("the harness failed while expanding %r: %s: %s" % (text[:80], type(err).__name__, err))
        r["steps"] = sc.n
        r["err"], r["cls"], r["where"] = "%s: %s" % (type(err).__name__, str(err)[:200]), errclass(err), where_of(err)
    finally:
        signal.setitimer(signal.ITIMER_PROF, 0)
        import sys
        sys.setprofile(None)
        if mem and tracemalloc.is_tracing():
            r["peak"] = tracemalloc.get_traced_memory()[1]
            tracemalloc.stop()
    return r


def judge_call(lang, name, shapes, twin, db, cache):
    """-> list of (key, what, replay)"""
    text = call_text(name, shapes)
    # allocation is traced where a SHORT argument could buy it; an oversize text is allowed memory in proportion to its length
    m = measure(db, text, mem=bool(twin) and any(s_ != "oversize" and t_ == "small" and s_ != "small" for s_, t_ in zip(shapes, twin)))
    fn = canonical(lang, name)
    rep = {"kind": "call", "lang": lang, "name": name, "shapes": shapes, "twin": twin, "text": text[:300]}
    out = []
    arglen = sum(len(SHAPES[s]) for s in shapes) + len(name)
    if not m["ok"]:
        out.append(("expandTemplates %s fn=%s shapes=%s name=%s lang=%s" % (m["cls"], fn, ",".join(shapes) or "-", name.upper(), lang),
                    "%s raised/failed: %s (innermost mwlib frame %s)" % (text[:120], m["err"], m["where"]), rep))
        return out
    if m["out_len"] > OUT_C * arglen + OUT_K:
        out.append(("disproportionate fn=%s kind=output shapes=%s name=%s lang=%s" % (fn, ",".join(shapes), name.upper(), lang),
                    "%s: %d characters of output for %d characters of arguments" % (text[:120], m["out_len"], arglen), rep))
    if twin:
        tk = (name, tuple(twin))
        if tk not in cache:
            cache[tk] = measure(db, call_text(name, twin), mem=True)
        t = cache[tk]
        if t["ok"]:
            if m["steps"] > STEP_FLOOR and m["steps"] > STEP_RATIO * max(1, t["steps"]) and m["steps"] > 40 * arglen:
                out.append(("disproportionate fn=%s kind=work shapes=%s name=%s lang=%s" % (fn, ",".join(shapes), name.upper(), lang),
                            "%s: %d call events, its small twin %s: %d" % (text[:120], m["steps"], call_text(name, twin)[:80], t["steps"]), rep))
            extra = m["peak"] - t["peak"] if m["peak"] else 0         # allocation attributable to the inflated argument
            if extra > MEM_FLOOR and extra > MEM_PER_CHAR * arglen:
                out.append(("disproportionate fn=%s kind=allocation shapes=%s name=%s lang=%s" % (fn, ",".join(shapes), name.upper(), lang),
                            "%s: peak %d bytes for %d characters of arguments, its small twin: %d bytes" % (text[:120], m["peak"], arglen, t["peak"]), rep))
    return out


_DB = {}
_TWINS = {}


def site_db(scratch, lang):
    """One archive per worker process and site."""
    k = (os.getpid(), lang)
    if k not in _DB:
        from harness import templwiki
        templwiki.quiet_logging()
        _DB[k] = templwiki.make_wikidb(os.path.join(scratch, "site-%s-%d" % (lang, os.getpid())), {"Lc": "x"}, lang=lang)
        measure(_DB[k], "{{#expr:1}}{{lc:A}}{{#time:Y}}", mem=True)   # warm-up: imports and caches are not charged to the first case
    return _DB[k]


def _call_worker(args):
    idx, lang, names, cases, scratch = args
    db = site_db(scratch, lang)
    cache, bad, n = _TWINS.setdefault((os.getpid(), lang), {}), [], 0
    t0 = time.time()
    for c in cases:
        n += 1
        bad.extend(judge_call(lang, names[c["n"] - 1], c["s"], c["twin"], db, cache))
    if os.environ.get("C03_TIMING"):
        print("  job %d pid %d: %d cases %.1fs" % (idx, os.getpid(), n, time.time() - t0), flush=True)
    return n, bad


def _time_worker(args):
    idx, lang, fns, formats, cases, scratch = args
    db = site_db(scratch, lang)
    bad = []
    for c in cases:
        fn = fns[c["fn"] - 1]
        code = formats[c["f"] - 1] if c["f"] else None
        text = time_text(fn, code, c["pre"], c["date"])
        m = measure(db, text)
        if not m["ok"] or m["out_len"] > OUT_C * len(text) + OUT_K:
            what = m["err"] if not m["ok"] else "%d characters of output" % m["out_len"]
            bad.append(("expandTemplates %s fn=%s format=%s date=%s" % (m["cls"] or "Disproportionate", canonical(lang, fn),
                                                                       (("xr" if c["pre"] == "xr" else "") + code) if code else "-", json.dumps("".join(c["date"])[:24])),
                        "%s raised/failed: %s (innermost mwlib frame %s)" % (text[:120], what, m["where"]),
                        {"kind": "time", "lang": lang, "fn": fn, "f": code, "pre": c["pre"], "date": c["date"]}))
    return len(cases), bad


def _junk_worker(args):
    idx, cases, scratch = args
    from harness import templwiki
    templwiki.quiet_logging()
    path = os.path.join(scratch, "junk-%d" % idx)
    tm = {}
    for c in cases:
        c["text"] = "".join("Jt" if x == "T" else x for x in c["lex"]) * c.get("rep", 1)
        c["tname"] = "J" + hashlib.sha1(c["text"].encode()).hexdigest()[:12]
        tm[c["tname"]] = c["text"]
    tm["Jt"] = "t{{{1|d}}}"
    db = templwiki.make_wikidb(path, tm)
    bad, n = [], 0
    for c in cases:
        for place, text in (("page", c["text"]), ("template", "a{{%s|x}}b" % c["tname"])):
            n += 1
            m = measure(db, text, steps=False)
            if not m["ok"]:
                bad.append(("expandTemplates %s junk x%d seq=%s as=%s" % (m["cls"], c.get("rep", 1), json.dumps("".join(c["lex"])), place),
                            "%r x%d as %s: %s (innermost mwlib frame %s)" % ("".join(c["lex"]), c.get("rep", 1), place, m["err"], m["where"]),
                            {"kind": "junk", "lex": c["lex"], "rep": c.get("rep", 1)}))
            elif m["count"] != 0:
                bad.append(("recursion_count=%s after junk x%d seq=%s as=%s" % (m["count"], c.get("rep", 1), json.dumps("".join(c["lex"])), place),
                            "counter not restored", {"kind": "junk", "lex": c["lex"], "rep": c.get("rep", 1)}))
    shutil.rmtree(path, ignore_errors=True)
    return n, bad


# ---- TemplateVM replay
ATOM = {"a": "a", "P": "{{{1}}}"}
OUT_RX = re.compile(r'(a)|(\{\{\{1\}\}\})|(x{%d})|(<strong class="error">template argument too long: \d+ bytes</strong>)' % BLOCK)


def project(text):
    """The real output as atoms a / P / A (block) / E (inline error); None if it is anything else."""
    out, pos = [], 0
    for m in OUT_RX.finditer(text):
        if m.start() != pos:
            return None
        pos = m.end()
        out.append("aPAE"[m.lastindex - 1])
    return out if pos == len(text) else None


# "I": a call inside the lazily evaluated branch argument of a parser function — every registered one of that kind
WRAP_FORMS = ["{{#ifexpr:1|%s}}", "{{#if:1|%s}}", "{{#ifeq:1|1|%s}}", "{{#switch:1|1=%s}}", "{{#iferror:x|b|%s}}", "{{#ifexpr:0|x|%s}}", "{{#if:|x|%s}}"]


class WorkBound(BaseException):
    """Raised by the harness when the real expansion makes far more template lookups than the model predicts
    (BaseException: nothing in the code under test may swallow it)."""


def vm_concretise(case, form=0):
    u = case["univ"]
    h = "V" + hashlib.sha1(json.dumps([u, form]).encode()).hexdigest()[:10]
    nm = {"%d" % i: "%sT%d" % (h, i) for i in (1, 2, 3)}

    def item(x):
        if x in ATOM:
            return ATOM[x]
        n = nm[x[1]]
        return {"C": "{{%s}}" % n, "D": "{{%s|{{{1}}}{{{1}}}}}" % n, "S": "{{%s|%s}}" % (n, "x" * BLOCK),
                "I": WRAP_FORMS[form] % ("{{%s}}" % n)}[x[0]]

    def text(body):
        return "".join(item(x) for x in body)
    templates = {nm["%d" % (i + 1)]: text(b) for i, b in enumerate(u)}
    return templates, text(case["page"]), nm


def _vm_worker(args):
    idx, cases, scratch = args[:3]
    nforms_seed = args[3] if len(args) > 3 else (len(WRAP_FORMS), 0)
    from harness import templwiki
    templwiki.quiet_logging()
    Expander = _expander_class()
    tm = {}
    conc = []
    for c in cases:
        wrapped = any(x[0] == "I" for b in c["univ"] for x in b)
        forms = [0]
        if wrapped:      # quick: two of the forms per behaviour, rotating with the behaviour and the seed; thorough: all
            k = int(hashlib.sha1(json.dumps([c["univ"], c["page"]]).encode()).hexdigest()[:8], 16) + nforms_seed[1]
            forms = sorted({(k + j * 3) % len(WRAP_FORMS) for j in range(nforms_seed[0])})
        for form in forms:
            t, p, nm = vm_concretise(c, form)
            tm.update(t)
            conc.append((dict(c, form=WRAP_FORMS[form] % "..") if wrapped else c, t, p, nm))
    path = os.path.join(scratch, "vm-%d" % idx)
    db = templwiki.make_wikidb(path, tm)

    class Logged(Expander):
        def get_parsed_template(self, name):
            self.vlog.append((name, self.recursion_count))
            if len(self.vlog) > self.vmax:
                raise WorkBound()
            return Expander.get_parsed_template(self, name)

    bad = []
    for c, t, p, nm in conc:
        r = vm_run(Logged, db, c, t, p, nm)
        if r:
            bad.append(r)
    shutil.rmtree(path, ignore_errors=True)
    return len(cases), bad


def vm_run(Logged, db, c, t, p, nm):
    inv = {v: int(k) for k, v in nm.items()}
    want_log = [tuple(x) for x in c["log"]]
    rep = {"kind": "vm", "case": c, "templates": t, "page": p if len(p) < 2000 else p[:200] + "..."}
    # "argcap": the model predicts that an argument outgrows the 256 KiB cap and is reported inline
    key = "recursion guard%s limit=%d univ=%s page=%s%s" % (" argcap" if c.get("capped") else "", c["limit"], json.dumps(c["univ"]), json.dumps(c["page"]),
                                                             " I=" + c["form"] if c.get("form") else "")
    signal.signal(signal.SIGPROF, _alarm)
    signal.setitimer(signal.ITIMER_PROF, WATCHDOG_S)
    try:
        e = Logged(p, pagename="Main", wikidb=db, recursion_limit=c["limit"])
        e.vlog = []
        e.vmax = 20 * len(want_log) + 200          # work bound: the model predicts every lookup
        got = e.expandTemplates()
    except WorkBound:
        return (key + " work", "more than %d template lookups, the model predicts %d: the expansion does not stop where the recursion guard must stop it"
                % (e.vmax, len(want_log)), rep)
    except Hang:
        return (key + " hang", "no result after %ds" % WATCHDOG_S, rep)
    except BaseException as err:                                # noqa: BLE001
        if isinstance(err, MachineryError) or harness_error(err):
            raise MachineryError("the harness failed while replaying %s: %s: %s" % (key, type(err).__name__, err))
        return (key + " raised " + type(err).__name__, "%s at %s: %s" % (type(err).__name__, where_of(err), str(err)[:200]), rep)
    finally:
        signal.setitimer(signal.ITIMER_PROF, 0)
    problems = []
    if not isinstance(got, str):
        problems.append("returned %r" % type(got))
    elif project(got) != c["out"]:
        pr = project(got)
        problems.append("output %s, the model predicts %r" % (repr(pr) if pr is not None else "(not over a/{{{1}}}/block/error) " + repr(got[:80]), c["out"]))
    if not hasattr(e, "recursion_count"):
        raise MachineryError("seam mwlib.parser.templ.evaluate.Expander().recursion_count does not exist")
    if e.recursion_count != 0:
        problems.append("recursion_count=%r after the expansion" % e.recursion_count)
    got_log = [(inv.get(n, -1), k) for n, k in e.vlog]
    if got_log != want_log:
        problems.append("template lookups (callee, counter) %r, the model predicts %r" % (got_log[:12], want_log[:12]))
    if problems:
        return (key + " differs=" + "+".join(x.split(" ")[0] for x in problems), "; ".join(problems), rep)
    return None


def pool_run(ctx, worker, jobs):
    n, bad = 0, []
    pool = multiprocessing.get_context("fork").Pool(ctx.ncpu)
    try:
        for cnt, b in pool.imap_unordered(worker, jobs):
            n += cnt
            bad.extend(b)
    finally:
        pool.close()
        pool.join()
    return n, bad


# ----------------------------------------------------------------------------- the check
def run(ctx):
    quick = ctx.tier == "quick"
    root = os.path.join(ctx.scratch, "wikis")
    os.makedirs(root, exist_ok=True)
    states = trans = 0
    allbad = []

    # ---- 1. recursion guard: model checking + replay
    vm_cases = []
    # (NT, Limit, Growth): Growth adds doubling calls and block arguments (argument size limit)
    # (NT, Limit, alphabet): "g" adds doubling calls and block arguments (argument size limit), "pf" calls inside the
    # lazily evaluated branch of a parser function (replayed with every registered function of that kind)
    vm_plans = ([(2, 2, ""), (2, 3, ""), (2, 4, ""), (1, 10, "g"), (2, 4, "pf")] if quick
                else [(2, 2, ""), (2, 3, ""), (2, 4, ""), (3, 2, ""), (3, 3, ""), (3, 4, ""), (1, 10, "g"), (2, 10, "g"),
                      (2, 2, "pf"), (2, 3, "pf"), (2, 4, "pf"), (2, 6, "pf")])
    # all TLC runs are started now, four at a time; the Python phases below take the results as they need them
    from concurrent.futures import ThreadPoolExecutor
    ex = ThreadPoolExecutor(max_workers=4)

    def T(module, cfg, name, **kw):
        kw.setdefault("timeout", 2400)
        return ex.submit(tlc.run, ctx, module, cfg, name=name, workers=max(2, ctx.ncpu // 4), heap="6g", **kw)
    langs = ["en"] if quick else ["en", "de", "fr", "ja", "es", "it", "nl", "pl", "pt", "sv", "no", "simple"]
    if os.environ.get("VERIF_C03_ONLY") == "vm":
        langs = []
    f_vm = [T("TemplateVM", vm_cfg(nt, limit, growth=kind == "g", pf=kind == "pf"), "TemplateVM_%d_%d%s" % (nt, limit, kind))
            for nt, limit, kind in vm_plans]
    f_cov = T("TemplateVM", vm_cfg(1, 10, growth=True, emit=False), "TemplateVM_cov", coverage=True)
    f_cov2 = T("TemplateVM", vm_cfg(2, 2, pf=True, emit=False), "TemplateVM_cov2", coverage=True)
    nv_plans = (("SwallowDepth=0", dict(swallow=0), ("invariant", "NoEscape")),
                ("Decrement=FALSE", dict(dec=False), ("invariant", "NoEscape")),   # the counter stays high: nobody swallows
                ("CapByName=FALSE", dict(capbyname=False, growth=True, limit=10), ("invariant", "ArgBound")))
    f_nv = [T("TemplateVM", vm_cfg(**dict(dict(nt=1, limit=2, emit=False), **kw)), "TemplateVM_nv%d" % i)
            for i, (label, kw, want) in enumerate(nv_plans)]
    tables, f_calls = {}, {}
    for li, lang in enumerate(langs):
        tables[lang] = name_table(lang)
        full3 = (not quick) and lang == "en"
        # quick: the covering design of MagicCalls.tla only; thorough: plus the product thinned by strides
        stride = 1 if quick else (20 if full3 else 100)
        stride2 = 0 if quick else (1 if full3 else 8)
        f_calls[lang] = T("MagicCalls", mc_cfg("calls", nnames=len(tables[lang]), npair=fn_count(lang, tables[lang])[0], nfn=fn_count(lang, tables[lang])[1], arity=3, stride=stride, stride2=stride2, phase=ctx.seed + li),
                          "MagicCalls_%s" % lang)
    from harness import templwiki
    templwiki.quiet_logging()
    formats = format_table(templwiki.make_wikidb(os.path.join(root, "probe"), {"Lc": "x"}))
    tfns, nfmt = time_fn_table("en")
    f_time = T("MagicCalls", mc_cfg("time", nformats=len(formats), ntimefns=len(tfns), nformatfns=nfmt), "MagicCalls_time")
    f_junk = T("MagicCalls", mc_cfg("junk", maxlex=3, maxdeep=2), "MagicCalls_junk", coverage=True)
    ex.shutdown(wait=False)

    for (nt, limit, kind), fut in zip(vm_plans, f_vm):
        res = fut.result()
        if not res.ok:
            ctx.machinery("reference spec TemplateVM (NT=%d Limit=%d) violates %s %s — a defect of the specification\n%s"
                          % (nt, limit, res.kind, res.name, res.out[-1500:]))
        states += res.distinct
        trans += res.generated
        vm_cases.extend(res.emitted)
        ctx.note("TemplateVM NT=%d Limit=%d" % (nt, limit) + (" " + kind if kind else "") + ": %d states, %d terminal behaviours, TLC %.0fs" % (res.distinct, len(res.emitted), res.wall))
        res.out = ""
    cov = f_cov.result()
    cov2 = f_cov2.result()
    for a, v in cov2.coverage.items():
        w = cov.coverage.setdefault(a, [0, 0])
        cov.coverage[a] = [w[0] + v[0], w[1] + v[1]]
    cov.ok = cov.ok and cov2.ok
    missing = tlc.uncovered_actions(cov, VM_ACTIONS)
    if not cov.ok or missing:
        ctx.machinery("TemplateVM coverage run: ok=%s, actions never taken: %s" % (cov.ok, missing))
    nonvac = {}
    for (label, kw, want), fut in zip(nv_plans, f_nv):
        r = fut.result()
        nonvac[label] = [r.kind, r.name]
        if (r.kind, r.name) != want:
            ctx.machinery("non-vacuity: %s did not violate %s (got %s %s)" % (label, want[1], r.kind, r.name))
    t_lap = time.time()
    nforms_seed = (2 if quick else len(WRAP_FORMS), ctx.seed)
    n_vm, bad = pool_run(ctx, _vm_worker, [(i, vm_cases[i::ctx.ncpu * 4], root, nforms_seed) for i in range(ctx.ncpu * 4) if vm_cases[i::ctx.ncpu * 4]])
    if n_vm != len(vm_cases):
        ctx.machinery("replayed %d of %d behaviours" % (n_vm, len(vm_cases)))
    allbad.extend(bad)
    ctx.note("TemplateVM replay: %d behaviours in %.0fs" % (n_vm, time.time() - t_lap))
    deep = sum(1 for c in vm_cases if any(k > 2 for _, k in c["log"]))
    hit_limit = sum(1 for c in vm_cases if any(k == c["limit"] + 1 for _, k in c["log"]) or
                    (len(c["out"]) < sum(1 for x in c["page"] if x == "a")))

    if os.environ.get("VERIF_C03_ONLY") == "vm":          # development aid: the recursion-guard part alone
        for key, what, rep in sorted(allbad)[:25]:
            ctx.violation(key, what, rep)
        ctx.set_cover(evaluations=n_vm, distinct_nontrivial=deep, rule="development run: recursion guard only", states=states, transitions=trans)
        ctx.sample(vm_cases[0])
        return
    # ---- 2. magic words / parser functions
    n_calls = 0
    names_total = 0
    samples = []
    for li, lang in enumerate(langs):
        names = tables[lang]
        names_total += len(names)
        res = f_calls[lang].result()
        if not res.ok:
            ctx.machinery("spec MagicCalls (%s) violates %s %s\n%s" % (lang, res.kind, res.name, res.out[-1200:]))
        states += res.distinct
        trans += res.generated
        cases = res.emitted
        res.out = ""
        # interleave so that slow names are spread over the workers
        nj = ctx.ncpu * 12      # many small interleaved jobs: slow cases (oversize text, long loops) spread over the workers
        jobs = [(i, lang, names, cases[i::nj], root) for i in range(nj) if cases[i::nj]]
        t_lap = time.time()
        n, bad = pool_run(ctx, _call_worker, jobs)
        ctx.note("MagicCalls %s executed in %.0fs" % (lang, time.time() - t_lap))
        if n != len(cases):
            ctx.machinery("executed %d of %d calls" % (n, len(cases)))
        n_calls += n
        allbad.extend(bad)
        ctx.note("MagicCalls %s: %d names, %d calls, %d disagreements, TLC %.0fs" % (lang, len(names), n, len(bad), res.wall))
        if cases and len(samples) < 3:
            c = cases[len(cases) // 2]
            samples.append({"lang": lang, "call": call_text(names[c["n"] - 1], c["s"])[:200]})

    # ---- 3. junk over the template alphabet
    res = f_time.result()
    if not res.ok:
        ctx.machinery("spec MagicCalls (time) failed: %s %s" % (res.kind, res.name))
    states += res.distinct
    trans += res.generated
    tcases = res.emitted
    nj = ctx.ncpu * 4
    n_time, bad = pool_run(ctx, _time_worker, [(i, "en", tfns, formats, tcases[i::nj], root) for i in range(nj) if tcases[i::nj]])
    if n_time != len(tcases):
        ctx.machinery("executed %d of %d #time cases" % (n_time, len(tcases)))
    allbad.extend(bad)
    ctx.note("MagicCalls time: %d date/time names (%d take a format) x (no format + %d codes x 2 prefixes) x %d date shapes = %d calls, %d disagreements"
             % (len(tfns), nfmt, len(formats), len({"".join(c["date"]) for c in tcases}), n_time, len(bad)))

    res = f_junk.result()
    if not res.ok or tlc.uncovered_actions(res, ["Hand"]):
        ctx.machinery("spec MagicCalls (junk) failed: %s %s" % (res.kind, res.name))
    states += res.distinct
    trans += res.generated
    junk = res.emitted
    t_lap = time.time()
    nj = ctx.ncpu * 6
    n_junk, bad = pool_run(ctx, _junk_worker, [(i, junk[i::nj], root) for i in range(nj) if junk[i::nj]])
    ctx.note("junk executed in %.0fs" % (time.time() - t_lap))
    ctx.note("MagicCalls junk: %d sequences (%d repeated 3000 times), %d disagreements" % (len(junk), sum(1 for j in junk if j["rep"] > 1), len(bad)))
    if n_junk != 2 * len(junk):
        ctx.machinery("executed %d of %d junk cases" % (n_junk, 2 * len(junk)))
    allbad.extend(bad)

    classes = {}
    for key, _, _ in allbad:
        k = " ".join(key.split(" ")[:3])
        classes[k] = classes.get(k, 0) + 1
    for k in sorted(classes):
        ctx.note("disagreement class: %s x%d" % (k, classes[k]))
    allbad.sort(key=lambda b: (len(b[0]), b[0]))
    unknown = 0
    for key, what, rep in allbad:
        if unknown < 25 and ctx.violation(key, what, rep):       # replay files for the 25 shortest unknown ones
            unknown += 1
    ctx.set_cover(evaluations=n_vm + n_calls + n_junk + n_time,
                  distinct_nontrivial=deep + n_calls + n_junk + n_time, time_calls=n_time,
                  states=states, transitions=trans, traces_validated_against_impl=n_vm,
                  recursion_behaviours=n_vm, recursion_behaviours_nesting_deeper_than_2=deep,
                  recursion_behaviours_hitting_the_limit=hit_limit,
                  magic_calls=n_calls, magic_names=names_total, junk_cases=n_junk, disagreements=len(allbad),
                  action_coverage={a: cov.coverage[a] for a in VM_ACTIONS}, nonvacuity=nonvac, exhaustive=False,
                  rule="(1) every terminal behaviour of TemplateVM.tla (all call graphs on NT templates with bodies of <= 2 items, 33 pages (3 pages for NT=3), "
                       "Limit in {2,3,4}, and with doubling calls / block arguments at Limit 10; plans %r as (NT, Limit, alphabet: g = doubling arguments, pf = calls inside parser-function branches, each replayed with forms of #ifexpr/#if/#ifeq/#switch/#iferror: 2 of 7 rotating in quick, all 7 in thorough)) replayed on the real Expander — non-trivial = nesting deeper than 2; (2) every call "
                       "TLC enumerates from MagicCalls.tla over the name table generated from the running code for sites %r (24 shapes = 10 base + oversize "
                       "+ 13 'arithmetic at the edges'; arity 0..1 complete; arity 2 / 3: for every function of >= 2 arguments (introspected) an all-pairs covering design "
                       "(base square / orthogonal array over the base shapes, every heavy shape in every position against every critical shape empty/zero/negative/huge), "
                       "each-choice for the other names; thorough adds the product thinned by strides en 1 / 20, other sites 8 / 100) — each is a distinct (name, shapes) input; (3) every "
                       "sequence of <= 3 lexemes over the 23-lexeme template alphabet (those of <= 2 lexemes also repeated 3000 times), as page and as "
                       "template body; (4) every date/time name of the site (table from the running code; #time and aliases with every format code of "
                       "found by probing {{#time:<letter>}}, alone and behind 'xr', and without format) x the date-shape class of MagicCalls.tla (digit-string "
                       "readings and ISO forms with one field at a boundary / first out-of-range value, digit runs of length 1..14, 40, 400, "
                       "relative words, unix stamps, garbage, empty, none)" % (vm_plans, langs))
    for c in vm_cases[:: max(1, len(vm_cases) // 2)][:2]:
        ctx.sample({"univ": c["univ"], "page": c["page"], "limit": c["limit"], "predicted_out": c["out"], "predicted_lookups": c["log"]})
    for s in samples:
        ctx.sample(s)
    if junk:
        ctx.sample({"junk": "".join(junk[len(junk) // 3]["lex"])})
    ctx.assume("proportionality is measured, not modelled: output <= %d*len(arguments)+%d, call events and peak traced allocation "
               "of an inflated call <= %dx its small twin (floor %d events) resp. twin + max(%d bytes, %d per argument character)" % (OUT_C, OUT_K, STEP_RATIO, STEP_FLOOR, MEM_FLOOR, MEM_PER_CHAR),
               "sys.setprofile call/c_call events and tracemalloc peaks are deterministic for a given input",
               "the huge number is 300000 and the exponent 1e5000000 (large enough to show disproportion, small enough not to exhaust the sandbox)",
               "the wiki database is a production archive (FsOutput + nuwiki.Adapt)")


def replay(ctx, path):
    with open(path) as f:
        rec = json.load(f)
    rp = rec["replay"]
    from harness import templwiki
    templwiki.quiet_logging()
    root = os.path.join(ctx.scratch, "replay")
    os.makedirs(root, exist_ok=True)
    if rp["kind"] == "vm":
        n, bad = _vm_worker((0, [rp["case"]], root))
    elif rp["kind"] == "junk":
        n, bad = _junk_worker((0, [{"lex": rp["lex"], "rep": rp.get("rep", 1)}], root))
    elif rp["kind"] == "time":
        formats = format_table(templwiki.make_wikidb(os.path.join(root, "probe"), {"Lc": "x"}))
        lang = rp.get("lang", "en")
        n, bad = _time_worker((0, lang, [rp["fn"]], formats, [{"fn": 1, "f": formats.index(rp["f"]) + 1 if rp["f"] else 0,
                                                                 "pre": rp["pre"], "date": rp["date"]}], root))
    else:
        names = name_table(rp["lang"])
        n, bad = _call_worker((0, rp["lang"], names, [{"n": names.index(rp["name"]) + 1, "s": rp["shapes"], "twin": rp["twin"]}], root))
    for key, what, rep in bad:
        ctx.violation(key, what, rep)
    if not bad:
        print("replay: case now agrees with the specification")
