"""C01 — parsing is total: any wikitext yields an article tree, never an exception, polynomial time.

P-ENUM:  spec/WikiTokens.tla makes the input space explicit (sequences over the full lexeme
         alphabet with a nesting counter <= 40).  TLC enumerates every sequence of <= 2 lexemes
         over the Full alphabet (quick and thorough), every sequence of <= 3 over the Structural
         alphabet (thorough) and `-simulate` behaviours of length 10 / 30 / 60 over Markup.
P-TRACE: every text is parsed through the entry the renderer uses
         (uparser.parse_string(title, raw, wikidb, lang), cf. nuwiki.Adapt.get_parsed_article) in
         three modes — without a database, with the production database (nuwiki.Adapt over an
         archive written by fetch.FsOutput), and as the body of a template page the article
         calls — for a rotating (quick) / every (thorough) bundled language.  A recorder on the
         module-level seams logs frame / stage events; TLC validates every distinct event trace
         against spec/ParsePipeline.tla: a trace that ends in `raise` violates Total, a trace
         with a skipped / reordered stage or an unfinished frame deadlocks.
Growth:  (measured by the harness on spec-generated texts, see DESIGN §8) every selected text s
         is pumped — s^n, open s^n close, (open s)^n close^n, n doubling within the nesting bound
         the spec's counter allows — and the deterministic call count (sys.monitoring PY_START +
         CALL events) must grow no faster than n^3 (ratio test with margin 1.5).
"""
import hashlib
import json
import math
import os
import random
import time
from concurrent.futures import ThreadPoolExecutor

from harness import tlc
from harness import wikitext as W
from harness.common import chunks

PROPERTY = "C01"
LEVEL = "exploration"

GEN_CFG = """SPECIFICATION Spec
CONSTANTS Alphabet = "%(alpha)s"
 MaxLen = %(k)d
 MaxNest = 40
 EmitFrom = %(emit)d
INVARIANTS TypeOK NestBounded %(laws)s EmitSeq
CHECK_DEADLOCK FALSE
"""
FAULT_CFG = """SPECIFICATION Spec
INVARIANTS EditLaws SkeletonsBalanced EmitCase
CHECK_DEADLOCK FALSE
"""
PIPE_MC = """SPECIFICATION Spec
CONSTANTS MaxDepth = 4
 AllowRaise = %s
INVARIANTS TypeOK Total WellNested ReturnedMeansDone
CHECK_DEADLOCK FALSE
"""
PIPE_TRACE = """SPECIFICATION TraceSpec
CONSTANTS MaxDepth = 0
 AllowRaise = FALSE
INVARIANTS TypeOK Total WellNested ReturnedMeansDone
CHECK_DEADLOCK TRUE
"""
MODES = ("nodb", "db", "tpl")
WATCHDOG = 30.0             # seconds per parse of a short text (normal: ~1 ms)
PUMP_WATCHDOG = 200.0       # seconds per pumped parse (normal: < 1 s), in-process (Python-level loops)
MIN_DEADLINE = 20.0         # hard parent-side deadline per pumped parse: max(this, 50 x median of the smaller n)
MAX_HANGS = 2               # per worker job
MAXNEST = 40
DEGREE = 3
MARGIN = 1.5
WRAPPERS = [("<div>", "</div>"), ("{|\n|", "\n|}"), ("[[a|", "]]"), ("'''", "'''"), ("<ref>", "</ref>"),
            ("{{Echo|", "}}"), ("<gallery>\n", "\n</gallery>"), ("* ", "\n"), ("<b>", "</b>"), ("== ", " ==\n")]


# ----------------------------------------------------------------------------- generation
def generate(ctx, alpha, k, simulate=None, seed=None, emit_from=0, name=None, laws=True):
    cfg = GEN_CFG % {"alpha": alpha, "k": k, "emit": emit_from,
                     "laws": "CounterIsBalance AlphabetsNested" if laws else ""}
    kw = dict(simulate=simulate, depth=k + 1, seed=seed, workers=1) if simulate else {}
    r = tlc.run(ctx, "WikiTokens", cfg, name=name or "gen-%s-%d" % (alpha, k), deadlock=False,
                timeout=3000, heap="8g", **kw)
    if not r.ok:
        ctx.machinery("WikiTokens (%s, %d) failed: %s %s\n%s" % (alpha, k, r.kind, r.name, r.out[-1200:]))
    head = [e for e in r.emitted if "alphabet" in e]
    if not head:
        ctx.machinery("WikiTokens did not print its alphabet")
    W.check_alphabet(ctx, head[0]["alphabet"], complete=(alpha == "full"))
    cases = [(e["s"], e["net"], e["peak"]) for e in r.emitted if "s" in e]
    return r, head[0], cases


# ----------------------------------------------------------------------------- execution
def tree_is_structured(art):
    from mwlib.parser import nodes
    plain = (nodes.Article, nodes.Paragraph, nodes.Text, nodes.Node)
    todo = [art]
    while todo:
        n = todo.pop()
        if type(n) not in plain:
            return True
        todo.extend(n.children or [])
    return False


def storable(text):
    """Can the text be the body of a page of an archive?  (lone surrogates cannot be written as
    UTF-8, and the archive's own page separator would split the page: C14's business)"""
    try:
        text.encode("utf-8")
    except UnicodeEncodeError:
        return False
    return "\n --page-- " not in text


def _parse_worker(args):
    job, lang, cases, scratch, tplmod, modes = args
    rec = W.Recorder.install()
    pages = {}
    for cid, atoms in cases:
        text = W.concretise(atoms)
        if storable(text):
            pages["Template:X%d" % cid] = text
    db = W.build_wikidb(os.path.join(scratch, "db-%d" % job), lang, pages)
    traces = {}            # trace json -> [count, sample (cid, mode)]
    crashes = []           # (cid, mode, lang, key, repr)
    hangs = []
    structured = []
    nparse = 0
    for cid, atoms in cases:
        if len(hangs) >= MAX_HANGS:
            break                      # the violation is established; do not wait 30 s per remaining text
        text = W.concretise(atoms)
        for mode in modes:
            if mode == "tpl":
                if "Template:X%d" % cid not in pages or (tplmod and cid % tplmod[0] != tplmod[1] and len(atoms) > 1):
                    continue
                raw, wdb = "{{X%d|a|k=v}}" % cid, db
            else:
                raw, wdb = text, (db if mode == "db" else None)
            try:
                with W.watchdog(WATCHDOG):
                    ev, art, exc = rec.run(raw, wdb, lang)
            except W.Hang:
                hangs.append((cid, mode, lang))
                continue
            nparse += 1
            key = json.dumps(ev, separators=(",", ":"))
            t = traces.get(key)
            if t is None:
                traces[key] = [1, [cid, mode, lang]]
            else:
                t[0] += 1
            if exc is not None:
                crashes.append((cid, mode, lang, W.crash_key("parse_string", exc), repr(exc)[:300], key))
            elif mode == "nodb" and tree_is_structured(art):
                structured.append(cid)
    import shutil
    shutil.rmtree(os.path.join(scratch, "db-%d" % job), ignore_errors=True)
    return traces, crashes, hangs, structured, nparse


def execute(ctx, plan, tplmod=None, modes=MODES):
    """plan: list of (lang, [(cid, atoms)]); tplmod (m, r): template-body mode only for texts with
    cid % m == r (and all single lexemes)."""
    jobs = []
    for lang, cases in plan:
        for ch in chunks(cases, max(1, min(ctx.ncpu * 2, len(cases) // 400 + 1))):
            if ch:
                jobs.append((len(jobs), lang, ch, ctx.scratch, tplmod, modes))
    traces = {}
    crashes, hangs, structured = [], [], set()
    nparse = 0
    for tr, cr, hg, st, n in W.pmap(ctx, _parse_worker, jobs):
        for k, (cnt, sample) in tr.items():
            t = traces.get(k)
            if t is None:
                traces[k] = [cnt, sample]
            else:
                t[0] += cnt
        crashes += cr
        hangs += hg
        structured.update(st)
        nparse += n
    return traces, crashes, hangs, structured, nparse


# ----------------------------------------------------------------------------- TLC on the stage traces
def validate_traces(ctx, keys, name="pipe"):
    """keys: list of trace-json strings.  Returns (raised: set of indices, malformed: {index: event no},
    distinct states, transitions)."""
    batch = [json.loads(k) for k in keys]
    alive = list(range(len(batch)))
    malformed = {}
    for _ in range(12):
        p = os.path.join(ctx.scratch, "%s.json" % name)
        with open(p, "w") as f:
            json.dump([batch[i] for i in alive], f, separators=(",", ":"))
        r = tlc.run(ctx, "ParsePipelineTrace", PIPE_TRACE, name=name, env={"TRACE_FILE": p}, continue_=True,
                    workers=4, heap="4g", timeout=1200)
        if r.kind == "deadlock":
            st = r.trace[-1][1]
            i = alive[int(st["tid"]) - 1]
            malformed[i] = int(st["l"])
            alive.remove(i)
            if not alive:
                return set(), malformed, 0, 0
            continue
        if not (r.ok or r.kind == "invariant"):
            ctx.machinery("trace validation of the pipeline failed: %s %s\n%s" % (r.kind, r.name, r.out[-1500:]))
        if r.kind == "invariant" and r.name != "Total":
            ctx.machinery("recorded pipeline trace violates %s: the recorder or the spec is wrong\n%s"
                          % (r.name, r.out[-1500:]))
        raised = {alive[t - 1] for t in W.violating_tids(r, "Total")}
        expect = sum(len(batch[i]) + 1 for i in alive)
        if r.distinct != expect:
            ctx.machinery("state count mismatch: TLC found %d distinct states, the traces have %d" % (r.distinct, expect))
        return raised, malformed, r.distinct, r.generated
    ctx.machinery("more than ten malformed pipeline traces")


# ----------------------------------------------------------------------------- growth
def pump_series(atoms, net, peak, idx):
    """[(series name, mode, [(n, text)])] within the nesting bound."""
    s = W.concretise(atoms)
    if not s:
        return []
    o, c = WRAPPERS[idx % len(WRAPPERS)]

    def sizes(extra):
        if net == 0:
            return [25, 50, 100, 200] if peak + extra <= MAXNEST else []
        nmax = (MAXNEST - peak - extra) // net + 1
        ns = sorted({nmax // 8, nmax // 4, nmax // 2, nmax})
        return [n for n in ns if n >= 2]
    out = []
    ns = sizes(0)
    if len(ns) >= 3:
        out.append(("flat", "db", [(n, s * n) for n in ns]))
    ns = sizes(1)
    if len(ns) >= 3:
        out.append(("wrapped %r" % o, "nodb", [(n, o + s * n + c) for n in ns]))
    if net == 0 and peak + 10 <= MAXNEST:
        top = MAXNEST - peak
        ns = sorted({top // 8, top // 4, top // 2, top})
        out.append(("nested %r" % o, "db" if idx % 2 else "nodb", [(n, (o + s) * n + c * n) for n in ns if n >= 2]))
    return out


def _pump_child(chunk, start_at, send):
    """Runs in a supervised child (harness/wikitext.supervised): measures the series of the chunk one
    by one.  Before every parse it announces a hard deadline — 50 x the median wall time of the
    smaller n of the same series, at least MIN_DEADLINE seconds — which the PARENT enforces by
    killing this process: a regular expression that backtracks inside C code makes no Python call
    (invisible to the call counter) and cannot be interrupted by a signal handler."""
    job, lang, scratch, series_list = chunk
    W.quiet()
    path = os.path.join(scratch, "pdb-%d-%d" % (job, start_at))
    db = W.build_wikidb(path, lang)
    counter = W.CallCounter()
    try:
        for si in range(start_at, len(series_list)):
            key, sname, mode, series = series_list[si]
            counts = []
            walls = []
            verdict = None
            for n, text in series:
                limit = None
                if counts:
                    pn, pc = counts[-1]
                    limit = int(pc * (n / pn) ** DEGREE * MARGIN * 4) + 100000
                deadline = MIN_DEADLINE
                if walls:
                    deadline = max(MIN_DEADLINE, 50 * sorted(walls)[len(walls) // 2])
                send(("start", si, deadline, n))
                t0 = time.time()
                try:
                    with W.watchdog(PUMP_WATCHDOG):
                        c = counter.measure(lambda: W.parse(text, db if mode == "db" else None, lang), limit=limit)
                except W.Budget:
                    verdict = "call count at n=%d exceeds %d (4 x the cubic bound extrapolated from n=%d: %d calls)" % (
                        n, limit, counts[-1][0], counts[-1][1])
                    break
                except W.Hang:
                    verdict = "no result within %ds at n=%d" % (PUMP_WATCHDOG, n)
                    break
                except Exception as e:                               # noqa: BLE001
                    verdict = "raises " + W.crash_key("parse_string", e)
                    break
                walls.append(time.time() - t0)
                counts.append((n, c))
            if verdict is None:
                for (n1, c1), (n2, c2) in zip(counts, counts[1:]):
                    if c2 > c1 * (n2 / n1) ** DEGREE * MARGIN:
                        verdict = "calls grow faster than n^%d: %r" % (DEGREE, counts)
                        break
            send(("result", si, (counts, verdict), None))
    finally:
        import shutil
        shutil.rmtree(path, ignore_errors=True)


def zone_series(zones, units):
    """Character-level pumping inside a zone: prefix + unit^n + suffix."""
    out = []
    for zi, z in enumerate(sorted(zones)):
        for ui, u in enumerate(sorted(units)):
            out.append((["zone", z, u], "zone %s unit %s" % (z, u), "db" if (zi + ui) % 2 else "nodb",
                        [(n, W.zone_text(z, u, n)) for n in W.ZONE_SIZES]))
    return out


def digit_series(dzones):
    """Pumping the digits of a numeric value in context: 1, 11, 111, 1111 — with and without a database."""
    out = []
    for z in sorted(dzones):
        for mode in ("nodb", "db"):
            out.append((["digits", z], "digits %s" % z, mode, [(n, W.digit_text(z, n)) for n in W.DIGIT_SIZES]))
    return out


def pump_all(ctx, series_list, lang):
    """series_list: [(key, series name, mode, [(n, text)])] -> [(key, sname, mode, counts, verdict)]"""
    if not series_list:
        return []
    W.quiet()
    from mwlib.parser.refine import uparser  # noqa: F401  (imported before forking from threads)
    from mwlib.core import wiki  # noqa: F401
    from mwlib.network import fetch  # noqa: F401
    parts = [ch for ch in chunks(series_list, ctx.ncpu * 3) if ch]
    jobs = [(i, lang, ctx.scratch, ch) for i, ch in enumerate(parts)]
    out = []
    for cn, kind, idx, payload in W.supervised(ctx, _pump_child, jobs):
        if kind == "skipped":
            continue
        key, sname, mode, series = parts[cn][idx]
        if kind == "killed":
            deadline, n = payload
            out.append((key, sname, mode, [], "no result within the hard deadline of %.0f s at n=%s (>= 50 x the median of the "
                        "smaller n of the series); the worker was killed from outside" % (deadline, n)))
        else:
            counts, verdict = payload
            out.append((key, sname, mode, counts, verdict))
    return out


def _series_text(key):
    if key[0] == "zone":
        return W.zone_text(key[1], key[2], 3) + " ..."
    if key[0] == "digits":
        return W.digit_text(key[1], 3) + " ..."
    return W.concretise(key[2])[:60]


def _growth_key(key, sname, verdict):
    if verdict.startswith("raises "):
        return verdict[len("raises "):]          # crash key: entry point, exception class, innermost mwlib frame
    if key[0] == "zone":
        return "growth zone=%s unit=%s" % (key[1], key[2])
    if key[0] == "digits":
        return "growth digits zone=%s" % key[1]
    return "growth %s atoms=%s" % (sname.split(" ")[0], json.dumps(key[2]))


# ----------------------------------------------------------------------------- the check
def report_crash(ctx, atoms, mode, lang, key, what):
    ctx.violation(key, "parse_string(%r) [%s, lang=%s]: %s" % (W.concretise(atoms)[:120], mode, lang, what),
                  {"kind": "crash", "atoms": atoms, "mode": mode, "lang": lang})


def run(ctx):
    quick = ctx.tier == "quick"
    rnd = random.Random(ctx.seed)
    t0 = time.time()
    # ---- the reference pipeline machine
    r = tlc.run(ctx, "ParsePipeline", PIPE_MC % "FALSE", name="pipe-mc", coverage=True, timeout=600)
    if not r.ok:
        ctx.machinery("reference spec ParsePipeline violates %s %s" % (r.kind, r.name))
    cov = W.coverage_of(r)
    missing = [a for a in ("BeginAny", "Stage", "End") if cov.get(a, [0, 0])[1] == 0]
    if missing:
        ctx.machinery("actions never taken in ParsePipeline: %s" % missing)
    mc_states, mc_trans = r.distinct, r.generated
    nv = tlc.run(ctx, "ParsePipeline", PIPE_MC % "TRUE", name="pipe-nv", timeout=300)
    if not (nv.kind == "invariant" and nv.name == "Total"):
        ctx.machinery("non-vacuity: a raising stage did not violate Total (%s %s)" % (nv.kind, nv.name))
    # ---- the input space
    rc = tlc.run(ctx, "WikiTokens", GEN_CFG % {"alpha": "core", "k": 2, "emit": 9, "laws": "CounterIsBalance AlphabetsNested"},
                 name="gen-cov", deadlock=False, coverage=True, timeout=300)
    gcov = W.coverage_of(rc)
    if not rc.ok or gcov.get("Append1", [0, 0])[1] == 0:
        ctx.machinery("WikiTokens: action Append1 (Extend) never taken on the coverage configuration")
    cov["WikiTokens.Append1"] = gcov["Append1"]
    gens = [("full", 2), ("extbody", 1)] + ([] if quick else [("structural", 3)])
    sims = [(150, 10), (150, 30), (100, 60)] if quick else [(2000, 10), (2000, 30), (1000, 60)]
    cases = []             # (atoms, net, peak, group)
    sizes = {}
    heads = {}
    gen_states = 0
    with ThreadPoolExecutor(3) as ex:
        futs = [(a, k, ex.submit(generate, ctx, a, k)) for a, k in gens]
        sfuts = [ex.submit(generate, ctx, "markup", d, simulate=n, seed=ctx.seed * 100 + i, emit_from=d,
                           name="sim-%d" % i, laws=False) for i, (n, d) in enumerate(sims)]
        seen = set()
        for a, k, f in futs:
            gr, head, cs = f.result()
            gen_states += gr.distinct
            sizes["%s<=%d" % (a, k)] = [len(head["alphabet"]), len(cs)]
            heads[a] = head
            for s, net, peak in sorted(cs):          # TLC's BFS order depends on thread timing; ours must not
                t = tuple(s)
                if t not in seen:
                    seen.add(t)
                    cases.append((s, net, peak, "%s%d" % (a, len(s))))
        nsim = 0
        for f in sfuts:
            _, _, cs = f.result()
            nsim += len(cs)
            cases += [(s, net, peak, "sim") for s, net, peak in sorted(cs)]
        sizes["simulated"] = nsim
    for s, net, peak, g in cases:
        if peak > MAXNEST:
            ctx.machinery("WikiTokens generated a text above the nesting bound")
    # ---- which texts, which languages
    struct = set(heads["full"]["structural"])
    langsens = set(heads["full"]["langsensitive"])
    plan = {l: [] for l in W.LANGS}
    nl = len(W.LANGS)
    selected = 0
    for cid, (s, net, peak, g) in enumerate(cases):
        if quick:
            # all single lexemes, all structural pairs, a rotating eighth of the other pairs, the long ones
            if not (len(s) <= 1 or g == "sim" or all(x in struct for x in s) or cid % 8 == ctx.seed % 8):
                continue
            langs = [W.LANGS[(cid + ctx.seed) % nl]]
        elif g in ("structural3", "sim"):
            langs = [W.LANGS[(cid + ctx.seed) % nl]]
        elif any(x in langsens for x in s):
            langs = W.LANGS
        else:
            langs = [W.LANGS[(cid + ctx.seed + j) % nl] for j in (0, 5)]
        selected += 1
        for l in langs:
            plan[l].append((cid, s))
    t1 = time.time()
    traces, crashes, hangs, structured, nparse = execute(ctx, sorted(plan.items()), tplmod=(4, ctx.seed % 4) if quick else None)
    ctx.note("generation %.0fs, %d parses in %.0fs" % (t1 - t0, nparse, time.time() - t1))
    # ---- third family: well-formed document x one fault (spec/WikiFaults.tla)
    t1 = time.time()
    rf = tlc.run(ctx, "WikiFaults", FAULT_CFG, name="faults", deadlock=False, timeout=1200)
    if not rf.ok:
        ctx.machinery("WikiFaults.tla failed: %s %s\n%s" % (rf.kind, rf.name, rf.out[-1200:]))
    faults = sorted((e for e in rf.emitted if "kind" in e), key=lambda e: (e["sk"], e["kind"], e["pos"], e["lex"]))
    if not faults or len(faults) != rf.distinct:
        ctx.machinery("WikiFaults.tla emitted %d cases for %d states" % (len(faults), rf.distinct))
    gen_states += rf.distinct
    fplan = {l: [] for l in W.LANGS}
    nfault = 0
    fbase = len(cases)
    import zlib
    for e in faults:
        # quick: every document, delete, duplicate and swap; a third of the inserted lexemes per position, rotating with the seed
        if quick and e["kind"] == "insert" and (zlib.crc32(e["lex"].encode()) + e["pos"] + e["sk"] + ctx.seed) % 3:
            continue
        cid = len(cases)
        cases.append((e["s"], 0, 0, "fault"))
        fplan[W.LANGS[(cid + ctx.seed) % nl]].append((cid, e["s"]))
        nfault += 1
    ftr, fcr, fhg, fst, fn = execute(ctx, sorted(fplan.items()), modes=("nodb", "db"))
    for k, (cnt, sample) in ftr.items():
        if k in traces:
            traces[k][0] += cnt
        else:
            traces[k] = [cnt, sample]
    crashes += fcr
    hangs += fhg
    structured |= fst
    nparse += fn
    sizes["well-formed documents x one fault"] = {"generated": len(faults), "parsed": nfault}
    ctx.note("faults: %d of %d one-edit documents, %d parses in %.0fs" % (nfault, len(faults), fn, time.time() - t1))
    # ---- TLC decides every distinct stage trace
    keys = sorted(traces)
    raised, malformed, tstates, ttrans = validate_traces(ctx, keys)
    raise_keys = {keys[i] for i in raised}
    for cid, mode, lang, key, what, tkey in crashes:
        if len(ctx.violations) >= 40:
            break
        if tkey not in raise_keys:
            ctx.machinery("a parse raised (%s) but TLC accepted its trace" % key)
        report_crash(ctx, cases[cid][0], mode, lang, key, what)
    if len(raise_keys) and not crashes:
        ctx.machinery("TLC rejected traces without a recorded exception")
    for i, at in malformed.items():
        cid, mode, lang = traces[keys[i]][1]
        ev = json.loads(keys[i])
        bad = ev[at - 1] if at <= len(ev) else ["<end of trace>", ""]
        if bad[0] == "end" and bad[1].startswith("article!"):
            ctx.violation("parse_string returns %s" % bad[1][len("article!"):],
                          "parse_string(%r) [%s] returned a %s, not an Article" % (W.concretise(cases[cid][0])[:120], mode, bad[1][8:]),
                          {"kind": "crash", "atoms": cases[cid][0], "mode": mode, "lang": lang})
        elif not hangs:
            # a pass added / removed / reordered is not a violation of totality: the stage list of
            # ParsePipeline.tla (or the recorder) no longer describes the code
            ctx.machinery("recorded stage trace is not a behaviour of ParsePipeline.tla at event %d %r (after %r) for %r [%s]: "
                          "the stage machine or the recorder is out of date"
                          % (at, bad, ev[max(0, at - 3):at - 1], W.concretise(cases[cid][0])[:80], mode))
    for cid, mode, lang in hangs:
        ctx.violation("parse_string hang %s atoms=%s" % (mode, json.dumps(cases[cid][0])),
                      "no result within %ds (normal: ~1 ms)" % WATCHDOG,
                      {"kind": "hang", "atoms": cases[cid][0], "mode": mode, "lang": lang})
    # ---- growth
    singles = [(cid, c) for cid, c in enumerate(cases) if c[3] in ("full1",)]
    pairs = [(cid, c) for cid, c in enumerate(cases) if c[3] == "full2"]
    spairs = [(cid, c) for cid, c in pairs if all(x in struct for x in c[0])] if not quick else []
    pumpcore = set(heads["full"]["pumpcore"])
    sample = ([(cid, c) for cid, c in pairs if all(x in pumpcore for x in c[0])] if quick
              else rnd.sample(pairs, min(len(pairs), 1500)))
    longs = [(cid, c) for cid, c in enumerate(cases) if c[3] == "sim"]
    longs = rnd.sample(longs, min(len(longs), 20 if quick else 200))
    chosen = {cid: c for cid, c in singles + spairs + sample + longs}
    items = [(cid, c[0], c[1], c[2]) for cid, c in sorted(chosen.items())]
    rnd.shuffle(items)
    t2 = time.time()
    W.check_zones(ctx, heads["full"]["zones"], heads["full"]["units"], heads["full"]["digitzones"])
    series_list = []
    for idx, atoms, net, peak in items:
        for sname, mode, series in pump_series(atoms, net, peak, idx):
            series_list.append((["lex", idx, atoms, net, peak], sname, mode, series))
    zs = zone_series(heads["full"]["zones"], heads["full"]["units"])
    series_list += zs
    ds = digit_series(heads["full"]["digitzones"])
    series_list += ds
    random.Random(ctx.seed).shuffle(series_list)
    if hangs:
        ctx.note("parses hang: the growth measurements are skipped (every pumped text would wait for its deadline)")
        series_list = []
    pumped = pump_all(ctx, series_list, W.LANGS[ctx.seed % len(W.LANGS)])
    ctx.note("growth: %d series (%d texts, %d zone x unit) measured in %.0fs" % (len(series_list), len(items), len(zs), time.time() - t2))
    nseries = nmeasured = 0
    for key, sname, mode, counts, verdict in pumped:
        nseries += 1
        nmeasured += len(counts)
        if verdict:
            what = "%s series of %r (%s): %s" % (sname, _series_text(key), mode, verdict)
            ctx.violation(_growth_key(key, sname, verdict), what,
                          {"kind": "growth", "key": key, "series": sname, "mode": mode, "counts": counts})
    ctx.set_cover(evaluations=nparse + nmeasured, distinct_nontrivial=len(structured), exhaustive=True,
                  texts=len(cases), texts_parsed=selected, parses=nparse, enumerated=sizes, languages=len(W.LANGS),
                  distinct_stage_traces=len(keys), raising_stage_traces=len(raise_keys),
                  traces_validated_against_impl=sum(t[0] for t in traces.values()),
                  states=mc_states + gen_states + tstates, transitions=mc_trans + ttrans,
                  pumped_texts=len(items), pump_series=nseries, zone_unit_series=len(zs), digit_series=len(ds), pump_measurements=nmeasured,
                  action_coverage=cov, nonvacuity={"AllowRaise": [nv.kind, nv.name]},
                  rule="every one-edit variant WikiFaults.tla generates of its 24 well-formed documents (insert a Structural lexeme / "
                       "delete / duplicate / swap at every position; quick: a third of the inserts, rotating) and "
                       "every sequence WikiTokens.tla generates (%s; %d simulated of 10/30/60 lexemes over Markup; nesting "
                       "counter <= 40) is parsed with uparser.parse_string without a database, with the production "
                       "database and as a template body, for %s; each parse's stage trace is validated by TLC against "
                       "ParsePipeline.tla; distinct non-trivial = distinct texts whose tree (no database) contains a node "
                       "other than Article/Paragraph/Node/Text; growth: %d texts pumped in %d series incl. every zone x unit of WikiTokens.tla (n = 8..64)"
                       % (", ".join("%s: %d lexemes, %d sequences" % (k, v[0], v[1]) for k, v in sizes.items() if isinstance(v, list)),
                          nsim, "one rotating language per text (quick: all single lexemes, all Structural pairs, a rotating eighth of the other pairs)" if quick
                          else "all 12 bundled languages for texts with a language-sensitive lexeme, two rotating ones otherwise, one for 3-lexeme and long texts",
                          len(items), nseries))
    for cid in sorted(structured)[:: max(1, len(structured) // 3)][:3]:
        ctx.sample({"atoms": cases[cid][0], "text": W.concretise(cases[cid][0]), "net": cases[cid][1], "peak": cases[cid][2]})
    if keys:
        k = max(keys, key=len)
        ctx.sample({"stage_trace": json.loads(k)[:60], "count": traces[k][0]})
    for key, sname, mode, counts, verdict in pumped[:3]:
        ctx.sample({"pumped": _series_text(key), "series": sname, "mode": mode, "calls": counts})
    ctx.assume("the growth clause is empirical: deterministic call counts (sys.monitoring PY_START + CALL) of pumped "
               "texts, bound n^3 x 1.5; wall time is never a pass/fail threshold: it only arms the hang deadlines (in-process "
               "%ds / %ds; parent-side kill of a pumped parse after max(%ds, 50 x the median of the smaller n of its series))"
               % (WATCHDOG, PUMP_WATCHDOG, MIN_DEADLINE),
               "the nesting counter of WikiTokens.tla over-approximates the depth of the tree; texts above 40 are outside the quantifier",
               "template-body mode skips texts that cannot be stored in an archive (lone surrogates; the archive's page separator)",
               "wiki database = nuwiki.Adapt over an archive written by fetch.FsOutput with the bundled siteinfo of the language")


def replay(ctx, path):
    with open(path) as f:
        rec = json.load(f)["replay"]
    if rec["kind"] == "growth":
        key = rec["key"]
        if key[0] == "digits":
            sl = [x for x in digit_series([key[1]]) if x[2] == rec["mode"]]
        elif key[0] == "zone":
            sl = [x for x in zone_series([key[1]], [key[2]])]
        else:
            sl = [(key, sname, mode, series) for sname, mode, series in pump_series(key[2], key[3], key[4], key[1])
                  if sname == rec["series"]]
        bad = [x for x in pump_all(ctx, sl, "en") if x[4]]
        for key, sname, mode, counts, verdict in bad:
            ctx.violation(_growth_key(key, sname, verdict), verdict, rec)
        if not bad:
            print("replay: the series now fits the bound")
        return
    atoms = rec["atoms"]
    lang = rec["lang"] if rec.get("lang") in W.LANGS else "en"
    mode = rec["mode"].split(" ")[0]
    traces, crashes, hangs, _, _ = _parse_worker((0, lang, [(0, atoms)], ctx.scratch, None, MODES))
    keys = sorted(traces)
    raised, malformed, _, _ = validate_traces(ctx, keys, name="replay")
    n = 0
    for cid, m, l, key, what, tkey in crashes:
        if m == mode or rec["kind"] != "crash":
            report_crash(ctx, atoms, m, l, key, what)
            n += 1
    for i in malformed:
        ctx.violation("pipeline replay", "stage trace rejected: %s" % keys[i][:300], rec)
        n += 1
    for cid, m, l in hangs:
        ctx.violation("parse_string hang %s atoms=%s" % (m, json.dumps(atoms)), "hang", rec)
        n += 1
    if not n:
        print("replay: parse_string now returns an Article for this text in all modes")
