"""C15 — opening a collection archive never writes outside its extraction directory.

P-MC:   TLC explores spec/ZipExtract.tla exhaustively (all member names to the depth bound, all
        destination spellings, one- and two-member archives) and checks Contained,
        RejectedIffEscaping, DoneMeansAllInside and the oracle laws; liveness on a small config.
P-ENUM: every terminal state TLC reaches is printed as JSON (archive, destination spelling,
        predicted status, predicted file-system effect).  Each is executed against the real
        mwlib.core.nuwiki.extractall inside a fresh sandbox and (a) the raised / not raised
        verdict and (b) the complete listing of the scratch tree are compared with the
        prediction.  (b) is ground truth for "nothing outside the destination".
Non-vacuity (selftest / thorough): with ForceTrailingSep=FALSE or NormBeforeCheck=FALSE TLC must
        find a Contained violation.
"""
import io
import json
import multiprocessing
import os
import shutil
import sys
import zipfile

from harness import tlc
from harness.common import chunks

PROPERTY = "C15"
LEVEL = "model_checking"

PREFIX = ["r1", "r2", "r3", "r4", "r5", "r6"]

CFG = """SPECIFICATION Spec
CONSTANTS
  MaxDepth = %(maxdepth)d
  PairDepth = %(pairdepth)d
  DstForms = {%(forms)s}
  HostSystems = {%(hosts)s}
  ForceTrailingSep = %(fts)s
  NormBeforeCheck = %(nbc)s
  EmitCases = %(emit)s
INVARIANTS Contained RejectedIffEscaping DoneMeansAllInside DstResolves NormLaw EmitTerminal
%(extra)s
CHECK_DEADLOCK FALSE
"""
ALLFORMS = ["abs", "trail", "rel", "reldot", "dotdot"]


def cfg(maxdepth, pairdepth, forms, fts=True, nbc=True, emit=True, extra="", hosts=(3,)):
    return CFG % dict(maxdepth=maxdepth, pairdepth=pairdepth, forms=", ".join('"%s"' % f for f in forms),
                      hosts=", ".join(str(h) for h in hosts),
                      fts=str(fts).upper(), nbc=str(nbc).upper(), emit=str(emit).upper(), extra=extra)


# ----------------------------------------------------------------------------- concretisation
def member_name(m, root):
    name = "/".join(m["comps"])
    if m["root"] == "abs":
        name = root + "/" + "/".join(PREFIX) + "/" + name
    elif m["root"] == "abs2":
        name = "/" + root + "/" + "/".join(PREFIX) + "/" + name
    if m["dir"]:
        name += "/"
    return name


def dst_spelling(d, root):
    s = "/".join(d["comps"])
    if d["root"] == "abs":
        return root + "/" + "/".join(PREFIX) + "/" + s
    return s


def listing(root):
    out = set()
    for dp, dns, fns in os.walk(root):
        rel = os.path.relpath(dp, root)
        relc = [] if rel == "." else rel.split(os.sep)
        for n in dns:
            out.add(("d", tuple(relc + [n])))
        for n in fns:
            out.add(("f", tuple(relc + [n])))
    return out


def run_case(case, root, extractall):
    """Execute one archive against the real extractall; return None or a description of the
    disagreement."""
    sandbox = os.path.join(root, *PREFIX, "S")
    if os.path.isdir(root):
        shutil.rmtree(root)
    os.makedirs(sandbox)
    base = listing(root)
    buf = io.BytesIO()
    names = []
    with zipfile.ZipFile(buf, "w") as zf:
        import warnings
        with warnings.catch_warnings():
            warnings.simplefilter("ignore")
            for k, m in enumerate(case["members"]):
                name = member_name(m, root)
                zi = zipfile.ZipInfo(name)
                zi.filename = name          # keep the hostile spelling exactly
                zi.create_system = case.get("host", 3)     # header byte: 0 = made on DOS/Windows, 3 = Unix
                if m["dir"]:
                    zi.external_attr = 0o40775 << 16
                    zf.writestr(zi, b"")
                else:
                    zf.writestr(zi, b"member-%d" % k)
                names.append(name)
    buf.seek(0)
    zf = zipfile.ZipFile(buf)
    read_names = [zi.filename for zi in zf.infolist()]
    got = "done"              # done | raised   (the property asks for "an error", not for a particular class)
    err = None
    cwd = os.getcwd()
    os.chdir(sandbox)
    try:
        try:
            extractall(zf, dst_spelling(case["dst"], root))
        except Exception as e:                                   # noqa: BLE001
            got, err = "raised", repr(e)
    finally:
        os.chdir(cwd)
    created = listing(root) - base
    expected = set()
    for path, kind in case["fs"]:
        expected.add((kind, tuple(path)))
    dstp = tuple(PREFIX + ["S", "D"])
    outside = sorted(c for c in created if c[1][:len(dstp)] != dstp or len(c[1]) <= len(dstp) and c[1] != dstp)
    # the destination directory itself may be created by makedirs: allowed, it is the destination
    created_inside = set(c for c in created if c[1] != dstp)
    problems = []
    if outside:
        problems.append("created outside the destination: %r" % (outside[:5],))
    # What the property fixes: nothing outside the destination; an escaping member => an error.
    # What it leaves free (and the model merely transcribes): whether empty directories are
    # materialised, and whether a name clash INSIDE the destination (a file where a directory is
    # needed - status "oserror") raises or is skipped.
    status = case["status"]
    files_expected = set(e for e in expected if e[0] == "f")
    if status == "done":
        if got != "done":
            problems.append("verdict %s (spec: %s) %s" % (got, status, err or ""))
        if not outside and not (files_expected <= created_inside <= expected):
            problems.append("effect differs: extra=%r missing files=%r" % (sorted(created_inside - expected)[:4], sorted(files_expected - created_inside)[:4]))
    elif status == "rejected":
        if got != "raised":
            problems.append("verdict %s (spec: %s) %s" % (got, status, err or ""))
        if not outside and not created_inside <= expected:
            # a rejected archive may leave the members before the failing one (the code extracts in
            # order) or fewer (e.g. when all names are validated first) - but nothing else
            problems.append("effect differs: extra=%r" % (sorted(created_inside - expected)[:4],))
    # status "oserror" / "atdst" (a member naming the destination itself): verdict and effect inside
    # the destination are free; `outside` is judged above
    if problems:
        return {"case": case, "names": names, "names_read_back": read_names, "got": got, "problems": problems}
    return None


def _worker(args):
    idx, cases, scratch, repo_src = args
    if repo_src and repo_src not in sys.path:
        sys.path.insert(0, repo_src)
    from mwlib.core import nuwiki
    root = os.path.join(scratch, "w%d" % idx)
    bad = []
    for c in cases:
        r = run_case(c, root, nuwiki.extractall)
        if r:
            bad.append(r)
            if len(bad) > 50:
                break
    shutil.rmtree(root, ignore_errors=True)
    return len(cases), bad


def key_of(r):
    c = r["case"]
    return "extractall form=%s%s members=%s problems=%s" % (
        c["form"], "" if c.get("host", 3) == 3 else " host=%s" % c["host"],
        json.dumps([[m["root"], m["comps"], m["dir"]] for m in c["members"]]),
        ";".join(p.split(":")[0].split(" (")[0] for p in r["problems"]))


def execute(ctx, cases):
    from harness.common import pool_map
    exe_root = os.path.join(ctx.scratch, "fs")
    os.makedirs(exe_root, exist_ok=True)
    jobs = [(i, ch, exe_root, None) for i, ch in enumerate(chunks(cases, ctx.ncpu * 8)) if ch]
    n = 0
    bad = []
    for cnt, b in pool_map(ctx, _worker, jobs):
        n += cnt
        bad.extend(b)
    return n, bad


def run(ctx):
    quick = ctx.tier == "quick"
    # (MaxDepth, PairDepth, destination spellings, host-system bytes of the archive header)
    plans = ([(3, 1, ALLFORMS, (3,)), (4, 0, ["abs"], (3,)), (2, 1, ["abs", "rel"], (0,))] if quick
             else [(4, 2, ALLFORMS, (3,)), (5, 0, ["abs", "rel"], (3,)), (4, 1, ["abs", "rel"], (0,))])
    total_states = total_trans = 0
    cases = {}
    for (md, pd, forms, hosts) in plans:
        res = tlc.run(ctx, "ZipExtract", cfg(md, pd, forms, hosts=hosts), name="ZipExtract_%d_%d_%d" % (md, pd, hosts[0]),
                      coverage=False, timeout=1800, heap="12g")
        if not res.ok:
            ctx.machinery("reference spec ZipExtract violates %s %s — a defect of the specification\n%s"
                          % (res.kind, res.name, res.out[-1500:]))
        total_states += res.distinct
        total_trans += res.generated
        for c in res.emitted:
            k = json.dumps([c["form"], c["host"], c["members"]], sort_keys=True)
            cases[k] = c
    # liveness + coverage on a small instance
    res = tlc.run(ctx, "ZipExtract", cfg(2, 1, ["abs", "rel"], emit=False, extra="PROPERTY Terminates"),
                  name="ZipExtract_live", coverage=True, timeout=600)
    if not res.ok:
        ctx.machinery("liveness/coverage run failed: %s %s" % (res.kind, res.name))
    missing = tlc.uncovered_actions(res, ["Extract", "Finish"])
    if missing:
        ctx.machinery("actions never taken in ZipExtract: %s" % missing)
    # non-vacuity: the two mechanism switches must make TLC find the escape
    nonvac = {}
    for name, kw in (("ForceTrailingSep=FALSE", dict(fts=False)), ("NormBeforeCheck=FALSE", dict(nbc=False))):
        r = tlc.run(ctx, "ZipExtract", cfg(2, 0, ["abs"], emit=False, **kw), name="ZipExtract_nv", timeout=300)
        nonvac[name] = (r.kind, r.name)
        if not (r.kind == "invariant" and r.name == "Contained"):
            ctx.machinery("non-vacuity: %s did not violate Contained (got %s %s)" % (name, r.kind, r.name))
    caselist = [cases[k] for k in sorted(cases)]
    n, bad = execute(ctx, caselist)
    if n != len(caselist):
        ctx.machinery("executed %d of %d cases" % (n, len(caselist)))
    for r in bad:
        ctx.violation(key_of(r), "; ".join(r["problems"]), r)
    status_count = {}
    for c in caselist:
        status_count[c["status"]] = status_count.get(c["status"], 0) + 1
    nontrivial = sum(1 for c in caselist if c["status"] == "rejected" or any(
        x in ("..", "", ".", "Dx") for m in c["members"] for x in m["comps"]) or any(m["root"] != "rel" for m in c["members"]))
    ctx.set_cover(states=total_states, transitions=total_trans,
                  traces_validated_against_impl=n, evaluations=n, distinct_nontrivial=nontrivial,
                  exhaustive=True, by_predicted_status=status_count, nonvacuity=nonvac,
                  action_coverage=res.coverage,
                  rule="every terminal state of ZipExtract.tla (all member names over 8 components x 3 roots x file/dir to the "
                       "depth bound, plans %r as (MaxDepth, PairDepth, destination spellings, header host-system bytes)) executed against the real extractall; "
                       "non-trivial = rejected, or containing '..', '.', '', the sibling name, or an absolute name" % (plans,))
    for c in caselist[:: max(1, len(caselist) // 4)][:4]:
        ctx.sample({"dst": dst_spelling(c["dst"], "<scratch>"), "members": [member_name(m, "<scratch>") for m in c["members"]],
                    "predicted": c["status"], "fs": c["fs"]})
    ctx.set_cover(by_header_host_system={str(h): sum(1 for c in caselist if c["host"] == h) for h in (0, 3)})
    ctx.assume("os.walk listing of the scratch tree is complete ground truth for created paths",
               "Linux path semantics ('\\' is an ordinary character)",
               "Python zipfile preserves hostile member names when ZipInfo.filename is set explicitly")


def replay(ctx, path):
    with open(path) as f:
        rec = json.load(f)
    from mwlib.core import nuwiki
    r = run_case(rec["replay"]["case"], os.path.join(ctx.scratch, "replay"), nuwiki.extractall)
    if r:
        ctx.violation(key_of(r), "; ".join(r["problems"]), r)
    else:
        print("replay: case now agrees with the specification")
