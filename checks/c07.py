"""C07 — cleaning is lossless for ordinary content.

P-TRACE on the runs recorded by harness/cleaner_traces.py, restricted to C07's lossless domain:
documents of spec/WikiDoc.tla's clean grammar whose generator flags say lossless (no palette entry,
ordinary lists, every section with body text; sizes far below the cleaner's thresholds by
construction of the bounds).  spec/CleanerTrace.tla's C07 clauses are applied by TLC after EVERY
pass — same visible words in the same order, each under the same section levels, the same list-item
nesting and the same reference — and, after the last pass, every word that started inside a table
with >= 2 rows and >= 2 columns is still inside a table.  Checking per pass names the pass that
loses text.
"""
import copy
import json

from harness import cleaner_traces as CT
from checks import c05 as c05
from checks import c06 as shared

PROPERTY = "C07"
LEVEL = "exploration"
CLAUSES = "C07"


def detail(rej):
    before, after = CT.trees_around(rej["trace"], rej["l"])
    if rej["clause"] == "C07 tables-kept":
        return "table dissolved"
    d = CT.first_diff(before["words"], after["words"])
    if "lost" in d and (d["lost"] or d["gained"]):
        pl = d.get("first_lost_place")
        if not pl:
            return "words gained"
        # nearest structural ancestor of the first lost word in the tree before the pass
        i = pl["node"]
        anc = "top"
        guard = 0
        while 1 <= i <= before["n"] and guard < 1000:
            c = before["cls"][i - 1]
            if c in ("Caption", "Cell", "Item", "Reference", "DefinitionTerm", "DefinitionDescription", "PreFormatted", "Section"):
                anc = c
                break
            i = before["par"][i - 1]
            guard += 1
        return "word lost under %s" % anc
    if "moved" in d:
        f, t = d["from"], d["to"]
        what = [n for n, a, b in (("section", f[0], t[0]), ("list", f[1], t[1]), ("reference", f[2], t[2])) if a != b]
        return "word changes %s: %s -> %s" % ("+".join(what), json.dumps(f), json.dumps(t))
    return "order"


def key_of(rej):
    return "clean after=%s clause=%s [%s]" % (rej["pass"], rej["clause"], detail(rej))


def report(ctx, val):
    shared.report(ctx, val, key_of)


def corruptions(traces):
    """variants of accepted lossless traces that CleanerTrace must reject, with the clause expected:
    the word corruptions on a trace with a word inside a section, the table one on a trace with a
    table of >= 2 non-empty rows and >= 2 non-empty columns that is still a table at the end"""
    def ok(x):
        return x["lossless"] and x["snaps"] and not x.get("truncated") and all(s["status"] == "ok" for s in x["snaps"]) \
            and len([s for s in x["snaps"] if not s["same"]]) >= 2

    def has_big(x):
        s0 = x["snaps"][0]

        def full(r):
            return [c for c in s0["kids"][r] if s0["cls"][c - 1] == "Cell" and s0["kids"][c - 1]]
        tables = [i for i, c in enumerate(s0["cls"]) if c == "Table"]
        if len(tables) != 1:
            return False
        rows = [r - 1 for r in s0["kids"][tables[0]] if s0["cls"][r - 1] == "Row" and full(r - 1)]
        return len(rows) >= 2 and any(len(full(r)) >= 2 for r in rows) and "Table" in CT.trees_around(x, len(x["snaps"]))[1]["cls"]

    tw = next((x for x in traces if ok(x) and len(x["snaps"][0]["words"]) >= 4 and any(w["sec"] for w in x["snaps"][0]["words"])), None)
    tt = next((x for x in traces if ok(x) and has_big(x)), None)
    if tw is None or tt is None:
        return []
    out = []

    def variant(t, expect, f):
        v = copy.deepcopy({k: t[k] for k in ("id", "lossless", "truncated", "order", "snaps", "raw", "lang")})
        v["id"] = 900000 + len(out)
        f(v)
        out.append((expect, v))

    def second(v):
        idx = [i for i, s in enumerate(v["snaps"]) if not s["same"]]
        return v["snaps"][idx[1]]
    variant(tw, "C07 word-count", lambda v: second(v)["words"].pop())

    def swapw(v):
        w = second(v)["words"]
        k = next(i for i in range(len(w) - 1) if w[i]["w"] != w[i + 1]["w"])
        w[k], w[k + 1] = w[k + 1], w[k]
    variant(tw, "C07 word-order", swapw)

    def move(v):
        w = next(w for w in second(v)["words"] if w["sec"])
        w["sec"] = w["sec"][:-1]
    variant(tw, "C07 word-place", move)

    def untable(v):
        last = v["snaps"][-1]
        if last["same"]:
            src = CT.trees_around(v, len(v["snaps"]))[1]
            last.update({k: copy.deepcopy(src[k]) for k in ("n", "cls", "par", "kids", "text", "words")})
            last["same"] = False
        last["cls"] = ["Div" if c == "Table" else c for c in last["cls"]]
    variant(tt, "C07 tables-kept", untable)
    return out


def selftest(ctx, traces, val):
    """corruptions of a trace that TLC accepted in this run must be rejected with the expected clause"""
    touched = set(e["id"] for e in val.rejects + val.known)
    cases = corruptions([t for t in traces if t["id"] not in touched])
    if not cases:
        if touched:
            ctx.note("corruption self-test skipped: no accepted lossless trace with a >= 2x2 table (this run has rejections)")
            return 0
        ctx.machinery("no accepted lossless trace with a >= 2x2 table inside a section found for the corruption self-test")
    val = CT.validate(ctx, [v for _, v in cases], CLAUSES, name="corrupt")
    got = {r["id"]: r["clause"] for r in val.rejects}
    for expect, v in cases:
        if got.get(v["id"]) != expect:
            ctx.machinery("corruption self-test: expected rejection %r, CleanerTrace said %r" % (expect, got.get(v["id"])))
    return len(cases)


def run(ctx):
    inputs, gen_stats = CT.generate(ctx, profile="lossless")
    traces, val, n = CT.process(ctx, inputs, CLAUSES, lambda v: report(ctx, v), selftest=lambda tr, v: selftest(ctx, tr, v))
    lossless = [t for t in traces if t["lossless"] and t["snaps"]]
    big = sum(1 for t in lossless if any(c == "Table" for c in t["snaps"][0]["cls"]))
    shared.evidence(ctx, inputs, gen_stats, traces, val, "C07 clauses apply to the %d traces inside the lossless domain." % len(lossless),
                    vacuity_limit=None)
    ctx.set_cover(lossless_traces=len(lossless), lossless_with_tables=big, corruptions_rejected=n,
                  evaluations=len(lossless),
                  distinct_nontrivial=sum(1 for t in lossless if t["changed"]),
                  rule="one recorded trace (58 snapshots, C07 clauses evaluated by TLC after every pass) per distinct document of WikiDoc.tla's "
                       "clean grammar with flags.lossless; non-trivial = at least one pass changed the projected tree")
    ctx.assume("visible words = whitespace-separated pieces of Text captions plus the target of label-less internal links",
               "a word's reference is the ordinal of its enclosing Reference among the references that contain words",
               "list nesting = the ul/ol kinds of the enclosing Items; section = the levels of the enclosing Sections")


def replay(ctx, path):
    with open(path) as f:
        rec = json.load(f)["replay"]
    tr = CT.record(rec["raw"], rec.get("lang", "en"), doc_id=1, lossless=rec.get("lossless", True))
    tr["kind"] = "replay"
    val = CT.validate(ctx, [tr], CLAUSES, name="replay")
    report(ctx, val)
    if not val.rejects and not val.known:
        print("replay: the trace is now accepted by CleanerTrace.tla")
