"""C09 — opaque tags stay opaque: nowiki / pre / math / source / syntaxhighlight / timeline bodies are
never interpreted.

P-ENUM:  spec/Opaque.tla enumerates every case (tag, context, body) with bodies of <= 2 lexemes
         (quick: over its reduced body alphabet; thorough: over the Structural alphabet of
         WikiTokens.tla, plus `-simulate`d 3-lexeme bodies) and computes the denotation: the node
         kind, the decoded body (atom-wise), the restored region, and "the shape of the document
         is the shape of the same case with the body <<a>>".  TLC checks the oracle's own laws
         (OracleLaws, InDomain) on every case.
Binding: each case is concretised, embedded in its context, parsed through the renderer's entry
         (uparser.parse_string) with the production database (all contexts; the template contexts
         need it) and without one (plain contexts), and the tree is projected to
             count  number of nodes of the denoted kind
             text   the text of that node (for nowiki: the article text between the sentinels)
             shape  pre-order list of the non-text node classes
         which must equal the spec's prediction.  Round trip: replace_uniq(replace_tags(t)) must be
         the text with the region replaced by Restored(tag, body).
Violations are keyed by a minimal failing body (single lexemes are tried alone at top level).
"""
import html.entities
import json
import os
import random
import re
import shutil
import time

from harness import tlc
from harness import wikitext as W
from harness.common import chunks

PROPERTY = "C09"
LEVEL = "exploration"

CFG = """SPECIFICATION Spec
CONSTANTS BodyAlphabet = "%(alpha)s"
 MaxBody = %(k)d
 SpellBody = 1
 PairBody = 1
 PfBody = 1
 EmitFrom = %(emit)d
INVARIANTS TypeOK InDomain OracleLaws PairLaws AlphabetOK EmitCase
CHECK_DEADLOCK FALSE
"""
CTX = {
    "top": "AAA %s ZZZ",
    "listitem": "* AAA %s ZZZ\n",
    "tablecell": "{|\n|-\n| AAA %s ZZZ\n|}\n",
    "caption": "{|\n|+ AAA %s ZZZ\n|-\n| x\n|}\n",
    "pf-lc": "AAA {{lc:%s}} ZZZ",
    "pf-uc": "AAA {{uc:%s}} ZZZ",
    "pf-lcfirst": "AAA {{lcfirst:%s}} ZZZ",
    "pf-ucfirst": "AAA {{ucfirst:%s}} ZZZ",
    "pf-urlencode": "AAA {{urlencode:%s}} ZZZ",
    "pf-anchorencode": "AAA {{anchorencode:%s}} ZZZ",
    "pf-padleft": "AAA {{padleft:%s|2|x}} ZZZ",
    "pf-padright": "AAA {{padright:%s|2|x}} ZZZ",
    "pf-formatnum": "AAA {{formatnum:%s}} ZZZ",
    "pf-tag": "AAA {{#tag:span|%s}} ZZZ",
    "pf-if": "AAA {{#if:x|%s}} ZZZ",
    "bold": "'''AAA %s ZZZ'''",
    "tplarg": "{{Echo|AAA %s ZZZ}}",
    "tplbody": "AAA %s ZZZ",          # text of the template page; the article is {{B<n>}}
}
PLAIN = ("top", "listitem", "tablecell", "caption", "bold")
DECODED_ATOMS = {"AMP": "&", "LT": "<"}
WATCHDOG = 30.0
TRIVIAL = {"a", "SP", "NL"}


MIXED = {"nowiki": "NoWiki", "pre": "Pre", "math": "Math", "source": "SourcE", "syntaxhighlight": "SyntaxHighlight",
         "timeline": "TimeLine"}
ATTR = {"source": ' lang="x"', "syntaxhighlight": ' lang="x"', "pre": ' style="color:red"', "math": ' display="block"',
        "nowiki": ' class="k"', "timeline": ' class="k"'}


def opener(tag, spell):
    name = {"lower": tag, "UPPER": tag.upper(), "Mixed": MIXED[tag], "blank": tag, "attr": tag, "UPPERattr": tag.upper()}[spell]
    tail = {"blank": " ", "attr": ATTR[tag], "UPPERattr": ATTR[tag]}.get(spell, "")
    return "<%s%s>" % (name, tail)


def closer(tag, spell):
    name = {"lower": tag, "UPPER": tag.upper(), "Mixed": MIXED[tag], "blank": tag}[spell]
    return "</%s%s>" % (name, " " if spell == "blank" else "")


def atom_text(x, c):
    """Text of one atom of a body / decoded body / restored text of case c."""
    if x == "ESC_CLOSER":
        return "&lt;/%s&gt;" % c["tag"]
    if x == "LIT_CLOSER":
        return "</%s>" % c["tag"]
    if x == "OPEN":
        return opener(c["tag"], c.get("ospell", "lower"))
    if x == "CLOSE":
        return closer(c["tag"], c.get("cspell", "lower"))
    if x.startswith("LIT:"):
        return x[4:]
    return DECODED_ATOMS.get(x, W.CONCRETE.get(x, x))


def concretise(seq, c):
    return "".join(atom_text(x, c) for x in seq)


def region_of(c, body=None):
    return opener(c["tag"], c.get("ospell", "lower")) + concretise(c["body"] if body is None else body, c) + \
        closer(c["tag"], c.get("cspell", "lower"))


# ----------------------------------------------------------------------------- projection
KINDS = ("Math", "Timeline", "PreFormatted", "TagNode:source")


def project(art):
    """-> {"hits": {kind: [texts in document order]}, "alltext": str, "shape": [labels]}"""
    from mwlib.parser import nodes
    shape = []
    hits = {k: [] for k in KINDS}
    alltext = []

    def text_of(n):
        out = []
        todo = [n]
        while todo:
            x = todo.pop()
            if type(x) is nodes.Text:
                out.append(x.caption or "")
            todo.extend(reversed(x.children or []))
        return "".join(out)

    def walk(n):
        if type(n) is nodes.Text:
            alltext.append(n.caption or "")
        else:
            label = type(n).__name__
            if type(n) is nodes.TagNode:
                label = "TagNode:%s" % n.caption
            shape.append(label)
            if label in hits:
                hits[label].append((n.caption or "") if label in ("Math", "Timeline") else text_of(n))
        for c in n.children or []:
            walk(c)
    walk(art)
    return {"hits": hits, "alltext": "".join(alltext), "shape": shape}


def between(alltext, left, right):
    a = alltext.find(left)
    z = alltext.rfind(right)
    if a < 0 or z < a + len(left) - 1:
        return None
    return alltext[a + len(left):z]


def expected_regions(c):
    """[(kind, text, (left sentinel, right sentinel))] in document order."""
    first = (c["kind"], concretise(c["decoded"], c), ("AAA ", " ZZZ"))
    if c.get("pair", "none") == "none":
        return [first]
    sec = c["second"]
    second = (sec["kind"], concretise(sec["decoded"], c), ("BBB ", " YYY"))
    return [second, first] if c["where"] == "before" else [first, second]


def judge(obs, c):
    """Compare the projection with the denotation: returns (fields that differ, what was seen)."""
    exp = expected_regions(c)
    bad = []
    seen = {"count": {}, "text": []}
    for kind in KINDS:
        want = [t for k, t, _ in exp if k == kind]
        got = obs["hits"][kind]
        if want or kind in (c["kind"], c.get("second", {}).get("kind")):
            seen["count"][kind] = len(got)
            if len(got) != len(want):
                bad.append("count")
            elif got != want:
                bad.append("text")
            seen["text"] += got
    for kind, text, (l, r) in exp:
        if kind == "Text":
            got = between(obs["alltext"], l, r)
            seen["text"].append(got)
            if got is None:
                bad.append("count")
            elif got != text:
                bad.append("text")
    return sorted(set(bad)), seen


_ENT = re.compile(r"&[^;]*;")


def valid_entity(s):
    if s.startswith("&#"):
        try:
            v = int(s[3:-1], 16) if s[2] in "xX" else int(s[2:-1])
        except ValueError:
            return False
        return 0 <= v <= 0x10FFFF
    return s[1:-1] in html.entities.name2codepoint


def atomwise(c):
    """Is the atom-wise denotation of the spec applicable?  (no character entity arises across
    lexeme boundaries: the valid entities of the text are exactly those inside the single atoms)"""
    if c["tag"] not in ("nowiki", "pre"):
        return True
    text = concretise(c["body"], c)
    found = [m.group(0) for m in _ENT.finditer(text) if valid_entity(m.group(0))]
    atoms = [m.group(0) for x in c["body"] for m in _ENT.finditer(atom_text(x, c)) if valid_entity(m.group(0))]
    return found == atoms


# ----------------------------------------------------------------------------- execution
class Runner:
    def __init__(self, db, lang):
        self.db = db
        self.lang = lang
        self.ref = {}        # (tag, ctx, mode, opener spelling) -> shape of the case with body <<a>>
        self.single = {}     # (tag, atom, mode) -> failure of the one-lexeme body at top level
        self.plain = {}      # (tag, ctx, mode) -> failure of the body <<a>> in that context
        self.simpler = {}    # (tag, ctx, body, mode) -> failure of a simpler case in the same context

    def document(self, c, page=None):
        main = ("{{%s}}" % page) if c["ctx"] == "tplbody" else CTX[c["ctx"]] % region_of(c)
        if c.get("pair", "none") == "none":
            return main
        sec = c["second"]
        other = "BBB <%s>%s</%s> YYY" % (sec["tag"], concretise(sec["body"], c), sec["tag"])
        return other + "\n\n" + main if c["where"] == "before" else main + "\n\n" + other

    def observe(self, c, mode, page=None):
        try:
            with W.watchdog(WATCHDOG):
                art = W.parse(self.document(c, page), self.db if mode == "db" else None, self.lang)
        except W.Hang:
            return {"hang": True}
        except Exception as e:                                      # noqa: BLE001
            return {"crash": W.crash_key("parse_string", e), "repr": repr(e)[:200]}
        return project(art)

    def ref_shape(self, c, mode):
        pair = c.get("pair", "none")
        k = (c["tag"], c["ctx"], mode, c.get("ospell", "lower"), pair, c.get("where"))
        if k not in self.ref:
            rc = dict(c, body=["a"], cspell="lower")
            if pair != "none":
                rc["second"] = REFSECOND[(c["tag"], pair)]
            self.ref[k] = self.observe(rc, mode, "Bref-%s-%s" % (c["tag"], c.get("ospell", "lower"))).get("shape")
        return self.ref[k]

    def compare(self, case, mode, page):
        obs = self.observe(case, mode, page)
        if "crash" in obs or "hang" in obs:
            return obs, ["crash" if "crash" in obs else "hang"]
        bad, seen = judge(obs, case)
        if obs["shape"] != self.ref_shape(case, mode):
            bad.append("shape")
        seen["shape"] = obs["shape"]
        return seen, bad


def roundtrip(case):
    from mwlib.utils.uniq import Uniquifier
    t = CTX[case["ctx"]] % region_of(case)
    u = Uniquifier()
    got = u.replace_uniq(u.replace_tags(t))
    want = CTX[case["ctx"]] % concretise(case["restored"], case)
    return got == want, got, want


def _worker(args):
    job, lang, cases, scratch, nodbmod = args
    W.quiet()
    pages = {"Template:Bref-%s-%s" % (t, sp): CTX["tplbody"] % (opener(t, sp) + "a" + closer(t, "lower"))
             for t in MIXED for sp in ("lower", "UPPER", "Mixed", "blank", "attr", "UPPERattr")}
    for cid, c in cases:
        if c["ctx"] == "tplbody":
            pages["Template:B%d" % cid] = CTX["tplbody"] % region_of(c)
    path = os.path.join(scratch, "odb-%d" % job)
    db = W.build_wikidb(path, lang, pages)
    run = Runner(db, lang)
    fails = []
    nparse = nskip = nround = 0
    nontrivial = 0
    for cid, c in cases:
        if not atomwise(c):
            nskip += 1
            continue
        if any(x not in TRIVIAL for x in c["body"]):
            nontrivial += 1
        modes = ["db"]
        if c["ctx"] in PLAIN and (nodbmod is None or len(c["body"]) <= 1 or cid % nodbmod[0] == nodbmod[1]):
            modes.append("nodb")
        for mode in modes:
            obs, bad = run.compare(c, mode, "B%d" % cid)
            nparse += 1
            if not bad:
                continue
            # minimal failing input: when one of the lexemes fails alone at top level, the case is
            # attributed to that one-lexeme case (its own observation and fields make the key)
            attributed = None
            # does the context already lose the region with the plain one-word body?  Then every case
            # of this (tag, context, mode) fails for that reason: one key for all of them
            pk = (c["tag"], c["ctx"], mode)
            if pk not in run.plain:
                pc = dict(c, body=["a"], decoded=["a"], ospell="lower", cspell="lower", pair="none", where="after")
                o1, b1 = run.compare(pc, mode, "Bref-%s-lower" % c["tag"])
                nparse += 1
                run.plain[pk] = ({"cid": cid, "case": pc, "mode": mode, "lang": lang, "fields": b1, "observed": o1,
                                  "seen_in": None, "plain": True} if b1 else None)
            if run.plain[pk]:
                attributed = dict(run.plain[pk], seen_in=c)
            elif c.get("pair", "none") == "none":
                # simpler cases in the same context: the same body with lower-case tags, then each lexeme alone
                simpler = []
                if (c.get("ospell", "lower"), c.get("cspell", "lower")) != ("lower", "lower"):
                    simpler.append(c["body"])
                if len(c["body"]) > 1:
                    simpler += [[x] for x in c["body"]]
                for b in simpler:
                    k = (c["tag"], c["ctx"], tuple(b), mode)
                    if k not in run.simpler:
                        run.simpler[k] = None
                        sc0 = SINGLES.get((c["tag"], b[0])) if len(b) == 1 else None
                        if len(b) == 1 and sc0 is None:
                            continue
                        sc = dict(c, body=b, ospell="lower", cspell="lower",
                                  decoded=(sc0["decoded"] if sc0 else c["decoded"]), restored=(sc0["restored"] if sc0 else c["restored"]))
                        if sc["ctx"] == "tplbody":
                            continue          # no page of its own in the archive
                        o2, b2 = run.compare(sc, mode, None)
                        nparse += 1
                        if b2:
                            run.simpler[k] = {"cid": cid, "case": sc, "mode": mode, "lang": lang, "fields": b2,
                                              "observed": o2, "seen_in": None}
                    if run.simpler[k]:
                        attributed = dict(run.simpler[k], seen_in=c)
                        break
            if attributed is None and (len(c["body"]) > 1 or c["ctx"] != "top") and c.get("pair", "none") == "none":
                for x in c["body"]:
                    k = (c["tag"], x, mode)
                    if k not in run.single:
                        run.single[k] = None
                        sc = _single_case(c["tag"], x)
                        if sc is not None:
                            o2, b2 = run.compare(sc, mode, None)
                            nparse += 1
                            if b2:
                                run.single[k] = {"cid": cid, "case": sc, "mode": mode, "lang": lang, "fields": b2,
                                                 "observed": o2, "seen_in": None}
                    if run.single[k]:
                        attributed = dict(run.single[k], seen_in=c)
                        break
            fails.append(attributed or {"cid": cid, "case": c, "mode": mode, "lang": lang, "fields": bad,
                                        "observed": obs, "seen_in": None})
        if c.get("pair", "none") == "none":
            ok, got, want = roundtrip(c)
            nround += 1
            if not ok:
                fails.append({"cid": cid, "case": c, "mode": "uniq", "lang": lang, "fields": ["roundtrip"],
                              "observed": {"got": got, "want": want}, "seen_in": None})
    shutil.rmtree(path, ignore_errors=True)
    return fails, nparse, nskip, nround, nontrivial


SINGLES = {}     # (tag, atom) -> case dict from the enumeration (body of one lexeme, ctx top)
REFSECOND = {}   # (tag, pair) -> the second region of the case with body <<a>>


def _single_case(tag, atom):
    return SINGLES.get((tag, atom))


def key_of(f):
    c = f["case"]
    if "crash" in f["observed"]:
        return f["observed"]["crash"]
    if f.get("plain"):
        return "opaque ctx=%s tag=%s mode=%s plain-body field=%s" % (c["ctx"], c["tag"], f["mode"], "+".join(f["fields"]))
    spell = "" if (c.get("ospell", "lower"), c.get("cspell", "lower")) == ("lower", "lower") else \
        " open=%s close=%s" % (c["ospell"], c["cspell"])
    if c.get("pair", "none") != "none":
        spell += " second=%s-%s" % (c["pair"], c["where"])
    return "opaque body=%s tag=%s ctx=%s%s mode=%s field=%s" % (
        json.dumps(c["body"]), c["tag"], c["ctx"], spell, f["mode"], "+".join(f["fields"]))


def what_of(f):
    c = f["case"]
    o = f["observed"]
    doc = Runner(None, None).document(c, "B<n>")
    where = "%r [%s, %s]" % (doc, c["ctx"], f["mode"])
    if "crash" in o:
        return "%s: %s" % (where, o["repr"])
    if f["mode"] == "uniq":
        return "replace_uniq(replace_tags(t)) = %r, expected %r" % (o["got"][:150], o["want"][:150])
    return "%s: %s differ; expected %r, node counts %r, texts %r, shape %r" % (
        where, "/".join(f["fields"]), [(k, t) for k, t, _ in expected_regions(c)], o.get("count"), o.get("text"), o.get("shape"))


def generate(ctx, alpha, k, emit=0, simulate=None, seed=None, name=None):
    kw = dict(simulate=simulate, depth=k + 1, seed=seed, workers=1) if simulate else {}
    r = tlc.run(ctx, "Opaque", CFG % {"alpha": alpha, "k": k, "emit": emit}, name=name or "opaque-%s-%d" % (alpha, k),
                deadlock=False, timeout=3000, heap="8g", **kw)
    if not r.ok:
        ctx.machinery("Opaque.tla (%s, %d) failed: %s %s — a defect of the specification\n%s"
                      % (alpha, k, r.kind, r.name, r.out[-1500:]))
    return r, [e for e in r.emitted if "tag" in e]


def run(ctx):
    quick = ctx.tier == "quick"
    t0 = time.time()
    alpha = "opaque" if quick else "structural"
    rc = tlc.run(ctx, "Opaque", CFG % {"alpha": "opaque", "k": 1, "emit": 9}, name="opaque-cov", deadlock=False,
                 coverage=True, timeout=300)
    cov = W.coverage_of(rc)
    if not rc.ok or cov.get("Extend", [0, 0])[1] == 0:
        ctx.machinery("Opaque.tla: action Extend never taken on the coverage configuration")
    r, cases = generate(ctx, alpha, 2)
    states, trans = r.distinct, r.generated
    nsim = 0
    if not quick:
        seen = {(c["tag"], c["ctx"], c["ospell"], c["cspell"], c["pair"], c["where"], tuple(c["body"])) for c in cases}
        # (TLC's simulator evaluates the invariants, hence EmitCase, on every successor of the last
        #  state of a behaviour: each of the 400 random 2-lexeme prefixes comes with all third lexemes)
        for i in range(4):
            rs, cs = generate(ctx, alpha, 3, emit=3, simulate=400, seed=ctx.seed * 10 + i, name="opaque-sim-%d" % i)
            for c in cs:
                k = (c["tag"], c["ctx"], c["ospell"], c["cspell"], c["pair"], c["where"], tuple(c["body"]))
                if k not in seen:
                    seen.add(k)
                    cases.append(c)
                    nsim += 1
    atoms = {x for c in cases for x in c["body"]}
    W.check_alphabet(ctx, atoms - {"ESC_CLOSER"})
    for c in cases:
        if c["pair"] == "none" and len(c["body"]) == 1 and c["ctx"] == "top" and (c["ospell"], c["cspell"]) == ("lower", "lower"):
            SINGLES[(c["tag"], c["body"][0])] = c
        if c["pair"] != "none" and c["body"] == ["a"]:
            REFSECOND[(c["tag"], c["pair"])] = c["second"]
    nl = len(atoms) - 1
    # 6 tags x 7 contexts: 6 x 4 spellings, the 23 non-default ones with bodies <= 1; 6 tags x 11 parser-function contexts, bodies <= 1
    expect = 42 * ((1 + nl + nl * nl) + 23 * (1 + nl)) + 66 * (1 + nl)
    nb = len([c for c in cases if len(c["body"]) <= 2 and c["pair"] == "none"])
    npair = len([c for c in cases if c["pair"] != "none"])
    # per tag the own closer is excluded: every tag has the same number of lexemes
    if nb != expect:
        ctx.machinery("Opaque.tla emitted %d cases with <= 2 lexemes, expected %d" % (nb, expect))
    t1 = time.time()
    lang = W.LANGS[ctx.seed % len(W.LANGS)]
    cases.sort(key=lambda c: (c["tag"], c["ctx"], c["ospell"], c["cspell"], c["pair"], c["where"], c["body"]))     # TLC's BFS order depends on thread timing
    if quick:
        # two-lexeme bodies: a quarter of the contexts each, two-region documents a third, rotating with the body and the seed (all
        # contexts for bodies of <= 1 lexeme and for every spelling variant; thorough: everything)
        import zlib
        order = sorted(CTX)
        ncases = len(cases)
        cases = [c for c in cases if (len(c["body"]) < 2 and c["pair"] == "none") or
                 (zlib.crc32(json.dumps([c["tag"], c["body"], c["pair"], c["where"]]).encode()) + order.index(c["ctx"]) + ctx.seed)
                 % (4 if c["pair"] == "none" else 3) == 0]
        ctx.note("quick: %d of %d cases selected" % (len(cases), ncases))
    indexed = list(enumerate(cases))
    random.Random(ctx.seed).shuffle(indexed)
    jobs = [(i, lang if quick else W.LANGS[(ctx.seed + i) % len(W.LANGS)], ch, ctx.scratch,
             (4, ctx.seed % 4) if quick else None)
            for i, ch in enumerate(chunks(indexed, ctx.ncpu * 3)) if ch]
    fails = []
    nparse = nskip = nround = nontrivial = 0
    for f, n, s_, rt, nt in W.pmap(ctx, _worker, jobs):
        fails += f
        nparse += n
        nskip += s_
        nround += rt
        nontrivial += nt
    ctx.note("generation %.0fs, %d parses + %d round trips in %.0fs" % (t1 - t0, nparse, nround, time.time() - t1))
    for f in sorted(fails, key=lambda f: (len(f["case"]["body"]), f["cid"])):
        if len(ctx.violations) >= 40:
            ctx.note("%d failing cases in total; only the first 40 distinct ones are written as replays" % len(fails))
            break
        ctx.violation(key_of(f), what_of(f), {"case": f["case"], "mode": f["mode"], "lang": f["lang"],
                                              "first_seen_in": f.get("seen_in")})
    ctx.set_cover(evaluations=nparse + nround, distinct_nontrivial=nontrivial, exhaustive=True,
                  cases=len(cases), cases_with_two_regions=npair, parses=nparse, round_trips=nround, simulated_3_lexeme_cases=nsim,
                  body_alphabet=len(atoms), action_coverage=cov, outside_atomwise_denotation=nskip, states=states, transitions=trans,
                  rule="every case Opaque.tla generates — 6 tags x 7 contexts (incl. table caption) x all bodies of <= 2 lexemes over %d body lexemes "
                       "(incl. tags spelled through entities) with lower-case tags, and all bodies of <= 1 lexeme for the 23 other "
                       "opener x closer spellings (UPPER / Mixed / blank before > / attributes), for 11 parser-function-argument contexts "
                       "and for documents with a second related region%s — parsed with the production database (and without one in the plain contexts%s), tree "
                       "projected to (count, text, shape) and compared with the spec's denotation; plus the uniq round trip; "
                       "distinct non-trivial = cases whose body contains a lexeme other than a / SP / NL"
                       % (len(atoms), "" if quick else " plus %d simulated 3-lexeme bodies" % nsim,
                          ": single lexemes and a rotating quarter; two-lexeme bodies in a quarter of the contexts and two-region documents in a third, rotating with body and seed" if quick else ""))
    for cid, c in indexed[:3]:
        ctx.sample({"tag": c["tag"], "ctx": c["ctx"], "opener": c["ospell"], "closer": c["cspell"], "body": c["body"],
                    "text": CTX[c["ctx"]] % region_of(c), "kind": c["kind"], "decoded": concretise(c["decoded"], c)})
    ctx.assume("for <pre> the spec models MediaWiki's own behaviour mirrored by mwlib: <nowiki>..</nowiki> pairs inside are unwrapped",
               "atom-wise decoding: cases in which a character entity would arise across lexeme boundaries are skipped (counted)",
               "shape = pre-order list of the non-text node classes; it must not depend on the body",
               "wiki database = nuwiki.Adapt over an archive written by fetch.FsOutput")


def replay(ctx, path):
    with open(path) as f:
        rec = json.load(f)["replay"]
    c = rec["case"]
    _, cases = generate(ctx, "structural", 1, name="opaque-replay")
    for x in cases:
        if x["pair"] == "none" and len(x["body"]) == 1 and x["ctx"] == "top" and (x["ospell"], x["cspell"]) == ("lower", "lower"):
            SINGLES[(x["tag"], x["body"][0])] = x
        if x["pair"] != "none" and x["body"] == ["a"]:
            REFSECOND[(x["tag"], x["pair"])] = x["second"]
    fails, _, _, _, _ = _worker((0, rec.get("lang") or "en", [(0, c)], ctx.scratch, None))
    for f in fails:
        ctx.violation(key_of(f), what_of(f), rec)
    if not fails:
        print("replay: the case now agrees with the specification")
