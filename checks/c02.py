"""C02 — well-formed markup parses to the structure it denotes, text intact and in order.

P-ENUM with spec/WikiDoc.tla as enumerator + oracle:
  * TLC explores the generator automaton breadth-first to a production bound (every tiny
    document) and with -simulate for long compositions; its own invariants (WordsOnce, DenOrder,
    PathsOK, CurPathOK, DoneClosed, PosOK) guard the oracle — a violation there is a machinery
    failure, never a verdict about mwlib.
  * every finished document is emitted as JSON (source tokens + denotation `den`);
  * Python concretises the tokens (harness/wikidoc.py), runs parse_string(lang=L) +
    build_advanced_tree for the bundled site languages, projects every visible word onto the
    spec's label vocabulary and compares with `den`.
"""
import json
import multiprocessing
import random

from harness import tlc
from harness import wikidoc as W
from harness.common import chunks

PROPERTY = "C02"
LEVEL = "exploration"

CFG = """SPECIFICATION Spec
CONSTANTS
  MaxProd = %(maxprod)d
  MaxWords = %(maxwords)d
  MaxList = %(maxlist)d
  MaxTables = %(maxtables)d
  OrdinaryLists = %(ordinary)s
  Variants = %(variants)s
  Palette = FALSE
  Free = FALSE
  NTargets = 4
  NAttrs = 0
  NDimProps = 0
  NDimShapes = 0
  NReadProps = 0
  NSnips = 0
  NCont = 0
  NBlk = 0
  NHost = 0
  NestMode = 0
  NestWitness = {}
  NLex = 0
  MaxLine = %(maxline)d
  MinOut = %(minout)d
  EmitDocs = %(emit)s
INVARIANTS WordsOnce DenOrder PathsOK CurPathOK DoneClosed PosOK EmitDoc
CHECK_DEADLOCK FALSE
"""

CLEAN_ACTIONS = ["Word", "OpenStyle", "CloseStyle", "PlainLink", "OpenLink", "CloseLink", "OpenExt", "CloseExt",
                 "OpenRef", "CloseRef", "ReuseRef", "DefSep", "EndLine", "Heading", "ParaLine", "ParagraphBreak", "PreLine",
                 "ListLine", "OpenTable", "Caption", "NextRow", "Cell", "CellSep", "CloseTable", "OpenDiv", "CloseDiv",
                 "End"]


def cfg(maxprod, maxwords=3, maxlist=3, maxtables=1, variants=False, maxline=100, minout=0, emit=True, ntargets=4, ordinary=True):
    return (CFG.replace("NTargets = 4", "NTargets = %d" % ntargets)) % dict(maxprod=maxprod, maxwords=maxwords, maxlist=maxlist, maxtables=maxtables, ordinary=str(ordinary).upper(),
                      variants=str(variants).upper(), maxline=maxline, minout=minout, emit=str(emit).upper())


def doc_key(d):
    return json.dumps(d["out"], sort_keys=True, separators=(",", ":"))


def diff_key(r):
    """Key of a disagreement: the field that differs and, for paths, which label kinds are
    missing / extra under which innermost block label (the class of the failing input)."""
    if r["field"] != "path":
        d = r.get("detail")
        return "%s %s" % (r["field"], d if r["field"] == "stray-text" else "")
    exp, got = [tuple(x) for x in r["expected"]], [tuple(x) for x in r["got"]]
    extra = sorted(set(l[0] for l in got if l not in exp))
    missing = sorted(set(l[0] for l in exp if l not in got))
    blocks = [l[0] for l in exp if l[0] not in W.INLINE_RANK]
    if extra and set(extra) <= {"Bold", "Italic"}:
        extra = ["Style"]
    if missing and set(missing) <= {"Bold", "Italic"}:
        missing = ["Style"]
    if not extra and not missing:
        return "path order under=%s" % (blocks[-1] if blocks else "top")
    return "path under=%s extra=%s missing=%s" % (blocks[-1] if blocks else "top", "+".join(extra) or "-", "+".join(missing) or "-")


def check_doc(doc, lang):
    raw = W.concretise(doc)
    try:
        tree = W.parse(raw, lang)
    except Exception as e:                                             # noqa: BLE001
        return {"field": "exception", "detail": "%s: %s" % (type(e).__name__, str(e)[:200])}, raw
    return W.compare(doc, W.project(tree, lang)), raw


def _worker(args):
    docs, langs = args
    bad = []
    n = 0
    for d in docs:
        for lang in langs:
            n += 1
            r, raw = check_doc(d, lang)
            if r:
                bad.append({"doc": d, "lang": lang, "raw": raw, "diff": r})
    return n, bad


def nontrivial(doc):
    kinds = set(l["k"] for e in doc["den"] for l in e["path"])
    return len(kinds) >= 2


def run(ctx):
    quick = ctx.tier == "quick"
    rnd = random.Random(ctx.seed)
    docs = {}
    states = trans = 0
    plans = ([("bfs8", cfg(8)), ("bfs7v", cfg(7, variants=True))] if quick
             else [("bfs9", cfg(9)), ("bfs7v", cfg(7, variants=True)), ("bfs8t2", cfg(8, maxwords=2, maxtables=2)),
                   ("bfs7free", cfg(7, maxlist=2, ordinary=False))])
    exhaustive_counts = {}
    for name, c in plans:
        res = tlc.run(ctx, "WikiDoc", c, name="WikiDoc_" + name, timeout=1500, heap="8g")
        if not res.ok:
            ctx.machinery("generator spec WikiDoc violates its own invariant (%s %s) — a defect of the specification\n%s"
                          % (res.kind, res.name, res.out[-1500:]))
        states += res.distinct
        trans += res.generated
        exhaustive_counts[name] = len(res.emitted)
        for d in res.emitted:
            docs.setdefault(doc_key(d), d)
    n_bfs = len(docs)
    # long compositions
    per_worker = (1600 if quick else 30000) // ctx.ncpu
    sims = [("sim", cfg(40, maxwords=30, maxtables=2, variants=True, maxline=12, minout=60), 45),
            ("simlong", cfg(70, maxwords=60, maxtables=2, variants=True, maxline=9, minout=120), 75)]
    for k, (name, c, depth) in enumerate(sims):
        res = tlc.run(ctx, "WikiDoc", c, name="WikiDoc_" + name, simulate=max(1, per_worker // (1 if k == 0 else 3)),
                      depth=depth, seed=ctx.seed * 2 + k + 1, timeout=1500, heap="8g")
        if not res.ok:
            ctx.machinery("generator spec WikiDoc violates its own invariant in simulation (%s %s)\n%s"
                          % (res.kind, res.name, res.out[-1500:]))
        trans += res.generated
        for d in res.emitted:
            docs.setdefault(doc_key(d), d)
    # vacuity: every production of the clean grammar is taken
    res = tlc.run(ctx, "WikiDoc", cfg(10, maxwords=2, maxlist=1, ntargets=1, emit=False), name="WikiDoc_cov", coverage=True, timeout=600)
    if not res.ok:
        ctx.machinery("coverage run failed: %s %s" % (res.kind, res.name))
    missing = tlc.uncovered_actions(res, CLEAN_ACTIONS)
    if missing:
        ctx.machinery("productions never taken in WikiDoc: %s" % missing)

    doclist = [docs[k] for k in sorted(docs)]
    if any(not d["flags"]["clean"] or d["flags"]["mal"] for d in doclist):
        ctx.machinery("a document outside the clean grammar was generated with Palette = Free = FALSE")
    langs_all = list(W.LANGS)
    if quick:
        start = ctx.seed % len(langs_all)
        langs = [langs_all[(start + i * 4) % len(langs_all)] for i in range(3)]
    else:
        langs = langs_all
    rnd.shuffle(doclist)
    pool = multiprocessing.get_context("fork").Pool(ctx.ncpu)
    try:
        jobs = [(ch, langs) for ch in chunks(doclist, ctx.ncpu * 8) if ch]
        n = 0
        bad = []
        for cnt, b in pool.imap_unordered(_worker, jobs):
            n += cnt
            bad.extend(b)
    finally:
        pool.close()
        pool.join()
    if n != len(doclist) * len(langs):
        ctx.machinery("executed %d of %d parses" % (n, len(doclist) * len(langs)))
    # one violation per key, with the smallest document that shows it
    best = {}
    count = {}
    for b in bad:
        k = "parse " + diff_key(b["diff"])
        count[k] = count.get(k, 0) + 1
        if k not in best or len(b["doc"]["out"]) < len(best[k]["doc"]["out"]):
            best[k] = b
    for k in sorted(best):
        b = best[k]
        for _ in range(count[k]):
            ctx.violation(k, "%s (lang=%s) on %r" % (json.dumps(b["diff"])[:400], b["lang"], b["raw"][:300]), b)
    ctx.set_cover(evaluations=n, distinct_nontrivial=sum(1 for d in doclist if nontrivial(d)),
                  documents=len(doclist), documents_bfs=n_bfs, languages=langs, states=states, transitions=trans,
                  exhaustive=False, bfs_documents_by_plan=exhaustive_counts, disagreements=len(bad),
                  action_coverage=res.coverage,
                  rule="every finished document of WikiDoc.tla: all documents of <= N productions (BFS plans %s, complete) plus "
                       "-simulate compositions of up to 40 / 70 productions; each parsed per language and every visible word's "
                       "projected ancestor labels compared with the spec's den; non-trivial = den uses at least two different "
                       "label kinds" % [p[0] for p in plans])
    for d in sorted(doclist, key=lambda d: -len(d["out"]))[:2] + doclist[:2]:
        ctx.sample({"wikitext": W.concretise(d), "den": [[w, ["%s%s" % (k, a or "") for k, a in p], t] for w, p, t in W.expected(d)]})
    # ---- beyond the listed property: how runs of apostrophes are read (spec/Apostrophes.tla,
    # mwlib.parser.styleanalyzer.compute_path) - reported as SPEC-DRIFT only
    from harness import apostrophes
    apostrophes.check(ctx, ctx.tier == "quick")
    ctx.assume("MediaWiki semantics of the generated constructs are those written in WikiDoc.tla (den); the grammar is conservative: "
               "styles closed on their line, no adjacent apostrophe runs, a blank after a link before a word (no link trail)",
               "inline labels (Bold, Italic, Link, Ext) are compared as a set; styles opened outside <ref> do not apply inside it",
               "wrappers Paragraph / Node / Div are ignored by the projection; any other unexpected ancestor class is a mismatch")


def replay(ctx, path):
    with open(path) as f:
        rec = json.load(f)["replay"]
    r, raw = check_doc(rec["doc"], rec["lang"])
    if r:
        ctx.violation("parse " + diff_key(r), "%s (lang=%s) on %r" % (json.dumps(r)[:400], rec["lang"], raw[:300]),
                      {"doc": rec["doc"], "lang": rec["lang"], "raw": raw, "diff": r})
    else:
        print("replay: document now parses to the structure the specification denotes")
