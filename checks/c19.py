"""C19 — the render status reported to the wiki is faithful to the job's real state.

P-MC:     spec/RenderStatus.tla composes nserve's status function with the queue server
          (WorkQ.tla); TLC checks FinishedOnlyIfSucceeded, FailedIffError, FailedShowsError,
          ProgressOtherwise, ProgressSource, WriterIsolation in every reachable queue state of the
          three jobs of one collection (makezip, render-rl, render-odf), exhaustive to the depth
          bound, plus simulation.
P-REPLAY: TLC behaviours (RenderStatusSim.tla) are stepped through the real queue server; after
          every step the REAL nserve.Application.do_render_status is called for both writers
          through an in-process proxy around the real QPlugin (results JSON round-tripped like the
          RPC layer) and compared with the specification's Status(w).
Header:   the suggested filename is drawn per finished job from concrete classes of printable
          Unicode; the real Content-Disposition value must be one line, ASCII, its filename token
          free of separators, and filename* must percent-decode to the stripped original.
"""
import json
import multiprocessing
import random
import re
import unicodedata
import urllib.parse

from harness import qstrace, tlc

PROPERTY = "C19"
LEVEL = "model_checking"

WORKERS = ["w1", "w2"]
CHANNELS = ["makezip", "render"]
JOBIDS = ["mk", "rl", "odf"]
WRITERS = ["rl", "odf"]
CID = "0123456789abcdef"
REAL_ID = {"mk": CID + ":makezip", "rl": CID + ":render-rl", "odf": CID + ":render-odf"}

PROPS_INV = ["TypeOK", "UnfinishedIsBound", "FinishedOnlyIfSucceeded", "FailedIffError", "FailedShowsError", "ProgressOtherwise", "ProgressSource"]
PROPS_ACT = ["WriterIsolation", "Final", "OneJobPerId"]

FILENAMES = [
    None, "", "   ", "plain", "My Book", "a;b:c\"d'e,f", "Café München", "中文书", "Жук x",
    "x" * 300, "a=b(c)[d]{e}", "semi;colon", "full，width", "nb sp", "em space", "quote“d”",
    "träiling ", " lead", "per%cent", "back\\slash/slash", "\U0001F4D6 book", "line sep",
]


def const_block(maxjobs, happy=False):
    cb = qstrace.const_block(WORKERS, CHANNELS, JOBIDS, ["k1"], maxjobs=maxjobs, maxtime=4, restart=False, wait=True,
                             info=True, drop=True, reconnect=False, atomic=False, prios="{0}",
                             tmos="{100}" if happy else "{1, 100}", ttls="{0, 100}",
                             killers=[] if happy else None)
    cb += '  Writers = {"rl", "odf"}\n  MkId = "mk"\n  RenderId = [rl |-> "rl", odf |-> "odf"]\n'
    return cb


# CONSTANTS in a cfg cannot hold a record literal: give RenderId through a wrapper module
WRAP = r"""---- MODULE %(name)s ----
EXTENDS %(base)s
RenderIdC == [w \in {"rl", "odf"} |-> w]
DepthBound == TLCGet("level") <= %(depth)d
\* the fetch job is queued on the "makezip" channel and render jobs on "render", as nserve does
ChannelOfId == (last'.op = "add") => ((last'.id = "mk") <=> (last'.ch = "makezip"))
====
"""


def cfg_for(spec, depth_constraint, extra, maxjobs=4, atomic=False, happy=False):
    cb = const_block(maxjobs, happy).replace('  RenderId = [rl |-> "rl", odf |-> "odf"]\n', "  RenderId <- RenderIdC\n")
    if atomic:
        cb = cb.replace("AtomicDrain = FALSE", "AtomicDrain = TRUE")
    return "SPECIFICATION %s\n" % spec + cb + extra + ("CONSTRAINT DepthBound\n" if depth_constraint else "") + "ACTION_CONSTRAINT ChannelOfId\nCHECK_DEADLOCK FALSE\n"


def run_wrapped(ctx, name, base, bound, cfg, **kw):
    d = tlc.prepare_dir(ctx, "tlc-" + name)
    import os
    with open(os.path.join(d, "MCRender.tla"), "w") as f:
        f.write(WRAP % {"name": "MCRender", "base": base, "depth": bound})
    return tlc.run(ctx, "MCRender", cfg, name=name, **kw)


# ----------------------------------------------------------------------------- real side
class QProxy:
    """What rpcclient.ServerProxy gives nserve: qinfo(jobid=...) with a JSON round trip."""

    def __init__(self, plugin):
        self.plugin = plugin

    def qinfo(self, jobid):
        return json.loads(json.dumps(self.plugin.rpc_qinfo(jobid)))


def header_problems(value, suggested, ext):
    probs = []
    if not isinstance(value, str):
        return ["content_disposition is not a string"]
    if any(ord(ch) < 32 or ord(ch) == 127 for ch in value):
        probs.append("control character in header")
    if any(ord(ch) > 126 for ch in value):
        probs.append("non-ASCII character in header")
    m = re.match(r"^inline; filename=([^;]*)(?:;filename\*=UTF-8''(.*))?$", value)
    if not m:
        probs.append("header does not have the form inline; filename=<token>[;filename*=UTF-8''<pct>]")
        return probs
    token, star = m.group(1), m.group(2)
    if not token.endswith("." + ext) or len(token) <= len(ext) + 1:
        probs.append("filename token lacks a name or the extension")
    if re.search(r"[\s;,\"]", token):
        probs.append("separator inside the filename token")
    stripped = (suggested or "").strip() or "collection"
    if star is not None:
        if urllib.parse.unquote(star) != stripped + "." + ext:
            probs.append("filename* does not decode to the suggested name")
        if re.search(r"[^A-Za-z0-9%._~/-]", star):
            probs.append("unescaped character in filename*")
    else:
        if token != stripped + "." + ext:
            probs.append("no filename* although the ASCII token differs from the suggested name")
    return probs


# compatibility characters whose NFKD form IS one of the separators the header must not contain
# (fullwidth / small-form / Greek question mark), one class each: swept deterministically
COMPAT_FILENAMES = ["Tom\uff1bJerry", "a\uff0cb", "say \uff02hi\uff02", "time\uff1a10", "it\uff07s", "x\ufe54y", "x\ufe50y",
                    "\u037e", "\u0391\u037e\u0392", "\u2025dots", "\ufe55colon", "A\u00a0;\u2003B"]


def make_after_step(rng, force_fn=None):
    from mwlib.core import nserve
    app = nserve.Application()
    state = {"fn": {}}

    def result_hook(op):
        kind = rng.randrange(4) if force_fn is None else 2
        fn = FILENAMES[rng.randrange(len(FILENAMES))] if force_fn is None else force_fn[0]
        if kind == 0:
            res = {"url": "http://x/y", "size": 7}
        elif kind == 1:
            res = {"size": 7, "suggested_filename": fn}          # no url: KeyError path
        else:
            res = {"url": "http://x/y", "size": 7, "suggested_filename": fn}
        state["fn"][op["id"]] = res
        return res

    def after_step(d, step):
        app.qserve = QProxy(d.admin)
        for w in WRITERS:
            want = step["st"]["status"][w]
            got = app.do_render_status(CID, {"writer": w})
            if got.get("collection_id") != CID or got.get("writer") != w:
                return {"differs": ["status echo"], "got": got}
            if got.get("state") != want["state"]:
                return {"differs": ["status.state writer=%s spec=%s real=%s" % (w, want["state"], got.get("state"))], "got": got}
            if want["state"] == "failed":
                err = got.get("error")
                abstract = err if err in ("killed", "timeout") else "err"
                if abstract != want["error"]:
                    return {"differs": ["status.error writer=%s" % w], "got": got}
            elif want["state"] == "finished":
                res = d.wq.id2job[REAL_ID[w]].result
                if ("url" in got) != bool(res and "url" in res):
                    return {"differs": ["status.url writer=%s" % w], "got": got, "result": res}
                if "url" in got and (got["url"] != res["url"] or got.get("content_length") != res.get("size")):
                    return {"differs": ["status.url/size writer=%s" % w], "got": got, "result": res}
                ext = {"rl": "pdf", "odf": "odt"}[w]
                ctype = {"rl": "application/pdf", "odf": "application/vnd.oasis.opendocument.text"}[w]
                if got.get("content_type") != ctype:
                    return {"differs": ["status.content_type writer=%s" % w], "got": got}
                suggested = got.get("suggested_filename")
                hp = header_problems(got.get("content_disposition"), suggested, ext)
                if hp:
                    return {"differs": ["content_disposition: " + hp[0]], "got": got, "suggested": suggested}
                state.setdefault("headers", set()).add(got.get("content_disposition"))
            else:
                # which job's progress is shown - judged by content, never by the wording of a message
                st = got.get("status")
                src = want["source"]
                rj = d.wq.id2job.get(REAL_ID[w])
                zj = d.wq.id2job.get(REAL_ID["mk"])
                if src == "none":
                    if st:
                        return {"differs": ["status.progress shows something although neither job has progress writer=%s" % w], "got": got}
                elif src == "render":
                    if rj is None or st != rj.info:
                        return {"differs": ["status.progress is not the render job's own info writer=%s" % w], "got": got}
                elif src == "makezip":
                    if zj is None or st != zj.info:
                        return {"differs": ["status.progress is not the fetch job's info writer=%s" % w], "got": got}
                else:   # "fetched": the fetch job is finished, rendering has no progress of its own yet
                    if not st or (zj is not None and zj.info and st == zj.info) or (rj is not None and rj.info and st == rj.info):
                        return {"differs": ["status.progress does not say that fetching is over writer=%s" % w], "got": got}
        return None

    return after_step, result_hook, state


def concretise(hist):
    """Job ids of the model -> the ids nserve uses."""
    def fix(x):
        if isinstance(x, dict):
            return {(REAL_ID.get(k, k) if False else k): fix(v) for k, v in x.items()}
        if isinstance(x, list):
            return [fix(v) for v in x]
        return x
    return hist


class RealIds:
    """The driver talks to the server with the real job ids; projections map them back."""


def _to_real_ids(hist):
    h2 = json.loads(json.dumps(hist))
    for st in h2:
        if "id" in st["last"]:
            st["last"]["id"] = REAL_ID[st["last"]["id"]]
        st["st"]["bound"] = {REAL_ID[k]: v for k, v in st["st"]["bound"].items()}
        for j in st["st"]["jobs"]:
            j["id"] = REAL_ID[j["id"]]
        st["st"]["status"] = {w: st["st"]["status"][w] for w in WRITERS}
    return h2


def filename_sweep(hist):
    """Replay ONE behaviour in which a render job finishes successfully once per file-name class
    (every class of FILENAMES and COMPAT_FILENAMES as the suggested file name): the
    Content-Disposition predicate is evaluated for each class on every run, not only for the
    classes the random draws of the main replay happen to hit."""
    from harness import qsreplay
    out = []
    for fn in FILENAMES + COMPAT_FILENAMES:
        after_step, result_hook, state = make_after_step(random.Random(0), force_fn=[fn])
        r = qsreplay.replay_one(_to_real_ids(hist), workers=WORKERS, clients=["k1"], channels=CHANNELS,
                                after_step=after_step, result_hook=result_hook)
        out.append((fn, r, sorted(state.get("headers", []))))
    return out


def _worker(args):
    seed, items = args
    from harness import qsreplay, qsdriver
    out = []
    for idx, hist in items:
        rng = random.Random(seed * 100003 + idx)
        after_step, result_hook, state = make_after_step(rng)
        # translate ids in the behaviour to the real ids and back in the projection
        h2 = json.loads(json.dumps(hist))
        for st in h2:
            if "id" in st["last"]:
                st["last"]["id"] = REAL_ID[st["last"]["id"]]
            st["st"]["bound"] = {REAL_ID[k]: v for k, v in st["st"]["bound"].items()}
            for j in st["st"]["jobs"]:
                j["id"] = REAL_ID[j["id"]]
            st["st"]["status"] = {w: st["st"]["status"][w] for w in WRITERS}
        try:
            r = qsreplay.replay_one(h2, workers=WORKERS, clients=["k1"], channels=CHANNELS,
                                    after_step=after_step, result_hook=result_hook)
        except Exception as e:              # noqa: BLE001
            import traceback
            r = {"machinery": "driver exception %r %s" % (e, traceback.format_exc()[-600:])}
        r["headers"] = sorted(state.get("headers", []))[:50]
        out.append((idx, r))
    return out


def run(ctx):
    quick = ctx.tier == "quick"
    depth = 5 if quick else 7
    inv = "INVARIANTS " + " ".join(PROPS_INV) + "\nPROPERTIES " + " ".join(PROPS_ACT) + "\nVIEW view\n"
    res = run_wrapped(ctx, "mc", "RenderStatus", depth, cfg_for("Spec", True, inv), timeout=1800 if quick else 3600, heap="16g")
    if not res.ok:
        ctx.machinery("RenderStatus.tla violates %s %s on the reference queue model: a defect of the specification\n%s"
                      % (res.kind, res.name, res.out[-2000:]))
    ctx.cover(states=res.distinct, transitions=res.generated)
    ctx.set_cover(mc_depth=depth, exhaustive_to_depth=True)
    cov = run_wrapped(ctx, "cov", "RenderStatus", 4, cfg_for("Spec", True, inv), coverage=True, timeout=600)
    need = ["DoAdd", "DoPull", "DoFinish", "DoKill", "AdvanceClock", "SetInfo", "Drop", "Watchdog"]
    missing = [a for a in need if cov.coverage.get(a, [0, 0])[1] == 0 and cov.coverage.get(a.replace("Do", ""), [0, 0])[1] == 0
               and cov.coverage.get("Do" + a, [0, 0])[1] == 0]
    if missing:
        ctx.machinery("actions never taken: %s" % missing)
    ctx.set_cover(action_coverage={a: v for a, v in cov.coverage.items() if v[1] > 0 and a != "DepthBound"})
    # behaviours for replay
    histlen = 18 if quick else 22
    want = 2500 if quick else 12000
    hists = []
    for happy in (False, True):
        simcfg = cfg_for("SimSpec", False, "  HistLen = %d\nINVARIANTS EmitHist %s\nCONSTRAINT StopAtLen\n" % (histlen, " ".join(PROPS_INV)),
                         maxjobs=6, atomic=True, happy=happy)
        sim = run_wrapped(ctx, "sim%d" % happy, "RenderStatusSim", 99, simcfg, simulate=max(2, want // 400),
                          depth=histlen + 1, timeout=2400, heap="20g")
        if not sim.ok:
            ctx.machinery("simulation failed: %s %s\n%s" % (sim.kind, sim.name, sim.out[-1500:]))
        hists += sim.emitted[:want // 2]
    if not hists:
        ctx.machinery("no behaviours emitted")
    items = list(enumerate(hists))
    from harness.common import pool_map
    nparts = max(ctx.ncpu * 2, len(items) // 400)
    parts = [(ctx.seed, items[k::nparts]) for k in range(nparts)]
    results = [x for part in pool_map(ctx, _worker, [p for p in parts if p[1]]) for x in part]
    agreed = steps = 0
    headers = set()
    states_seen = {"finished": 0, "failed": 0, "progress": 0}
    for idx, r in results:
        headers.update(r.get("headers", []))
        if r.get("machinery"):
            ctx.machinery("replay driver: %s (behaviour %d)" % (r["machinery"], idx))
        if r.get("ok"):
            agreed += 1
            steps += r["steps"]
            continue
        op = r.get("op", {})
        key = "render status differs: %s" % "; ".join(r.get("differs", [r.get("problem", "?")]))
        ctx.violation(key, "do_render_status / queue server disagree with RenderStatus.tla at step %s (op %s)" % (r.get("step"), op.get("op")),
                      {"behaviour": [h["last"] for h in hists[idx]], "disagreement": r, "policy_seed": ctx.seed * 100003 + idx})
    for h in hists:
        for st in h:
            for w in WRITERS:
                states_seen[st["st"]["status"][w]["state"]] += 1
    # deterministic sweep of the file-name classes over one behaviour with a successful render job
    cands = [h for h in hists if any(st["st"]["status"][w]["state"] == "finished" for st in h for w in WRITERS)]
    if not cands:
        ctx.machinery("no replayed behaviour reaches a finished render job: the file-name sweep has nothing to run on")
    swept = 0
    for fn, r, hdrs in filename_sweep(min(cands, key=len)):
        if r.get("machinery"):
            ctx.machinery("file-name sweep: %s" % r["machinery"])
        if not r.get("ok"):
            ctx.violation("render status differs: %s" % "; ".join(r.get("differs", [r.get("problem", "?")])),
                          "do_render_status disagrees with RenderStatus.tla in the file-name sweep (suggested file name %r) at step %s"
                          % (fn, r.get("step")), {"suggested_filename": fn, "disagreement": r})
            continue
        if not hdrs and not r.get("skipped"):
            ctx.machinery("file-name sweep: no Content-Disposition header was produced for %r" % (fn,))
        headers.update(hdrs)
        swept += 1
    ctx.cover(traces_validated_against_impl=agreed, transitions=steps)
    ctx.set_cover(replayed_behaviours=agreed, replayed_steps=steps, status_values_in_replayed_states=states_seen,
                  distinct_content_disposition_headers_checked=len(headers), filename_classes=len(FILENAMES) + len(COMPAT_FILENAMES),
                  filename_classes_swept=swept)
    ctx.sample({"kind": "TLC behaviour replayed (actions)", "actions": [x["last"] for x in hists[0]]})
    ctx.sample({"kind": "Content-Disposition headers produced by the real code", "headers": sorted(headers)[:8]})
    # ---- beyond the listed property: the render request end to end (spec/RenderFlow.tla)
    from harness import renderflow
    rf, rf_states, rf_trans = renderflow.model_check(ctx, quick)
    traces, raw = renderflow.record_scenarios(ctx)
    rres, rejected = renderflow.validate(ctx, traces)
    if rejected:
        tr = traces[int(rejected["tid"]) - 1]
        l = int(rejected["l"])
        evn = tr[min(l, len(tr)) - 1]
        ctx.drift("RenderFlow", "render flow: %s at event %s - "
                  "the calls made by nserve.do_render / qs.slave.Worker / nslave.Commands are not a behaviour of "
                  "RenderFlow.tla (makezip before render; a render worker waits for the makezip job and fails when "
                  "it failed)" % (rejected["kind"], evn.get("op")), {"trace": tr, "rejected": rejected, "observed_calls": raw})
    ctx.cover(states=rf_states, transitions=rf_trans, traces_validated_against_impl=len(traces) if not rejected else 0)
    ctx.set_cover(render_flow_model=rf, render_flow_scenarios=len(traces))
    ctx.sample({"kind": "observed calls of the real render worker (nslave.Commands.rpc_render via qs.slave.Worker.dispatch)",
                "calls": raw[1]})
    # ---- beyond the listed property: the front end (spec/Front.tla: watchers, sticky assignment, overload)
    from harness import front
    front.check(ctx, quick)
    # ---- and the progress dictionary that qsetinfo ships (spec/Progress.tla: mwlib.utils.status.Status)
    from harness import progress
    progress.check(ctx, quick)
    # ---- and the LRU cache behind collid2qserve (spec/Lru.tla: mwlib.utils.lrucache)
    from harness import lru
    lru.check(ctx, quick)
    ctx.assume("header safety is a character-level predicate evaluated by the harness on concrete filenames, not by TLC",
               "the RPC layer is replaced by an in-process proxy with a JSON round trip",
               "assumptions of C16-C18 about the queue driver")


def replay(ctx, path):
    with open(path) as f:
        rec = json.load(f)
    print("replay of C19 cases re-runs the quick check (behaviours are regenerated from the seed)")
    run(ctx)
