"""C10 — tokenization is lossless: the scanner's tokens tile the input.

P-MC:    TLC model-checks spec/Scanner.tla (all inputs over the three character classes up to a
         small length, every nondeterministic choice of spans): the guards of Emit / Stop imply
         the tiling invariants.  Non-vacuity: with SkipClasses = {"E","o"} (a scanner that may
         skip ordinary characters) TLC must find a lost character.
P-ENUM:  spec/WikiTokens.tla enumerates every sequence of <= k lexemes over the extended alphabet
         and over the core alphabet, plus `-simulate` behaviours for long texts.
P-TRACE: every sequence is concretised and scanned with the real mwlib.parser.token.utoken.scan
         (and tokenize, where its token list differs: the colon split of t_begin_table); the token
         list becomes a trace  Emit(type,start,len)* Stop  and TLC validates every trace against
         Scanner.tla (spec/ScannerTrace.tla, deadlock = rejected event, all invariants on,
         distinct states must equal sum(len+1)).  Nothing is judged in Python.

Offsets: _uscan works on a Py_UCS4 copy of the text, so start/len are code points (Python str
indices); the abstraction has one class per code point.
"""
import json
import os
import re
from concurrent.futures import ThreadPoolExecutor

from harness import tlc
from harness import wikitext as W
from harness.common import chunks

PROPERTY = "C10"
LEVEL = "exploration"

MC_CFG = """SPECIFICATION Spec
CONSTANTS MaxLen = %(n)d
 Types = {"t"}
 SkipClasses = {%(skip)s}
INVARIANTS TypeOK NonEmpty OrderedDisjoint CursorIsEnd BeforeLimit GapsAreEbad StartsAtZero Lossless ConcatIsInput
%(extra)s
CHECK_DEADLOCK FALSE
"""
GEN_CFG = """SPECIFICATION Spec
CONSTANTS Alphabet = "%(alpha)s"
 MaxLen = %(k)d
 MaxNest = 1000
 EmitFrom = %(emit)d
INVARIANTS TypeOK NestBounded %(laws)s EmitSeq
CHECK_DEADLOCK FALSE
"""
TRACE_CFG = """SPECIFICATION TraceSpec
CONSTANTS MaxLen = 0
 Types = {}
 SkipClasses = {"E"}
 Diagnose = %(diag)s
INVARIANTS NonEmpty OrderedDisjoint CursorIsEnd BeforeLimit StartsAtZero AtStopGaps AtStopLossless AtStopConcat
CHECK_DEADLOCK TRUE
"""
BATCH = 12000          # traces per TLC batch file
MAX_REPORTED = 12      # rejected traces reported per run (every rejection costs two more TLC runs)
_REJECTED = [0]


# ----------------------------------------------------------------------------- real code -> traces
def make_trace(atoms, text, toks, which):
    return {"n": len(text),
            "e": [i for i, c in enumerate(text) if c == "\uebad"],
            "z": [i for i, c in enumerate(text) if c == "\0"],
            "ev": [[t, s, n] for (t, s, n) in toks] + [[0, 0, 0]],
            "a": atoms, "w": which}


def traces_of(atoms):
    """All traces the real code yields for one lexeme sequence.  Whatever the scanner returns goes
    into the trace unchanged (negative, overlapping or out-of-range spans included): TLC rejects it.
    Returns (traces, tokenize identical?, exceptions [(api, repr)])."""
    from mwlib.parser.token import utoken
    text = W.concretise(atoms)
    excs = []
    try:
        toks = [tuple(int(x) for x in t) for t in utoken.scan(text)]
    except Exception as e:                                          # noqa: BLE001
        if W.harness_fault(e):
            raise W.HarnessFault(W.harness_fault(e))
        return [], 0, [("scan", "%s: %s" % (type(e).__name__, e))]
    out = [make_trace(atoms, text, toks, "scan")]
    same = 0
    if text:
        # the token list the refinement passes see (CompatScanner): identical spans except where
        # t_begin_table is split into colons + table start
        try:
            ctoks = [(t.type, int(t.start), int(t.len)) for t in utoken.tokenize(text)]
        except Exception as e:                                      # noqa: BLE001
            if W.harness_fault(e):
                raise W.HarnessFault(W.harness_fault(e))
            # tokenize looks at the text of the tokens (entities, tag names): with spans that do not
            # fit the text it may raise.  The scan trace above carries the verdict; this is recorded.
            excs.append(("tokenize", "%s: %s" % (type(e).__name__, e)))
            return out, same, excs
        if [(s, n) for (_, s, n) in ctoks] != [(s, n) for (_, s, n) in toks]:
            out.append(make_trace(atoms, text, ctoks, "tokenize"))
        else:
            same = 1
    return out, same, excs


def _scan_worker(args):
    idx, seqs, outdir = args
    W.quiet()
    files = []
    cur = []
    nstates = ntraces = same = 0
    nontrivial = set()
    seen = set()
    sample = None
    raised = []          # (atoms, api, exception) — at most 20 kept per worker
    nraised = 0

    def flush():
        nonlocal cur
        if cur:
            p = os.path.join(outdir, "b%03d_%03d.json" % (idx, len(files)))
            with open(p, "w") as f:
                json.dump(cur, f, separators=(",", ":"))
            files.append((p, len(cur), sum(len(t["ev"]) + 1 for t in cur)))
            cur = []
    for atoms in seqs:
        trs, sm, excs = traces_of(atoms)
        same += sm
        for api, what in excs:
            nraised += 1
            if len(raised) < 20:
                raised.append((atoms, api, what))
        for tr in trs:
            cur.append(tr)
            ntraces += 1
            nstates += len(tr["ev"]) + 1
            key = (tr["w"], tuple(map(tuple, tr["ev"])), tr["n"], tuple(tr["e"]), tuple(tr["z"]))
            if key not in seen:
                seen.add(key)
                # non-trivial: at least two tokens, or an EBAD dropped, or stopped at a NUL
                if len(tr["ev"]) > 2 or tr["e"] or tr["z"]:
                    nontrivial.add(hash(key))
                    if sample is None and len(tr["ev"]) > 3:
                        sample = tr
            if len(cur) >= BATCH:
                flush()
    flush()
    return files, ntraces, nstates, nontrivial, same, sample, raised, nraised


def scan_all(ctx, seqs, tag):
    outdir = os.path.join(ctx.scratch, "traces-" + tag)
    os.makedirs(outdir, exist_ok=True)
    jobs = [(i, ch, outdir) for i, ch in enumerate(chunks(seqs, ctx.ncpu * 2)) if ch]
    res = list(W.pmap(ctx, _scan_worker, jobs))
    files = [f for r in res for f in r[0]]
    distinct = set()
    for r in res:
        distinct |= r[3]
    tot = [sum(r[1] for r in res), sum(r[2] for r in res), len(distinct), sum(r[4] for r in res)]
    samples = [r[5] for r in res if r[5]]
    raised = [x for r in res for x in r[6]]
    return files, tot, samples, raised, sum(r[7] for r in res)


# ----------------------------------------------------------------------------- traces -> TLC
def diagnose(ctx, tr, name):
    p = os.path.join(ctx.scratch, "diag-%s.json" % name)
    with open(p, "w") as f:
        json.dump([tr], f)
    r = tlc.run(ctx, "ScannerTrace", TRACE_CFG % {"diag": "TRUE"}, name="diag-" + name, env={"TRACE_FILE": p},
                workers=1, heap="1g", timeout=120)
    if r.ok:
        return None
    m = re.search(r'second argument was:\s*"([^"]*)"', r.out)
    if m:
        return m.group(1)
    if r.kind == "invariant":
        return "invariant %s violated" % r.name
    if r.kind == "deadlock":
        return "event %s not allowed by Scanner.tla" % (r.trace[-1][1].get("l") if r.trace else "?")
    return "%s %s" % (r.kind, r.name)


def validate_file(ctx, item):
    """Run TLC on one batch; returns (distinct states, [(trace, reason)]) — rejected traces are
    removed one by one (TLC stops at the first deadlock) up to ten times."""
    path, ntr, nstates = item
    name = os.path.basename(path)[:-5]
    rejected = []
    for _ in range(11):
        if _REJECTED[0] >= MAX_REPORTED:
            return None, None, nstates, rejected   # enough counterexamples: do not keep re-running TLC
        r = tlc.run(ctx, "ScannerTrace", TRACE_CFG % {"diag": "FALSE"}, name="tr-" + name,
                    env={"TRACE_FILE": path}, workers=2, heap="3g", timeout=1800)
        if r.ok:
            return r.distinct, r.generated, nstates, rejected
        if r.kind not in ("deadlock", "invariant") or not r.trace:
            raise tlc.MachineryError("trace validation failed without a verdict on %s: %s %s\n%s"
                                     % (name, r.kind, r.name, r.out[-1500:]))
        tid = int(r.trace[-1][1]["tid"])
        with open(path) as f:
            batch = json.load(f)
        tr = batch.pop(tid - 1)
        reason = diagnose(ctx, tr, name)
        if reason is None:
            raise tlc.MachineryError("trace %d of %s rejected in the batch but accepted alone" % (tid, name))
        rejected.append((tr, reason))
        _REJECTED[0] += 1
        nstates -= len(tr["ev"]) + 1
        if not batch:
            return 0, 0, 0, rejected
        with open(path, "w") as f:
            json.dump(batch, f, separators=(",", ":"))
    return None, None, nstates, rejected      # more than ten rejections: stop counting


def key_of(tr, reason):
    return "%s %s atoms=%s" % (tr["w"], reason, json.dumps(tr["a"]))


def report(ctx, tr, reason):
    text = W.concretise(tr["a"])
    ctx.violation(key_of(tr, reason),
                  "utoken.%s(%r) -> %r: %s" % (tr["w"], text, [tuple(e) for e in tr["ev"][:-1]], reason),
                  {"atoms": tr["a"], "which": tr["w"], "text": text, "tokens": tr["ev"][:-1], "reason": reason})


def validate_all(ctx, files):
    total_states = total_gen = 0
    ntr = 0
    with ThreadPoolExecutor(max(1, ctx.ncpu // 2)) as ex:
        for (distinct, gen, expected, rejected), item in zip(ex.map(lambda it: validate_file(ctx, it), files), files):
            for tr, reason in rejected:
                report(ctx, tr, reason)
            if distinct is None:
                continue
            if distinct != expected:
                ctx.machinery("state count mismatch on %s: TLC found %d distinct states, the batch has %d"
                              % (item[0], distinct, expected))
            total_states += distinct
            total_gen += gen
            ntr += item[1] - len(rejected)
    return ntr, total_states, total_gen


# ----------------------------------------------------------------------------- the check
def generate(ctx, alpha, k, simulate=None, seed=None, emit_from=0, name=None, laws=True):
    cfg = GEN_CFG % {"alpha": alpha, "k": k, "emit": emit_from,
                     "laws": "CounterIsBalance AlphabetsNested" if laws else ""}
    kw = {}
    if simulate:
        kw = dict(simulate=simulate, depth=k + 1, seed=seed, workers=1)
    r = tlc.run(ctx, "WikiTokens", cfg, name=name or "gen-%s-%d" % (alpha, k), deadlock=False,
                timeout=3000, heap="8g", **kw)
    if not r.ok:
        ctx.machinery("WikiTokens (%s, %d) failed: %s %s\n%s" % (alpha, k, r.kind, r.name, r.out[-1200:]))
    head = [e for e in r.emitted if "alphabet" in e]
    seqs = [e["s"] for e in r.emitted if "s" in e]
    if not head:
        ctx.machinery("WikiTokens did not print its alphabet")
    W.check_alphabet(ctx, head[0]["alphabet"])
    return r, head[0]["alphabet"], seqs


def run(ctx):
    quick = ctx.tier == "quick"
    # ---- P-MC of the reference spec
    r = tlc.run(ctx, "Scanner", MC_CFG % {"n": 5 if quick else 6, "skip": '"E"', "extra": "PROPERTY Terminates"},
                name="scanner-mc", coverage=True, timeout=1200)
    if not r.ok:
        ctx.machinery("reference spec Scanner violates %s %s — a defect of the specification\n%s"
                      % (r.kind, r.name, r.out[-1500:]))
    cov = W.coverage_of(r)
    missing = [a for a in ("EmitAny", "Stop") if cov.get(a, [0, 0])[1] == 0]
    if missing:
        ctx.machinery("actions never taken in Scanner: %s" % missing)
    mc_states, mc_trans = r.distinct, r.generated
    nv = tlc.run(ctx, "Scanner", MC_CFG % {"n": 3, "skip": '"E", "o"', "extra": ""}, name="scanner-nv", timeout=300)
    if not (nv.kind == "invariant" and nv.name in ("GapsAreEbad", "Lossless", "StartsAtZero", "ConcatIsInput")):
        ctx.machinery("non-vacuity: a scanner that may skip ordinary characters did not violate the tiling "
                      "invariants (got %s %s)" % (nv.kind, nv.name))
    # ---- P-ENUM: the input space
    plans = [("extended", 2), ("core", 3)] if quick else [("extended", 3), ("core", 4)]
    sims = ([(1200, 8), (2400, 25), (1400, 60)] if quick
            else [(12500, 8)] * 2 + [(12500, 25)] * 4 + [(12500, 60)] * 2)
    seqs = []
    sizes = {}
    gen_states = 0
    with ThreadPoolExecutor(2) as ex:
        futs = [ex.submit(generate, ctx, a, k) for a, k in plans]
        for (a, k), f in zip(plans, futs):
            gr, alphabet, s = f.result()
            sizes["%s<=%d" % (a, k)] = [len(alphabet), len(s)]
            expect = sum(len(alphabet) ** i for i in range(k + 1))
            if len(s) != expect:
                ctx.machinery("WikiTokens emitted %d sequences over %s, expected %d" % (len(s), a, expect))
            gen_states += gr.distinct
            seqs += s
    nsim = 0
    with ThreadPoolExecutor(8) as ex:
        futs = [ex.submit(generate, ctx, "extended", depth, simulate=num, seed=ctx.seed * 1000 + i, emit_from=depth,
                          name="sim-%d" % i, laws=False) for i, (num, depth) in enumerate(sims)]
        for f in futs:
            _, _, s = f.result()
            nsim += len(s)
            seqs += s
    sizes["simulated"] = nsim
    # ---- P-TRACE
    files, (ntraces, nstates, nontrivial, same), samples, raised, nraised = scan_all(ctx, seqs, "all")
    for atoms, api, what in raised:
        if api == "scan":
            # no token list at all: reported directly, there is nothing TLC could be given
            ctx.violation("scan raises %s" % what.split(":")[0], "utoken.scan(%r) raises %s" % (W.concretise(atoms), what),
                          {"atoms": atoms, "which": "scan", "text": W.concretise(atoms), "tokens": [], "reason": what})
    nvalid, tstates, tgen = validate_all(ctx, files)
    ntok_raised = sum(1 for r in raised if r[1] == "tokenize")
    if nraised:
        ctx.note("%d texts made utoken.scan / tokenize raise (not a verdict of C10 unless scan itself raises; the scan trace of "
                 "the same text is validated): e.g. %r" % (nraised, [(W.concretise(a), api, w) for a, api, w in raised[:3]]))
    if not ctx.violations and not ctx.known_hits and nvalid != ntraces:
        ctx.machinery("validated %d of %d traces" % (nvalid, ntraces))
    ctx.set_cover(evaluations=ntraces, distinct_nontrivial=nontrivial,
                  exhaustive=True, sequences=len(seqs), enumerated=sizes,
                  tokenize_traces_identical_to_scan=same, texts_on_which_scan_or_tokenize_raised=nraised,
                  traces_validated_against_impl=nvalid, trace_states=tstates, trace_transitions=tgen,
                  states=mc_states + gen_states + tstates, transitions=mc_trans + tgen,
                  spec_mc={"states": mc_states, "transitions": mc_trans}, action_coverage=cov,
                  nonvacuity={"SkipClasses={E,o}": [nv.kind, nv.name]},
                  rule="every sequence of lexemes WikiTokens.tla generates (exhaustive: %s; plus %d simulated long "
                       "ones over the extended alphabet, lengths 8/25/60) is scanned with utoken.scan (and tokenize "
                       "where its spans differ) and the token list is validated by TLC as a behaviour of Scanner.tla; "
                       "distinct non-trivial = distinct traces with >= 2 tokens, a dropped U+EBAD or a NUL"
                       % (", ".join("%s %d lexemes -> %d sequences" % (k, v[0], v[1]) for k, v in sizes.items()
                                    if isinstance(v, list)), nsim))
    for tr in samples[:4]:
        ctx.sample({"atoms": tr["a"], "text": W.concretise(tr["a"]), "api": tr["w"], "events": tr["ev"]})
    ctx.assume("start/len are code points: _uscan.cc scans a Py_UCS4 copy (PyUnicode_AsUCS4Copy) of the text",
               "token *types* are not specified (the property does not state them)",
               "_uscan.re cannot be regenerated (no re2c): _uscan.cc is the scanner that is verified",
               "exhaustive over lexeme sequences, not over all strings: lexemes are the scanner's own token kinds "
               "with their boundary variants (spec/WikiTokens.tla Core / Extended)")


def replay(ctx, path):
    with open(path) as f:
        rec = json.load(f)["replay"]
    trs, _, _ = traces_of(rec["atoms"])
    bad = 0
    for tr in trs:
        if tr["w"] != rec["which"]:
            continue
        reason = diagnose(ctx, tr, "replay")
        if reason:
            bad += 1
            report(ctx, tr, reason)
    if not bad:
        print("replay: the token list is now accepted by Scanner.tla")
