"""C20 — output files appear atomically: a crash never leaves a partial file.

P-MC     spec/AtomicPublish.tla: file system + one process with a user-space buffer, Crash in every
         state and one injected I/O error anywhere; the five producer protocols transcribed from
         the code (Status.dump, download_with_retries, ZipCreator.create_zip, make_zip,
         render.main) plus the generic publication discipline; invariant Published and the
         discipline as action properties; the three defect switches must each make TLC violate
         Published (non-vacuity, every run).
P-TRACE  every real producer is run under `strace -f -y` in a scratch directory; the syscalls that
         touch its output directory are abstracted to the spec's operations and
         spec/AtomicPublishTrace.tla validates the clean run AND every faulted run as a behaviour
         of the transcribed protocol.  A trace the transcription rejects is re-validated against
         the generic discipline: rejected there too = VIOLATION (the observed syscall order can
         leave a partial final file); accepted there = the transcription drifted (reported in the
         evidence, not a verdict about mwlib).
FAULTS   real fault enumeration: for position k of the clean syscall sequence the producer is
         re-run with SIGKILL delivered on entry of call k, with ENOSPC and with EIO returned by
         call k (strace -e inject), with and without a previous version of the final file; after
         each run a reader opens the final path and must find it missing or complete (status:
         JSON equal to a complete version; zip: testzip + every member byte-equal; image:
         byte-equal; PDF: parses with pypdf and has the article's page; ODF: zip + content.xml
         parses).  The model predicts exactly that (Published), so any other outcome is a
         VIOLATION with a replay (producer, position, fault).
"""
import hashlib
import io
import json
import multiprocessing
import os
import random
import shutil
import zipfile

from harness import fsfault, tlc

PROPERTY = "C20"
LEVEL = "fault_enumeration"

PRODUCERS = ["status", "download", "createzip", "makezip", "render", "render_odf"]
FAULTS = ["kill", "ENOSPC", "EIO"]

CFG = """SPECIFICATION %(spec)s
CONSTANTS
  Producers = {%(producers)s}
  NChunks = %(nchunks)d
  MaxRounds = %(rounds)d
  PreviousChoices = {TRUE, FALSE}
  MaxErrors = %(maxerr)d
  CrashEnabled = TRUE
  DirectWrite = %(dw)s
  RenameBeforeClose = %(rbc)s
  SwallowError = %(sw)s
%(extra)s
CHECK_DEADLOCK FALSE
"""
MC_TAIL = """INVARIANTS TypeOK Published DoneMeansNew HandlesClosedAtEnd
PROPERTIES FinalChangesOnlyByRenameOrUnlink PublishedInodeIsImmutable FailedRoundKeepsFinal %s"""
ALL5 = ["status", "download", "createzip", "makezip", "render"]
ACTIONS = ["Mkstemp", "MkstempErr", "Close0", "Close0Err", "Open", "OpenErr", "OpenRetry", "BufWrite", "Flush", "FlushErr", "UnwindClose",
           "Close", "CloseErr", "Rename", "RenameErr", "Rerender", "Cleanup", "CleanupErr", "SubFail", "NextRound", "Crash",
           "GOpen", "GBufWrite", "GFlush", "GFlushErr", "GClose", "GCloseErr", "GRename", "GUnlink", "GErr", "GNextRound"]


def cfg(producers, nchunks=2, rounds=2, maxerr=1, dw=False, rbc=False, sw=False, live=True, trace=None):
    b = lambda x: str(bool(x)).upper()                               # noqa: E731
    if trace is None:
        extra = MC_TAIL % ("Terminates" if live else "")
        spec = "Spec"
    else:
        extra = "  UseGeneric = %s\nINVARIANTS TypeOK Published Accepted%s" % (b(trace == "generic"), " Progress" if trace == "diag" else "")
        spec = "TraceSpec"
    return CFG % dict(spec=spec, producers=", ".join('"%s"' % p for p in producers), nchunks=nchunks, rounds=rounds,
                      maxerr=maxerr, dw=b(dw), rbc=b(rbc), sw=b(sw), extra=extra)


# ------------------------------------------------------------------------------------ inputs
def prepare_inputs(ctx, root):
    """Inputs shared by all runs (read-only afterwards): source tree, image bytes, status versions,
    a one-article archive for the render producers."""
    rng = random.Random(ctx.seed)
    os.makedirs(os.path.join(root, "src", "images"))
    with open(os.path.join(root, "src", "nfo.json"), "w") as f:
        json.dump({"format": "nuwiki", "base_url": "http://en.example.org/w/", "script_extension": ".php"}, f)
    with open(os.path.join(root, "src", "revisions-1.txt"), "w") as f:
        f.write("\n\x0c --page-- {\"title\": \"Alpha\", \"ns\": 0, \"revid\": 11}\n" + "alpha " * 300)
    with open(os.path.join(root, "src", "images", "big.bin"), "wb") as f:
        f.write(rng.randbytes(120000))                              # incompressible: many write(2) calls
    with open(os.path.join(root, "image.bin"), "wb") as f:
        f.write(b"\x89PNG\r\n" + rng.randbytes(60000))
    versions = [{"status": "fetching", "progress": 10, "article": "Alpha"},
                {"status": "rendering", "progress": 55, "article": "B" * 30000}]
    with open(os.path.join(root, "status_versions.json"), "w") as f:
        json.dump(versions, f)
    # the archive rendered by render.main: written with the real FsOutput
    import contextlib
    import logging
    logging.disable(logging.CRITICAL)
    from mwlib.apps import buildzip
    from mwlib.core import metabook
    from mwlib.network import fetch, siteinfo
    mk = os.path.join(root, "mk")
    fs = fetch.FsOutput(os.path.join(mk, "nuwiki"))
    fs.write_siteinfo(siteinfo.get_siteinfo("en"))
    fs.nfo = {"format": "nuwiki", "base_url": "http://en.example.org/w/", "script_extension": ".php"}
    mb = metabook.Collection(title="Book", subtitle="", editor="")
    mb.append_article("Alpha", revision=None)
    fs.dump_json(metabook=mb)
    text = ("== Heading ==\nSome '''bold''' text about alpha. " + " ".join("word%d" % i for i in range(300))
            + "\n\n* item one\n* item two\n\nUniqueMarkerWord\n")
    fs.write_pages({"pages": {"1": {"title": "Alpha", "ns": 0, "revisions": [{"revid": 11, "*": text}]}}})
    fs.write_redirects({})
    fs.write_licenses([])
    fs.close()
    for n in ("authors", "html", "imageinfo"):
        with contextlib.suppress(Exception):
            getattr(fs, n).close()
    buildzip.zip_dir(os.path.join(mk, "nuwiki"), os.path.join(root, "coll.zip"))
    shutil.rmtree(mk, ignore_errors=True)
    return versions


def old_content(producer):
    """A complete previous version of the final file (distinguishable from the new one)."""
    if producer == "status":
        return json.dumps({"status": "old", "progress": 1}).encode()
    if producer in ("createzip", "makezip", "render_odf"):
        b = io.BytesIO()
        with zipfile.ZipFile(b, "w") as z:
            z.writestr(zipfile.ZipInfo("nfo.json", (2020, 1, 1, 0, 0, 0)), '{"format": "nuwiki", "old": true}')
            z.writestr(zipfile.ZipInfo("content.xml", (2020, 1, 1, 0, 0, 0)), "<old/>")
        return b.getvalue()
    if producer == "download":
        return b"\x89PNG\r\nOLD-IMAGE" * 50
    return b"%PDF-1.4\n% OLD VERSION\n" + b"x" * 500 + b"\n%%EOF\n"


def make_work(base, inputs, producer, prev):
    if os.path.isdir(base):
        shutil.rmtree(base)
    os.makedirs(os.path.join(base, "out"))
    os.makedirs(os.path.join(base, "tmp"))
    os.symlink(inputs, os.path.join(base, "in"))
    final = os.path.join(base, "out", fsfault.FINAL_NAME[producer])
    if prev:
        with open(final, "wb") as f:
            f.write(old_content(producer))
    return final


# ------------------------------------------------------------------------------------ readers
def read_final(producer, final, inputs, prev):
    """What a reader finds at the final path: ('missing'|'old'|'new', None) or ('BAD', why)."""
    if not os.path.lexists(final):
        return "missing", None
    try:
        with open(final, "rb") as f:
            data = f.read()
    except OSError as e:
        return "BAD", "cannot be read: %s" % e
    if prev and data == old_content(producer):
        return "old", None
    try:
        if producer == "status":
            got = json.loads(data.decode("utf-8"))
            with open(os.path.join(inputs, "status_versions.json")) as f:
                versions = json.load(f)
            acc = {}
            for v in versions:
                acc.update(v)
                if got == acc:
                    return "new", None
            return "BAD", "parses as JSON but is none of the complete versions: %r" % (str(got)[:120],)
        if producer in ("createzip", "makezip"):
            z = zipfile.ZipFile(io.BytesIO(data))
            bad = z.testzip()
            if bad:
                return "BAD", "zip member %s is corrupt" % bad
            src = os.path.join(inputs, "src")
            want = {}
            for dp, _d, fns in os.walk(src):
                for fn in fns:
                    p = os.path.join(dp, fn)
                    with open(p, "rb") as f:
                        want[os.path.relpath(p, src)] = f.read()
            for name, content in want.items():
                if name not in z.namelist():
                    return "BAD", "zip lacks member %s" % name
                if z.read(name) != content:
                    return "BAD", "zip member %s differs from its source" % name
            return "new", None
        if producer == "download":
            with open(os.path.join(inputs, "image.bin"), "rb") as f:
                want = f.read()
            if data == want:
                return "new", None
            return "BAD", "image has %d of %d bytes / differs" % (len(data), len(want))
        if producer == "render":
            import pypdf
            rd = pypdf.PdfReader(io.BytesIO(data))
            txt = "".join((p.extract_text() or "") for p in rd.pages)
            if len(rd.pages) >= 1 and "UniqueMarkerWord" in txt.replace("\n", "").replace(" ", ""):
                return "new", None
            return "BAD", "PDF opens but lacks the article text"
        if producer == "render_odf":
            z = zipfile.ZipFile(io.BytesIO(data))
            if z.testzip():
                return "BAD", "odt zip corrupt"
            from lxml import etree
            for member in ("mimetype", "styles.xml", "content.xml", "meta.xml", "META-INF/manifest.xml"):
                if member not in z.namelist():
                    return "BAD", "odt lacks member %s" % member
                if member.endswith(".xml"):
                    etree.fromstring(z.read(member))
            return "new", None
    except Exception as e:                                          # noqa: BLE001
        return "BAD", "does not parse: %s: %s (%d bytes, sha1 %s)" % (type(e).__name__, str(e)[:100], len(data),
                                                                       hashlib.sha1(data).hexdigest()[:10])
    return "BAD", "unknown producer"


# ------------------------------------------------------------------------------------ runs
def clean_run(scratch, inputs, producer, prev, tag):
    base = os.path.join(scratch, "clean-%s-%s" % (producer, tag))
    final = make_work(base, inputs, producer, prev)
    log = os.path.join(base, "strace.txt")
    rc, err = fsfault.run_traced(producer, base, log)
    main, ops, killed, ended, allops = fsfault.parse(log, os.path.join(base, "out"), final)
    state, why = read_final(producer, final, inputs, prev)
    return dict(rc=rc, err=err, ops=ops, allops=allops, ended=ended, state=state, why=why, base=base, killed=killed)


def inject_expr(op, fault):
    if fault == "kill":
        return "%s:signal=SIGKILL:when=%d" % (op.name, op.j)
    return "%s:error=%s:when=%d" % (op.name, fault, op.j)


def fault_run(args):
    """One faulted run.  Returns a plain dict (picklable)."""
    scratch, inputs, producer, prev, k, fault, name, j, sig, n_clean = args
    base = os.path.join(scratch, "f-%s-%d-%s-%d" % (producer, k, fault, int(prev)))
    out = dict(producer=producer, prev=prev, k=k, fault=fault, opname=name, j=j)
    for attempt in (1, 2):
        final = make_work(base, inputs, producer, prev)
        log = os.path.join(base, "strace.txt")
        if k > n_clean:
            rc, err = fsfault.run_traced(producer, base, log)         # position N+1: after the last call
        else:
            inj = ("%s:signal=SIGKILL:when=%d" % (name, j)) if fault == "kill" else ("%s:error=%s:when=%d" % (name, fault, j))
            rc, err = fsfault.run_traced(producer, base, log, inject=inj)
        main, ops, killed, ended, allops = fsfault.parse(log, os.path.join(base, "out"), final)
        hit = None
        if k <= n_clean:
            for idx, o in enumerate(ops):
                if (fault == "kill" and o.killed) or (fault != "kill" and o.injected):
                    hit = idx + 1
                    break
            # the faulted prefix must be the clean prefix and the hit must be call k
            stable = hit == k and fsfault.signature(ops[:k])[:k - 1] == [tuple(x) for x in sig[:k - 1]]
        else:
            stable = rc == 0 and not killed
        if stable:
            break
    state, why = read_final(producer, final, inputs, prev)
    ev, expect, multi, untracked = fsfault.abstract(allops, killed, rc, foreign_dirs=(os.path.join(os.path.realpath(base), "tmp"),))
    out.update(multi=multi, untracked=untracked, rc=rc, stable=bool(stable), hit=hit, state=state, why=why, killed=killed, ended=ended,
               events=ev, expect=expect, stderr=err[-300:], nops=len(ops),
               optext=(ops[k - 1].text if k <= len(ops) else ""), opbrief=(ops[k - 1].brief() if k <= len(ops) else "end"))
    shutil.rmtree(base, ignore_errors=True)
    return out


def bad_key(r):
    """producer, kind of call that was hit, kind of damage first (known findings match on this
    prefix); fault, position and previous-version flag after it."""
    why = (r["why"] or "").split(":")[0]
    why = " ".join(w for w in why.split() if not any(c.isdigit() for c in w) and "/" not in w and "." not in w)[:60]
    return "%s fault at %s: final file %s [%s at call %d prev=%s]" % (r["producer"], r["opbrief"], why, r["fault"], r["k"], r["prev"])


def validate_traces(ctx, traces, name):
    """traces: list of dict(producer, prev, expect, ev).  Returns (accepted idx set, TLC result)."""
    d = os.path.join(ctx.scratch, "batch-%s.json" % name)
    fsfault.dump_batch(d, traces)
    mode = "generic" if name.startswith("generic") else "own"
    res = tlc.run(ctx, "AtomicPublishTrace", cfg(ALL5 + ["generic"], nchunks=3, rounds=2, maxerr=8, trace=mode),
                  name="APTrace_" + name, env={"TRACE_FILE": d}, deadlock=False, timeout=900)
    if not res.ok:
        if res.kind == "invariant" and res.name == "Published":
            return None, res
        ctx.machinery("trace validation failed to run: %s %s\n%s" % (res.kind, res.name, res.out[-1200:]))
    acc = {e["acc"] for e in res.emitted if isinstance(e, dict) and "acc" in e}
    return acc, res


def run(ctx):
    quick = ctx.tier == "quick"
    rng = random.Random(ctx.seed)
    # ------------------------------------------------------------------ P-MC
    states = trans = 0
    mc_runs = ([dict(producers=ALL5, nchunks=2, rounds=2, maxerr=2), dict(producers=["generic"], nchunks=2, rounds=1),
                dict(producers=["generic"], nchunks=1, rounds=2, live=False)] if quick
               else [dict(producers=ALL5, nchunks=3, rounds=2, maxerr=2), dict(producers=ALL5 + ["generic"], nchunks=2, rounds=2)])
    cov = {}
    for n, kw in enumerate(mc_runs):
        res = tlc.run(ctx, "AtomicPublish", cfg(**kw), name="AP_mc%d" % n, coverage=True, deadlock=False, timeout=1500)
        if not res.ok:
            ctx.machinery("reference spec AtomicPublish violates %s %s — a defect of the specification\n%s"
                          % (res.kind, res.name, res.out[-1500:]))
        states += res.distinct
        trans += res.generated
        for a, c in res.coverage.items():
            cov[a] = [cov.get(a, [0, 0])[0] + c[0], cov.get(a, [0, 0])[1] + c[1]]
    missing = [a for a in ACTIONS if cov.get(a, [0, 0])[1] == 0]
    if missing:
        ctx.machinery("actions never taken in AtomicPublish: %s" % missing)
    nonvac = {}
    for sw in ("dw", "rbc", "sw"):
        r = tlc.run(ctx, "AtomicPublish", cfg(ALL5, live=False, **{sw: True}), name="AP_nv_" + sw, deadlock=False, timeout=300)
        nonvac[sw] = [r.kind, r.name]
        if not (r.kind == "invariant" and r.name == "Published"):
            ctx.machinery("non-vacuity: defect switch %s did not violate Published (got %s %s)" % (sw, r.kind, r.name))

    # ------------------------------------------------------------------ clean runs, positions
    inputs = os.path.join(ctx.scratch, "inputs")
    os.makedirs(inputs)
    prepare_inputs(ctx, inputs)
    clean = {}
    traces = []
    meta = []
    skipped_untracked = 0
    for p in PRODUCERS:
        a = clean_run(ctx.scratch, inputs, p, True, "a")
        b = clean_run(ctx.scratch, inputs, p, False, "b")
        for r, prev in ((a, True), (b, False)):
            if r["rc"] != 0 or not r["ended"] or r["state"] != "new":
                ctx.machinery("clean run of producer %s failed (rc=%s, final=%s %s): %s"
                              % (p, r["rc"], r["state"], r["why"], r["err"][-400:]))
        if fsfault.signature(a["ops"]) != fsfault.signature(b["ops"]) or [o.j for o in a["ops"]] != [o.j for o in b["ops"]]:
            ctx.machinery("syscall positions of producer %s are not stable between two clean runs "
                          "(use the in-process shim of harness/c20_driver.py)" % p)
        clean[p] = a
        for r, prev in ((a, True), (b, False)):
            ev, expect, _multi, untracked = fsfault.abstract(r["allops"], False, 0, foreign_dirs=(os.path.join(os.path.realpath(r["base"]), "tmp"),))
            if untracked:
                skipped_untracked += 1
                continue
            traces.append({"producer": fsfault.SPEC_PRODUCER[p], "prev": prev, "expect": expect, "ev": ev})
            meta.append({"producer": p, "fault": "none", "k": 0, "prev": prev})
        shutil.rmtree(a["base"], ignore_errors=True)
        shutil.rmtree(b["base"], ignore_errors=True)

    # ------------------------------------------------------------------ fault enumeration
    jobs = []
    for p in PRODUCERS:
        ops = clean[p]["ops"]
        sig = fsfault.signature(ops)
        n = len(ops)
        ks = list(range(1, n + 1))
        if quick:
            keep = [k for k in ks if (ops[k - 1].kind != "write" and ops[k - 1].cls != "sub") or ops[k - 1].kind == "open"]
            rest = [k for k in ks if k not in keep]
            rng.shuffle(rest)
            ks = sorted(set(keep + rest[:max(3, len(rest) // 4)]))
        for k in ks:
            o = ops[k - 1]
            for fault in FAULTS:
                for prev in ((True,) if quick and fault != "kill" else (True, False)):
                    jobs.append((ctx.scratch, inputs, p, prev, k, fault, o.name, o.j, sig, n))
        jobs.append((ctx.scratch, inputs, p, True, n + 1, "kill", "-", 0, sig, n))
    pool = multiprocessing.get_context("fork").Pool(ctx.ncpu)
    try:
        results = pool.map(fault_run, jobs, chunksize=1)
    finally:
        pool.close()
        pool.join()
    unstable = [r for r in results if not r["stable"]]
    if len(unstable) > max(3, len(results) // 20):
        ctx.machinery("%d of %d fault runs did not hit the intended call (first: %s %s@%d hit=%s)"
                      % (len(unstable), len(results), unstable[0]["producer"], unstable[0]["fault"], unstable[0]["k"], unstable[0]["hit"]))
    good = [r for r in results if r["stable"]]
    skipped_multi = 0
    for r in good:
        if r["multi"]:
            skipped_multi += 1          # two handles open on the temp at once: outside the one-handle model
        elif r["untracked"]:
            skipped_untracked += 1      # renamed from a file this trace never saw being written: the reader check decides
        else:
            traces.append({"producer": fsfault.SPEC_PRODUCER[r["producer"]], "prev": r["prev"], "expect": r["expect"], "ev": r["events"]})
            meta.append({"producer": r["producer"], "fault": r["fault"], "k": r["k"], "prev": r["prev"], "op": r["opbrief"]})
        if r["state"] == "BAD":
            ctx.violation(bad_key(r),
                          "after %s at position %d (%s) of producer %s the final path is neither missing nor complete: %s"
                          % (r["fault"], r["k"], r["optext"][:120], r["producer"], r["why"]),
                          {"producer": r["producer"], "k": r["k"], "fault": r["fault"], "prev": r["prev"], "opname": r["opname"],
                           "j": r["j"], "events": r["events"]})

    # ------------------------------------------------------------------ trace validation
    acc, res = validate_traces(ctx, traces, "own")
    if acc is None:
        ctx.machinery("a transcribed protocol replayed from a real trace violates Published - inspect %s" % res.trace[-1:])
    tstates = res.distinct
    rejected = [i for i in range(len(traces)) if (i + 1) not in acc]
    drift = []
    if rejected:
        sub = [traces[i] for i in rejected]
        gacc, gres = validate_traces(ctx, sub, "generic")
        tstates += gres.distinct if gres else 0
        for n, i in enumerate(rejected):
            m = meta[i]
            if gacc is None or (n + 1) not in gacc:
                evs = " ".join("%s:%s%s" % (e["op"], (e["src"] + ">") if e["op"] == "rename" else "", e["p"]) + ("!" if e["err"] else "")
                               for e in traces[i]["ev"])
                ctx.violation("%s trace breaks the publication discipline (fault=%s): %s" % (m["producer"], m["fault"] if m["fault"] == "none" else "any", evs if m["fault"] == "none" else evs[:0] + traces[i]["expect"]),
                              "the syscalls of producer %s (%s@%s) are not a behaviour of the generic atomic-publication discipline: %s"
                              % (m["producer"], m["fault"], m["k"], evs),
                              {"producer": m["producer"], "k": m["k"], "fault": m["fault"], "prev": m["prev"], "events": traces[i]["ev"],
                               "expect": traces[i]["expect"]})
            else:
                drift.append({"producer": m["producer"], "fault": m["fault"], "k": m["k"], "events": traces[i]["ev"], "expect": traces[i]["expect"]})
    if drift:
        ctx.note("%d traces obey the generic discipline but not the transcribed protocol (transcription drift)" % len(drift))
        for dr in drift[:12]:
            ctx.note("   drift: %s %s@%s -> %s: %s" % (dr["producer"], dr["fault"], dr["k"], dr["expect"], " ".join(
                "%s:%s%s%s" % (e["op"], e["p"], "[%s]" % e["mode"] if e["op"] == "open" else "", "!" if e["err"] else "") for e in dr["events"])))

    # ------------------------------------------------------------------ evidence
    outcomes = {}
    for r in good:
        key = "%s/%s/%s" % (r["producer"], r["fault"], r["state"])
        outcomes[key] = outcomes.get(key, 0) + 1
    effective = {(r["producer"], r["k"], r["fault"], r["prev"]) for r in good
                 if r["k"] <= len(clean[r["producer"]]["ops"]) and (r["killed"] or r["rc"] != 0 or r["state"] != "new")}
    ctx.set_cover(evaluations=len(results), distinct_nontrivial=len(effective), unstable_runs=len(unstable),
                  states=states, transitions=trans, traces_validated_against_impl=len(traces) - len(rejected),
                  trace_states=tstates, traces_skipped_two_handles=skipped_multi, traces_skipped_untracked_source=skipped_untracked, traces_rejected_by_transcription=len(rejected), transcription_drift=drift[:5],
                  positions={p: len(clean[p]["ops"]) for p in PRODUCERS}, outcomes=outcomes,
                  exhaustive=not quick, nonvacuity=nonvac, action_coverage={a: cov.get(a) for a in ACTIONS},
                  rule="for every producer, every position k of its clean syscall sequence on the output directory "
                       "(quick: every non-write call on the final/temp names, every open, plus a seeded quarter of the rest) x {SIGKILL on entry, ENOSPC, EIO} "
                       "x {with, without a previous version}; a run counts as distinct non-trivial when strace confirms that the "
                       "fault hit exactly call k and the producer consequently died or raised or left something other than the new version")
    for p in ("status", "createzip"):
        ctx.sample({"producer": p, "clean_calls": [o.brief() for o in clean[p]["ops"]][:30]})
    for r in good[:: max(1, len(good) // 3)][:3]:
        ctx.sample({k: r[k] for k in ("producer", "k", "fault", "prev", "opbrief", "state", "expect", "events")})
    ctx.assume("Linux rename(2) is atomic; strace -e inject delivers SIGKILL on syscall entry and returns the error without executing the call",
               "process kill only: power loss / missing fsync is outside the statement",
               "the fetch step of make_zip is replaced by copying a prepared nuwiki tree (buildzip.make_nuwiki seam); "
               "the image download uses a stub httpx client streaming 16 KiB chunks (fetch._get_download_client seam)",
               "render is exercised with the rl (PDF) and odf writers on a one-article archive",
               "calls on sub-directories of the output directory are fault positions but are not part of the abstract trace "
               "(only their failures are, as 'suberr')")


def replay(ctx, path):
    with open(path) as f:
        rec = json.load(f)["replay"]
    inputs = os.path.join(ctx.scratch, "inputs")
    os.makedirs(inputs)
    prepare_inputs(ctx, inputs)
    p = rec["producer"]
    c = clean_run(ctx.scratch, inputs, p, rec["prev"], "r")
    ops = c["ops"]
    k = rec["k"]
    if rec["fault"] == "none" or k == 0:
        ev, expect, _multi, _untracked = fsfault.abstract(c["allops"], False, c["rc"], foreign_dirs=(os.path.join(os.path.realpath(c["base"]), "tmp"),))
        acc, _res = validate_traces(ctx, [{"producer": "generic", "prev": rec["prev"], "expect": expect, "ev": ev}], "generic-replay")
        if not acc:
            ctx.violation("%s trace breaks the publication discipline (fault=none)" % p, "clean trace rejected", rec)
        else:
            print("replay: the clean trace now obeys the discipline")
        return
    o = ops[k - 1] if k <= len(ops) else None
    r = fault_run((ctx.scratch, inputs, p, rec["prev"], k, rec["fault"], o.name if o else "-", o.j if o else 0,
                   fsfault.signature(ops), len(ops)))
    if r["state"] == "BAD":
        ctx.violation(bad_key(r), r["why"], rec)
    else:
        print("replay: final path is %s after %s at call %d" % (r["state"], rec["fault"], k))
