"""C17 — see harness/qscheck.py (spec/WorkQ.tla, WorkQProps.tla, WorkQTrace.tla)."""
from harness import qscheck

PROPERTY = "C17"
LEVEL = "model_checking"


def run(ctx):
    qscheck.run(ctx, PROPERTY)


def replay(ctx, path):
    qscheck.replay(ctx, PROPERTY, path)
