"""C12 — title normalization is canonical and idempotent.

P-MC:   TLC explores spec/Titles.tla: from one seed per (namespace kind, default namespace,
        remainder shape) every path of re-spellings up to MaxDepth (other case / other name of the
        namespace, underscores, runs of blanks, blanks around the colon, leading colon, surrounding
        whitespace, bidi marks at the edges, omitted default prefix) and checks the spec's own
        normaliser: Canonical, Fixpoint, Idempotent, MarksAtEdges (oracle sanity).  Two switches
        re-introduce known defect classes and must make TLC fail (non-vacuity).
P-ENUM: TLC prints every seed and every transition as JSON.  For every bundled siteinfo-*.json
        (plus one synthetic case-sensitive variant), every default namespace 0/6/10/14 and
        namespaces / names of the site, the atoms are concretised and the real
        NsHandler.splitname / get_fqname must return, on BOTH ends of every transition, the triple
        (site's namespace number, canonical remainder, local name + ":" + remainder) that the
        spec's Canon(seed) concretises to; and normalising the canonical full name returns it.
        Reported: failing seeds, failing fixpoints, and transitions whose source conforms and
        whose target does not (the re-spelling that breaks canonicity), keyed by the re-spelling.
"""
import json
import multiprocessing
import os
import random
import sys

from harness import tlc

PROPERTY = "C12"
LEVEL = "model_checking"

ACTIONS = ["RecaseNs", "SwapNsName", "NsInnerBlank", "SpaceToUnderscore", "DoubleSpace", "PadEdges",
           "EdgeMark", "InnerMark", "LeadingColon", "SpaceAroundColon", "DropDefaultPrefix"]
ALL_SHAPES = ["one", "low", "up", "other", "words", "colon", "nslike"]
DEFAULT_NS = [0, 6, 10, 14]

CFG = """INIT Init
NEXT Next
CONSTANTS
  MaxDepth = %(depth)d
  ShapeIds = {%(shapes)s}
  Casings = {%(casings)s}
  Seps = {%(seps)s}
  Pads = {%(pads)s}
  Marks = {%(marks)s}
  Emit = %(emit)s
  StripOrder = "%(strip)s"
  ColonForcesMain = %(cfm)s
INVARIANTS Canonical Fixpoint Idempotent MarksAtEdges EmitSeed
ACTION_CONSTRAINT EmitEdge
VIEW View
CHECK_DEADLOCK FALSE
"""


def _set(xs):
    return ", ".join('"%s"' % x for x in xs)


def cfg(depth, shapes=ALL_SHAPES, casings=("asis", "lower", "upper", "mixed"), seps=("sp", "us", "dbl"),
        pads=("SP", "US", "TAB"), marks=("LRM", "RLM"), emit=True, strip="joint", cfm=True):
    return CFG % dict(depth=depth, shapes=_set(shapes), casings=_set(casings), seps=_set(seps), pads=_set(pads),
                      marks=_set(marks), emit=str(emit).upper(), strip=strip, cfm=str(cfm).upper())


# ----------------------------------------------------------------------------- sites
LOWERS = "aéдωñ"       # cased, lower, upper() is one character and round-trips
UPPERS = "BÉЖΩ"
OTHERS = "日ע١5"       # uncased
WS_CHARS = {"SP": " ", "US": "_", "COLON": ":", "LRM": "‎", "RLM": "‏"}
TABS = "\t\n  "   # whitespace that is not a blank; edges only


def _char_roundtrips(c):
    lo, up = c.lower(), c.upper()
    return len(lo) == 1 and len(up) == 1 and up.lower() == lo and lo.upper() == up


def recase(name, cs, parity):
    """A different letter case of a namespace name.  A character is re-cased only where
    lower()/upper() round-trip as single characters (no Unicode special-casing)."""
    if cs == "asis":
        return name
    out = []
    for i, c in enumerate(name):
        if not _char_roundtrips(c):
            out.append(c)
        elif cs == "lower":
            out.append(c.lower())
        elif cs == "upper":
            out.append(c.upper())
        else:  # mixed
            out.append(c.upper() if (i + parity) % 2 else c.lower())
    return "".join(out)


class Site:
    def __init__(self, name, siteinfo):
        from mwlib.core.nshandling import NsHandler
        self.name = name
        self.siteinfo = siteinfo
        self.handler = NsHandler(siteinfo)
        self.caps = siteinfo.get("general", {}).get("case", "first-letter") == "first-letter"
        self.ns = {}
        names = {}
        for v in siteinfo["namespaces"].values():
            nid = v["id"]
            self.ns[nid] = {"id": nid, "local": v["*"], "canonical": v.get("canonical", v["*"]), "aliases": [],
                            "own_case": v.get("case", siteinfo["general"].get("case")) == siteinfo["general"].get("case")}
            for nm in {v["*"], v.get("canonical", v["*"])}:
                names.setdefault(nm.lower(), set()).add(nid)
        for a in siteinfo.get("namespacealiases", []):
            if a["id"] in self.ns:
                self.ns[a["id"]]["aliases"].append(a["*"])
            names.setdefault(a["*"].lower(), set()).add(a["id"])
        self.names = names
        # a name the site defines for two namespaces has no defined number: not usable
        self.ambiguous = {k for k, v in names.items() if len(v) > 1}
        # bundles: one (namespace, alias) choice each; every alias of every namespace occurs once
        self.bundles = []
        for nid in sorted(self.ns):
            if nid == 0:
                continue
            e = self.ns[nid]
            al = e["aliases"] or [None]
            for a in al:
                self.bundles.append({"id": nid, "local": e["local"], "canonical": e["canonical"], "alias": a,
                                     "own_case": e["own_case"]})

    def usable(self, name):
        return name.lower() not in self.ambiguous


def load_sites(repo):
    import glob
    d = os.path.join(repo, "src", "mwlib", "network", "known_sites")
    sites = []
    for p in sorted(glob.glob(os.path.join(d, "siteinfo-*.json"))):
        with open(p, encoding="utf-8") as f:
            sites.append(Site(os.path.basename(p)[len("siteinfo-"):-len(".json")], json.load(f)))
    if not sites:
        raise RuntimeError("no bundled siteinfo found under " + d)
    # no bundled site is case-sensitive; the statement's "where the site says so" needs one
    with open(os.path.join(d, "siteinfo-en.json"), encoding="utf-8") as f:
        si = json.load(f)
    si["general"]["case"] = "case-sensitive"
    for v in si["namespaces"].values():
        v["case"] = "case-sensitive"
    sites.append(Site("en+case-sensitive(synthetic)", si))
    return sites


# ----------------------------------------------------------------------------- concretisation
class Asg:
    """One concretisation: site, default namespace number, namespace bundles for A and B,
    letter palette offset, case parity, tab character."""
    __slots__ = ("site", "d", "A", "B", "off", "parity", "tab")

    def __init__(self, site, d, A, B, off, parity, tab):
        self.site, self.d, self.A, self.B, self.off, self.parity, self.tab = site, d, A, B, off, parity, tab

    def describe(self):
        return {"site": self.site.name, "defaultns": self.d,
                "A": None if self.A is None else [self.A["id"], self.A["local"], self.A["canonical"], self.A["alias"]],
                "B": None if self.B is None else [self.B["id"], self.B["local"]],
                "letters_offset": self.off, "parity": self.parity, "tab": self.tab}


def concretise(codes, asg):
    """atoms -> string; None when an atom has no concretisation under this assignment (a
    namespace without alias, an ambiguous name)."""
    out = []
    j = 0
    for c in codes:
        if isinstance(c, list):
            nsname, kind, cs, sep = c
            b = asg.A if nsname == "A" else asg.B
            nm = b[kind]
            if nm is None or not asg.site.usable(nm):
                return None
            nm = recase(nm, cs, asg.parity)
            if sep == "us":
                nm = nm.replace(" ", "_")
            elif sep == "dbl":
                nm = nm.replace(" ", "  ")
            out.append(nm)
        elif c == "l":
            out.append(LOWERS[(asg.off + j) % len(LOWERS)])
            j += 1
        elif c == "lc":
            ch = LOWERS[(asg.off + j) % len(LOWERS)]
            out.append(ch.upper() if asg.site.caps else ch)
            j += 1
        elif c == "u":
            out.append(UPPERS[(asg.off + j) % len(UPPERS)])
            j += 1
        elif c == "o":
            out.append(OTHERS[(asg.off + j) % len(OTHERS)])
            j += 1
        elif c == "TAB":
            out.append(asg.tab)
        else:
            out.append(WS_CHARS[c])
    return "".join(out)


def expected_triple(seed, asg):
    """Concretised Canon(seed): (namespace number, canonical remainder, canonical full name)."""
    partial = concretise(seed["canon"], asg)
    if partial is None:
        return None
    if seed["ns"] == "main":
        return (0, partial, partial)
    local = asg.A["local"]
    return (asg.A["id"], partial, local + ":" + partial)


class HarnessFault(Exception):
    """The check's own code failed (not mwlib): reported as machinery error, never as a violation."""


VERIF_DIR = os.path.dirname(os.path.dirname(os.path.abspath(__file__)))


def call(site, title, d, cache):
    k = (title, d)
    r = cache.get(k)
    if r is None:
        try:
            t = site.handler.splitname(title, defaultns=d)
            fq = site.handler.get_fqname(title, d)
            if not (isinstance(t, tuple) and len(t) == 3):
                r = ("malformed result", repr(t)[:100], fq)
            else:
                r = (t[0], t[1], t[2]) if fq == t[2] else ("get_fqname differs", fq, t)
        except Exception as e:                                         # noqa: BLE001
            import traceback
            tb = traceback.extract_tb(e.__traceback__)
            # behaviour of mwlib only when raised inside its code; an exception raised by this
            # module's own statements (missing method, changed signature) is a fault of the check
            if not tb or os.path.abspath(tb[-1].filename).startswith(VERIF_DIR + os.sep):
                raise HarnessFault("calling NsHandler.splitname/get_fqname failed in the check's own code: %s: %s"
                                   % (type(e).__name__, str(e)[:200])) from e
            r = ("exception", type(e).__name__, "%s:%s %s" % (os.path.basename(tb[-1].filename), tb[-1].name, str(e)[:100]))
        cache[k] = r
    return r


# ----------------------------------------------------------------------------- keys
def _cls(c):
    if isinstance(c, list):
        return "namespace prefix"
    if c in ("SP", "US", "TAB"):
        return "whitespace"
    if c == "COLON":
        return "leading colon"
    if c in ("LRM", "RLM"):
        return "mark"
    return "letter"


def mark_context(codes):
    """Where a bidi mark sits relative to what the code strips first (whitespace).  Marks at the
    remainder's leading edge (after a colon) are listed first, then marks at the title's edges."""
    s = list(codes)
    while s and _cls(s[0]) == "whitespace":
        s.pop(0)
    while s and _cls(s[-1]) == "whitespace":
        s.pop()
    out = []
    for i, c in enumerate(s):
        if c != "COLON":
            continue
        j = i + 1
        while j < len(s) and _cls(s[j]) == "whitespace":
            j += 1
        if j < len(s) and _cls(s[j]) == "mark":
            while j < len(s) and _cls(s[j]) == "mark":
                j += 1
            if j < len(s) and _cls(s[j]) in ("whitespace", "namespace prefix") and "inner mark before " + _cls(s[j]) not in out:
                out.append("inner mark before " + _cls(s[j]))
    if s and _cls(s[0]) == "mark":
        i = 0
        while i < len(s) and _cls(s[i]) == "mark":
            i += 1
        if i < len(s) and _cls(s[i]) != "letter":
            out.append("front mark before " + _cls(s[i]))
    if s and _cls(s[-1]) == "mark":
        i = len(s) - 1
        while i >= 0 and _cls(s[i]) == "mark":
            i -= 1
        if i >= 0 and _cls(s[i]) == "whitespace":
            out.append("back mark after whitespace")
    return "; ".join(out) if out else "no mark next to a separator"


def action_label(a):
    name = a[0]
    if name in ("RecaseNs", "SwapNsName", "NsInnerBlank", "SpaceToUnderscore", "DoubleSpace"):
        return name + ":" + a[1]
    if name == "PadEdges":
        return "PadEdges:%s-%s" % (a[1], a[2])
    if name in ("EdgeMark", "InnerMark"):
        return name + ":" + a[1]
    if name == "SpaceAroundColon":
        return "SpaceAroundColon:" + a[1]
    return name


def wrong_fields(got, exp):
    if not (isinstance(got, tuple) and len(got) == 3 and isinstance(got[0], int)):
        return str(got[0])
    return ",".join(n for n, g, e in zip(("ns", "partial", "full"), got, exp) if g != e)


# ----------------------------------------------------------------------------- execution
G = {}     # set before fork: sites, seeds, edges_by_key, tier parameters


def assignments(site, seed, rng, full):
    """Concretisations for one seed on one site.  full=True: every namespace bundle of the site;
    False: the job's sample."""
    ds = [0] if seed["dflt"] == "main" else DEFAULT_NS[1:]
    out = []
    for d in ds:
        if d not in site.ns:
            continue
        if seed["ns"] == "main":
            As = [None]
        elif seed["dflt"] == "A":
            As = [b for b in site.bundles if b["id"] == d]
        else:
            As = [b for b in site.bundles if b["id"] != d]
        for A in As:
            if A is not None and not A["own_case"] and seed["canon"][0] == "lc":
                continue        # the site gives this namespace its own case rule; the code has one per site
            Bs = [None]
            if seed["shape"] == "nslike":
                ids = []
                for i in (A["id"], 14, d if d else 10):
                    if i in site.ns and i not in ids:
                        ids.append(i)
                Bs = [b for i in ids for b in site.bundles if b["id"] == i][:3]
                Bs = [b for b in Bs if b["local"][:1].upper() == b["local"][:1]]
            for B in Bs:
                out.append((d, A, B))
    if not full and len(out) > G["K"]:
        out = rng.sample(out, G["K"])
    return out


def _job(arg):
    si, key = arg
    site = G["sites"][si]
    seed = G["seeds"][key]
    edges = G["edges"][key]          # list of (label, n, s_idx, d_idx)
    states = G["states"][key]        # list of code lists; index 0 = the seed's start spelling
    depth = G["depths"][key]
    rng = random.Random("%d/%s/%s" % (G["seed"], site.name, key))
    cache = {}
    stats = {"calls": 0, "state_checks": 0, "edge_checks": 0, "edges_pass_fail": 0, "edges_fail_fail": 0,
             "edges_fail_pass": 0, "fixpoint_checks": 0, "skipped_no_name": 0, "assignments": 0, "failing_states": 0}
    bad = {}                         # key -> [count, example]
    names_seen = set()

    def report(k, what, rec):
        e = bad.get(k)
        if e is None:
            bad[k] = [1, what, rec]
        else:
            e[0] += 1

    full_asgs = assignments(site, seed, rng, True)
    sample = assignments(site, seed, rng, False)
    sample_ids = {(d, id(A), id(B)) for d, A, B in sample}
    for (d, A, B) in full_asgs:
        deep = (d, id(A), id(B)) in sample_ids
        off = rng.randrange(len(LOWERS) * 4)
        asg = Asg(site, d, A, B, off, rng.randrange(2), rng.choice(TABS))
        # the "colon" shape needs a prefix that is no namespace name on the site
        if seed["shape"] == "colon":
            for _ in range(10):
                pre = concretise(seed["canon"], asg).split(":")[0]
                if pre.lower() not in site.names:
                    break
                asg.off += 1
        exp = expected_triple(seed, asg)
        if exp is None:
            stats["skipped_no_name"] += 1
            continue
        stats["assignments"] += 1
        limit = G["D"] if deep else G["full_depth"]
        ok = [None] * len(states)
        titles = [None] * len(states)
        for i, codes in enumerate(states):
            if depth[i] > limit:
                continue
            t = concretise(codes, asg)
            if t is None:
                stats["skipped_no_name"] += 1
                continue
            titles[i] = t
            got = call(site, t, d, cache)
            stats["state_checks"] += 1
            ok[i] = (got == exp)
            if not ok[i]:
                stats["failing_states"] += 1
            if A is not None:
                for c in codes:
                    if isinstance(c, list) and c[0] == "A":
                        names_seen.add((A["id"], c[1], A[c[1]]))
                        break
        rec_base = {"site": site.name, "seed": seed, "asg": asg.describe()}
        # the seed itself
        if ok[0] is False:
            got = call(site, titles[0], d, cache)
            report("splitname seed ns=%s dflt=%s shape=%s wrong=%s" % (seed["ns"], seed["dflt"], seed["shape"], wrong_fields(got, exp)),
                   "splitname(%r, defaultns=%d) = %r, canonical is %r [%s]" % (titles[0], d, got, exp, site.name),
                   dict(rec_base, kind="seed", title=titles[0], expected=list(exp), got=list(got)))
        # canonical full name is a fixpoint (for every default namespace when it names its namespace)
        fullname = exp[2]
        for d2 in (DEFAULT_NS if seed["ns"] != "main" else [0]):
            if d2 not in site.ns:
                continue
            got = call(site, fullname, d2, cache)
            stats["fixpoint_checks"] += 1
            if got != exp:
                report("splitname fixpoint ns=%s shape=%s wrong=%s" % (seed["ns"], seed["shape"], wrong_fields(got, exp)),
                       "normalising the canonical name %r (defaultns=%d) gives %r, not %r [%s]" % (fullname, d2, got, exp, site.name),
                       dict(rec_base, kind="fixpoint", title=fullname, defaultns=d2, expected=list(exp), got=list(got)))
        # transitions
        for (a, n, s, t) in edges:
            if ok[s] is None or ok[t] is None:
                continue
            stats["edge_checks"] += 1
            if ok[t]:
                if not ok[s]:
                    stats["edges_fail_pass"] += 1
                continue
            if not ok[s]:
                stats["edges_fail_fail"] += 1
                continue
            stats["edges_pass_fail"] += 1
            got = call(site, titles[t], d, cache)
            k = "splitname %s [%s] wrong=%s" % (action_label(a), mark_context(states[t]), wrong_fields(got, exp))
            report(k, "re-spelling %r -> %r (defaultns=%d, %s): splitname gives %r, canonical is %r"
                   % (titles[s], titles[t], d, site.name, got, exp),
                   dict(rec_base, kind="edge", action=a, src=states[s], dst=states[t], src_title=titles[s],
                        dst_title=titles[t], expected=list(exp), got=list(got)))
    stats["calls"] = len(cache)
    return si, key, stats, bad, sorted(names_seen)


def check_case(rec, sites):
    """Re-execute one recorded case (replay): returns (key, what) when it still fails."""
    site = [s for s in sites if s.name == rec["site"]]
    if not site:
        return None
    site = site[0]
    d = rec["asg"]["defaultns"]
    cache = {}
    exp = tuple(rec["expected"])
    if rec["kind"] == "edge":
        got_s = call(site, rec["src_title"], d, cache)
        got_t = call(site, rec["dst_title"], d, cache)
        if got_t != exp or got_s != exp:
            got = got_t if got_t != exp else got_s
            return ("splitname %s [%s] wrong=%s" % (action_label(rec["action"]), mark_context(rec["dst"]), wrong_fields(got, exp)),
                    "re-spelling %r -> %r: %r / %r, canonical %r" % (rec["src_title"], rec["dst_title"], got_s, got_t, exp))
        return None
    d2 = rec.get("defaultns", d)
    got = call(site, rec["title"], d2, cache)
    if got != exp:
        seed = rec["seed"]
        if rec["kind"] == "seed":
            k = "splitname seed ns=%s dflt=%s shape=%s wrong=%s" % (seed["ns"], seed["dflt"], seed["shape"], wrong_fields(got, exp))
        else:
            k = "splitname fixpoint ns=%s shape=%s wrong=%s" % (seed["ns"], seed["shape"], wrong_fields(got, exp))
        return (k, "splitname(%r, %d) = %r, canonical %r" % (rec["title"], d2, got, exp))
    return None


def index_graph(emitted):
    """seeds, per-seed state lists (index 0 = start spelling), depths and edges from TLC's output."""
    seeds, states, depths, edges, idx = {}, {}, {}, {}, {}
    for e in emitted:
        if "canon" in e:
            k = "/".join(e["k"])
            seeds[k] = e
            states[k] = [e["s"]]
            depths[k] = [0]
            idx[k] = {json.dumps(e["s"]): 0}
            edges[k] = []
    for e in emitted:
        if "canon" in e:
            continue
        k = "/".join(e["k"])
        ix = idx[k]
        ss, dd = json.dumps(e["s"]), json.dumps(e["d"])
        if ss not in ix:
            raise ValueError("transition from a spelling TLC never reported as reached: %s" % ss)
        if dd not in ix:
            ix[dd] = len(states[k])
            states[k].append(e["d"])
            depths[k].append(e["n"])
        edges[k].append((e["a"], e["n"], ix[ss], ix[dd]))
    return seeds, states, depths, edges


def run(ctx):
    quick = ctx.tier == "quick"
    # ---- P-MC + enumeration
    plans = [dict(depth=3)] if quick else [
        dict(depth=3),
        dict(depth=4, casings=("asis", "mixed"), seps=("sp", "us"), pads=("SP", "TAB"), marks=("LRM",)),
    ]
    emitted = []
    tot_states = tot_trans = 0
    for i, pl in enumerate(plans):
        res = tlc.run(ctx, "Titles", cfg(**pl), name="Titles_enum%d" % i, workers=1, timeout=3000, heap="12g")
        if not res.ok:
            ctx.machinery("reference spec Titles violates %s %s — a defect of the specification\n%s"
                          % (res.kind, res.name, res.out[-1500:]))
        if len(res.emitted) != res.generated:
            ctx.machinery("TLC generated %d states/transitions but %d were emitted" % (res.generated, len(res.emitted)))
        tot_states += res.distinct
        tot_trans += res.generated
        emitted.append(res.emitted)
        res.out = ""
    # ---- coverage on a small instance; non-vacuity of the two mechanism switches
    cov = tlc.run(ctx, "Titles", cfg(2, emit=False), name="Titles_cov", workers=1, coverage=True, timeout=600)
    if not cov.ok:
        ctx.machinery("coverage run failed: %s %s" % (cov.kind, cov.name))
    missing = tlc.uncovered_actions(cov, ACTIONS)
    if missing:
        ctx.machinery("actions never taken in Titles: %s" % missing)
    nonvac = {}
    for nm, kw in (("StripOrder=ws-first", dict(strip="ws-first")), ("ColonForcesMain=FALSE", dict(cfm=False))):
        r = tlc.run(ctx, "Titles", cfg(2, emit=False, **kw), name="Titles_nv", workers=1, timeout=300)
        nonvac[nm] = [r.kind, r.name]
        if not (r.kind == "invariant" and r.name in ("Canonical", "Idempotent")):
            ctx.machinery("non-vacuity: %s did not violate Canonical (got %s %s)" % (nm, r.kind, r.name))
    # ---- P-ENUM against the real code
    sites = load_sites(ctx.repo)
    totals = {}
    bad_all = {}
    names_seen = {}
    n_edges = n_states = 0
    for pi, em in enumerate(emitted):
        try:
            seeds, states, depths, edges = index_graph(em)
        except ValueError as e:
            ctx.machinery(str(e))
        n_edges += sum(len(v) for v in edges.values())
        n_states += sum(len(v) for v in states.values())
        G.update(sites=sites, seeds=seeds, states=states, depths=depths, edges=edges, seed=ctx.seed + pi,
                 D=plans[pi]["depth"], full_depth=(2 if pi == 0 else 1), K=(4 if quick else 6))
        jobs = [(si, k) for k in sorted(seeds) for si in range(len(sites))]
        random.Random(ctx.seed).shuffle(jobs)
        pool = multiprocessing.get_context("fork").Pool(ctx.ncpu)
        try:
            done = 0
            for si, key, stats, bad, seen in pool.imap_unordered(_job, jobs, chunksize=1):
                done += 1
                for k, v in stats.items():
                    totals[k] = totals.get(k, 0) + v
                for k, (cnt, what, rec) in bad.items():
                    e = bad_all.get(k)
                    if e is None or (rec["site"], json.dumps(rec["asg"], sort_keys=True)) < (e[2]["site"], json.dumps(e[2]["asg"], sort_keys=True)):
                        bad_all[k] = [cnt + (e[0] if e else 0), what, rec]
                    else:
                        e[0] += cnt
                names_seen.setdefault(sites[si].name, set()).update(tuple(x) for x in seen)
        except HarnessFault as e:
            pool.terminate()
            ctx.machinery(str(e))
        finally:
            pool.close()
            pool.join()
        if done != len(jobs):
            ctx.machinery("executed %d of %d jobs" % (done, len(jobs)))
    for k in sorted(bad_all):
        cnt, what, rec = bad_all[k]
        ctx.violation(k, "%s (%d concrete transitions/cases with this key)" % (what, cnt), rec)
    # every name of every namespace of every site must have been exercised
    want = have = 0
    for s in sites:
        for b in s.bundles:
            for kind in ("local", "canonical", "alias"):
                if b[kind] is not None and s.usable(b[kind]):
                    want += 1
                    have += (b["id"], kind, b[kind]) in names_seen.get(s.name, ())
    if have != want:
        ctx.machinery("only %d of %d (site, namespace, name) combinations were exercised" % (have, want))
    if totals.get("edge_checks", 0) == 0 or totals.get("fixpoint_checks", 0) == 0:
        ctx.machinery("nothing was executed against the implementation")
    ctx.set_cover(states=tot_states, transitions=tot_trans,
                  traces_validated_against_impl=totals["edge_checks"],
                  evaluations=totals["calls"], distinct_nontrivial=totals["calls"],
                  abstract_spellings=n_states, abstract_transitions=n_edges,
                  sites=[s.name for s in sites], names_exercised=have,
                  exhaustive=False, nonvacuity=nonvac, action_coverage=cov.coverage, **{"impl_" + k: v for k, v in totals.items()},
                  rule="TLC enumerates every path of <= MaxDepth re-spellings from each seed of Titles.tla (plans %r; exhaustive to that bound). "
                       "Every transition is concretised per site (12 bundled + 1 synthetic case-sensitive), default namespace (0/6/10/14) and "
                       "namespace of the site: spellings up to depth full_depth with EVERY namespace and every alias, deeper ones with a seeded "
                       "sample of K namespaces per (site, seed); both ends must normalise to the concretised Canon. evaluations / "
                       "distinct_nontrivial = distinct (title string, defaultns) pairs passed to the real splitname+get_fqname "
                       "(every one is a non-identity spelling or a canonical name)." % (plans,))
    some = emitted[0]
    for e in some[:: max(1, len(some) // 5)][:5]:
        ctx.sample(e)
    ctx.assume("letter-case variants of namespace names are generated only for characters whose lower()/upper() round-trip as single characters",
               "namespaces to which the site gives a case rule of their own (Gadget*) are used only with remainders that need no capitalisation",
               "a namespace name the site defines for two different namespaces is not used",
               "bidi marks occur only at the edges of the whole title (the property's quantifier)",
               "main-namespace titles under a non-main default namespace are spelled with the leading colon")


def replay(ctx, path):
    with open(path) as f:
        rec = json.load(f)
    sites = load_sites(ctx.repo)
    try:
        r = check_case(rec["replay"], sites)
    except HarnessFault as e:
        ctx.machinery(str(e))
    if r:
        ctx.violation(r[0], r[1], rec["replay"])
    else:
        print("replay: case now agrees with the specification")
