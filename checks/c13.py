"""C13 — metabooks round-trip through JSON and identify collections deterministically.

P-MC:   TLC explores spec/Metabook.tla: from a few seed books every path of <= MaxDepth edits,
        CONTENT edits (append/remove/swap article, change revision/title, wrap in a chapter,
        set/unset optional fields, add/remove/change WikiConf / License / Source+Interwiki /
        Custom objects, change ONE component of the wiki coordinates: scheme, userinfo, host,
        port, path, trailing segment, script_extension, login) and REPRESENTATION edits (key order,
        whitespace, ASCII escaping, who serialised).  EditLaw (evaluated on every generated
        transition) checks the spec's identity: representation edits preserve it, content edits
        change it.  Three IdentMode switches re-introduce defect classes and must make TLC fail.
P-ENUM: TLC prints every seed and transition as JSON.  Every state is built for real (metabook
        classes and client JSON text), and the real myjson.loads/dumps, Collection.dumps,
        calc_checksum and make_collection_id (nserve and serve) are executed:
          state:  project(loads(dumps(x))) = the abstract content (items, order, nesting,
                  attributes); every nested object of the reloaded metabook is an instance of
                  the same class as in x and has equal public attributes; get_wiki(ident) works;
                  dumps(loads(dumps(x))) = dumps(x); loading the client's text projects to the
                  content; two independently built equal metabooks share no mutable list
          edge:   representation edit -> collection id EQUAL; content edit -> DIFFERENT
          global: over all explored states the id is a function of the content, and injective.
        Longer paths come from TLC -simulate (thorough).
"""
import io
import json
import multiprocessing
import os
import random
import re
import sys

from harness import tlc
from harness.common import chunks

PROPERTY = "C13"
LEVEL = "model_checking"

ACTIONS = ["AppendArticle", "AppendInChapter", "AppendChapter", "RemoveItem", "SwapItems", "ChangeRevision",
           "ChangeTitle", "WrapInChapter", "SetOptional", "ChangeWiki", "AppendCustom", "EditWikiConf", "EditLicense",
           "EditSource", "Tweak", "PermuteKeys", "ChangeWhitespace", "ToggleAsciiEscape", "Reserialise", "SpellDefaults"]
ALL_SEEDS = ["empty", "one", "two", "nested", "twochap", "kinds"]
QUICK_SEEDS = ["empty", "two", "nested", "kinds"]
WIKI_COMPONENTS = ["scheme", "user", "host", "port", "path", "seg", "ext", "login"]

CFG = """INIT Init
NEXT Next
CONSTANTS
  MaxDepth = %(depth)d
  MaxArticles = %(maxart)d
  MaxChapters = %(maxchap)d
  Titles = {%(titles)s}
  Revs = {"none", "zero", "r1", "r2"}
  SeedIds = {%(seeds)s}
  Emit = %(emit)s
  EmitPrefix = "@#"
  OneComponent = %(onecomp)s
  TweakDepth = %(tweak)d
  IdentMode = "%(mode)s"
INVARIANTS TypeOK EmitSeed
ACTION_CONSTRAINTS EditLaw EmitEdge
VIEW View
CHECK_DEADLOCK FALSE
"""


def cfg(depth, seeds=ALL_SEEDS, titles=("t1", "t2"), maxart=4, maxchap=2, emit=True, mode="content", onecomp=True, tweak=2):
    q = lambda xs: ", ".join('"%s"' % x for x in xs)        # noqa: E731
    return CFG % dict(depth=depth, seeds=q(seeds), titles=q(titles), maxart=maxart, maxchap=maxchap,
                      emit=str(emit).upper(), mode=mode, onecomp=str(onecomp).upper(), tweak=tweak)


# ----------------------------------------------------------------------------- concretisation
TITLE_PALETTE = [
    "Ünïcödé Tïtle",
    "日本語の記事 (にほんご)",
    "Ελληνικά/ΣΊΣΥΦΟΣ ς",
    "naïve \"quoted\" \\ back/slash",
    "𝔘𝔫𝔦𝔠𝔬𝔡𝔢 🜁 astral",
    "עברית ‏RTL‎ العربية",
    "line sep   nbsp",
    "tab\there & <tag> 'q'",
    "Simple Title",
    "É",
    "combining é ǆ ß İ",
    "{\"type\": \"article\"}",
]
OPT_PALETTE = ["Optionaler Wert – ✓", "サブタイトル", "plain option"]


def make_cz(seed):
    """Abstract names -> concrete strings (injective), chosen from the palettes by the seed."""
    rng = random.Random("c13/%d" % seed)
    ts = rng.sample(TITLE_PALETTE, 6)
    cz = {"t1": ts[0], "t2": ts[1], "t3": ts[2], "t4": ts[3],
          "r1": rng.choice(["12345", "1"]), "r2": rng.choice(["987654321", "2"]),
          "o1": rng.choice(OPT_PALETTE),
          # components of the base URL
          "http": "http", "https": "https", "usr": rng.choice(["bot", "u:pw"]),
          # (mixed case and a non-ASCII letter, so that case / NFD re-spellings of the URL are effective)
          "h1": rng.choice(["en.Wikipedia.org", "Wiki.Example.org"]), "h2": rng.choice(["de.Wikipedia.org", "Wiki.Example.net"]),
          "p1": "8080", "p2": rng.choice(["8081", "80", "443"]), "pa": rng.choice(["w", "Wíki"]), "pb": rng.choice(["wiki", "W2", "w2"]),
          "sg": rng.choice(["Móbile", "wé"]),
          "e1": rng.choice([".php", ".Php5"]), "l1": "Usér:Secret:domain",
          # the other kinds of objects
          "w1": "enwiki", "w2": rng.choice(["dewiki", "ENWIKI"]), "b1": "https://en.Wikipedia.org/wíki/", "b2": "https://en.Wikipedia.org:8080/wíki/",
          "lt1": "GNU Free Documentation License – " + ts[4][:6], "lw1": "== License ==\n" + ts[4], "lw2": "== License ==\n" + ts[5],
          "sn1": "Wikipédia", "la1": "en", "la2": "pt-br", "i1": "wikt", "cc1": "''custom'' " + ts[5]}
    inv = {v: k for k, v in cz.items() if k not in ("http", "https", "pa", "sg")}
    if len(inv) != len(cz) - 4:
        raise ValueError("concretisation is not injective")
    return cz, inv


MB_TWEAK_FIELDS = ("title", "subtitle", "editor", "item_title", "displaytitle", "wikiconf_baseurl", "license_wikitext", "source_name")


def tweak_str(s, kind, pick):
    """One nearest-neighbour re-spelling of s, or None when this kind has no effect on s."""
    import unicodedata
    if kind == "lead":
        return " " + s
    if kind == "trail":
        return s + " "
    if kind == "slash":
        return s[:-1] if s.endswith("/") else s + "/"
    if kind == "case":
        idx = [i for i, c in enumerate(s) if len(c.swapcase()) == 1 and c.swapcase() != c and c.swapcase().swapcase() == c]
        if not idx:
            return None
        i = idx[pick % len(idx)]
        return s[:i] + s[i].swapcase() + s[i + 1:]
    if kind == "nfd":
        for i, c in enumerate(s):
            d = unicodedata.normalize("NFD", c)
            if d != c:
                return s[:i] + d + s[i + 1:]
        n = unicodedata.normalize("NFC", s)
        return n if n != s else None
    raise ValueError(kind)


def tweak_of(st, cz, seed=0):
    """(field, abstract name or None, base string, tweaked string) of the state's nearest-neighbour
    re-spelling; None when the state has none; tweaked string None when the tweak has no effect."""
    tw = st.get("tw") or {"f": "none"}
    f = tw["f"]
    if f == "none":
        return None
    mb, w = st["mb"], st["wiki"]
    name = None
    if f == "base_url":
        base = base_url(w, cz)
    elif f == "script_extension":
        base = cz[w["ext"]]
    elif f == "login_credentials":
        base = cz[w["login"]]
    else:
        name = {"title": lambda: mb["title"], "subtitle": lambda: mb["subtitle"], "editor": lambda: mb["editor"],
                "item_title": lambda: mb["items"][0]["title"], "displaytitle": lambda: mb["items"][0]["dt"],
                "wikiconf_baseurl": lambda: mb["wikis"][0]["baseurl"], "license_wikitext": lambda: mb["licenses"][0]["wikitext"],
                "source_name": lambda: mb["source"][0]["name"]}[f]()
        base = cz[name]
    return f, name, base, tweak_str(base, tw["k"], seed + len(base))


def apply_tweak_client(d, f, s):
    if f in ("title", "subtitle", "editor"):
        d[f] = s
    elif f == "item_title":
        d["items"][0]["title"] = s
    elif f == "displaytitle":
        d["items"][0]["displaytitle"] = s
    elif f == "wikiconf_baseurl":
        d["wikis"][0]["baseurl"] = s
    elif f == "license_wikitext":
        d["licenses"][0]["wikitext"] = s
    elif f == "source_name":
        d["source"]["name"] = s


def apply_tweak_api(c, f, s):
    if f in ("title", "subtitle", "editor"):
        setattr(c, f, s)
    elif f == "item_title":
        c.items[0].title = s
    elif f == "displaytitle":
        c.items[0].displaytitle = s
    elif f == "wikiconf_baseurl":
        c.wikis[0].baseurl = s
    elif f == "license_wikitext":
        c.licenses[0].wikitext = s
    elif f == "source_name":
        c.source.name = s


def C(cz, v):
    """value of an optional field: absent, present-but-falsy ("" / 0), ordinary"""
    return None if v == "none" else "" if v == "empty" else 0 if v == "zero" else cz[v]


VERSION = {"dflt": 1, "zero": 0, "v2": 2}
CTYPE = {"dflt": "text/x-wiki", "empty": "", "c2": "text/html"}


def base_url(w, cz):
    """scheme://[user@]host[:port]/path/[seg/]"""
    u = cz[w["scheme"]] + "://"
    if w["user"] != "none":
        u += cz[w["user"]] + "@"
    u += cz[w["host"]]
    if w["port"] != "none":
        u += ":" + cz[w["port"]]
    u += "/" + cz[w["path"]] + "/"
    if w["seg"] != "none":
        u += cz[w["seg"]] + "/"
    return u


def client_obj(st, cz):
    """The metabook as a client would write it: plain dicts, lower-case type names.  With
    rep.defaults = "omit" fields that are absent or have their default value are left out; with
    "explicit" they are spelled out (default value, null for absent)."""
    explicit = st["rep"].get("defaults") == "explicit"

    def opt(d, key, v):
        if v != "none":
            d[key] = C(cz, v)
        elif explicit:
            d[key] = None

    def art(a):
        d = {"type": "article", "title": cz[a["title"]]}
        if a["ct"] != "dflt" or explicit:
            d["content_type"] = CTYPE[a["ct"]]
        opt(d, "revision", a["rev"])
        opt(d, "displaytitle", a["dt"])
        return d
    mb = st["mb"]
    items = []
    for it in mb["items"]:
        if it["k"] == "a":
            items.append(art(it))
        elif it["k"] == "x":
            items.append({"type": "custom", "title": cz[it["title"]], "content": cz[it["content"]]})
        else:
            items.append({"type": "chapter", "title": cz[it["title"]], "items": [art(a) for a in it["items"]]})
    d = {"type": "collection", "title": cz[mb["title"]], "items": items}
    if mb["version"] != "dflt" or explicit:
        d["version"] = VERSION[mb["version"]]
    if explicit:
        d["summary"] = ""
    opt(d, "subtitle", mb["subtitle"])
    opt(d, "editor", mb["editor"])
    if mb["wikis"] or explicit:
        d["wikis"] = [{"type": "wikiconf", "ident": cz[w["ident"]], "baseurl": cz[w["baseurl"]]} for w in mb["wikis"]]
    if mb["licenses"] or explicit:
        d["licenses"] = [{"type": "license", "title": cz[x["title"]], "wikitext": cz[x["wikitext"]]} for x in mb["licenses"]]
    for src in mb["source"]:
        sd = {"type": "source", "name": cz[src["name"]], "language": cz[src["lang"]]}
        if src["iw"] != "none":
            sd["interwikimap"] = [{"type": "interwiki", "prefix": cz[src["iw"]], "local": True}]
        d["source"] = sd
    t = tweak_of(st, cz)
    if t and t[0] in MB_TWEAK_FIELDS:
        apply_tweak_client(d, t[0], t[3])
    return d


def reorder(o, order, rng):
    if isinstance(o, dict):
        ks = sorted(o)
        if order == "reversed":
            ks.reverse()
        elif order == "shuffled":
            rng.shuffle(ks)
        return {k: reorder(o[k], order, rng) for k in ks}
    if isinstance(o, list):
        return [reorder(x, order, rng) for x in o]
    return o


def client_text(st, cz, seed):
    rep = st["rep"]
    rng = random.Random("keys/%d/%s" % (seed, json.dumps(st["mb"], sort_keys=True)))
    o = reorder(client_obj(st, cz), rep["keys"], rng)
    kw = {"ensure_ascii": bool(rep["ascii"])}
    ind = rep["indent"]
    if ind == "compact":
        kw["separators"] = (",", ":")
    elif ind == "i1":
        kw["indent"] = 1
    elif ind == "i4":
        kw["indent"] = 4
    else:
        kw["separators"] = (" ,\t", " :\n ")
    t = json.dumps(o, **kw)
    if ind == "airy":
        t = "\n\t " + t + " \r\n"
    return t


def request_for(st, cz, M):
    """The render request (POST parameters) of this state."""
    text = client_text(st, cz, M["seed"])
    ser = st["rep"]["ser"]
    if ser == "myjson":
        text = M["myjson"].dumps(M["myjson"].loads(text))
    elif ser == "coll":
        text = M["myjson"].loads(text).dumps()
    req = {"metabook": text, "base_url": base_url(st["wiki"], cz), "writer": "rl"}
    if st["wiki"]["ext"] != "none":
        req["script_extension"] = C(cz, st["wiki"]["ext"])
    if st["wiki"]["login"] != "none":
        req["login_credentials"] = C(cz, st["wiki"]["login"])
    t = tweak_of(st, cz)
    if t and t[0] in ("base_url", "script_extension", "login_credentials"):
        req[t[0]] = t[3]
    return req


def build_api(st, cz, M):
    """The same metabook built with mwlib's own classes (default lists, append_article)."""
    mbm = M["metabook"]
    mb = st["mb"]
    c = mbm.Collection()
    c.title = cz[mb["title"]]
    if mb["subtitle"] != "none":
        c.subtitle = C(cz, mb["subtitle"])
    if mb["editor"] != "none":
        c.editor = C(cz, mb["editor"])
    if mb["version"] != "dflt":
        c.version = VERSION[mb["version"]]

    def kw(a):
        return {} if a["ct"] == "dflt" else {"content_type": CTYPE[a["ct"]]}
    for it in mb["items"]:
        if it["k"] == "c":
            c.items.append(mbm.Chapter(title=cz[it["title"]]))
            for a in it["items"]:          # the last item is a chapter: append_article goes into it
                c.append_article(cz[a["title"]], C(cz, a["dt"]), revision=C(cz, a["rev"]), **kw(a))
        elif it["k"] == "x":
            c.items.append(mbm.Custom(title=cz[it["title"]], content=cz[it["content"]]))
        elif c.items and isinstance(c.items[-1], mbm.Chapter):
            c.items.append(mbm.Article(title=cz[it["title"]], displaytitle=C(cz, it["dt"]), revision=C(cz, it["rev"]), **kw(it)))
        else:
            c.append_article(cz[it["title"]], C(cz, it["dt"]), revision=C(cz, it["rev"]), **kw(it))
    for w in mb["wikis"]:
        c.wikis.append(mbm.WikiConf(ident=cz[w["ident"]], baseurl=cz[w["baseurl"]]))
    for x in mb["licenses"]:
        c.licenses.append(mbm.License(title=cz[x["title"]], wikitext=cz[x["wikitext"]]))
    for src in mb["source"]:
        so = mbm.Source(name=cz[src["name"]], language=cz[src["lang"]])
        if src["iw"] != "none":
            so.interwikimap = [mbm.make_interwiki({"prefix": cz[src["iw"]], "local": True})]
        c.source = so
    t = tweak_of(st, cz)
    if t and t[0] in MB_TWEAK_FIELDS:
        apply_tweak_api(c, t[0], t[3])
    return c


def project(c, inv, M):
    """Real object -> abstract content in the shape TLC prints (mb).  An object that is not an
    instance of the class the content calls for projects to {"k": "?<its type>"}."""
    mbm = M["metabook"]

    def nm(v):
        if v is None:
            return "none"
        if type(v) is int and v == 0:
            return "zero"
        if v == "":
            return "empty"
        return inv.get(v, "?%r" % (v,)) if isinstance(v, str) else "?%r" % (v,)

    def pick(table, v):
        for k, x in table.items():
            if type(x) is type(v) and x == v:
                return k
        return "?%r" % (v,)

    def wrong(o):
        return {"k": "?" + type(o).__name__}

    def art(a):
        return {"k": "a", "title": nm(a.title), "rev": nm(a.revision), "dt": nm(a.displaytitle), "ct": pick(CTYPE, a.content_type)}
    if type(c) is not mbm.Collection:
        return wrong(c)
    items = []
    for it in c.items:
        if type(it) is mbm.Article:
            items.append(art(it))
        elif type(it) is mbm.Chapter:
            items.append({"k": "c", "title": nm(it.title),
                          "items": [art(a) if type(a) is mbm.Article else wrong(a) for a in it.items]})
        elif type(it) is mbm.Custom:
            items.append({"k": "x", "title": nm(it.title), "content": nm(it.content)})
        else:
            items.append(wrong(it))
    wikis = [{"ident": nm(w.ident), "baseurl": nm(w.baseurl)} if type(w) is mbm.WikiConf else wrong(w) for w in c.wikis]
    lics = [{"title": nm(x.title), "wikitext": nm(x.wikitext)} if type(x) is mbm.License else wrong(x) for x in c.licenses]
    source = []
    so = getattr(c, "source", None)
    if so is not None:
        if type(so) is not mbm.Source:
            source.append(wrong(so))
        else:
            iwm = getattr(so, "interwikimap", None)
            if iwm is None:
                iw = "none"
            elif isinstance(iwm, list) and len(iwm) == 1 and type(iwm[0]) is mbm.Interwiki and iwm[0].local is True:
                iw = nm(iwm[0].prefix)
            else:
                iw = "?%r" % (iwm,)
            source.append({"name": nm(so.name), "lang": nm(so.language), "iw": iw})
    return {"title": nm(c.title), "items": items, "subtitle": nm(c.subtitle), "editor": nm(c.editor),
            "version": pick(VERSION, c.version), "wikis": wikis, "licenses": lics, "source": source}


def same_classes(x, y, M, path="obj"):
    """Object-level comparison: every nested item of y must be an instance of the same class as
    the corresponding item of x.  Returns the path of the first difference or None."""
    if type(x) is not type(y):
        return "%s: %s instead of %s" % (path, type(y).__name__, type(x).__name__)
    if isinstance(x, M["metabook"].MetabookObject):
        for k, v in x.__dict__.items():
            if k.startswith("_") or v is None:
                continue
            if not hasattr(y, k):
                return "%s.%s missing" % (path, k)
            d = same_classes(v, getattr(y, k), M, "%s.%s" % (path, k))
            if d:
                return d
    elif isinstance(x, list):
        if len(x) != len(y):
            return path + ".length"
        for a, b in zip(x, y):
            d = same_classes(a, b, M, path + "[]")
            if d:
                return d
    elif isinstance(x, dict):
        for k in x:
            if k not in y:
                return "%s[%r] missing" % (path, k)
            d = same_classes(x[k], y[k], M, "%s[%r]" % (path, k))
            if d:
                return d
    return None


def check_wikis(c, mb, cz, who, b0=None):
    """get_wiki(ident=...) / get_wiki(baseurl=...) find every WikiConf the content lists.
    b0: the (re-spelled) baseurl of the first WikiConf when the state's tweak targets it."""
    out = []
    conc = [(b0 if (b0 is not None and i == 0) else cz[w["baseurl"]]) for i, w in enumerate(mb["wikis"])]
    for i, w in enumerate(mb["wikis"]):
        try:
            got = c.get_wiki(ident=cz[w["ident"]])
            got_b = c.get_wiki(baseurl=conc[i])
        except Exception as e:                                         # noqa: BLE001
            k, what = _exc_problem(e)
            out.append((k if k.startswith(HARNESS) else "get_wiki: %s metabook raises %s" % (who, type(e).__name__), what))
            continue
        wikis = c.wikis if isinstance(getattr(c, "wikis", None), list) else []
        if i >= len(wikis) or got is not wikis[i]:
            out.append(("get_wiki: %s metabook does not return its WikiConf by ident" % who, "got %r" % (got,)))
        elif getattr(got, "baseurl", None) != conc[i]:
            out.append(("get_wiki: %s WikiConf has another baseurl" % who, "got %r" % (got,)))
        first = conc.index(conc[i])
        if first >= len(wikis) or got_b is not wikis[first]:
            out.append(("get_wiki: %s metabook does not return its WikiConf by baseurl" % who, "got %r" % (got_b,)))
    return out


def flat_titles(mb):
    out = []
    for it in mb["items"]:
        if it["k"] == "a":
            out.append(it["title"])
        elif it["k"] == "c":
            out.extend(a["title"] for a in it["items"])
    return out


def public(o, M):
    if isinstance(o, M["metabook"].MetabookObject):
        # an attribute that is None on the instance and one left at its class default (None) are equal
        return (type(o).__name__, {k: public(v, M) for k, v in o.__dict__.items() if not k.startswith("_") and v is not None})
    if isinstance(o, list):
        return [public(x, M) for x in o]
    if isinstance(o, dict):
        return {k: public(v, M) for k, v in o.items()}
    return o


def first_diff(a, b, path="mb"):
    if type(a) is not type(b):
        return path
    if isinstance(a, dict):
        for k in sorted(set(a) | set(b)):
            if k not in a or k not in b:
                return "%s.%s" % (path, k)
            d = first_diff(a[k], b[k], "%s.%s" % (path, k))
            if d:
                return d
        return None
    if isinstance(a, list):
        if len(a) != len(b):
            return path + ".length"
        for i, (x, y) in enumerate(zip(a, b)):
            d = first_diff(x, y, path + "[]")
            if d:
                return d
        return None
    return None if a == b else path


def modules():
    from mwlib.core import metabook, nserve, serve
    from mwlib.utils import myjson
    return {"metabook": metabook, "myjson": myjson, "nserve": nserve, "serve": serve}


class _Quiet:
    """make_collection_id reports every new collection on sys.stdout"""
    def __enter__(self):
        self.old = sys.stdout
        sys.stdout = io.StringIO()

    def __exit__(self, *a):
        sys.stdout = self.old


def mutate_lists(c, M):
    mbm = M["metabook"]
    intr = mbm.Article(title="INTRUDER")
    for it in list(c.items):
        if hasattr(it, "items"):
            it.items.append(intr)
    c.items.append(intr)
    c.items.insert(0, intr)
    c.licenses.append({"name": "INTRUDER"})
    c.wikis.append(mbm.WikiConf(ident="INTRUDER"))


HARNESS = "HARNESS-FAULT "       # problem keys with this prefix are machinery errors, never violations
ID_RX = re.compile(r"^[0-9a-f]{16}$")
VERIF_DIR = os.path.dirname(os.path.dirname(os.path.abspath(__file__)))


def _exc_problem(e):
    """An exception is behaviour of mwlib only when it was RAISED inside code outside /verif (the
    innermost traceback frame); an exception raised by the harness's own statements (a missing
    attribute the check reads, a wrong assumption about an object) is a fault of the check."""
    import traceback
    tb = traceback.extract_tb(e.__traceback__)
    where = "%s:%s:%d" % (os.path.basename(tb[-1].filename), tb[-1].name, tb[-1].lineno) if tb else "?"
    inner = os.path.abspath(tb[-1].filename) if tb else VERIF_DIR
    if inner.startswith(VERIF_DIR + os.sep) or not tb:
        return (HARNESS + "%s at %s" % (type(e).__name__, where), "%s: %s" % (type(e).__name__, str(e)[:300]))
    return ("exception %s at %s:%s" % (type(e).__name__, os.path.basename(tb[-1].filename), tb[-1].name),
            "%s: %s" % (type(e).__name__, str(e)[:300]))


def check_content(st, cz, inv, M):
    """Obligations that depend on the metabook only (not on wiki coordinates / representation):
    construction, round trip per serialiser (object level), fixed point, get_wiki, sharing.
    Returns (checksum of the API-built metabook or None, problems)."""
    problems = []
    mbm, mj = M["metabook"], M["myjson"]
    want = st["mb"]
    inv, b0 = tweak_view(st, cz, inv)

    def bad(key, what):
        problems.append((key, what))

    try:
        x = build_api(st, cz, M)
        p = project(x, inv, M)
        if p != want:
            bad("construct: metabook built with mwlib's classes / append_article differs at " + str(first_diff(p, want)),
                "built %r" % (p,))
        if [inv.get(a.title) for a in x.get_articles()] != flat_titles(want):
            bad("construct: get_articles() order", "got %r" % ([a.title for a in x.get_articles()],))
        for k, w in check_wikis(x, want, cz, "API-built", b0):
            bad(k, w)
        pub_x = public(x, M)
        # ---- round trip and fixed point, for each serialiser the code offers
        for name, dumps in (("myjson.dumps", lambda o: mj.dumps(o)),
                            ("myjson.dumps(sort_keys)", lambda o: mj.dumps(o, sort_keys=True)),
                            ("Collection.dumps", lambda o: o.dumps())):
            t1 = dumps(x)
            y = mj.loads(t1)
            p = project(y, inv, M)
            cls = same_classes(x, y, M)
            if cls:
                bad("roundtrip %s: reloaded object has another class at %s" % (name, cls), "from %s" % (t1[:400],))
            if p != want:
                bad("roundtrip %s: loads(dumps(x)) differs at %s" % (name, first_diff(p, want)), "reloaded %r from %s" % (p, t1[:300]))
            elif not cls and pub_x != public(y, M):
                bad("roundtrip %s: attributes differ at %s" % (name, first_diff(public(y, M), pub_x, "obj")),
                    "x=%r y=%r" % (pub_x, public(y, M)))
            if type(y) is mbm.Collection:
                if [inv.get(a.title) for a in y.get_articles()] != flat_titles(want):
                    bad("roundtrip %s: get_articles() order" % name, "got %r" % ([a.title for a in y.get_articles()],))
                for k, w in check_wikis(y, want, cz, "reloaded (%s)" % name, b0):
                    bad(k, w)
            if name == "Collection.dumps" and type(y) is not mbm.Collection:
                continue                      # reported above: the reloaded object is no Collection
            t2 = dumps(y)
            if t2 != t1:
                bad("fixedpoint %s: dumps(loads(dumps(x))) != dumps(x)" % name, "%s\n!=\n%s" % (t2[:300], t1[:300]))
        # ---- the checksum is a function of the content
        cks = mbm.calc_checksum(x)
        text = x.dumps()
        z, z2 = mj.loads(text), mj.loads(text)
        if type(z) is not mbm.Collection or type(z2) is not mbm.Collection:
            bad("roundtrip Collection.dumps: reloaded object is a %s" % type(z).__name__, "from %s" % (text[:300],))
            return cks, problems
        if cks != mbm.calc_checksum(z):
            bad("checksum: calc_checksum(loads(dumps(x))) != calc_checksum(x)", "")
        # ---- no shared mutable lists between independently built equal metabooks
        x2 = build_api(st, cz, M)
        mutate_lists(x, M)
        mutate_lists(z, M)
        for who, o in (("API-built", x2), ("loaded", z2)):
            p = project(o, inv, M)
            if p != want:
                bad("sharing: %s twin changed at %s after appending to the other's lists" % (who, first_diff(p, want)), "twin now %r" % (p,))
        fresh = mbm.Collection()
        if fresh.items or fresh.licenses or fresh.wikis or mbm.Chapter().items:
            bad("sharing: a fresh Collection()/Chapter() is not empty", "%r" % (fresh,))
        return cks, problems
    except Exception as e:                                             # noqa: BLE001
        bad(*_exc_problem(e))
        return None, problems


def check_request(st, cz, inv, M, cks):
    """Obligations of one request (content + coordinates + representation): the client's text
    loads to the content, and the collection ids.  Returns (ids, problems)."""
    problems = []
    mbm, mj = M["metabook"], M["myjson"]
    want = st["mb"]
    inv, b0 = tweak_view(st, cz, inv)

    def bad(key, what):
        problems.append((key, what))

    try:
        req = request_for(st, cz, M)
        z = mj.loads(req["metabook"])
        p = project(z, inv, M)
        if p != want:
            bad("load-client-text: differs at %s" % first_diff(p, want), "loaded %r from %s" % (p, req["metabook"][:300]))
        else:
            for k, w in check_wikis(z, want, cz, "loaded", b0):
                bad(k, w)
            if cks is not None and mbm.calc_checksum(z) != cks:
                bad("checksum: client text and API-built metabook of equal content have different checksums",
                    "%s" % (z.dumps()[:400],))
        with _Quiet():
            ids = (M["nserve"].make_collection_id(dict(req)), M["serve"].make_collection_id(dict(req)))
            if len(req["metabook"]) % 8 == 0:       # one request in eight is submitted twice
                again = (M["nserve"].make_collection_id(dict(req)), M["serve"].make_collection_id(dict(req)))
                if ids != again:
                    bad("id: not deterministic for one request", "%r then %r" % (ids, again))
        if not (isinstance(ids[0], str) and isinstance(ids[1], str) and ID_RX.match(ids[0]) and ID_RX.match(ids[1])):
            bad("id: malformed (not 16 hex digits)", repr(ids))
        return ids, problems
    except Exception as e:                                             # noqa: BLE001
        bad(*_exc_problem(e))
        return None, problems


def tweak_view(st, cz, inv):
    """The inverse map extended by the state's re-spelled string (it still denotes the same abstract
    value: the re-spelling is carried by st["tw"]), and the first WikiConf's baseurl if re-spelled."""
    t = tweak_of(st, cz)
    if not t or t[0] not in MB_TWEAK_FIELDS:
        return inv, None
    inv2 = dict(inv)
    inv2[t[3]] = t[1]
    return inv2, (t[3] if t[0] == "wikiconf_baseurl" else None)


def check_state(st, cz, inv, M, cache=None):
    """All per-state obligations.  Returns (ids, problems); problems = [(key, what)].  The
    content-only part is computed once per distinct metabook (cache).  (None, []) when the state's
    re-spelling has no effect on its string (e.g. NFD of pure ASCII): not a test case."""
    t = tweak_of(st, cz)
    if t and (t[3] is None or t[3] == t[2]):
        return None, []
    k = json.dumps([st["mb"], st.get("tw") if (t and t[0] in MB_TWEAK_FIELDS) else None], sort_keys=True)
    hit = cache.get(k) if cache is not None else None
    if hit is None:
        cks, problems = check_content(st, cz, inv, M)
        if cache is not None:
            cache[k] = (cks,)
    else:
        cks, problems = hit[0], []
    ids, p2 = check_request(st, cz, inv, M, cks)
    return ids, problems + p2


G = {}
EFFECTIVE_TWEAKS = set()  # (field, kind) of nearest-neighbour edges whose both ends were executed
FAIL_LIMIT = 400          # failing states after which the remaining states are skipped (reported)


def _worker(arg):
    lo, hi = arg
    if "M" not in G:
        G["M"] = modules()
        G["M"]["seed"] = G["seed"]
    out = []
    cache = {}
    for i in G["order"][lo:hi]:                   # states of one metabook are neighbours in this order
        if G["failing"].value >= FAIL_LIMIT:      # a broken implementation fails everywhere: stop early
            out.append((i, None, None))
            continue
        ids, problems = check_state(G["states"][i], G["cz"], G["inv"], G["M"], cache)
        if problems:
            with G["failing"].get_lock():
                G["failing"].value += 1
        out.append((i, ids, problems))
    return out


def parse_graph(out, ctx):
    """States and edges from TLC's raw output.  States are interned by their canonical JSON text;
    a cache on the raw text TLC printed avoids decoding the same state again and again."""
    states, index, edges, seeds, raw = [], {}, [], [], {}

    def intern(txt):
        i = raw.get(txt)
        if i is None:
            s = json.loads(txt)
            k = json.dumps(s, sort_keys=True)
            i = index.get(k)
            if i is None:
                i = index[k] = len(states)
                states.append(s)
            raw[txt] = i
        return i
    for ln in out.splitlines():
        if not ln.startswith('"@#'):
            continue
        t = json.loads(ln)[2:]
        if t.startswith('{"seed":'):
            seeds.append(intern(t[len('{"seed":'):-1]))
            continue
        ps, pd = t.find(',"s":{'), t.find(',"d":{')
        if not (t.startswith('{"a":') and 0 < ps < pd and t.endswith("}")):
            ctx.machinery("unexpected transition line from TLC: %s" % t[:200])
        head = json.loads(t[:ps] + "}")
        edges.append((tuple(head["a"]), head["n"], intern(t[ps + 5:pd]), intern(t[pd + 5:-1])))
    return states, edges, seeds


def label(a):
    return ":".join(a[1:])


def ident_of(st):
    return json.dumps([st["mb"], st["wiki"], st.get("tw")], sort_keys=True)


def execute(ctx, states, edges, tag):
    """Run every state against the real code (pool), then check every edge and the global laws."""
    cz, inv = make_cz(ctx.seed)
    keys = [json.dumps(st["mb"], sort_keys=True) for st in states]
    order = sorted(range(len(states)), key=lambda i: (keys[i], i))
    G.update(states=states, cz=cz, inv=inv, seed=ctx.seed, failing=multiprocessing.Value("i", 0), order=order)
    G.pop("M", None)
    step = max(1, len(states) // (ctx.ncpu * 8))
    jobs = [(i, min(len(states), i + step)) for i in range(0, len(states), step)]
    ids = [None] * len(states)
    found = {}
    pool = multiprocessing.get_context("fork").Pool(ctx.ncpu)
    try:
        done = skipped = 0
        it = pool.imap_unordered(_worker, jobs)
        while True:
            try:
                res = it.next(timeout=1800)        # watchdog for hangs only (a job takes seconds)
            except StopIteration:
                break
            except multiprocessing.TimeoutError:
                pool.terminate()
                ctx.machinery("a worker executing metabook states did not answer for 30 minutes (hang)")
            for i, idp, problems in res:
                done += 1
                if problems is None:
                    skipped += 1
                    continue
                ids[i] = idp
                for key, what in problems:
                    e = found.get(key)
                    if e is None or i < e[2]:
                        found[key] = [1 + (e[0] if e else 0), what, i]
                    else:
                        e[0] += 1
    finally:
        pool.close()
        pool.join()
    if done != len(states):
        ctx.machinery("executed %d of %d states" % (done, len(states)))
    if skipped:
        if not found:
            ctx.machinery("%d states skipped without any failing state" % skipped)
        ctx.note("%d states were skipped after %d failing states" % (skipped, FAIL_LIMIT))
    faults = [k for k in sorted(found) if k.startswith(HARNESS)]
    if faults:
        cnt, what, i = found[faults[0]]
        ctx.machinery("the check's own code failed (%s — %s) in %d states, first %s; this is not a verdict about mwlib"
                      % (faults[0][len(HARNESS):], what, cnt, json.dumps(states[i])[:300]))
    for key in sorted(found):
        cnt, what, i = found[key]
        ctx.violation(key, "%s (%d states; first: %s)" % (what, cnt, json.dumps(states[i])[:400]),
                      {"kind": "state", "state": states[i], "seed": ctx.seed})
    # ---- edges
    stats = {"rep_edges": 0, "content_edges": 0, "edges_skipped": 0, "tweak_edges": 0}
    efound = {}
    for (a, n, s, d) in edges:
        if ids[s] is None or ids[d] is None:
            stats["edges_skipped"] += 1
            continue
        if a[1] == "Tweak":
            stats["tweak_edges"] += 1
            EFFECTIVE_TWEAKS.add((a[2], a[3]))
        for fi, fn in enumerate(("nserve", "serve")):
            if a[0] == "rep":
                if ids[s][fi] != ids[d][fi]:
                    efound.setdefault("id %s.make_collection_id: representation edit %s changed the id" % (fn, label(a)), []).append((s, d, a))
            elif ids[s][fi] == ids[d][fi]:
                efound.setdefault("id %s.make_collection_id: content edit %s left the id unchanged" % (fn, label(a)), []).append((s, d, a))
        stats["rep_edges" if a[0] == "rep" else "content_edges"] += 1
    for key in sorted(efound):
        s, d, a = efound[key][0]
        ctx.violation(key, "%d transitions; first: %s -> %s, ids %r / %r" % (len(efound[key]), json.dumps(states[s])[:300], json.dumps(states[d])[:300], ids[s], ids[d]),
                      {"kind": "edge", "action": list(a), "src": states[s], "dst": states[d], "seed": ctx.seed})
    # ---- global: id is a function of the content, and injective on everything explored
    by_ident, by_id = {}, ({}, {})
    coll = {}
    for i, st in enumerate(states):
        if ids[i] is None:
            continue
        k = ident_of(st)
        j = by_ident.setdefault(k, i)
        if ids[j] != ids[i]:
            coll.setdefault("id global: two requests of equal content have different ids (rep differs in %s)"
                            % ",".join(f for f in sorted(st["rep"]) if st["rep"][f] != states[j]["rep"][f]), []).append((j, i))
        for fi in (0, 1):
            j = by_id[fi].setdefault(ids[i][fi], i)
            if ident_of(states[j]) != k:
                coll.setdefault("id global: two requests of different content share an id (%s)" % ("nserve", "serve")[fi], []).append((j, i))
    for key in sorted(coll):
        j, i = coll[key][0]
        ctx.violation(key, "%d pairs; first: %s / %s" % (len(coll[key]), json.dumps(states[j])[:300], json.dumps(states[i])[:300]),
                      {"kind": "pair", "a": states[j], "b": states[i], "seed": ctx.seed})
    stats["distinct_contents"] = len(by_ident)
    stats["states_executed"] = sum(1 for x in ids if x is not None)
    return stats


def run_tlc(ctx, cfgtext, name, **kw):
    """The transitions are too many to keep as decoded Python objects (harness/tlc.py decodes lines
    marked "@@"); Metabook prints them with the marker "@#" and parse_graph() interns them."""
    return tlc.run(ctx, "Metabook", cfgtext, name=name, **kw)


def run(ctx):
    quick = ctx.tier == "quick"
    plans = [("bfs", dict(depth=3, seeds=QUICK_SEEDS))] if quick else [
        ("bfs", dict(depth=3, seeds=ALL_SEEDS, titles=("t1", "t2", "t3"), maxart=4)),
        ("sim", dict(depth=10, titles=("t1", "t2", "t3", "t4"), maxart=6, maxchap=3, onecomp=False, tweak=0)),
    ]
    wiki_edges = set()
    tot_states = tot_trans = 0
    totals = {}
    samples = []
    for pi, (mode, pl) in enumerate(plans):
        if mode == "bfs":
            res = run_tlc(ctx, cfg(**pl), "Metabook_enum%d" % pi, workers=1, timeout=3000, heap="12g")
        else:
            res = run_tlc(ctx, cfg(**pl), "Metabook_sim%d" % pi, workers=1, simulate=6000,
                          depth=pl["depth"] + 1, timeout=3000, heap="12g")
        if not res.ok:
            ctx.machinery("reference spec Metabook violates %s %s — a defect of the specification\n%s"
                          % (res.kind, res.name or res.message, res.out[-1500:]))
        ctx.note("TLC %s: %d distinct, %d generated, %.1fs" % (mode, res.distinct, res.generated, res.wall))
        import time as _t
        t0 = _t.time()
        states, edges, seeds = parse_graph(res.out, ctx)
        res.out = ""
        ctx.note("parsed %d states, %d transitions in %.1fs" % (len(states), len(edges), _t.time() - t0))
        if mode == "bfs":
            if len(edges) + len(seeds) != res.generated or len(states) != res.distinct:
                ctx.machinery("TLC reports %d generated / %d distinct, parsed %d transitions + %d seeds / %d states"
                              % (res.generated, res.distinct, len(edges), len(seeds), len(states)))
            tot_states += res.distinct
            tot_trans += res.generated
        else:
            if not edges:
                ctx.machinery("simulation emitted no transitions")
            tot_states += len(states)
            tot_trans += len(edges)
        for (a, _n, _s, _d) in edges:
            if a[1] == "ChangeWiki":
                wiki_edges.add((a[2], a[3]))
        t0 = _t.time()
        st = execute(ctx, states, edges, mode)
        ctx.note("executed in %.1fs" % (_t.time() - t0))
        for k, v in st.items():
            totals[mode + "_" + k] = totals.get(mode + "_" + k, 0) + v
        samples.append({"transition": list(edges[len(edges) // 3][0]), "from": states[edges[len(edges) // 3][2]], "to": states[edges[len(edges) // 3][3]]})
    # ---- coverage; non-vacuity of the identity switches
    cov = tlc.run(ctx, "Metabook", cfg(2, emit=False), name="Metabook_cov", workers=1, coverage=True, timeout=600)
    if not cov.ok:
        ctx.machinery("coverage run failed: %s %s" % (cov.kind, cov.name))
    missing = tlc.uncovered_actions(cov, ACTIONS)
    if missing:
        ctx.machinery("actions never taken in Metabook: %s" % missing)
    nonvac = {}
    # every component of the wiki coordinates must have been edited (port: absent->present, and changed)
    need = {(c, "changed") for c in ("scheme", "host", "port", "path")} | {(c, "added") for c in ("user", "port", "seg", "ext", "login")}
    if need - wiki_edges:
        ctx.machinery("no transition for these single-component changes of the wiki coordinates: %s" % sorted(need - wiki_edges))
    # every string input of the id must have had its nearest-neighbour re-spellings executed
    kinds4 = ("case", "lead", "trail", "slash")
    need_tw = ({("base_url", k) for k in kinds4 + ("nfd",)} | {("script_extension", k) for k in kinds4}
               | {("login_credentials", k) for k in kinds4 + ("nfd",)}
               | {(f, k) for f in ("title", "subtitle", "editor", "item_title", "displaytitle") for k in kinds4})
    if need_tw - EFFECTIVE_TWEAKS and not ctx.violations:
        ctx.machinery("no effective nearest-neighbour re-spelling was executed for: %s" % sorted(need_tw - EFFECTIVE_TWEAKS))
    for mode, msg in (("no-revision", "a content edit left the identity unchanged"),
                      ("case-blind", "a content edit left the identity unchanged"),
                      ("host-only", "a content edit left the identity unchanged"),
                      ("with-keyorder", "a representation edit changed the identity")):
        r = tlc.run(ctx, "Metabook", cfg(2, emit=False, mode=mode), name="Metabook_nv", workers=1, timeout=300)
        nonvac[mode] = [r.kind, msg if msg in r.out else "?"]
        if r.ok or msg not in r.out:
            ctx.machinery("non-vacuity: IdentMode=%s did not violate EditLaw (%s)" % (mode, r.kind))
    cz, _ = make_cz(ctx.seed)
    n_edges = totals.get("bfs_rep_edges", 0) + totals.get("bfs_content_edges", 0) + totals.get("sim_rep_edges", 0) + totals.get("sim_content_edges", 0)
    n_states = totals.get("bfs_states_executed", 0) + totals.get("sim_states_executed", 0)
    if (n_edges == 0 or n_states == 0) and not ctx.violations and not ctx.known_hits:
        ctx.machinery("nothing was executed against the implementation")
    ctx.set_cover(states=tot_states, transitions=tot_trans, traces_validated_against_impl=n_edges,
                  evaluations=n_states, distinct_nontrivial=totals.get("bfs_distinct_contents", 0) + totals.get("sim_distinct_contents", 0),
                  exhaustive=quick, nonvacuity=nonvac, action_coverage=cov.coverage, concretisation=cz, **totals,
                  rule="TLC enumerates every path of <= MaxDepth edits from the seed books of Metabook.tla (plans %r; bfs = exhaustive to the bound, "
                       "sim = random walks); every state is built and round-tripped on the real classes, every transition compares the real "
                       "collection ids (equal across representation edits, different across content edits); evaluations = states executed, "
                       "distinct_nontrivial = distinct abstract contents (metabook + wiki coordinates) among them; exhaustive refers to the "
                       "bounded abstract graph, the Unicode strings are one seeded choice from a palette per run" % (plans,))
    for s in samples:
        ctx.sample(s)
    ctx.assume("the JSON text of a client is produced with Python's json module (key order, separators, ensure_ascii varied)",
               "titles / optional values are one seeded injective choice from a Unicode palette per run (no lone surrogates)",
               "sha256 collisions do not occur")


def replay(ctx, path):
    with open(path) as f:
        rec = json.load(f)
    r = rec["replay"]
    M = modules()
    M["seed"] = r.get("seed", ctx.seed)
    cz, inv = make_cz(M["seed"])
    sts = [r["state"]] if r["kind"] == "state" else ([r["src"], r["dst"]] if r["kind"] == "edge" else [r["a"], r["b"]])
    ids = []
    hit = False
    for st in sts:
        i, problems = check_state(st, cz, inv, M)
        ids.append(i)
        for key, what in problems:
            if key.startswith(HARNESS):
                ctx.machinery("the check's own code failed: %s — %s" % (key[len(HARNESS):], what))
            hit = True
            ctx.violation(key, what, r)
    if r["kind"] == "edge" and None not in ids:
        a = r["action"]
        for fi, fn in enumerate(("nserve", "serve")):
            same = ids[0][fi] == ids[1][fi]
            if a[0] == "rep" and not same:
                hit = True
                ctx.violation("id %s.make_collection_id: representation edit %s changed the id" % (fn, label(a)), repr(ids), r)
            if a[0] == "content" and same:
                hit = True
                ctx.violation("id %s.make_collection_id: content edit %s left the id unchanged" % (fn, label(a)), repr(ids), r)
    if r["kind"] == "pair" and None not in ids:
        same_content = ident_of(sts[0]) == ident_of(sts[1])
        for fi, fn in enumerate(("nserve", "serve")):
            if same_content != (ids[0][fi] == ids[1][fi]):
                hit = True
                ctx.violation(rec["key"], repr(ids), r)
                break
    if not hit:
        print("replay: case now agrees with the specification")
