"""C14 — what is written into a collection archive is what is read back.

P-MC:   TLC explores spec/Archive.tla exhaustively over bounded write histories (redirect maps,
        raw / expanded page writes with and without revision ids in every order, the writer's
        `seen` skip, stored images, close, zip, open as directory / as zip) with the model-level
        laws TypeOK, RevidExact, TitleIsNewest, TitleSound, TitleComplete, RedirectResolves,
        SkipLaw, ActionOrder (+ liveness on a small config).  With NewestWins = FALSE TLC must
        violate TitleIsNewest (non-vacuity; that switch is today's known deviation).
P-ENUM: every opened archive TLC reaches is printed with all predicted reads (index of the write
        whose record must come back).  harness/archive.py substitutes concrete titles, texts,
        revision ids and image names from adversarial palettes (seeded), executes the history with
        the REAL writer (fetch.FsOutput -> buildzip.zip_dir / ZipCreator.create_zip) and the REAL
        reader (wiki.make_wiki on the directory and on the zip -> nuwiki.Adapt) and compares every
        read (get_page by revid / by title, normalize_and_get_page for every equivalent
        spelling, get_disk_path + file bytes) with the spec's prediction.
        thorough adds larger bounds by exhaustive plans and `-simulate` beyond them.
"""
import json
import multiprocessing
import os
import shutil
import sys

from harness import archive, tlc

PROPERTY = "C14"
LEVEL = "model_checking"

CFG = """SPECIFICATION Spec
CONSTANTS
  NTitles = %(nt)d
  NRevids = %(nr)d
  MaxWrites = %(maxw)d
  MinWrites = %(minw)d
  MaxRedirects = %(red)d
  NImages = %(nimg)d
  MaxImages = %(maximg)d
  NewestWins = %(newest)s
  EmitCases = %(emit)s
INVARIANTS TypeOK RevidExact TitleIsNewest TitleSound TitleComplete RedirectResolves SkipLaw EmitOpen
PROPERTIES ActionOrder ReadsArePure %(live)s
CHECK_DEADLOCK FALSE
"""
ACTIONS = ["Redirect", "WritePage", "WriteExpanded", "StoreImage", "Close", "Zip", "OpenDir", "OpenZip", "Read"]


def cfg(nt, nr, maxw, minw, red, nimg, maximg, newest=True, emit=True, live=False):
    return CFG % dict(nt=nt, nr=nr, maxw=maxw, minw=minw, red=red, nimg=nimg, maximg=maximg,
                      newest=str(newest).upper(), emit=str(emit).upper(), live="Terminates" if live else "")


# (NTitles, NRevids, MaxWrites, MinWrites, MaxRedirects, NImages, MaxImages)
QUICK_PLANS = [(2, 3, 3, 0, 1, 2, 1), (1, 3, 4, 4, 0, 1, 0)]
THOROUGH_PLANS = [(3, 3, 3, 0, 2, 3, 2), (2, 3, 4, 4, 0, 2, 0), (1, 4, 5, 5, 0, 1, 0)]
QUICK_SIM = dict(consts=(4, 4, 6, 4, 2, 3, 2), num=100, depth=16)      # num is per TLC worker
THOROUGH_SIM = dict(consts=(4, 5, 8, 5, 2, 3, 2), num=1500, depth=20)


def _worker(args):
    idx, groups, scratch, seed, variants = args
    archive.quiet()
    sys.stdout.flush()
    root = os.path.join(scratch, "w%d" % idx)
    reads = 0
    bad = []
    ncases = 0
    nopened = 0
    for case in groups:
        for v in range(variants):
            cc = archive.concretise(case, seed, v)
            o, n, b = archive.run_case(cc, root)
            reads += n
            nopened += o
            ncases += 1
            if b and len(bad) < 40:
                # one report per distinct key of this case
                seen = set()
                for m in b:
                    k = archive.key_of(cc, m)
                    if k in seen:
                        continue
                    seen.add(k)
                    bad.append((k, m, cc))
            elif b:
                for k in {archive.key_of(cc, m) for m in b}:
                    if k == archive.KNOWN_FIRST_WRITTEN:
                        bad.append((k, None, None))
    shutil.rmtree(root, ignore_errors=True)
    return ncases, nopened, reads, bad


def execute(ctx, groups, variants=1):
    import warnings
    warnings.simplefilter("ignore")
    archive.quiet()
    from mwlib.apps import buildzip  # noqa: F401  (imported before forking: the workers share it)
    from mwlib.core import wiki  # noqa: F401
    from mwlib.network import fetch  # noqa: F401
    exe_root = os.path.join(ctx.scratch, "fs")
    os.makedirs(exe_root, exist_ok=True)
    nchunks = max(ctx.ncpu * 8, 1)
    size = max(1, (len(groups) + nchunks - 1) // nchunks)
    jobs = [(i, groups[o:o + size], exe_root, ctx.seed, variants) for i, o in enumerate(range(0, len(groups), size))]
    pool = multiprocessing.get_context("fork").Pool(ctx.ncpu)
    ncases = reads = nopened = 0
    bad = []
    try:
        for c, o, r, b in pool.imap_unordered(_worker, jobs):
            ncases += c
            nopened += o
            reads += r
            bad.extend(b)
    finally:
        pool.close()
        pool.join()
    return ncases, nopened, reads, bad


def describe(m):
    rd = m["read"]
    got = m["got"]
    if isinstance(got, dict):
        got = dict(got, text=got["text"][:80] if isinstance(got.get("text"), str) else got.get("text"))
    exp = m["expected"]
    if isinstance(exp, dict):
        exp = dict(exp, text=exp["text"][:80])
    return "%s(%s) via %s: expected %s, got %s" % (
        rd["op"], json.dumps({k: rd[k] for k in ("name", "rev", "arg", "defaultns", "how") if k in rd}, ensure_ascii=False),
        m["via"], json.dumps(exp, ensure_ascii=False)[:300], json.dumps(got, ensure_ascii=False)[:300])


def report(ctx, bad):
    for k, m, cc in sorted(bad, key=lambda x: (x[0], 0 if x[1] else 1)):
        if m is None:
            ctx.violation(k, "", None)
        else:
            ctx.violation(k, describe(m), {"case": cc, "mismatch": m})


def run(ctx):
    quick = ctx.tier == "quick"
    probs = archive.check_palettes()
    if probs:
        ctx.machinery("palette self-check failed: %s" % probs[:5])
    plans = QUICK_PLANS if quick else THOROUGH_PLANS
    states = trans = 0
    groups = {}
    emitted = 0

    def absorb(res, what):
        nonlocal emitted
        for c in res.emitted:
            emitted += 1
            k = archive.history_key(c)
            dims = (len(c["bt"]), len(c["br"][0]), len(c["img"]))
            g = groups.get(k)
            if g is None or g["dims"] < dims:
                groups[k] = dict(c, vias=[c["via"]], dims=dims)
            elif g["dims"] == dims:
                for f in ("bt", "br", "bralt", "img"):
                    if g[f] != c[f]:
                        ctx.machinery("spec predicts different reads for the same history opened as %s: %s" % (c["via"], k))
                if c["via"] not in g["vias"]:
                    g["vias"].append(c["via"])

    for p in plans:
        res = tlc.run(ctx, "Archive", cfg(*p), name="Archive_%s" % "_".join(map(str, p)), timeout=1800, heap="12g")
        if not res.ok:
            ctx.machinery("reference spec Archive violates %s %s — a defect of the specification\n%s"
                          % (res.kind, res.name, res.out[-1500:]))
        states += res.distinct
        trans += res.generated
        absorb(res, p)
    exhaustive_groups = len(groups)
    sim = QUICK_SIM if quick else THOROUGH_SIM
    res = tlc.run(ctx, "Archive", cfg(*sim["consts"]), name="Archive_sim", simulate=sim["num"], depth=sim["depth"],
                  timeout=1800, heap="8g")
    if not res.ok:
        ctx.machinery("simulation of Archive violates %s %s — a defect of the specification" % (res.kind, res.name))
    absorb(res, "sim")
    # liveness + action coverage on a small instance
    res = tlc.run(ctx, "Archive", cfg(3, 2, 2, 0, 1, 2, 1, emit=False, live=True), name="Archive_live",
                  coverage=True, timeout=600)
    if not res.ok:
        ctx.machinery("liveness/coverage run failed: %s %s" % (res.kind, res.name))
    missing = tlc.uncovered_actions(res, ACTIONS)
    if missing:
        ctx.machinery("actions never taken in Archive: %s" % missing)
    coverage = {a: res.coverage.get(a) for a in ACTIONS}
    # non-vacuity: today's deviation, switched on in the model, must violate the central law
    nv = tlc.run(ctx, "Archive", cfg(2, 2, 2, 0, 0, 1, 0, newest=False, emit=False), name="Archive_nv", timeout=300)
    if not (nv.kind == "invariant" and nv.name == "TitleIsNewest"):
        ctx.machinery("non-vacuity: NewestWins=FALSE did not violate TitleIsNewest (got %s %s)" % (nv.kind, nv.name))

    glist = [groups[k] for k in sorted(groups)]
    import time
    t_exec = time.time()
    ctx.note("TLC: %d states, %d opened archives emitted, %d distinct histories (%.0fs so far)"
             % (states, emitted, len(glist), t_exec - ctx.t0))
    variants = 1
    ncases, nopened, reads, bad = execute(ctx, glist, variants)
    if ncases != len(glist) * variants:
        ctx.machinery("executed %d of %d histories" % (ncases, len(glist) * variants))
    ctx.note("executed %d histories, %d archives opened, %d reads compared in %.0fs"
             % (ncases, nopened, reads, time.time() - t_exec))
    report(ctx, bad)

    def nontrivial(g):
        w = archive._seq(g["w"])
        live_titles = [x[1] for x in w if not x[4]]
        return len(w) >= 2 and (len(set(live_titles)) < len(live_titles) or archive._seq(g["rd"]) or g["im"])
    nt = sum(1 for g in glist if nontrivial(g))
    first_written = sum(1 for g in glist if g["bt"] != g["btdev"] or g["br"] != g["brdev"])
    ctx.set_cover(states=states, transitions=trans, traces_validated_against_impl=nopened,
                  histories=len(glist), histories_exhaustive_plans=exhaustive_groups, opened_archives_emitted=emitted,
                  reads_compared=reads, evaluations=ncases, distinct_nontrivial=nt,
                  histories_where_newest_differs_from_first_written=first_written,
                  exhaustive=True, plans=[list(p) for p in plans], simulate=sim,
                  action_coverage=coverage, nonvacuity={"NewestWins=FALSE": [nv.kind, nv.name]},
                  palette={"texts": len(archive.TEXTS), "page_titles": len(archive.PAGE_TITLES),
                           "image_names": sum(len(g) for g in archive.IMAGE_GROUPS) + len(archive.IMAGE_OUTSIDE),
                           "sites": ["en", "de"], "variants_per_history": variants},
                  rule="every opened archive of Archive.tla for the plans (NTitles, NRevids, MaxWrites, MinWrites, MaxRedirects, "
                       "NImages, MaxImages) enumerated completely up to renaming of title/image slots, plus -simulate beyond them; "
                       "each history is written with the real FsOutput, zipped, re-opened as directory and as zip, and every "
                       "predicted read compared; non-trivial = at least two writes and (a title written more than once, or a "
                       "redirect, or a stored image)")
    for g in glist[:: max(1, len(glist) // 3)][:3]:
        cc = archive.concretise(g, ctx.seed, 0)
        for wr in cc["writes"]:
            wr["text"] = wr["text"][:60]
        cc["reads"] = cc["reads"][:6]
        for im in cc["images"]:
            im["data"] = im["data"][:24]
        ctx.sample(cc)
    ctx.assume("titles are written in the canonical form the API returns (palette entries are checked to be fixpoints of NsHandler.get_fqname)",
               "texts containing the record separator are excluded; a text that *starts* with the separator's tail "
               "(form feed, ' --page-- ') is treated as containing it, because the header's newline completes the separator",
               "titles with %XX are excluded; image distinctness is asserted only inside the alphabet letters/digits/space/-.~",
               "a revision id belongs to one title within an archive; redirect targets are stored; no redirect chains",
               "where the statement leaves freedom the model follows the code: no-revid records win over revisions for lookup by "
               "title, the last record written under a revid wins, get_page(source, revid) goes through the redirect map",
               "case-sensitive POSIX file system")


def replay(ctx, path):
    with open(path) as f:
        rec = json.load(f)
    archive.quiet()
    cc = rec["replay"]["case"]
    cc["open_dir"] = True
    _o, n, bad = archive.run_case(cc, os.path.join(ctx.scratch, "replay"))
    if not bad:
        print("replay: every read of the case now agrees with the specification (%d reads)" % n)
    seen = set()
    for m in bad:
        k = archive.key_of(cc, m)
        if k not in seen:
            seen.add(k)
            ctx.violation(k, describe(m), {"case": cc, "mismatch": m})
