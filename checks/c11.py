"""C11 — fetching a collection yields a complete and faithful archive.

P-MC:    TLC explores spec/Fetcher.tla (work items of the greenlet orchestration, one action per
         stretch between two yields) exhaustively over the family of tiny wikis / books / limits
         of spec/FetcherMC.tla: Complete (archive as the reader sees it ⊒ Expected, Expected a
         closure written from the statement), NoLeftovers, NoDoubleWork, semaphore accounting,
         oracle sanity; liveness (Terminates) and deadlock freedom; the defect switches (Mut)
         must each make TLC fail (non-vacuity); action coverage is recorded.
P-TRACE: a seeded generator produces (wiki, book, limits, schedule); the REAL make_nuwiki runs
         against harness/synthwiki.py (SynthApi subclasses the real MwApi at `_fetch`; real URL
         building, continuation merging, semaphores, Fetcher, FsOutput, download path); one event
         per atomic stretch of every work item is recorded at the greenlet switch together with
         the shared state.  TLC validates every trace against spec/FetcherTrace.tla (a rejected
         event is a deadlock) and evaluates Complete on the archive READ BACK through
         nuwiki.Adapt, NoLeftovers and NoDoubleWork; the verdicts are printed by TLC, Python only
         relays them.
"""
import json
import multiprocessing
import os
import random
import shutil
import sys
import time

from harness import synthwiki, tlc

PROPERTY = "C11"
LEVEL = "model_checking"

ACTIONS = ["DoStartFH", "DoStartH1", "DoStartFU", "DoStartReq", "DoStartDL", "DoStartGET", "DoStartNB", "DoWakeH", "DoWakeS",
           "DoRespH1", "DoRespUBMore", "DoRespUBFinal", "DoRespET", "DoRespER", "DoRespII", "DoRespGET", "DoRespNBPing",
           "DoRespNB", "DoRespIP", "DoRespIE", "DoJoinBlocks", "Dispatch", "Join"]

MC_CFG = """SPECIFICATION Spec
CONSTANTS
  Family <- MCFamilySensible
  Mut = "%(mut)s"
  Eager = %(eager)s
  Variants = {%(variants)s}
  BookIds = {%(books)s}
  ReqLimits = {%(req)s}
  ResLimits = {%(res)s}
  ImgModes = {%(img)s}
  HtmlModes = {%(html)s}
INVARIANTS Complete NoLeftovers NoDoubleWork SemOk SemAccounted TodoScheduled ExpectedSane WindowsSane
%(extra)s
VIEW view
CHECK_DEADLOCK TRUE
"""

TRACE_CFG = """SPECIFICATION TraceSpec
CONSTANTS
  Family = {}
  Mut = "none"
  Eager = FALSE
  Diagnose = %(diag)s
INVARIANTS EmitFinal EmitVerdict TraceSemOk TraceTodoScheduled
%(extra)s
CHECK_DEADLOCK FALSE
"""


def q(xs):
    return ", ".join('"%s"' % x if isinstance(x, str) else ("TRUE" if x is True else "FALSE" if x is False else str(x)) for x in xs)


def mc_cfg(variants, books, req, res, img=(True,), html=(False,), mut="none", eager=True, extra=""):
    return MC_CFG % dict(mut=mut, eager="TRUE" if eager else "FALSE", variants=q(variants), books=q(books),
                         req=q(req), res=q(res), img=q(img), html=q(html), extra=extra)


# --------------------------------------------------------------------------------------- P-MC
def model_check(ctx):
    quick = ctx.tier == "quick"
    total_s = total_t = 0
    runs = []
    # (name, cfg): every dimension of the family is varied; the cross product is bounded per plan
    if quick:      # ~3.5e5 distinct states
        plans = [
            ("books", mc_cfg(["single"], [1, 2, 9, 11], [1, 2], [1, 2])),
            ("two", mc_cfg(["single"], [3], [2], [2])),
            ("redirects", mc_cfg(["single", "dead", "chain", "cycle", "none"], [5, 6, 7, 12], [2], [1, 2])),
            ("shared-redirect", mc_cfg(["single", "cycle"], [8], [2], [2])),
            ("noimages+html", mc_cfg(["single"], [1, 6, 9], [1, 2], [2], img=(False,), html=(True,))),
            ("html", mc_cfg(["single"], [2, 9], [1], [2], html=(True,))),
            ("uneager", mc_cfg(["single", "dead"], [6, 9, 11], [2], [2], eager=False)),
        ]
    else:          # ~4e6 distinct states
        plans = [
            ("books", mc_cfg(["single"], [1, 2, 3, 9, 11], [1, 2], [1, 2])),
            ("redirects", mc_cfg(["single", "dead", "chain", "cycle", "none"], [5, 6, 7, 8, 12], [1, 2], [1, 2])),
            ("noimages+html", mc_cfg(["single", "cycle"], [1, 3, 6, 8, 9], [1, 2], [1, 2], img=(False,), html=(True,))),
            ("html", mc_cfg(["single", "chain"], [2, 5, 6, 9], [1, 2], [2], html=(True,))),
            ("three", mc_cfg(["single"], [4, 10], [2], [2])),
            ("uneager", mc_cfg(["single", "cycle"], [1, 6, 9, 11], [2], [2], eager=False)),
        ]
    for name, cfg in plans:
        res = tlc.run(ctx, "FetcherMC", cfg, name="mc_" + name, timeout=3000, heap="12g")
        if not res.ok:
            ctx.machinery("reference spec Fetcher violates %s %s in family plan %s — a defect of the specification\n%s"
                          % (res.kind, res.name, name, res.out[-2500:]))
        total_s += res.distinct
        total_t += res.generated
        runs.append({"plan": name, "distinct": res.distinct, "generated": res.generated, "depth": res.depth,
                     "wall_s": round(res.wall, 1)})
        ctx.note("P-MC %-14s %8d distinct states, depth %d, %.0fs" % (name, res.distinct, res.depth, res.wall))
    # liveness (no VIEW trickery needed: `last` is a function of the step) + action coverage
    live_variants, live_books = (["single", "cycle"], [6]) if quick else (["single", "cycle", "dead", "chain"], [6, 7])
    res = tlc.run(ctx, "FetcherMC", mc_cfg(live_variants, live_books, [1], [1], html=(True,), extra="PROPERTY Terminates"),
                  name="mc_live", coverage=True, timeout=1500, heap="12g")
    if not res.ok:
        ctx.machinery("liveness/coverage run failed: %s %s\n%s" % (res.kind, res.name, res.out[-2000:]))
    total_s += res.distinct
    total_t += res.generated
    cov = dict(res.coverage)
    res2 = tlc.run(ctx, "FetcherMC", mc_cfg(["single"], [9], [1], [2], html=(True,), extra="PROPERTY Terminates"),
                   name="mc_live2", coverage=True, timeout=1500, heap="12g")
    if not res2.ok:
        ctx.machinery("liveness/coverage run 2 failed: %s %s\n%s" % (res2.kind, res2.name, res2.out[-2000:]))
    total_s += res2.distinct
    total_t += res2.generated
    for k, v in res2.coverage.items():
        c = cov.setdefault(k, [0, 0])
        c[0] += v[0]
        c[1] += v[1]
    missing = tlc.uncovered_actions(type("R", (), {"coverage": cov})(), ACTIONS)
    if missing:
        ctx.machinery("actions of Fetcher.tla never taken in the coverage runs: %s" % missing)
    # non-vacuity: each defect class must be caught by the property it is meant to break
    nonvac = {}
    for mut, want in (("nosched", ("invariant", "NoDoubleWork")), ("nolist", ("invariant", "Complete")),
                      ("noarm", ("invariant", "NoLeftovers")), ("replace", ("invariant", "Complete")),
                      ("noauthors", ("invariant", "Complete"))):
        r = tlc.run(ctx, "FetcherMC", mc_cfg(["single"], [3] if mut == "nosched" else [1], [1], [1], mut=mut),
                    name="mc_nv_" + mut, timeout=900, heap="8g")
        nonvac[mut] = [r.kind, r.name]
        if (r.kind, r.name) != want:
            ctx.machinery("non-vacuity: Mut=%s did not violate %s (got %s %s)" % (mut, want[1], r.kind, r.name))
    return total_s, total_t, runs, cov, nonvac


# --------------------------------------------------------------------------------------- P-TRACE
def _run_one(args):
    case, scratch = args
    out = os.path.join(scratch, "fetch-%d" % case["id"])
    shutil.rmtree(out, ignore_errors=True)
    try:
        r = synthwiki.run_case(case, out)
    except BaseException as e:                              # noqa: BLE001
        import traceback
        return {"id": case["id"], "crash": "%s\n%s" % (e, traceback.format_exc()[-2000:])}
    finally:
        shutil.rmtree(out, ignore_errors=True)
    if r["harness_errors"]:
        return {"id": case["id"], "crash": "; ".join(r["harness_errors"][:3])}
    if not r["reached_init"] and r["status"] != "hang":
        # make_nuwiki ended before the fetcher fanned out: nothing to validate; the real code's failure
        # is reported as such (a run without a final state is never handed to TLC)
        return {"id": case["id"], "status": "failed", "error": r["error"] or "make_nuwiki ended before Fetcher.__init__ completed",
                "hang": False, "trace": {"ev": []}, "noinit": True, "nreq": len(r["requests"]), "nev": 0,
                "stderr": r["stderr"][-1500:], "leak": []}
    if r["hang"]:
        return {"id": case["id"], "status": r["status"], "error": r["error"], "hang": True, "trace": {"ev": []},
                "nreq": len(r["requests"]), "nev": 0, "stderr": r["stderr"][-1500:], "leak": []}
    try:
        tr = synthwiki.to_trace(case, r)
    except synthwiki.HarnessMismatch as e:
        return {"id": case["id"], "crash": "harness does not fit the code under test: %s" % e}
    return {"id": case["id"], "status": r["status"], "error": r["error"], "hang": r["hang"], "trace": tr,
            "nreq": len(r["requests"]), "nev": len(tr["ev"]), "stderr": r["stderr"][-1500:],
            "leak": sorted(r.get("leaked_title_mapping", {}).items())}


def execute(ctx, cases):
    """Run every case in a fresh forked process (Fetcher keeps class-level state)."""
    import warnings
    with warnings.catch_warnings():
        warnings.simplefilter("ignore")
        from mwlib.apps import make_nuwiki  # noqa: F401  (imported once, before forking)
        from mwlib.core import nuwiki  # noqa: F401
    pool = multiprocessing.get_context("fork").Pool(ctx.ncpu, maxtasksperchild=1)
    try:
        results = pool.map(_run_one, [(c, ctx.scratch) for c in cases], chunksize=1)
    finally:
        pool.close()
        pool.join()
    return results


def gen_cases(seed, n, big, start=0):
    rng = random.Random(seed * 1000003 + (7 if big else 3))
    return [synthwiki.gen_case(rng, big=big, cid=start + k) for k in range(n)]


def case_summary(case):
    w = case["wiki"]
    return {"book": [[a["title"], a["rev"]] for a in case["book"]],
            "pages": [[p["title"], p["revs"], p["redirect"], p["uses"], p["images"]] for p in w["pages"]],
            "images": [[i["title"], "shared" if i["shared"] else "local"] for i in w["images"]],
            "langs": [w["local"], w["shared"]], "cfg": case["cfg"]}


def key_of_failure(f):
    what, how, _subject = f
    if how == "image":
        return what if "image" in what else "%s for image" % what
    via = {"title": "fetched by title", "revid": "fetched by revid",
           "redirect-title": "fetched via single-hop redirect by title",
           "redirect-revid": "fetched via single-hop redirect by revid"}.get(how, how)
    return "%s for article %s" % (what, via)


def validate(ctx, traces, name):
    """TLC validates the batch; returns (end verdicts by trace id, rejected {id: (l, event, diag)}, Complete failures
    by trace id, states, transitions).  A trace is accepted iff TLC printed an end verdict for it (some branch of the
    trace spec consumed it)."""
    verdicts, rejected = {}, {}
    if not traces:
        return verdicts, rejected, {}, 0, 0
    path = os.path.join(ctx.scratch, "%s.json" % name)
    with open(path, "w") as f:
        json.dump(traces, f)
    res = tlc.run(ctx, "FetcherTrace", TRACE_CFG % {"diag": "FALSE", "extra": ""}, name=name,
                  env={"TRACE_FILE": path}, timeout=3000, heap="12g", deadlock=False)
    if not res.ok:
        ctx.machinery("trace validation failed with %s %s\n%s" % (res.kind, res.name, res.out[-3000:]))
    finals = {}
    for v in res.emitted:
        if v.get("kind") == "final":
            finals[v["id"]] = v["failures"]
        elif v.get("kind") == "end":
            verdicts[v["id"]] = v
    for t in traces:
        if t["id"] not in finals:
            ctx.machinery("TLC printed no Complete verdict for trace %d" % t["id"])
    expect = sum(len(t["ev"]) + 1 for t in traces if t["id"] in verdicts)
    if res.distinct < expect:
        ctx.machinery("trace validation: %d distinct states, at least %d expected" % (res.distinct, expect))
    for n, t in enumerate(t for t in traces if t["id"] not in verdicts):
        if n >= 8:
            rejected[t["id"]] = (0, {"t": "?"}, "not diagnosed (more than 8 rejected traces in the batch)")
            continue
        rejected[t["id"]] = diagnose(ctx, t, "%s_d%d" % (name, t["id"]))
    return verdicts, rejected, finals, res.distinct, res.generated


def diagnose(ctx, trace, name):
    """Deepest event any branch reached, and the post-condition that fails there (both from TLC)."""
    path = os.path.join(ctx.scratch, name + ".json")
    with open(path, "w") as f:
        json.dump([trace], f)
    try:
        res = tlc.run(ctx, "FetcherTrace", TRACE_CFG % {"diag": "FALSE", "extra": "INVARIANT EmitProgress"}, name=name + "p",
                      env={"TRACE_FILE": path}, timeout=600, heap="4g", workers=1, deadlock=False)
        l = max([v["progress"] for v in res.emitted if "progress" in v] or [1])
        ev = trace["ev"][l - 1] if l <= len(trace["ev"]) else {"t": "end-of-trace", "k": "", "to": ""}
        res = tlc.run(ctx, "FetcherTrace", TRACE_CFG % {"diag": "TRUE", "extra": ""}, name=name + "d",
                      env={"TRACE_FILE": path, "DIAG_L": str(l)}, timeout=600, heap="4g", workers=1, deadlock=False)
    except Exception as e:                                   # noqa: BLE001
        return (0, {"t": "?"}, "diagnosis run failed: %s" % str(e)[:300])
    if res.kind == "assert" or "C11-diag" in res.out:
        import re
        m = re.search(r'(C11-diag: [^"\n]*)', res.out)
        return (l, ev, m.group(1) if m else res.message[:300])
    if l > len(trace["ev"]):
        return (l, ev, "the run ended although the model still has work items / a pending dispatch, or ended in another phase")
    return (l, ev, "no action of the item is enabled in that state")


def report(ctx, cases, results, verdicts, rejected, finals):
    """Relay TLC's verdicts (and runs that did not end) as violations, keyed per field and access path."""
    bycase = {c["id"]: c for c in cases}
    nviol = 0
    for r in results:
        case = bycase[r["id"]]
        rep = {"case": case}
        if "crash" in r:
            ctx.machinery("harness crashed on case %d: %s" % (r["id"], r["crash"]))
        if r["hang"]:
            nviol += ctx.violation("fetch does not terminate", "make_nuwiki idle with nothing in flight: %s" % r["error"], rep)
            continue
        if r["status"] == "readfail":
            nviol += ctx.violation("archive cannot be read back", r["error"][:500], rep)
        if r["status"] == "failed" and "not all items processed" not in r["error"]:
            nviol += ctx.violation("fetch failed: %s" % r["error"].split(":")[0], r["error"], rep)
            continue
        for f in finals.get(r["id"], []):
            nviol += ctx.violation(key_of_failure(f), "%s (%s) %s; book=%s limits=%s/%s images=%s schedule=%s" % (
                f[0], f[1], f[2], [[a["title"], a["rev"]] for a in case["book"]], case["cfg"]["reqlimit"],
                case["cfg"]["reslimit"], case["cfg"]["fetch_images"], case["cfg"]["policy"]), dict(rep, failure=f))
        if r["id"] in rejected:
            l, ev, diag = rejected[r["id"]]
            what = "event %d of the run is not a step Fetcher.tla allows: %s — %s" % (l, json.dumps(ev)[:700], diag)
            key = "trace rejected: %s %s -> %s [%s]" % (ev.get("k", ev.get("t")), ev.get("t"), ev.get("to", ""), diag.split(" (")[0][:80])
            nviol += ctx.violation(key, what, dict(rep, rejected_at=l, event=ev, diagnosis=diag))
            continue
        v = verdicts.get(r["id"])
        if v is None:
            continue
        if v["modelfailures"]:
            ctx.machinery("the reference model's own archive falls short of Expected on a recorded behaviour: %r (case %d)"
                          % (v["modelfailures"], r["id"]))
        if v["leftovers"]:
            nviol += ctx.violation("not all items processed (todo list non-empty at join)", r["error"], rep)
        if v["doublework"]:
            nviol += ctx.violation("guarded request issued twice (imageinfo / download / description page)", "NoDoubleWork", rep)
    return nviol


def nontrivial(case, r):
    """A run counts as non-trivial when it exercised more than the plain path: a continuation, a
    redirect, a missing page, an image pipeline or semaphore blocking."""
    tr = r["trace"]
    cont = len([e for e in tr["ev"] if e["k"] == "UB" and e["to"] == "r"]) > len([e for e in tr["ev"] if e["k"] == "UB" and e["to"] == "done"])
    listed = {a["title"] for a in case["book"]}
    return cont or any(e["k"] in ("NB",) for e in tr["ev"]) or \
        any(p["redirect"] and p["title"] in listed for p in case["wiki"]["pages"])


def run(ctx):
    quick = ctx.tier == "quick"
    t0 = time.time()
    mc_states, mc_trans, mc_runs, cov, nonvac = model_check(ctx)
    t_mc = time.time() - t0
    # ---- real executions
    nsmall, nbig = (160, 40) if quick else (1800, 1200)
    cases = gen_cases(ctx.seed, nsmall, False) + gen_cases(ctx.seed, nbig, True, start=nsmall)
    t1 = time.time()
    results = execute(ctx, cases)
    t_exec = time.time() - t1
    for r in results:
        if "crash" in r:
            ctx.machinery("harness crashed on case %d: %s" % (r["id"], r["crash"]))
    traces = [r["trace"] for r in results if not r["hang"] and not r.get("noinit")]
    t2 = time.time()
    verdicts, rejected, finals, tr_states, tr_trans = {}, {}, {}, 0, 0
    batch = 400
    for b in range(0, len(traces), batch):
        v, rj, fi, s, t = validate(ctx, traces[b:b + batch], "tr%d" % (b // batch))
        verdicts.update(v)
        rejected.update(rj)
        finals.update(fi)
        tr_states += s
        tr_trans += t
    t_val = time.time() - t2
    report(ctx, cases, results, verdicts, rejected, finals)
    consumed = len(verdicts)
    leaks = sum(1 for r in results if r.get("leak"))
    if leaks:
        ctx.note("%d of %d fetches left entries in the class-level Fetcher.title_mapping behind (state shared between "
                 "Fetcher instances; no effect on a single fetch)" % (leaks, len(results)))
    bycase = {c["id"]: c for c in cases}
    nt = sum(1 for r in results if not r["hang"] and nontrivial(bycase[r["id"]], r))
    ctx.note("P-TRACE %d fetches (%.0fs), %d traces consumed by TLC (%.0fs), %d rejected, %d events, %d requests"
             % (len(results), t_exec, consumed, t_val, len(rejected), sum(r["nev"] for r in results), sum(r["nreq"] for r in results)))
    ctx.set_cover(states=mc_states + tr_states, transitions=mc_trans + tr_trans,
                  model_states=mc_states, trace_states=tr_states,
                  traces_validated_against_impl=consumed, evaluations=len(results), distinct_nontrivial=nt,
                  events=sum(r["nev"] for r in results), requests=sum(r["nreq"] for r in results),
                  rejected_traces=len(rejected), exhaustive=False, mc_runs=mc_runs, nonvacuity=nonvac,
                  action_coverage=cov, wall_mc_s=round(t_mc, 1), wall_exec_s=round(t_exec, 1), wall_validate_s=round(t_val, 1),
                  rule="P-MC: exhaustive BFS over the FetcherMC family plans (variants x books x request limit x result limit x "
                       "images on/off x html on/off), all interleavings of response arrivals (Eager) plus unrestricted "
                       "interleavings on the small plan; P-TRACE: seeded generator (small: <=3 articles, <=2 templates, <=2 "
                       "images, <=1 redirect structure, limits 1..2; big: <=8 pages, <=6 images, limits 1..50), one real "
                       "make_nuwiki per case under a seeded deterministic response schedule; non-trivial = a continued "
                       "prop=images query, the description-page pipeline, or a listed redirect page occurred")
    for r in results[:2] + results[nsmall:nsmall + 1]:
        v = verdicts.get(r["id"])
        ctx.sample({"case": case_summary(bycase[r["id"]]), "events": r["nev"], "requests": r["nreq"],
                    "first_events": [[e["k"], e["a"], e["to"], e["w"]] for e in r["trace"]["ev"][:12]],
                    "complete_failures": finals.get(r["id"]), "end_verdict": v})
    # ---- beyond the listed property: the retry loop of one API request and the rate limiter
    # (spec/FetchRetry.tla, spec/RateLimit.tla; the fetcher runs above sit on top of MwApi._fetch)
    from harness import fetchretry
    fetchretry.check(ctx, quick)
    ctx.assume("the synthetic wiki (harness/synthwiki.py, contract spec/WikiApi.tla) answers like MediaWiki for the request "
               "alphabet sapi.py uses; it speaks legacy query-continue, the only dialect the client continues on",
               "image usage is a page-level attribute (MediaWiki's imagelinks table): a pinned old revision uses the images of its page",
               "gevent's callback queue is FIFO (the dispatcher's wake-up precedes the pool's empty notification; asserted on every trace)",
               "bots are recognised by name (/bot$/i), as core/authors.py and sapi.get_contributors do",
               "responses are released only when the loop is idle, in a seeded order (one at a time, or up to three at once with "
               "schedule policy 'burst'): most real schedules are those of gevent's callback queue; unrestricted interleavings "
               "are explored by the model (Eager=FALSE plan)")


def replay(ctx, path):
    with open(path) as f:
        rec = json.load(f)
    case = rec["replay"]["case"]
    results = execute(ctx, [case])
    traces = [r["trace"] for r in results if "trace" in r and not r.get("hang") and not r.get("noinit")]
    verdicts, rejected, finals, _, _ = validate(ctx, traces, "replay")
    n = report(ctx, [case], results, verdicts, rejected, finals)
    if not n:
        print("replay: the case now conforms to the specification")
