"""C04 — template expansion computes what the template language says.

P-ENUM with a TLA+ reference semantics.

spec/TemplateLang.tla  reference interpreter Eval(body, env, universe) for text, parameters (with
        default / literal fallback), template calls (positional / named binding, trimming), #if,
        #ifeq (numeric comparison by value), #switch (fall-through, #default, trailing default)
        and a generator automaton that builds acyclic template universes and a page bottom-up.
        TLC enumerates every program of the small configurations breadth-first and samples deep
        ones with -simulate, EVALUATES each with the reference interpreter, checks the oracle's
        own laws (OracleLaws, ASSUMEs) and prints (serialised universe, serialised page in two
        whitespace spellings, expected text).
spec/Expr.tla  reference semantics of #expr over exact rationals, a generator automaton for
        expression trees, minimal / redundant parenthesis serialisers and an independent
        shunting-yard reader with the documented precedence table; TLC checks that reading either
        serialisation yields the tree's value (SerialisersAgree) and prints (tokens, value).
The harness only concretises (joins atoms, gives templates unique titles, writes a production
archive with FsOutput, opens it with nuwiki.Adapt), runs the real
Expander(page, pagename, wikidb).expandTemplates() and compares: text exactly; #expr
numerically (1e-9) plus the integer / decimal formatting class when doubles are exact.
"""
import hashlib
import json
import multiprocessing
import os
import re
import shutil
import time

from harness import tlc
from harness.common import chunks

PROPERTY = "C04"
LEVEL = "exploration"

TL_ACTIONS = ["Push", "Cat", "MkParamD", "MkIf", "MkIfEq", "MkCase", "MkSwitch", "TagArg", "MkCall", "Finish"]
EX_ACTIONS = ["Push", "MkUn", "MkBin", "Finish"]

TL_CFG = """SPECIFICATION Spec
CONSTANTS
  NT = %(nt)d
  FuelT = %(fuelt)d
  FuelP = %(fuelp)d
  MaxDepth = %(depth)d
  Ops = %(ops)d
  WordSet = "%(words)s"
  Preset = "%(preset)s"
  AllowDup = %(dup)s
  AllowNumDup = %(numdup)s
  AnyPos = %(anypos)s
  Emit = %(emit)s
INVARIANTS TypeOK OracleLaws EmitProgram
CHECK_DEADLOCK FALSE
"""

EX_CFG = """SPECIFICATION Spec
CONSTANTS
  Fuel = %(fuel)d
  Ops = %(ops)d
  MaxDepth = %(depth)d
  LitSet = "%(lits)s"
  OpSet = "%(opset)s"
  AllowFuncPow = %(funcpow)s
  AnyPos = %(anypos)s
  Emit = %(emit)s
INVARIANTS TypeOK SerialisersAgree ValueOK EmitExpr
CHECK_DEADLOCK FALSE
"""


def B(x):
    return "TRUE" if x else "FALSE"


def tl_cfg(nt=0, fuelt=2, fuelp=3, depth=2, ops=2, words="small", preset="none", dup=False, numdup=False,
           anypos=False, emit=True):
    return TL_CFG % dict(nt=nt, fuelt=fuelt, fuelp=fuelp, depth=depth, ops=ops, words=words, preset=preset,
                         dup=B(dup), numdup=B(numdup), anypos=B(anypos), emit=B(emit))


def ex_cfg(fuel=2, ops=2, depth=4, lits="small", opset="all", funcpow=False, anypos=False, emit=True):
    return EX_CFG % dict(fuel=fuel, ops=ops, depth=depth, lits=lits, opset=opset, funcpow=B(funcpow), anypos=B(anypos), emit=B(emit))


# ----------------------------------------------------------------------------- plans
def plans(tier):
    """(kind, name, cfg kwargs, simulate N or None, depth)"""
    if tier == "quick":
        return [
            ("tl", "echo", dict(nt=1, preset="echo", fuelp=3, ops=1, depth=2, words="small"), None, None),
            ("tl", "nest", dict(nt=1, preset="echo", fuelp=2, ops=2, depth=2, words="small"), None, None),
            ("tl", "num", dict(nt=0, fuelp=3, ops=1, depth=1, words="num"), None, None),
            ("tl", "dup", dict(nt=1, preset="echo", fuelp=2, ops=1, depth=2, words="small", dup=True), None, None),
            ("tl", "numdup", dict(nt=0, fuelp=5, ops=1, depth=1, words="tiny", numdup=True), None, None),
            ("tl", "sim", dict(nt=2, fuelt=4, fuelp=5, depth=4, ops=6, words="full", anypos=True), 16000, 90),
            ("ex", "ebfs", dict(fuel=2, ops=2, depth=4, lits="small", funcpow=True), None, None),
            # every chain a op1 b op2 c (both tree shapes, ALL operator pairs incl. equal ones) over a palette on which
            # the two groupings differ; then the same with a prefix operator anywhere, over the core operators
            ("ex", "chain", dict(fuel=3, ops=2, depth=4, lits="chain", funcpow=True), None, None),
            ("ex", "chainun", dict(fuel=3, ops=3, depth=4, lits="two", opset="core", funcpow=True), None, None),
            ("ex", "esim", dict(fuel=6, ops=9, depth=5, lits="full", anypos=True, funcpow=True), 32000, 40),
        ]
    return [
        ("tl", "echo", dict(nt=1, preset="echo", fuelp=3, ops=2, depth=2, words="small"), None, None),
        ("tl", "echofull", dict(nt=1, preset="echo", fuelp=3, ops=1, depth=2, words="full"), None, None),
        ("tl", "num", dict(nt=0, fuelp=3, ops=1, depth=1, words="num"), None, None),
        ("tl", "dup", dict(nt=1, preset="echo", fuelp=3, ops=1, depth=2, words="small", dup=True), None, None),
        ("tl", "numdup", dict(nt=0, fuelp=5, ops=1, depth=1, words="tiny", numdup=True), None, None),
        ("tl", "sim2", dict(nt=2, fuelt=4, fuelp=5, depth=4, ops=6, words="full", anypos=True), 160000, 90),
        ("tl", "sim3", dict(nt=3, fuelt=3, fuelp=6, depth=4, ops=7, words="full", anypos=True), 120000, 120),
        ("ex", "ebfs", dict(fuel=2, ops=3, depth=4, lits="small", funcpow=True), None, None),
        ("ex", "ebfs3", dict(fuel=3, ops=2, depth=4, lits="small", funcpow=True), None, None),
        ("ex", "chain", dict(fuel=3, ops=2, depth=4, lits="chain", funcpow=True), None, None),
        ("ex", "chainun", dict(fuel=3, ops=3, depth=4, lits="two", opset="core", funcpow=True), None, None),
        ("ex", "chain4", dict(fuel=4, ops=3, depth=4, lits="two", opset="core", funcpow=True), None, None),
        ("ex", "esim", dict(fuel=6, ops=9, depth=5, lits="full", anypos=True, funcpow=True), 400000, 40),
    ]


# ----------------------------------------------------------------------------- concretisation
def tname(text):
    return "Q" + hashlib.sha1(text.encode("utf-8")).hexdigest()[:12]


def concretise(bodies):
    """bodies: list of atom lists, templates first, page last; calls are atoms T0..T4.
    Returns (templates {title: text}, page text).  A template's title is derived from its text, so
    equal templates of different programs share one page of the archive."""
    names = {"T0": "Q0missing"}
    templates = {}
    out = None
    for i, atoms in enumerate(bodies):
        text = "".join(names.get(a, a) if a[:1] == "T" and a[1:].isdigit() else a for a in atoms)
        if i == len(bodies) - 1:
            out = text
        else:
            n = tname(text)
            names["T%d" % (i + 1)] = n
            templates[n] = text
    return templates, out


def tl_variants(case):
    exp = "".join(case["expected"])
    feat = "+".join(sorted(case.get("feat") or [])) or "-"
    out = []
    for v in ("w0", "w2"):
        t, p = concretise(case[v])
        out.append({"kind": "tl", "variant": v, "templates": t, "page": p, "expected": exp, "feat": feat})
    return out


WORDY = re.compile(r"[A-Za-z0-9.]")


def tight(tokens):
    s = ""
    for t in tokens:
        if s and WORDY.match(s[-1]) and WORDY.match(t[0]):
            s += " "
        s += t
    return s


def ex_variants(case):
    feat = "+".join(sorted(case.get("feat") or [])) or "-"
    forms = [("min", " ".join(case["min"])), ("red", " ".join(case["red"])), ("tight", tight(case["min"]))]
    return [{"kind": "ex", "variant": f, "expr": e, "v": case["v"], "feat": feat} for f, e in forms]


# ----------------------------------------------------------------------------- execution
NUMRX = re.compile(r"^-?\d+$")


def judge_expr(c, got):
    v = c["v"]
    if v["t"] == "err":
        return None if 'class="error"' in got else "expected an inline error, got %r" % got
    if 'class="error"' in got:
        return "unexpected error %r, expected %s/%s" % (got, v["n"], v["d"])
    try:
        f = float(got.replace("E", "e"))
    except ValueError:
        return "not a number: %r" % got
    want = v["n"] / v["d"]
    if abs(f - want) > 1e-9 * max(1.0, abs(want)):
        return "value %r, expected %s/%s = %r" % (got, v["n"], v["d"], want)
    if v["x"]:
        is_int = bool(NUMRX.match(got))
        if (v["d"] == 1) != is_int:
            return "formatting class: %r for the %s value %s/%s" % (got, "integral" if v["d"] == 1 else "fractional", v["n"], v["d"])
    return None


def run_one(db, c):
    """Execute one concretised case against the real expander; None or a description."""
    from harness.templwiki import expand
    text = c["page"] if c["kind"] == "tl" else "{{#expr: %s }}" % c["expr"]
    try:
        got, e = expand(db, text)
    except Exception as err:                                   # noqa: BLE001
        from harness.common import MachineryError
        from harness.templwiki import harness_error
        if isinstance(err, MachineryError) or harness_error(err):
            raise MachineryError("the harness failed while expanding %r: %s: %s" % (text[:80], type(err).__name__, err))
        import traceback
        tb = traceback.extract_tb(err.__traceback__)
        fr = [f for f in tb if "/mwlib/" in f.filename]
        where = "%s:%s" % (os.path.basename(fr[-1].filename), fr[-1].name) if fr else "?"
        return "raised %s at %s: %s" % (type(err).__name__, where, err)
    if not isinstance(got, str):
        return "returned %r" % type(got)
    if c["kind"] == "tl":
        if got != c["expected"]:
            return "expanded to %r, the template semantics give %r" % (got, c["expected"])
        return None
    return judge_expr(c, got)


def key_of(c):
    if c["kind"] == "tl":
        return "expand %s page=%s templates=%s" % (c["feat"], json.dumps(c["page"]),
                                                   json.dumps([c["templates"][k] for k in sorted(c["templates"])]))
    return "expr %s %s" % (c["feat"], c["expr"])


def _worker(args):
    idx, cases, scratch = args
    from harness import templwiki
    templwiki.quiet_logging()
    templates = {}
    for c in cases:
        if c["kind"] == "tl":
            templates.update(c["templates"])
    path = os.path.join(scratch, "wiki%d" % idx)
    db = templwiki.make_wikidb(path, templates)
    bad = []
    for c in cases:
        r = run_one(db, c)
        if r:
            bad.append((c, r))
    shutil.rmtree(path, ignore_errors=True)
    return len(cases), bad


def execute(ctx, cases):
    root = os.path.join(ctx.scratch, "wikis")
    os.makedirs(root, exist_ok=True)
    jobs = [(i, ch, root) for i, ch in enumerate(chunks(cases, ctx.ncpu * 4)) if ch]
    n, bad = 0, []
    pool = multiprocessing.get_context("fork").Pool(ctx.ncpu)
    try:
        for cnt, b in pool.imap_unordered(_worker, jobs):
            n += cnt
            bad.extend(b)
    finally:
        pool.close()
        pool.join()
    return n, bad


# ----------------------------------------------------------------------------- the check
def run(ctx):
    stats = {}
    seen = set()         # dedupe on the concrete input, across plans (64-bit digests)
    oos = 0
    generated = 0
    n = 0
    bad = []
    nontrivial = 0
    samples = []
    for kind, name, kw, sim, depth in plans(ctx.tier):
        module = "TemplateLang" if kind == "tl" else "Expr"
        cfg = tl_cfg(**kw) if kind == "tl" else ex_cfg(**kw)
        res = tlc.run(ctx, module, cfg, name="%s_%s" % (module, name),
                      simulate=max(1, sim // ctx.ncpu) if sim else None, depth=depth, timeout=1500, heap="10g")
        if not res.ok:
            ctx.machinery("reference spec %s (%s) violates %s %s — a defect of the specification\n%s"
                          % (module, name, res.kind, res.name, res.out[-1500:]))
        cases = {}
        emitted = 0
        for c in res.emitted:
            emitted += 1
            if c.get("oos"):
                oos += 1
                continue
            for v in (tl_variants(c) if kind == "tl" else ex_variants(c)):
                k = key_of(v) + "|" + v["variant"]
                h = hashlib.blake2b(k.encode("utf-8", "replace"), digest_size=8).digest()
                if h not in seen:
                    seen.add(h)
                    cases[k] = v
        generated += emitted
        res.out = ""
        res.emitted = []
        # each plan is executed as soon as TLC has produced it (thorough plans have ~10^6 cases each)
        caselist = [cases[k] for k in sorted(cases)]
        cases = None
        t0 = time.time()
        cnt, b = execute(ctx, caselist)
        if cnt != len(caselist):
            ctx.machinery("executed %d of %d cases" % (cnt, len(caselist)))
        n += cnt
        bad.extend(b)
        nt = set()
        for c in caselist:
            if c["kind"] == "tl" and "{{" in c["page"]:
                nt.add((c["page"], tuple(sorted(c["templates"].items()))))
            elif c["kind"] == "ex" and len(c["expr"].split()) > 1:
                nt.add(c["expr"])
        nontrivial += len(nt)          # inputs are already distinct across plans
        if caselist and len(samples) < 6:
            c = caselist[len(caselist) // 2]
            samples.append({k: c[k] for k in c if k != "kind"})
        stats[name] = {"module": module, "mode": "simulate" if sim else "bfs", "states": res.distinct or res.generated,
                       "programs": emitted, "new_cases": cnt, "tlc_s": round(res.wall, 1), "exec_s": round(time.time() - t0, 1)}
        ctx.note("%s/%s: %s programs, %d new cases, %d disagreements, TLC %.0fs, executed in %.0fs"
                 % (module, name, emitted, cnt, len(b), res.wall, time.time() - t0))
        caselist = None
    # action coverage (vacuity) on small configurations
    cov = {}
    for module, cfg, actions in (("TemplateLang", tl_cfg(nt=1, preset="echo", fuelp=3, ops=1, depth=1, emit=False), TL_ACTIONS),
                                 ("Expr", ex_cfg(fuel=2, ops=1, emit=False), EX_ACTIONS)):
        r = tlc.run(ctx, module, cfg, name=module + "_cov", coverage=True, timeout=600)
        if not r.ok:
            ctx.machinery("coverage run of %s failed: %s %s" % (module, r.kind, r.name))
        missing = tlc.uncovered_actions(r, actions)
        if missing:
            ctx.machinery("actions never taken in %s: %s" % (module, missing))
        cov[module] = {a: r.coverage[a] for a in actions}
    bad.sort(key=lambda cr: (len(key_of(cr[0])), key_of(cr[0])))
    unknown = 0
    for c, r in bad:
        if unknown < 25 and ctx.violation(key_of(c), "%s [%s]" % (r, c["variant"]), c):   # replay files for the 25 shortest unknown ones
            unknown += 1
    ctx.set_cover(evaluations=n, distinct_nontrivial=nontrivial, programs_from_tlc=generated,
                  outside_modelled_range=oos, disagreements=len(bad), by_plan=stats, action_coverage=cov,
                  exhaustive=False,
                  rule="every program TLC builds with the generator automata of TemplateLang.tla / Expr.tla (breadth-first = all programs "
                       "of that configuration, -simulate = random deep ones; see by_plan) is evaluated by the TLA+ reference interpreter and "
                       "then expanded by the real Expander in each spelling (w0 tight / w2 redundant newline+blank; min / redundant "
                       "parentheses / tight tokens); a case is one concrete (templates, page) or expression string; non-trivial = the "
                       "page contains template syntax, the expression at least one operator; distinct = distinct concrete input")
    for c in samples:
        ctx.sample(c)
    ctx.assume("the MediaWiki semantics are those written in spec/TemplateLang.tla and spec/Expr.tla (Help:Templates, Help:Extension:ParserFunctions)",
               "IEEE doubles compute dyadic rationals exactly; cases where a discontinuous operator meets an inexact operand at a jump are outside the modelled range",
               "a call of a missing template expands to nothing (what mwlib does; the statement leaves it open)",
               "TLC 32-bit integers: numerators/denominators bounded by 30000, larger intermediate values are outside the modelled range")


def replay(ctx, path):
    with open(path) as f:
        rec = json.load(f)
    c = rec["replay"]
    from harness import templwiki
    templwiki.quiet_logging()
    db = templwiki.make_wikidb(os.path.join(ctx.scratch, "wiki"), c.get("templates") or {})
    r = run_one(db, c)
    if r:
        ctx.violation(key_of(c), "%s [%s]" % (r, c["variant"]), c)
    else:
        print("replay: case now agrees with the specification")
