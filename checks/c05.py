"""C05 — document trees stay well-formed after every cleaning pass and meet the writers'
structural contract at the end.

P-MC     spec/DocTree.tla: the tree-edit API of advtree.AdvancedNode (append_child, remove_child,
         replace_child, move_to, copy) as a state machine over <= 5 node identities; with the
         preconditions written in the spec (Guarded) WellFormed is an invariant of every operation
         sequence to the depth bound; without them TLC must find the violation (non-vacuity:
         append_child of an attached node).
P-REPLAY every transition TLC generates (guarded and unguarded) is executed on real AdvancedNode
         objects and the real heap compared with the model's post-state.
P-TRACE  the recorded cleaner runs shared with C06/C07 (harness/cleaner_traces.py) are validated
         by TLC against spec/CleanerTrace.tla with the C05 clauses: WellFormed after
         build_advanced_tree and after EACH pass, WriterContract after the last one.
"""
import copy
import json
import signal

from harness import cleaner_traces as CT
from harness import tlc
from harness.common import chunks
from checks import c06 as shared

PROPERTY = "C05"
LEVEL = "exploration"
CLAUSES = "C05"

DT_CFG = """SPECIFICATION Spec
CONSTANTS
  N = 5
  MaxOps = %(ops)d
  Guarded = %(guarded)s
  EmitOps = %(emit)s
INVARIANTS %(inv)s FreeClean
CHECK_DEADLOCK FALSE
"""
DT_ACTIONS = ["New", "DoAppend", "DoRemove", "DoReplace", "DoMove", "DoCopy", "DoCopyFails"]


def dt_cfg(ops, guarded, emit, wf=True):
    return DT_CFG % dict(ops=ops, guarded=str(guarded).upper(), emit=str(emit).upper(), inv="WellFormed" if wf else "")


# ------------------------------------------------------------------ P-REPLAY of DocTree transitions
def replay_transition(tr):
    """execute one model transition on real AdvancedNode objects; None or a description"""
    from mwlib.parser import advtree
    from mwlib.parser.nodes import Text
    pre, post = tr["pre"], tr["post"]
    n = len(pre["parent"])
    alloc = set(pre["alloc"])
    objs = {}
    for i in alloc:
        objs[i] = Text("t%d" % i) if pre["text"][i - 1] else advtree.Div()
    for i in alloc:
        objs[i].children = [objs[c] for c in pre["kids"][i - 1]]
        objs[i].parent = objs[pre["parent"][i - 1]] if pre["parent"][i - 1] else None
    op, a = tr["op"], tr["args"]

    def on_alarm(signum, frame):
        raise CT.Budget("no return")

    old = signal.signal(signal.SIGPROF, on_alarm)
    signal.setitimer(signal.ITIMER_PROF, 60)
    try:
        if op == "new":
            objs[a[0]] = advtree.Div()
        elif op == "append_child":
            objs[a[0]].append_child(objs[a[1]])
        elif op == "remove_child":
            objs[a[0]].remove_child(objs[a[1]])
        elif op == "replace_child":
            objs[a[0]].replace_child(objs[a[1]], [objs[x] for x in a[2:]])
        elif op == "move_to":
            objs[a[0]].move_to(objs[a[1]], prefix=bool(a[2]))
        elif op == "copy_fails":
            import copy as _copy
            real = _copy.deepcopy

            def failing(x, memo=None, _nil=[]):
                raise RecursionError("injected: maximum recursion depth exceeded")
            advtree.copy.deepcopy = failing
            try:
                try:
                    objs[a[0]].copy()      # (returns normally if copy() no longer goes through copy.deepcopy:
                except RecursionError:     #  then nothing was injected and only the unchanged heap is compared)
                    pass
            finally:
                advtree.copy.deepcopy = real
        elif op == "copy":
            cp = objs[a[0]].copy()
            free = sorted(set(range(1, n + 1)) - alloc)
            order, _ = CT.nodes_preorder(cp)
            if len(order) > len(free):
                return "copy produced %d objects, the model %d" % (len(order), len(set(post["alloc"]) - alloc))
            for k, o in enumerate(order):
                objs[free[k]] = o
        else:
            return "unknown op " + op
    except (Exception, CT.Budget) as e:                              # noqa: BLE001
        return "the model enables %s%r but the real call raised %s: %s" % (op, a, type(e).__name__, str(e)[:200])
    finally:
        signal.setitimer(signal.ITIMER_PROF, 0)
        signal.signal(signal.SIGPROF, old)
    ident = {id(o): i for i, o in objs.items()}
    if set(objs) != set(post["alloc"]):
        return "allocated %r, model %r" % (sorted(objs), post["alloc"])
    for i, o in objs.items():
        par = 0 if o.parent is None else ident.get(id(o.parent), -1)
        kids = [ident.get(id(c), -1) for c in o.children]
        if par != post["parent"][i - 1] or kids != post["kids"][i - 1]:
            return "node %d: real parent=%r kids=%r, model parent=%r kids=%r" % (i, par, kids, post["parent"][i - 1], post["kids"][i - 1])
    return None


def _replay_worker(trs):
    bad = []
    for tr in trs:
        r = replay_transition(tr)
        if r:
            bad.append((tr, r))
            if len(bad) > 20:
                break
    return len(trs), bad


def doctree(ctx):
    quick = ctx.tier == "quick"
    out = {}
    # P-MC: guarded operations preserve WellFormed
    res = tlc.run(ctx, "DocTree", dt_cfg(4 if quick else 6, True, True), name="DocTree_guarded", coverage=False, timeout=1200, heap="4g")
    if not res.ok:
        ctx.machinery("DocTree: WellFormed is not preserved by the guarded operations (%s %s) — a defect of the specification\n%s"
                      % (res.kind, res.name, res.out[-1500:]))
    out["guarded"] = res
    transitions = list(res.emitted)
    cov = tlc.run(ctx, "DocTree", dt_cfg(3, True, False), name="DocTree_cov", coverage=True, timeout=600, heap="2g")
    missing = tlc.uncovered_actions(cov, DT_ACTIONS)
    if not cov.ok or missing:
        ctx.machinery("DocTree coverage run: %s %s, operations never taken: %s" % (cov.kind, cov.name, missing))
    out["coverage"] = cov.coverage
    # non-vacuity: without the preconditions the same operations break the tree
    nv = tlc.run(ctx, "DocTree", dt_cfg(2, False, False), name="DocTree_nonvac", timeout=600, heap="2g")
    if not (nv.kind == "invariant" and nv.name == "WellFormed"):
        ctx.machinery("non-vacuity: unguarded DocTree did not violate WellFormed (got %s %s)" % (nv.kind, nv.name))
    out["nonvacuity"] = [a for a, _ in nv.trace][-1] if nv.trace else "?"
    # unguarded transitions: the model must predict the real heap after unsafe calls as well
    un = tlc.run(ctx, "DocTree", dt_cfg(3, False, True, wf=False), name="DocTree_unguarded", timeout=1500, heap="6g")
    if not un.ok:
        ctx.machinery("DocTree unguarded run failed: %s %s" % (un.kind, un.name))
    transitions += un.emitted
    n = 0
    bad = []
    for cnt, b in CT.run_pool(ctx, _replay_worker, [c for c in chunks(transitions, ctx.ncpu * 4) if c]):
        n += cnt
        bad.extend(b)
    seen = set()
    for tr, why in bad:
        k = "tree-api %s model/real heap differ" % tr["op"]
        if k in seen:
            continue
        seen.add(k)
        ctx.violation(k, why, {"transition": tr})
    out["replayed"] = n
    del transitions
    res.emitted = un.emitted = []
    res.out = un.out = ""
    out["states"] = res.distinct + un.distinct
    out["transitions"] = res.generated + un.generated
    return out


# ------------------------------------------------------------------ trace corruption (binding is real)
def corruptions(traces):
    """variants of one accepted trace that CleanerTrace must reject, with the clause expected"""
    t = None
    for x in traces:
        s0 = x["snaps"][0] if x["snaps"] else None
        if s0 and 12 <= s0["n"] <= 80 and "Row" in s0["cls"] and all(s["status"] == "ok" for s in x["snaps"]) \
                and "Row" in CT.trees_around(x, len(x["snaps"]))[1]["cls"]:
            t = x
            break
    if t is None:
        return []
    out = []

    def variant(expect, f):
        v = copy.deepcopy({k: t[k] for k in ("id", "lossless", "truncated", "order", "snaps", "raw", "lang")})
        v["id"] = 900000 + len(out)
        f(v)
        out.append((expect, v))

    def fresh(v, k):
        idx = [i for i, s in enumerate(v["snaps"]) if not s["same"]]
        return v["snaps"][idx[min(k, len(idx) - 1)]]

    def stale(v):
        s = fresh(v, 1)
        s["par"][2] = 1 if s["par"][2] != 1 else 2
    variant("C05 parent-links", stale)
    variant("C05 listed-once", lambda v: fresh(v, 1)["kids"][0].append(fresh(v, 1)["kids"][0][0]))

    def row_out(v):
        last = v["snaps"][-1]
        if last["same"]:
            src = CT.trees_around(v, len(v["snaps"]))[1]
            last.update({k: copy.deepcopy(src[k]) for k in ("n", "cls", "par", "kids", "text", "words")})
            last["same"] = False
        i = last["cls"].index("Row")
        last["cls"][last["par"][i] - 1] = "Div"
    variant("C05 row-home", row_out)

    def swap(v):
        v["snaps"][5]["pass"], v["snaps"][6]["pass"] = v["snaps"][6]["pass"], v["snaps"][5]["pass"]
    variant("pass-order", swap)
    return out


def selftest(ctx, traces, prop, val):
    """corruptions of a trace that TLC accepted in this run must be rejected with the expected clause"""
    touched = set(e["id"] for e in val.rejects + val.known)
    cases = corruptions([t for t in traces if t["id"] not in touched])
    if not cases:
        if touched:
            ctx.note("corruption self-test skipped: no accepted trace with a table (this run has rejections)")
            return 0
        ctx.machinery("no accepted trace with a table found for the corruption self-test")
    val = CT.validate(ctx, [v for _, v in cases], prop, name="corrupt")
    got = {r["id"]: r["clause"] for r in val.rejects}
    for expect, v in cases:
        if got.get(v["id"]) != expect:
            ctx.machinery("corruption self-test: expected rejection %r, CleanerTrace said %r" % (expect, got.get(v["id"])))
    return len(cases)


def detail(rej):
    """diagnostic (Python only names what TLC rejected): which classes are involved"""
    before, after = CT.trees_around(rej["trace"], rej["l"])
    t = after
    c = rej["clause"]
    cls, par, kids = t["cls"], t["par"], t["kids"]

    def pc(i):
        p = par[i]
        return cls[p - 1] if 1 <= p <= t["n"] else "none"
    home = {"C05 cell-home": ("Cell", "Row"), "C05 row-home": ("Row", "Table"), "C05 item-home": ("Item", "ItemList")}
    inside = {"C05 table-kids": ("Table", ("Row", "Caption")), "C05 row-kids": ("Row", ("Cell",)), "C05 list-kids": ("ItemList", ("Item",))}
    def since(pred):
        """the pass after which the offending shape is first seen in this trace (diagnostic)"""
        for s in rej["trace"]["snaps"][:rej["l"]]:
            if not s["same"] and pred(s):
                return s["pass"]
        return "?"
    if c in home:
        k, want = home[c]

        def pred(s):
            return any(s["cls"][i] == k and not (1 <= s["par"][i] <= s["n"] and s["cls"][s["par"][i] - 1] == want) for i in range(s["n"]))
        return "%s outside %s since %s" % (k, want, since(pred))
    if c in inside:
        k, ok = inside[c]

        def pred(s):
            return any(s["cls"][i] == k and any(s["cls"][x - 1] not in ok for x in s["kids"][i]) for i in range(s["n"]))
        bad = sorted(set(cls[x - 1] for i in range(t["n"]) if cls[i] == k for x in kids[i] if cls[x - 1] not in ok))
        return "%s lists %s since %s" % (k, "/".join(bad), since(pred))
    if c == "C05 parent-links":
        bad = sorted(set("%s listed by %s has parent %s" % (cls[x - 1], cls[i], pc(x - 1)) for i in range(t["n"]) for x in kids[i] if par[x - 1] != i + 1))
        return "; ".join(bad[:3])
    if c == "C05 listed-once":
        bad = sorted(set(cls[x - 1] for i in range(t["n"]) for x in kids[i] if kids[i].count(x) > 1))
        return "listed twice: " + "/".join(bad)
    if c == "C05 text-leaves":
        return "Text with children"
    return ""


def key_of(rej):
    return "clean after=%s clause=%s [%s]" % (rej["pass"], rej["clause"], detail(rej))


def report(ctx, val):
    shared.report(ctx, val, key_of)


def run(ctx):
    dt = doctree(ctx)
    if ctx.violations:
        # the tree API itself does not behave as DocTree.tla says: every pass is built on it, so
        # the recorded runs would only repeat that (and broken parent links can make passes run away)
        ctx.note("tree API differs from DocTree.tla: cleaner traces not recorded in this run")
        ctx.set_cover(evaluations=dt["replayed"], distinct_nontrivial=dt["replayed"], states=dt["states"], transitions=dt["transitions"],
                      traces_validated_against_impl=dt["replayed"], rule="DocTree.tla transitions replayed on real AdvancedNode objects")
        ctx.sample({"note": "see replays/C05"})
        return
    inputs, gen_stats = CT.generate(ctx, scale=0.6 if ctx.tier == "quick" else 0.7)
    traces, val, ncorrupt = CT.process(ctx, inputs, CLAUSES, lambda v: report(ctx, v),
                                       selftest=lambda tr, v: selftest(ctx, tr, CLAUSES, v))
    shared.evidence(ctx, inputs, gen_stats, traces, val,
                    "DocTree.tla: %d transitions (guarded + unguarded) replayed on real AdvancedNode objects." % dt["replayed"])
    ctx.set_cover(doctree_states=dt["states"], doctree_transitions=dt["transitions"], doctree_replayed=dt["replayed"],
                  doctree_action_coverage=dt["coverage"], doctree_nonvacuity_action=dt["nonvacuity"], corruptions_rejected=ncorrupt)
    ctx.set_cover(states=ctx.coverage["states"] + dt["states"], transitions=ctx.coverage["transitions"] + dt["transitions"])
    ctx.assume("snapshots number the distinct objects reachable through the children lists in preorder; par = n+1 marks a parent outside the tree",
               "DocTree.tla's five operations are a transcription of advtree.py:94-150; every model transition is checked against the real objects")


def replay(ctx, path):
    with open(path) as f:
        rec = json.load(f)["replay"]
    if "transition" in rec:
        r = replay_transition(rec["transition"])
        if r:
            ctx.violation("tree-api %s model/real heap differ" % rec["transition"]["op"], r, rec)
        else:
            print("replay: the real objects now behave as DocTree.tla predicts")
        return
    tr = CT.record(rec["raw"], rec.get("lang", "en"), doc_id=1, lossless=rec.get("lossless", False))
    tr["kind"] = "replay"
    val = CT.validate(ctx, [tr], CLAUSES, name="replay")
    report(ctx, val)
    if not val.rejects and not val.known:
        print("replay: the trace is now accepted by CleanerTrace.tla")
