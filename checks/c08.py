"""C08 — rendering is total and complete: every visible word reaches the output.

P-MC    spec/Collection.tla (generator of stored collections + denotation) is model-checked on
        the exhaustive configurations with the laws of the generator/oracle as invariants;
        spec/RenderPipeline.tla (stage machine OpenArchive -> Expand -> Parse -> Clean -> Layout
        -> Output -> Judge) is model-checked with its obligations and liveness.
P-ENUM  every finished collection TLC reaches (exhaustive for the tiny configurations, -simulate
        for larger ones) is printed as JSON, concretised (harness/render_harness.py), stored
        with the REAL FsOutput + zip_dir, opened with wiki.make_wiki and rendered
          rl.writer        registered entry point mwlib.writers.rl.writer.writer (as apps/render.py)
          rl.writer-notoc  the same with pdfstyles.RENDER_TOC = False (multi-article books only)
          odf.writer       registered entry point mwlib.writers.odf.writer.writer
          rl.testmode      RlWriter(test_mode=True).write(tree), one run per article
          odf.testmode     preprocess + ODFWriter.writeTest + save, one run per article
        each in a forked child.  The stages actually reached are observed by wrapping the
        public calls; the output is projected to the set of denoted words found in it (PDF:
        whitespace-stripped pypdf text; ODF: text of content.xml) and a readability flag (PDF
        opens and has pages; ODF unzips, XML well-formed, odflint clean).
P-TRACE every recorded run is validated by TLC against RenderPipeline (spec/RenderTrace.tla):
        TLC accepts or rejects; Python only names what TLC rejected (exception class + innermost
        mwlib frame, stage never reached, "missing word in <construct>", lint message).
"""
import hashlib
import json
import multiprocessing
import os
import re
import threading

from harness import render_harness as rh
from harness import tlc

PROPERTY = "C08"
LEVEL = "exploration"

# The statement requires word coverage of the PDF; for the OpenDocument writer it requires a
# well-formed, lint-clean package and no exception / giving up.  For the ODF text the verdict
# requires the article titles only (no article was given up); full word coverage of content.xml
# is measured and reported in the evidence and enters the verdict only if this is switched on.
ODF_WORDS_IN_VERDICT = False

COLL_CFG = """SPECIFICATION Spec
CONSTANTS
  MaxArts = %(maxarts)d
  MaxBlocks = %(maxblocks)d
  MinBlocks = %(minblocks)d
  Palette = "%(palette)s"
  Chapters = %(chapters)s
  EmitCases = TRUE
INVARIANTS %(invs)s
%(extra)s
CHECK_DEADLOCK FALSE
"""
LAWS = ("TypeOK AllocationLaw WordsUnique DenotedAreWritten TemplateWordsLaw SectionsHaveBody HeadingsDenoted "
        "TitlesDenoted PlanRespected Emit")

PIPE_CFG = """SPECIFICATION PSpec
CONSTANTS
  MaxN = %d
  Words = {1, 2}
INVARIANTS PTypeOK OutputComplete JudgedComplete NothingBeforeOpen
PROPERTY Finishes
"""
TRACE_CFG = """SPECIFICATION TraceSpec
CONSTANTS
  MaxN = 4
  Words = {}
INVARIANTS AcceptedIsComplete EmitVerdict
"""
STAGE_NAME = {0: "Expand", 1: "Parse", 2: "Clean", 3: "Layout"}


def coll_cfg(maxarts, maxblocks, palette, chapters, minblocks=1, simulate=False, extra=""):
    return COLL_CFG % dict(maxarts=maxarts, maxblocks=maxblocks, minblocks=minblocks, palette=palette,
                           chapters=str(bool(chapters)).upper(),
                           invs="EmitChecked" if simulate else LAWS, extra=extra)


# ----------------------------------------------------------------------------- generation (TLC)
def case_id(case):
    return hashlib.sha1(json.dumps([case["arts"], case["chap"]], sort_keys=True).encode()).hexdigest()[:16]


def enumerate_cases(ctx, plans):
    """exhaustive BFS configurations; returns (cases, states, transitions)"""
    cases, states, trans = {}, 0, 0
    for name, kw in plans:
        res = tlc.run(ctx, "Collection", coll_cfg(**kw), name="Coll_" + name, timeout=1500, heap="6g")
        if not res.ok:
            ctx.machinery("Collection.tla violates its own law %s %s (config %s) — a defect of the specification\n%s"
                          % (res.kind, res.name, name, res.out[-1500:]))
        states += res.distinct
        trans += res.generated
        for c in res.emitted:
            c["origin"] = "bfs:" + name
            cases.setdefault(case_id(c), c)
    return cases, states, trans


def simulate_cases(ctx, total, procs, maxblocks):
    """-simulate with the rich palette: `procs` single-worker TLC processes (deterministic per
    seed), process j generating collections of up to 1 + j % 4 articles"""
    per = max(1, -(-total // procs))
    out = [None] * procs
    errs = []

    def one(j):
        try:
            res = tlc.run(ctx, "Collection",
                          coll_cfg(maxarts=1 + j % 4, maxblocks=maxblocks, palette="rich", chapters=True, simulate=True),
                          name="CollSim_%d" % j, simulate=per, depth=60, seed=ctx.seed * 1000 + j + 1,
                          workers=1, deadlock=False, timeout=900, heap="2g")
            if not res.ok:
                errs.append("simulation %d: %s %s\n%s" % (j, res.kind, res.name, res.out[-800:]))
            out[j] = res
        except Exception as e:                                              # noqa: BLE001
            errs.append("simulation %d: %r" % (j, e))

    threads = [threading.Thread(target=one, args=(j,)) for j in range(procs)]
    for t in threads:
        t.start()
    for t in threads:
        t.join()
    if errs:
        ctx.machinery("Collection.tla simulation failed: " + "; ".join(errs)[:3000])
    cases = {}
    gen = 0
    for j, res in enumerate(out):
        gen += res.generated
        for c in res.emitted:
            c["origin"] = "simulate:%d" % j
            cases.setdefault(case_id(c), c)
    return cases, gen


# ----------------------------------------------------------------------------- execution (real code)
def _render_worker(args):
    idx, case, seed, scratch = args
    try:
        conc, results = rh.render_case(case, seed, idx, os.path.join(scratch, "c%d" % idx))
        return idx, conc, results, None
    except Exception as e:                                                  # noqa: BLE001
        import traceback
        return idx, None, [], "".join(traceback.format_exception(type(e), e, e.__traceback__))[-2000:]


def quiet_preload():
    """import the rendering stack once in this process (forked workers inherit it); the import
    prints font / deprecation notices to stderr, which are not ours to show"""
    import sys
    sys.stdout.flush()
    sys.stderr.flush()
    saved = os.dup(1), os.dup(2)
    devnull = os.open(os.devnull, os.O_WRONLY)
    try:
        os.dup2(devnull, 1)
        os.dup2(devnull, 2)
        rh.preload()
        sys.stdout.flush()
        sys.stderr.flush()
    finally:
        os.dup2(saved[0], 1)
        os.dup2(saved[1], 2)
        os.close(saved[0])
        os.close(saved[1])
        os.close(devnull)


def render_all(ctx, caselist):
    quiet_preload()
    os.makedirs(os.path.join(ctx.scratch, "render"), exist_ok=True)
    # big collections first: better load balance
    order = sorted(range(len(caselist)), key=lambda i: -sum(len(a) + 2 for a in caselist[i]["arts"]))
    jobs = [(i, caselist[i], ctx.seed, os.path.join(ctx.scratch, "render")) for i in order]
    out = {}
    pool = multiprocessing.get_context("fork").Pool(ctx.ncpu)
    try:
        for idx, conc, results, err in pool.imap_unordered(_render_worker, jobs, chunksize=1):
            if err:
                ctx.machinery("harness failure while storing/rendering collection %d:\n%s" % (idx, err))
            out[idx] = (conc, results)
    finally:
        pool.close()
        pool.join()
    return out


# ----------------------------------------------------------------------------- traces for TLC
def scope_den(case, r):
    dens = case["den"] if r["art"] is None else [case["den"][r["art"]]]
    return [d for den in dens for d in den]


def make_run(case, r):
    den = scope_den(case, r)
    is_rl = r["kind"].startswith("rl.")
    if not is_rl and not ODF_WORDS_IN_VERDICT:
        # output-level minimum for the ODF writer: it did not give up on an article - the title of
        # every article of the rendered scope is in content.xml
        den = [d for d in den if d["c"] == "article-title"]
    ev = [{"s": s, "a": a} for s, a in r["events"]]
    if r.get("harness"):
        ev.append({"s": "Hang" if r["harness"].get("hang") else "Crash", "a": 0})
    elif r["exc"]:
        ev.append({"s": "Raise", "a": 0})
    else:
        ev.append({"s": "Judge", "a": 0})
    ok = not r["problems"] and (r["pages"] >= 1 if is_rl else True)
    return {"n": len(case["arts"]) if r["art"] is None else 1,
            "den": sorted({d["w"] for d in den}),
            "req": True,
            "ev": ev, "found": sorted(r["found"]), "ok": bool(ok)}


def validate_runs(ctx, runs, name):
    """all runs through TLC (RenderTrace.tla); returns verdict records indexed like runs"""
    path = os.path.join(ctx.scratch, name + ".json")
    with open(path, "w") as f:
        json.dump(runs, f)
    res = tlc.run(ctx, "RenderTrace", TRACE_CFG, name=name, env={"TRACE_FILE": path}, coverage=True,
                  timeout=1200, heap="6g")
    if not res.ok and res.kind == "error":
        # seen only while several checks ran at once on a machine at load > 100 (resource exhaustion
        # inside the JVM); the input is a file, so the run can simply be repeated once
        ctx.note("RenderTrace: TLC error, repeating once: %s" % res.message.splitlines()[0][:200] if res.message else "RenderTrace: TLC error, repeating once")
        res = tlc.run(ctx, "RenderTrace", TRACE_CFG, name=name + "_again", env={"TRACE_FILE": path}, coverage=True,
                      timeout=1200, heap="6g", workers=4)
    if not res.ok:
        lines = res.out.splitlines()
        at = next((i for i, ln in enumerate(lines) if ln.startswith("Error:")), max(0, len(lines) - 30))
        ctx.machinery("RenderTrace.tla failed (%s %s): trace validation is broken\n%s"
                      % (res.kind, res.name, "\n".join(ln[:300] for ln in lines[at:at + 30])))
    verdicts = {}
    for v in res.emitted:
        verdicts[v["tid"] - 1] = v
    if len(verdicts) != len(runs):
        ctx.machinery("TLC judged %d of %d recorded runs" % (len(verdicts), len(runs)))
    return [verdicts[i] for i in range(len(runs))], res


def trace_selftest(ctx):
    """non-vacuity of the trace validation, run every time: hand-corrupted runs must be rejected
    by TLC at the expected event; runs whose STAGE observations are missing or out of order but
    whose output-level verdict is fine must be accepted with the deviation flag"""
    def evs(*xs):
        return [{"s": s, "a": a} for s, a in xs]
    full = [("OpenArchive", 0), ("Expand", 1), ("Parse", 1), ("Clean", 1), ("Layout", 1), ("Output", 0), ("Judge", 0)]
    base = {"n": 1, "den": [701, 1, 2], "req": True, "found": [1, 2, 701], "ok": True}
    runs = [
        dict(base, ev=evs(*full)),                                                       # accepted
        dict(base, ev=evs(*full), found=[1, 701]),                                       # word 2 lost
        dict(base, ev=evs(*full), ok=False),                                             # unreadable output
        dict(base, ev=evs(full[0], full[5], full[6])),                                   # no stage observed: accepted, deviated
        dict(base, ev=evs(full[0], full[2], full[1], *full[3:])),                        # Parse before Expand: accepted, deviated
        dict(base, ev=evs(*full[:5], ("Fail", 1))),                                      # first pass fails
        dict(base, ev=evs(*full[:5], ("SecondPass", 0), *full[5:])),                     # second pass announced
        dict(base, n=2, ev=evs(*full[:5], ("Output", 0), ("Judge", 0))),                 # 2nd article not observed: accepted, deviated
        dict(base, ev=evs(*full[:4])),                                                   # stops early
        dict(base, ev=evs(*full[:5], ("Raise", 0))),                                     # entry point raises
        dict(base, ev=evs(*full[:5], ("Judge", 0))),                                     # verdict without an output file
        dict(base, ev=evs(full[0], full[5], full[6]), found=[1, 2]),                     # title lost, no stage observed
    ]
    want = [("accepted", 8, False), ("rejected", 7, False), ("rejected", 7, False), ("accepted", 4, True),
            ("accepted", 8, True), ("rejected", 6, False), ("rejected", 6, False), ("accepted", 8, True),
            ("incomplete", 5, False), ("rejected", 6, False), ("rejected", 6, False), ("rejected", 3, True)]
    verdicts, _ = validate_runs(ctx, runs, "RenderTrace_selftest")
    got = [(v["verdict"], v["l"], v["deviated"]) for v in verdicts]
    if got != want:
        ctx.machinery("trace validation self-test: TLC verdicts %r, expected %r" % (got, want))
    if verdicts[1]["missing"] != [2]:
        ctx.machinery("trace validation self-test: missing words %r, expected [2]" % (verdicts[1]["missing"],))
    return len(runs)


# ----------------------------------------------------------------------------- naming rejections
def figure_reuse(case, r):
    """caption words of figures whose image the same writer instance lays out for the second time
    (an earlier use in the rendered scope, or a table cell — cells are rendered twice: once to
    size the table, once for real)"""
    arts = case["arts"] if r["art"] is None else [case["arts"][r["art"]]]
    seen = set()
    again = set()

    def items(xs, in_table):
        for x in xs:
            if x["t"] in ("img", "fig"):
                if x["t"] == "fig" and (in_table or x["i"] in seen):
                    again.add(x["w"])
                seen.add(x["i"])

    def block(b, in_table):
        k = b["b"]
        if k == "para":
            items(b["xs"], in_table)
        elif k == "sec":
            items(b["xs"], in_table)
            items(b["body"], in_table)
        elif k == "head":
            items(b["xs"], in_table)
        elif k == "list":
            for ln in b["ls"]:
                items(ln["xs"], in_table)
        elif k == "table":
            items(b["cap"], True)
            for row in b["rows"]:
                for c in row:
                    items(c["xs"], True)
                    for ib in c["inner"]:
                        block(ib, True)
        elif k == "fig":
            items([b["x"]], in_table)
        elif k == "gallery":
            for g in b["gs"]:
                if in_table or g["i"] in seen:
                    again.add(g["w"])
                seen.add(g["i"])

    for art in arts:
        for b in art:
            block(b, False)
    return again


def norm_msg(s):
    s = re.sub(r"0x[0-9a-fA-F]+", "0x", s)
    s = re.sub(r"\d+(\.\d+)?", "N", s)
    return s[:120]


def name_rejection(case, r, run, v):
    """-> list of (key, what).  TLC rejected run `run` at event v['l']; say what that means."""
    kind = r["kind"]
    fam = "rl" if kind.startswith("rl.") else "odf"
    where = kind + (" (%d-article book)" % len(case["arts"]) if r["art"] is None else " (single article)")
    if v["verdict"] == "incomplete":
        return [("%s run ends before a verdict | %s" % (fam, kind), "the recorded run of %s stops in phase %s" % (where, v["phase"]))]
    ev = run["ev"][v["l"] - 1]
    s = ev["s"]
    if s in ("Hang", "Crash"):
        return [("%s %s | %s" % (fam, s.lower(), kind), "%s: %r" % (where, r.get("harness")))]
    if s == "Fail":
        f = r["failures"][0]
        key = "%s %s %s" % (fam, f["cls"], f["frame"])
        what = "%s: the normal rendering pass fails with %s in %s: %s" % (where, f["cls"], f["frame"], f["msg"][:160])
        e = r["exc"]
        if e:
            if (e["cls"], e["frame"]) != (f["cls"], f["frame"]):
                key += " then %s %s" % (e["cls"], e["frame"])
            what += "; the fail-safe pass ends in %s(%r) caused by %s in %s" % (e["outer"], e["outer_msg"], e["cls"], e["frame"])
        else:
            what += "; the writer falls back to its fail-safe second pass"
        return [(key + " | " + kind, what)]
    if s == "Raise":
        e = r["exc"]
        return [("%s %s %s | %s" % (fam, e["cls"], e["frame"], kind),
                 "%s raises %s in %s: %s" % (where, e["cls"], e["frame"], e["msg"][:200]))]
    if s == "SecondPass":
        e = r["exc"]
        tail = ("; it ends in %s(%r) caused by %s in %s" % (e["outer"], e["outer_msg"], e["cls"], e["frame"])) if e else ""
        return [("%s second (fail-safe) rendering pass%s | %s" % (fam, (" then %s %s" % (e["cls"], e["frame"])) if e else "", kind),
                 "%s: the writer announced 'laying out' %s times: its normal pass failed and it started over%s"
                 % (where, "several", tail))]
    if s == "Output":
        return [("%s second output | %s" % (fam, kind), "%s: TLC rejects the Output event in phase %s" % (where, v["phase"]))]
    if s == "Judge":
        out = []
        for p in r["problems"]:
            cat, _, msg = p.partition(": ")
            out.append(("%s %s: %s | %s" % (fam, cat, norm_msg(msg), kind), "%s: %s" % (where, p)))
        if kind.startswith("rl.") and r["pages"] < 1 and not r["problems"]:
            out.append(("rl unreadable PDF (no pages) | %s" % kind, "%s: pypdf finds no page" % where))
        if run["req"] and v["missing"]:
            label = {d["w"]: d["c"] for d in scope_den(case, r)}
            again = figure_reuse(case, r)
            by = {}
            for w in v["missing"]:
                c = label[w]
                if fam == "rl" and w in again:
                    c += " (image laid out before: repeated use / table cell)"
                by.setdefault(c, []).append(w)
            for c, ws in sorted(by.items()):
                out.append(("%s missing word in %s | %s" % (fam, c, kind),
                            "%s: %d denoted word(s) of construct '%s' not in the output text, e.g. %s"
                            % (where, len(ws), c, rh.word(ws[0], r.get("seed", 0)))))
        if not out:
            out.append(("%s verdict rejected | %s" % (fam, kind), "%s: TLC rejects the verdict event" % where))
        return out
    return [("%s event %s rejected | %s" % (fam, s, kind), "%s: TLC rejects event %d (%s) in phase %s" % (where, v["l"], s, v["phase"]))]


# ----------------------------------------------------------------------------- the check
BASE_KINDS = ["para", "list", "pre", "table", "fig", "gallery", "tpl"]


def block_kind(b):
    """(base kind, refined kind) of a block; figures are refined into floating / centred"""
    k = b["b"]
    if k == "fig":
        return "fig", ("fig-center" if b["x"]["k"] == "center" else "fig-float")
    return k, k


def boundary_pairs(case):
    """ordered pairs (last block of a section, first block of the next section) and ordered
    pairs of adjacent figures occurring in a collection"""
    sec_pairs, fig_pairs, fig_last = set(), set(), False
    for art in case["arts"]:
        flat = []
        for b in art:
            if b["b"] == "sec":                       # heading + body paragraph
                flat.append({"b": "head"})
                flat.append({"b": "para"})
            else:
                flat.append(b)
        for k, b in enumerate(flat):
            if b["b"] == "head" and 0 < k < len(flat) - 1 and flat[k - 1]["b"] != "head" and flat[k + 1]["b"] != "head":
                sec_pairs.add((block_kind(flat[k - 1]), block_kind(flat[k + 1])))
            if b["b"] == "fig" and k + 1 < len(flat) and flat[k + 1]["b"] == "fig":
                fig_pairs.add((b["x"]["k"], flat[k + 1]["x"]["k"]))
        if flat and flat[-1]["b"] == "fig":
            fig_last = True
    return sec_pairs, fig_pairs, fig_last


SHARE_KINDS = ("refname", "refreuse", "image", "template", "heading", "url", "chaptitle")


def all_items(blocks):
    """every inline item of a block sequence (cells, nested blocks, figures, gallery entries)"""
    out = []
    for b in blocks:
        k = b["b"]
        if k in ("para", "head"):
            out += b["xs"]
        elif k == "sec":
            out += b["xs"] + b["body"]
        elif k == "list":
            for ln in b["ls"]:
                out += ln["xs"]
        elif k == "pre":
            for ln in b["ls"]:
                out += ln
        elif k == "table":
            out += b["cap"]
            for row in b["rows"]:
                for c in row:
                    out += c["xs"] + all_items(c["inner"])
        elif k == "fig":
            out.append(b["x"])
        elif k == "gallery":
            out += [{"t": "gi", "i": g["i"]} for g in b["gs"]]
        elif k == "tpl":
            out.append({"t": "tc", "tp": b["tp"]})
    return out


def sharing(case):
    """{sharing kind: number of articles of the book that have the identifier in common}"""
    per = []
    for art in case["arts"]:
        items = all_items(art)
        heads = [tuple(x["w"] for x in b["xs"]) for b in art if b["b"] == "head" and all(x["t"] == "sw" for x in b["xs"])]
        defined, reuse = set(), False
        for x in items:
            if x["t"] == "refn":
                defined.add(x["nm"])
            elif x["t"] == "refu" and x["nm"] in defined:
                reuse = True
        per.append({"refname": defined, "refreuse": {1} if reuse else set(),
                    "image": {x["i"] for x in items if x["t"] in ("img", "fig", "gi")},
                    "template": {x["tp"] for x in items if x["t"] == "tc" or (x["t"] == "fig" and x.get("tp"))},
                    "heading": set(heads), "url": {1} if any(x["t"] == "le" for x in items) else set()})
    out = {}
    for kind in SHARE_KINDS[:-1]:
        ids = set().union(*[p[kind] for p in per]) if per else set()
        n = max([sum(1 for p in per if i in p[kind]) for i in ids] or [0])
        if kind == "refreuse":
            n = 1 if n else 0
            if n:
                out[kind] = n
        elif n >= 2:
            out[kind] = n
    if any(case["chap"]):
        out["chaptitle"] = sum(1 for c in case["chap"] if c)
    return out


def volume_shapes(case):
    """size-sensitive shapes of a collection: (first-paragraph words, page offset) of a float block
    shifted down the page, and (blocks, words, other cell empty) of big table cells"""
    floats, cells = set(), set()
    for art in case["arts"]:
        lead = 0
        for k, b in enumerate(art):
            if b["b"] == "para" and len(b["xs"]) == 1 and b["xs"][0]["t"] == "w":
                lead += 1
                continue
            if (b["b"] == "fig" and b["x"]["i"] == 4 and lead == k and k + 1 < len(art) and art[k + 1]["b"] == "para"
                    and art[k + 1]["xs"] and art[k + 1]["xs"][0]["t"] == "ws"):
                floats.add((art[k + 1]["xs"][0]["k"], lead))
            break
        for b in art:
            if b["b"] != "table":
                continue
            for row in b["rows"]:
                for c in row:
                    words = sum(x.get("k", 1) for ib in c["inner"] if ib["b"] == "para" for x in ib["xs"])
                    if words >= 100:
                        cells.add((len(c["inner"]), words, any(not o["xs"] and not o["inner"] for o in row)))
    return floats, cells


RUN_KINDS = ("fig", "gallery", "table", "imgpara")
FOLLOWERS = ("end", "head", "table", "gallery", "pre", "para", "list")


def block_runs(case):
    """maximal runs of consecutive figures / galleries / tables:
    (run kind, length, preceder kind or 'start', follower kind or 'end', float kinds of a figure run)"""
    out = []
    for art in case["arts"]:
        flat = []
        for b in art:
            if b["b"] == "sec":
                flat.append({"b": "head"})
                flat.append({"b": "para"})
            elif b["b"] == "para" and b["xs"] and all(x["t"] == "img" for x in b["xs"]):
                flat.append({"b": "imgpara"})           # a paragraph that holds nothing but inline image(s)
            else:
                flat.append(b)
        k = 0
        while k < len(flat):
            kind = flat[k]["b"]
            if kind not in RUN_KINDS:
                k += 1
                continue
            j = k
            while j < len(flat) and flat[j]["b"] == kind:
                j += 1
            mix = tuple(b["x"]["k"] for b in flat[k:j]) if kind == "fig" else ()
            tpl = kind == "fig" and any(b["x"].get("tp") for b in flat[k:j])
            same = kind == "fig" and j - k > 1 and len({b["x"]["i"] for b in flat[k:j]}) == 1
            out.append((kind, j - k, flat[k - 1]["b"] if k else "start", flat[j]["b"] if j < len(flat) else "end", mix, tpl, same))
            k = j
    return out


def features(case):
    txt = json.dumps(case["arts"])
    return {"multi_article": len(case["arts"]) > 1, "chapters": any(case["chap"]),
            "templates": bool(case["tpls"]), "images": bool(case["imgs"]),
            "tables": '"b": "table"' in txt, "lists": '"b": "list"' in txt,
            "refs": '"t": "ref"' in txt, "links": '"t": "ll"' in txt or '"t": "lb"' in txt or '"t": "le"' in txt}


def judge_and_report(ctx, caselist, rendered, name="RenderTrace_all"):
    runs, index = [], []
    for i, case in enumerate(caselist):
        conc, results = rendered[i]
        for r in results:
            r["seed"] = ctx.seed
            runs.append(make_run(case, r))
            index.append((i, r))
    verdicts, res = validate_runs(ctx, runs, name)
    stats = {"accepted": 0, "rejected": 0, "incomplete": 0}
    per_kind = {}
    ctx.stage_seen = getattr(ctx, "stage_seen", {})
    stages = {}
    odf_lost = {}
    for (i, r), run, v in zip(index, runs, verdicts):
        stats[v["verdict"]] += 1
        pk = per_kind.setdefault(r["kind"], {"runs": 0, "accepted": 0, "stage_order_deviations": 0})
        pk["runs"] += 1
        pk["accepted"] += v["verdict"] == "accepted"
        pk["stage_order_deviations"] += bool(v["deviated"])
        seen = ctx.stage_seen.setdefault(r["kind"], set())
        for e in run["ev"][: v["l"] - 1]:
            stages[e["s"]] = stages.get(e["s"], 0) + 1
            seen.add(e["s"])
        if r["kind"].startswith("odf.") and not r["exc"] and not r.get("harness"):
            label = {d["w"]: d["c"] for d in scope_den(caselist[i], r)}
            for w in set(run["den"]) - set(run["found"]):
                odf_lost[label[w]] = odf_lost.get(label[w], 0) + 1
        if v["verdict"] == "accepted":
            continue
        for key, what in name_rejection(caselist[i], r, run, v):
            ctx.violation(key, what, {"case": caselist[i], "index": i, "kind": r["kind"], "art": r["art"],
                                      "tlc_verdict": v, "run": run,
                                      "exception": r["exc"], "first_pass_failures": r["failures"],
                                      "problems": r["problems"]})
    return runs, verdicts, res, stats, per_kind, stages, odf_lost


def run(ctx):
    import time
    quick = ctx.tier == "quick"
    t0 = time.time()
    lap = lambda what: ctx.note("%-28s %6.1fs" % (what, time.time() - t0))     # noqa: E731
    # ---- P-MC: the stage machine
    pres = tlc.run(ctx, "RenderPipeline", PIPE_CFG % (2 if quick else 3), name="RenderPipeline_mc", coverage=True, timeout=600)
    if not pres.ok:
        ctx.machinery("RenderPipeline.tla violates %s %s — a defect of the specification\n%s" % (pres.kind, pres.name, pres.out[-1200:]))
    missing = tlc.uncovered_actions(pres, ["OpenArchive", "ExpandSome", "ParseSome", "CleanSome", "LayoutSome", "Output", "Judge"])
    if missing:
        ctx.machinery("actions never taken in RenderPipeline: %s" % missing)
    n_self = trace_selftest(ctx)
    # ---- P-MC + P-ENUM: the generator
    if quick:
        plans = [("one_full", dict(maxarts=1, maxblocks=1, palette="full", chapters=False)),
                 ("one_pairs", dict(maxarts=1, maxblocks=1, palette="pairs", chapters=False)),
                 ("one_runs3", dict(maxarts=1, maxblocks=1, palette="runs3", chapters=False)),
                 ("two_share", dict(maxarts=2, maxblocks=1, palette="share", chapters=False)),
                 ("one_volume", dict(maxarts=1, maxblocks=1, palette="volume", chapters=False)),
                 ("two_mini", dict(maxarts=2, maxblocks=1, palette="mini", chapters=True))]
        nsim, maxblocks, maxrun, share_arts = 80, 4, 3, 2
    else:
        plans = [("one_full", dict(maxarts=1, maxblocks=1, palette="full", chapters=False)),
                 ("one_pairsall", dict(maxarts=1, maxblocks=1, palette="pairsall", chapters=False)),
                 ("one_runs5all", dict(maxarts=1, maxblocks=1, palette="runs5all", chapters=False)),
                 ("one_core2", dict(maxarts=1, maxblocks=2, minblocks=2, palette="core", chapters=False)),
                 ("two_core", dict(maxarts=2, maxblocks=1, palette="core", chapters=True)),
                 ("three_share", dict(maxarts=3, maxblocks=1, palette="share", chapters=False)),
                 ("one_volumeall", dict(maxarts=1, maxblocks=1, palette="volumeall", chapters=False)),
                 ("four_sharesame", dict(maxarts=4, maxblocks=1, palette="sharesame", chapters=True)),
                 ("three_mini", dict(maxarts=3, maxblocks=1, palette="mini", chapters=True))]
        nsim, maxblocks, maxrun, share_arts = 3200, 5, 5, 4
    lap("RenderPipeline model-checked")
    cases, states, trans = enumerate_cases(ctx, plans)
    n_exh = len(cases)
    lap("Collection enumerated")
    # liveness + action coverage of the generator on a small instance
    cres = tlc.run(ctx, "Collection", coll_cfg(maxarts=2, maxblocks=1, palette="mini", chapters=True,
                                               extra="PROPERTY Terminates").replace("EmitCases = TRUE", "EmitCases = FALSE"),
                   name="Coll_live", coverage=True, timeout=600)
    if not cres.ok:
        ctx.machinery("Collection.tla liveness/coverage run failed: %s %s" % (cres.kind, cres.name))
    missing = tlc.uncovered_actions(cres, ["AddBlock", "NewArticle", "Finish"])
    if missing:
        ctx.machinery("actions never taken in Collection: %s" % missing)
    lap("Collection liveness")
    sims, simgen = simulate_cases(ctx, nsim, ctx.ncpu, maxblocks)
    lap("Collection simulated")
    for k, c in sims.items():
        cases.setdefault(k, c)
    caselist = [cases[k] for k in sorted(cases)]
    ctx.note("collections: %d exhaustive + %d simulated (distinct)" % (n_exh, len(caselist) - n_exh))
    # ---- execute against the real code
    rendered = render_all(ctx, caselist)
    if len(rendered) != len(caselist):
        ctx.machinery("rendered %d of %d collections" % (len(rendered), len(caselist)))
    lap("rendered")
    # ---- P-TRACE: TLC judges every recorded run
    runs, verdicts, tres, stats, per_kind, stages, odf_lost = judge_and_report(ctx, caselist, rendered)
    lap("runs judged by TLC")
    # seam sanity (never a verdict): a stage that no run of a path ever showed means the wrapper of that
    # seam no longer sees the code; reported only when the run is otherwise clean, so that a writer
    # that fails everywhere is reported as the violation it is
    if not ctx.violations and not ctx.known_hits:
        seams = {"Expand": "Expander.expandTemplates", "Parse": "uparser.parse_string", "Clean": "TreeCleaner.clean / clean_all",
                 "Layout": "RlWriter.writeArticle / ODFWriter.writeBook, writeTest", "OpenArchive": "wiki.make_wiki",
                 "Output": "output file of the entry point"}
        blind = ["%s never observed in any %s run (seam: %s)" % (st, kind, seams[st])
                 for kind, seen in sorted(ctx.stage_seen.items()) for st in seams if st not in seen]
        if blind:
            ctx.machinery("stage observation lost: " + "; ".join(blind))
    missing = tlc.uncovered_actions(tres, ["Step", "Finish"])
    if missing:
        ctx.machinery("actions never taken in RenderTrace: %s" % missing)
    # ---- coverage of section boundaries: the exhaustive part must contain every ordered pair
    # (last block of a section, first block of the next section) of block kinds
    base_exh, base_all, refined, figpairs, figlast = set(), set(), set(), set(), 0
    for c in caselist:
        sp, fp, fl = boundary_pairs(c)
        for (a, ar), (b, br) in sp:
            base_all.add((a, b))
            refined.add((ar, br))
            if c.get("origin", "").startswith("bfs:"):
                base_exh.add((a, b))
        figpairs |= fp
        figlast += fl
    want = {(a, b) for a in BASE_KINDS for b in BASE_KINDS}
    if want - base_exh:
        ctx.machinery("section-boundary pairs never enumerated in the exhaustive part: %s" % sorted(want - base_exh))
    # ---- coverage of runs: every (run kind, length <= maxrun, follower) must be in the exhaustive part
    runcov, runcov_all, precs, figmixes, tplcap, sameimg = set(), set(), set(), set(), 0, 0
    for c in caselist:
        exh = c.get("origin", "").startswith("bfs:")
        for kind, n, prec, fol, mix, tpl, same in block_runs(c):
            runcov_all.add((kind, n, fol))
            if exh:
                runcov.add((kind, n, fol))
                precs.add((kind, prec))
            if len(mix) > 1:
                figmixes.add(mix)
            tplcap += bool(tpl)
            sameimg += bool(same)
    want_runs = {(k, n, f) for k in RUN_KINDS for n in range(1, maxrun + 1) for f in FOLLOWERS if f != k}
    if want_runs - runcov:
        ctx.machinery("runs of consecutive blocks never enumerated in the exhaustive part (kind, length, follower): %s"
                      % sorted(want_runs - runcov))
    # ---- coverage of book-level sharing: every kind, for every number of sharing articles up to
    # share_arts, must be in the exhaustive part
    sharecov, sharecov_all = {}, {}
    for c in caselist:
        for kind, n in sharing(c).items():
            sharecov_all.setdefault(kind, set()).add(n)
            if c.get("origin", "").startswith("bfs:"):
                sharecov.setdefault(kind, set()).add(n)
    lacking = [(k, n) for k in SHARE_KINDS[:-1] if k != "refreuse" for n in range(2, share_arts + 1) if n not in sharecov.get(k, ())]
    lacking += [(k, 1) for k in ("refreuse", "chaptitle") if not sharecov.get(k)]
    if lacking:
        ctx.machinery("book-level sharing never enumerated in the exhaustive part (kind, articles): %s" % lacking)
    # ---- coverage of volume: a float block at every offset of a page, big cells, multi-page output
    vfloats, vcells = set(), set()
    for c in caselist:
        if c.get("origin", "").startswith("bfs:"):
            f, cl = volume_shapes(c)
            vfloats |= f
            vcells |= cl
    offsets = {}
    for p1, off in vfloats:
        offsets.setdefault(p1, set()).add(off)
    if not any(len(v) >= 48 for v in offsets.values()) or len(vcells) < 5:
        ctx.machinery("volume shapes missing from the exhaustive part: float-block offsets %s, big cells %s"
                      % ({k: len(v) for k, v in offsets.items()}, sorted(vcells)))
    pages = [r["pages"] for i in rendered for r in rendered[i][1] if r["kind"] == "rl.testmode"]
    # ---- evidence
    feats = [features(c) for c in caselist]
    count = lambda k: sum(1 for f in feats if f[k])                         # noqa: E731
    nontrivial = sum(1 for f in feats if sum(f[k] for k in ("multi_article", "chapters", "templates", "images", "tables", "lists")) >= 1)
    ctx.set_cover(
        evaluations=len(runs), distinct_nontrivial=nontrivial, exhaustive=False,
        collections=len(caselist), collections_exhaustive_part=n_exh, collections_simulated=len(caselist) - n_exh,
        collections_multi_article=count("multi_article"), collections_with_chapters=count("chapters"),
        collections_with_templates=count("templates"), collections_with_images=count("images"),
        collections_with_tables=count("tables"), collections_with_lists=count("lists"),
        runs_per_path=per_kind, tlc_verdicts=stats, stage_events_accepted=stages,
        generator_states=states + simgen, generator_transitions=trans + simgen,
        trace_states=tres.distinct, pipeline_states=pres.distinct, trace_selftest_runs=n_self,
        action_coverage={"RenderPipeline": pres.coverage, "Collection": cres.coverage, "RenderTrace": tres.coverage},
        section_boundary_pairs_exhaustive=len(base_exh & want), section_boundary_pairs_possible=len(want),
        section_boundary_pairs_all=len(base_all & want), section_boundary_pairs_refined=sorted("%s|%s" % p for p in refined),
        adjacent_figure_pairs=sorted("%s|%s" % p for p in figpairs), collections_ending_with_figure=figlast,
        volume_float_block_offsets={str(k): len(v) for k, v in sorted(offsets.items())},
        volume_big_cells=sorted("%d blocks, %d words%s" % (a, b, ", next to an empty cell" if e else "") for a, b, e in vcells),
        multi_page_testmode_runs=sum(1 for p in pages if p >= 2), max_pages_testmode=max(pages or [0]),
        sharing_exhaustive={k: sorted(v) for k, v in sorted(sharecov.items())},
        sharing_all={k: sorted(v) for k, v in sorted(sharecov_all.items())},
        collections_with_sharing=sum(1 for c in caselist if any(k != "chaptitle" for k in sharing(c))),
        run_length_follower_exhaustive={k: sorted("%d|%s" % (n, f) for kk, n, f in runcov if kk == k) for k in RUN_KINDS},
        run_length_follower_required=len(want_runs), run_length_follower_covered=len(want_runs & runcov),
        run_max_length_exhaustive=maxrun, run_length_follower_all=len(runcov_all),
        run_preceders_exhaustive=sorted("%s|%s" % p for p in precs), figure_run_float_mixes=len(figmixes),
        figure_runs_with_template_caption=tplcap, figure_runs_on_one_image=sameimg,
        odf_words_in_verdict=ODF_WORDS_IN_VERDICT, odf_words_not_in_content_xml_by_construct=odf_lost,
        rule="collections generated by spec/Collection.tla: exhaustive BFS for %s plus -simulate (rich palette, up to 4 articles x %d "
             "blocks, chapters); evaluations = recorded writer runs (5 render paths) validated by TLC against RenderPipeline; "
             "distinct_nontrivial = distinct collections (by structure hash) that are multi-article or contain chapters, a template call, "
             "a stored image, a table or a list" % ([p[0] for p in plans], maxblocks))
    step = max(1, len(caselist) // 4)
    for i in range(0, len(caselist), step):
        conc, results = rendered[i]
        ctx.sample({"origin": caselist[i].get("origin"), "chapters": conc["chapters"], "titles": conc["titles"],
                    "wikitext": conc["texts"], "templates": sorted(conc["templates"]), "images": conc["images"],
                    "denoted": [[(d["w"], rh.word(d["w"], ctx.seed), d["c"]) for d in den][:12] for den in caselist[i]["den"]],
                    "runs": [{"path": r["kind"], "article": r["art"], "stages": [e[0] for e in r["events"]],
                              "found": len(r["found"]), "exception": (r["exc"] or {}).get("cls")} for r in results]}, limit=4)
    ctx.assume("pypdf text extraction is faithful for the generated word codes (6 characters, 'Z' + lower-case/digits without f,i,l)",
               "odflint (odfpy) decides ODF validity; its complaint about the mimetype member's zip header is ignored as in the repository's own test",
               "the verdict uses output-level observations only (archive opened, entry point returned, no second 'laying out' "
               "announcement on the status callback, output file, readability, words); stage observations (wrappers around "
               "Expander.expandTemplates, every binding of uparser.parse_string, TreeCleaner.clean/clean_all, RlWriter.writeArticle, "
               "ODFWriter.writeBook/writeTest) are evidence and a seam sanity check, never a verdict",
               "word coverage of the ODF text is %s" % ("part of the verdict" if ODF_WORDS_IN_VERDICT else
                                                        "measured and reported only (the statement claims it for the PDF)"),
               "ImageMagick ('magick') and pdftk/pdfsam are not installed: stored images are RGB/greyscale PNG and JPEG "
               "(no conversion needed); the table of contents PDF is rendered but cannot be merged")


def replay(ctx, path):
    with open(path) as f:
        rec = json.load(f)
    rp = rec["replay"]
    case = rp["case"]
    ctx.seed = rec.get("seed", ctx.seed)
    quiet_preload()
    conc, results = rh.render_case(case, ctx.seed, rp["index"], os.path.join(ctx.scratch, "replay"), kinds={rp["kind"]})
    results = [r for r in results if r["art"] == rp["art"]]
    _, verdicts, _, stats, _, _, _ = judge_and_report(ctx, [case], {0: (conc, results)}, name="RenderTrace_replay")
    if stats["accepted"] == len(results):
        print("replay: TLC now accepts the recorded run")
