"""C14 helper: palettes, concretisation of Archive.tla histories, execution against the real
writer (fetch.FsOutput -> buildzip.zip_dir / ZipCreator.create_zip) and reader
(wiki.make_wiki(dir|zip) -> nuwiki.Adapt), projection and comparison.

The oracle is in spec/Archive.tla: every read is predicted as the index of the write whose record
must come back.  This module only substitutes concrete strings for the abstract slots, runs the
real code and projects what comes back to (title, ns, revid, expanded, text).
"""
import contextlib
import copy
import io
import json
import logging
import os
import random
import re
import shutil
import tempfile

# ------------------------------------------------------------------------------------ palettes
SEP = "\n\x0c --page-- "          # the archive's record separator (fetch.py / nuwiki.py)

TEXTS = [
    "",
    "Plain '''wikitext''' with [[links]] and {{templates|a=b}}.\n\n== Heading ==\nmore text",
    "line one\n --page-- {\"title\": \"Fake\", \"ns\": 0, \"revid\": 1}\nline three",
    "--page--\n --page-- \n--page-- {}\n \x0c--page-- x",
    " --page-- {\"title\": \"X\", \"ns\": 0}\nstarts like a header but has no newline+form feed",
    "a lone form feed \x0c in the middle and one at the end \x0c",
    "\x0c",
    "x\x0c --page-- {\"title\": \"Y\"}\nform feed and marker, no newline before it",
    "crlf line\r\nanother\r\nlone cr\rend\n",
    "\r",
    "\r\n",
    "\n",
    "\n\nleading and trailing newlines\n\n",
    "non-BMP \U0001F600 \U00010348 \U0010FFFF, BMP edges \uffff \ufeff, separators \u2028 \u2029 \x85 \x1c\x1d\x1e",
    "{\"title\": \"Json\", \"ns\": 0}\n{\"revid\": 3}\n[1, 2, 3]\nnull\n\"str\"",
    "NUL \x00 and controls \x01\x08\x0b\x1b\x1f\x7f",
    "separator without its last blank at the very end\n\x0c --page--",
    "ends with newline + form feed\n\x0c",
    "tabs\tand  spaces   \n  indented\n\t\n ",
    "\u00dcn\u00efc\u00f6d\u00e9 \u00c4\u00d6\u00dc\u00df \u6f22\u5b57 \u0627\u0644\u0639\u0631\u0628\u064a\u0629 \u05e2\u05d1\u05e8\u05d9\u05ea \u200e\u200f e\u0301 combining",
    "long " + "0123456789 abcdefghij\n" * 1500 + "end",
    "#REDIRECT is mentioned, but not at the start: [[Foo]]",
]

# revision ids: increasing maps for the abstract ids 1..n (newest = largest); several shapes so
# that numeric order differs from string order and from write order
REVIDS = [
    [5, 9, 10, 11, 100],
    [1, 2, 3, 4, 5],
    [9, 10, 99, 100, 101],
    [7, 2 ** 31 + 1, 2 ** 40, 2 ** 40 + 1, 2 ** 53],
    [19, 20, 100, 1000, 9999],
]

# page titles: (namespace id, name without prefix).  Canonical API form (spaces, first letter
# upper case, local namespace name is added per site).  No "%XX" sequences (excluded).
PAGE_TITLES = [
    (0, "Foo"), (0, "Foo bar"), (0, "Foo Bar"), (0, "Über-Straße 2.0"), (0, "A~b.c-d"),
    (0, "漢字"), (0, "\U0001F600 smile"), (0, "Émile Zola"), (0, "1984"),
    (0, "Foo (disambiguation)"), (0, "C++"), (0, "Q&A \"quoted\" 'x'"), (0, "Star Wars: Episode IV"),
    (0, "100% pure"), (0, "Foo/bar"), (0, "Ab"), (0, "A b"), (0, "É"), (0, "X"),
    (10, "Infobox x"), (10, "Foo"), (14, "Cats and dogs"), (6, "Foo bar.png"), (6, "Émile.jpg"),
    (2, "Someone/sub page"), (4, "About"), (1, "Foo"), (12, "Contents"), (828, "String"),
    (100, "Science"),
    # a colon whose prefix is NOT a namespace: the title must resolve per lookup under the default
    # namespace of that lookup (article / template / category / image lookups interleaved)
    (0, "2001: A Space Odyssey"), (0, "2001: Cast"), (10, "2001: Cast"), (14, "2001: Films"), (10, "Star Wars: Cast"),
    (0, "Wait... what"), (0, "St..Peter-Ording"),
]
COLON_FAMILY = [(0, "2001: A Space Odyssey"), (0, "2001: Cast"), (10, "2001: Cast"), (14, "2001: Films")]
COLON_IMAGES = ["2001: Poster.png", "2001: Cast.png"]

# image names (without the namespace prefix).  Inside the statement's alphabet (letters, digits,
# spaces, - . ~) unless listed in IMAGE_OUTSIDE; many are chosen to collide under a sloppy
# file-name escaping.
IMAGE_GROUPS = [
    ["Foo bar.png", "Foo Bar.png", "Foobar.png", "Foo-bar.png", "Foo.bar.png", "Foo~bar.png",
     "Foo bar.PNG", "Foo bar.jpg", "FOO bar.png"],
    ["Émile.jpg", "~201~mile.jpg", "Emile.jpg", "201mile.jpg", "É mile.jpg", "~~201~~mile.jpg", "~201mile.jpg"],
    ["A~b.png", "A~~b.png", "Ab.png", "A~126~b.png", "A b.png", "A-b.png", "A.b.png"],
    ["X.svg", "X.png", "X.svg.png", "X.gif", "X.tif", "X.SVG"],
    ["漢字.png", "字漢.png", "漢 字.png", "28450 23383.png", "~28450~~23383~.png", "2845023383.png"],
    ["1 2.png", "12.png", "1-2.png", "1.2.png", "1~2.png"],
    ["\U00010348.png", "~66376~.png", "66376.png", "~66376.png"],
    ["Ünï cödé.jpg", "Uni code.jpg", "Ünï code.jpg", "Üni cödé.jpg"],
    ["~foo.png", "Foo.png", "-foo.png", ".foo.png", "~~foo.png"],
    # consecutive dots inside / at the start / before the extension: legal titles, and the file names
    # derived from them contain ".." (must survive zipping and extraction)
    ["Wait... what.png", "Wait.. what.png", "Wait. what.png", "Wait what.png", "St..Peter-Ording.jpg", "St.Peter-Ording.jpg",
     "..dots.png", "...dots.png", "Dots...png", "Dots..png", "Dots.png"],
]
IMAGE_OUTSIDE = ["Foo (1), bar.png", "Q&A 'x'.png", "100% pure.png", "\U0001F600 smile.png",
                 "2001: Poster.png", "2001: Cast.png"]   # equivalence clause only
_ALPHA = re.compile(r"^[\w \-.~]+$", re.UNICODE)


def in_format(text):
    """The quantifier's exclusion: texts containing the record separator.  A text *starting* with
    the separator's tail is treated as containing it (the header's own newline completes it)."""
    return SEP not in text and not text.startswith(SEP[1:])


def in_alphabet(name):
    return bool(_ALPHA.match(name)) and "_" not in name


# ------------------------------------------------------------------------------------ sites
_SITES = {}


def site(lang):
    """Trimmed copy of the bundled siteinfo (what NsHandler needs) + derived namespace tables."""
    if lang not in _SITES:
        from mwlib.network import siteinfo
        si = siteinfo.get_siteinfo(lang)
        si = copy.deepcopy({k: si[k] for k in ("general", "namespaces", "namespacealiases", "magicwords")})
        names = {}
        for ns in si["namespaces"].values():
            v = [ns["*"]]
            if ns.get("canonical") and ns["canonical"] not in v:
                v.append(ns["canonical"])
            names[ns["id"]] = v
        for a in si["namespacealiases"]:
            if a["*"] not in names[a["id"]]:
                names[a["id"]].append(a["*"])
        redirect_words = ["#REDIRECT"]
        for m in si.get("magicwords", []):
            if m["name"] == "redirect":
                redirect_words = list(m["aliases"])
        _SITES[lang] = {"lang": lang, "siteinfo": si, "nsnames": names, "redirect_words": redirect_words}
    return _SITES[lang]


def fq(st, ns, name, which=0):
    p = st["nsnames"][ns][which] if ns != 0 else ""
    return (p + ":" + name) if p else name


def lowerfirst(name):
    c = name[:1]
    lc = c.lower()
    if c and lc != c and len(lc) == 1 and lc.upper() == c:
        return lc + name[1:]
    return None


def name_variants(name):
    """Equivalent spellings of the part after the namespace prefix: (label, spelling)."""
    out = [("canon", name)]
    if " " in name:
        out.append(("underscore", name.replace(" ", "_")))
        out.append(("doublespace", name.replace(" ", "  ")))
        out.append(("mixed_", name.replace(" ", "_ ", 1)))
    lf = lowerfirst(name)
    if lf:
        out.append(("lowerfirst", lf))
        if " " in name:
            out.append(("lowerfirst+underscore", lf.replace(" ", "_")))
    return out


def prefix_variants(st, ns):
    """(label, prefix text incl. colon) for a namespace; the main namespace has '' and ':'."""
    if ns == 0:
        return [("main", ""), ("leadcolon", ":")]
    out = []
    for k, n in enumerate(st["nsnames"][ns]):
        lab = "local" if k == 0 else "alt%d" % k
        out.append((lab, n + ":"))
        if n.lower() != n:
            out.append((lab + ".lower", n.lower() + ":"))
        if n.upper() != n:
            out.append((lab + ".upper", n.upper() + ":"))
        if " " in n:
            out.append((lab + "_", n.replace(" ", "_") + ":"))
    out.append(("local+space", st["nsnames"][ns][0] + ": "))
    return out


def spellings(st, ns, name, rng, limit=None, bare_default=True):
    """Equivalent spellings of a title as (label, argument, defaultns)."""
    out = []
    for pl, p in prefix_variants(st, ns):
        for nl, n in name_variants(name):
            out.append((pl + "/" + nl, p + n, 0 if ns == 0 else rng.choice([0, ns, 10])))
    full = fq(st, ns, name)
    out.append(("padded", "  " + full + " ", 0))
    out.append(("padded_", "_" + full.replace(" ", "_") + "__", 0))
    if ns != 0 and bare_default:
        for nl, n in name_variants(name):
            out.append(("defaultns/" + nl, n, ns))
    if ns == 0:
        out.append(("leadcolon/otherdefault", ":" + name, 10))
    if limit and len(out) > limit:
        head = out[:1]
        rest = out[1:]
        rng.shuffle(rest)
        out = head + rest[:limit - 1]
    return out


def check_palettes(ctx=None):
    """Sanity of the palettes themselves (a palette bug must never become a violation)."""
    problems = []
    from mwlib.core import nshandling
    for t in TEXTS:
        if not in_format(t):
            problems.append("text outside the format: %r" % t[:40])
    for lang in ("en", "de"):
        st = site(lang)
        h = nshandling.NsHandler(copy.deepcopy(st["siteinfo"]))
        seen = {}
        for ns, name in PAGE_TITLES:
            f = fq(st, ns, name)
            if h.get_fqname(f) != f or re.search(r"%[0-9a-fA-F]{2}", f):
                problems.append("page title not canonical on %s: %r" % (lang, f))
            if f in seen:
                problems.append("duplicate page title %r" % f)
            seen[f] = 1
        allimg = [n for g in IMAGE_GROUPS for n in g] + IMAGE_OUTSIDE
        if len(set(allimg)) != len(allimg):
            problems.append("duplicate image names")
        for n in allimg:
            f = fq(st, 6, n)
            if h.splitname(f, 6)[2] != f or re.search(r"%[0-9a-fA-F]{2}", f) or "/" in n or (":" in n and n not in IMAGE_OUTSIDE):
                problems.append("image title not canonical on %s: %r" % (lang, f))
            if (n in IMAGE_OUTSIDE) == in_alphabet(n):
                problems.append("image %r is on the wrong side of the alphabet rule" % n)
        # names outside the alphabet must not be confusable with any other palette entry even
        # after deleting every character outside the alphabet (no claim is made for them)
        def strip(n):
            return re.sub(r"[^\w\-.~]", "", n.replace(" ", "_")).lower()
        for n in IMAGE_OUTSIDE:
            for m in allimg:
                if m != n and strip(m) == strip(n):
                    problems.append("outside-alphabet image %r is confusable with %r" % (n, m))
        for w in st["redirect_words"] + ["#redirect"]:
            txt = "%s [[%s]]" % (w, fq(st, 0, "Foo bar"))
            if h.redirect_matcher(txt) != "Foo bar":
                problems.append("redirect form not recognised on %s: %r" % (lang, txt))
    return problems


# ------------------------------------------------------------------------------------ concretise
def _seq(x):
    """ToJson prints an empty sequence as [] or {} depending on how it was built."""
    return list(x) if isinstance(x, list) else []


def history_key(case):
    return json.dumps([_seq(case["w"]), _seq(case["rd"]), case["im"]], separators=(",", ":"))


def concretise(case, seed, variant=0, dir_fraction=0.25):
    """Abstract history (as emitted by Archive.tla) -> self-contained concrete case."""
    w = _seq(case["w"])
    rd = _seq(case["rd"])
    nimg = case["im"]
    ntitles = len(case["bt"])
    nrev = len(case["br"][0]) if case["br"] else 0
    nimgslots = len(case["img"])
    rng = random.Random("%d|%d|%s" % (seed, variant, history_key(case)))
    st = site(rng.choice(["en", "de"]))
    titles = rng.sample(PAGE_TITLES, ntitles)
    if rng.random() < 0.3:
        # confusable neighbours: same name in different namespaces / case variants
        pool = [t for t in PAGE_TITLES if t[1] in ("Foo", "Foo bar", "Foo Bar", "Ab", "A b", "Foo bar.png")]
        titles = rng.sample(pool, min(ntitles, len(pool))) + titles[len(pool):]
    family = rng.random() < 0.2
    if family:
        # titles sharing a non-namespace prefix before a colon, in different namespaces
        fam = rng.sample(COLON_FAMILY, min(ntitles, len(COLON_FAMILY)))
        titles = fam + [t for t in titles if t not in fam][:ntitles - len(fam)]
    revids = rng.choice(REVIDS)[:max(nrev, 1)]
    if rng.random() < 0.25:
        revids = sorted(rng.sample(range(1, 2 ** 33), max(nrev, 1)))
    texts = rng.sample(TEXTS, len(w)) if len(w) <= len(TEXTS) else [rng.choice(TEXTS) for _ in w]
    src2dst = {f: t for f, t in rd}
    tfq = [fq(st, ns, name) for ns, name in titles]

    writes = []
    for i, (kind, t, r, rt, skip) in enumerate(w):
        ns, name = titles[t - 1]
        text = texts[i]
        if rt:
            tns, tname = titles[src2dst[t] - 1]
            target = rng.choice([s for _, s, _d in spellings(st, tns, tname, rng, bare_default=False) if not s.startswith(" ") and not s.startswith("_")][:6])
            if tns in (6, 14) and not target.startswith(":"):
                target = ":" + target
            word = rng.choice(st["redirect_words"] + [st["redirect_words"][0].lower()])
            form = rng.choice(["%s [[%s]]", "%s [[%s]]\n", "%s [[%s#Section|label]]", "%s:[[%s]]", "\n %s [[%s]]"])
            text = form % (word, target) + rng.choice(["", "\n" + text])
        writes.append({"kind": kind, "title": tfq[t - 1], "ns": ns, "revid": revids[r - 1] if r else None,
                       "text": text, "skip": bool(skip), "rt": bool(rt)})
    redirects = {tfq[f - 1]: tfq[t - 1] for f, t in rd}

    group = rng.choice(IMAGE_GROUPS)
    names = rng.sample(group, min(nimgslots, len(group)))
    if rng.random() < 0.2 and nimgslots:
        names[rng.randrange(len(names))] = rng.choice(IMAGE_OUTSIDE)
    if family and nimgslots:
        for k, n in enumerate(rng.sample(COLON_IMAGES, min(len(COLON_IMAGES), nimgslots, 1 + rng.randrange(2)))):
            if n not in names:
                names[k] = n
    imgns = rng.choice([0, 0, 1]) if st["lang"] == "de" else 0      # local name, or the English canonical one
    images = []
    for k in range(nimg):
        data = b"\x89IMG" + names[k].encode("utf-8") + bytes(rng.randrange(256) for _ in range(rng.randrange(1, 40)))
        images.append({"title": fq(st, 6, names[k], imgns), "data": data.hex()})

    def rec(i):
        return i

    reads = []
    for n in range(ntitles + 1):
        for r in range(1, nrev + 1):
            rv = revids[r - 1]
            reads.append({"op": "rev", "name": None if n == 0 else tfq[n - 1], "rev": rv if rng.random() < 0.5 else str(rv),
                          "exp": case["br"][n][r - 1], "alt": case["bralt"][n][r - 1], "dev": case["brdev"][n][r - 1],
                          "abs": [n, r]})
    for t in range(1, ntitles + 1):
        ns, name = titles[t - 1]
        e, d = case["bt"][t - 1], case["btdev"][t - 1]
        reads.append({"op": "title", "how": "get_page", "arg": tfq[t - 1], "exp": e, "dev": d, "abs": t, "spelling": "get_page/canon"})
        for lab, arg, dns in spellings(st, ns, name, rng, limit=None if family else 14):
            reads.append({"op": "title", "how": "normalize", "arg": arg, "defaultns": dns, "exp": e, "dev": d, "abs": t, "spelling": lab})
    for k in range(1, nimgslots + 1):
        if k > len(names):
            break
        exp = case["img"][k - 1]
        for lab, arg, _dns in spellings(st, 6, names[k - 1], rng, limit=None if family else 12):
            reads.append({"op": "image", "arg": arg, "exp": exp, "abs": k, "spelling": lab,
                          "claim": "equivalent" if exp else "apart"})
    # one opened archive answers the whole sequence, in a seeded order that interleaves revision,
    # title and image lookups: Archive.tla's ReadsArePure says no lookup may influence a later one
    rng.shuffle(reads)
    return {"site": st["lang"], "zipper": rng.choice(["zip_dir", "create_zip"]), "open_dir": rng.random() < dir_fraction,
            "writes": writes,
            "redirects": redirects, "images": images, "image_slots": [fq(st, 6, n, imgns) for n in names],
            "reads": reads, "abstract": {"w": w, "rd": rd, "im": nimg}}


# ------------------------------------------------------------------------------------ execute
def quiet():
    """Silence logging and make SqliteDict construction cheap: sqlitedict records a formatted stack
    trace per connection (2 ms each, 9 connections per history); the trace is only used in its own
    error messages, so the harness replaces the extractor by a constant.  mwlib is not touched."""
    logging.disable(logging.CRITICAL)
    with contextlib.suppress(Exception):
        import types

        import sqlitedict
        import traceback as _tb
        sqlitedict.traceback = types.SimpleNamespace(
            extract_stack=lambda *a, **k: [], format_list=_tb.format_list, format_exc=_tb.format_exc,
            format_exception=_tb.format_exception, print_exc=_tb.print_exc)


def write_archive(cc, fsdir):
    """Drive the real writer exactly as fetch.Fetcher does."""
    from mwlib.network import fetch
    st = site(cc["site"])
    fs = fetch.FsOutput(fsdir)
    try:
        fs.write_siteinfo(st["siteinfo"])
        fs.nfo = {"format": "nuwiki", "base_url": "http://%s.example.org/w/" % cc["site"], "script_extension": ".php"}
        for n, wr in enumerate(cc["writes"]):
            if wr["kind"] == "page":
                rev = {"*": wr["text"]}
                if wr["revid"] is not None:
                    rev["revid"] = wr["revid"]
                fs.write_pages({"pages": {str(1000 + n): {"title": wr["title"], "ns": wr["ns"], "pageid": 1000 + n,
                                                             "revisions": [rev]}}})
            else:
                fs.write_expanded_page(wr["title"], wr["ns"], wr["text"], revid=wr["revid"])
        for im in cc["images"]:
            p = fs.get_imagepath(im["title"])
            with open(p, "wb") as f:
                f.write(bytes.fromhex(im["data"]))
        fs.write_redirects(cc["redirects"])
        fs.write_licenses([])
        fs.close()
    finally:
        for name in ("authors", "html", "imageinfo"):
            with contextlib.suppress(Exception):
                getattr(fs, name).close(do_log=False, force=True)      # the fetcher never closes them either


def project(page):
    if page is None:
        return None
    return {"title": getattr(page, "title", None), "ns": getattr(page, "ns", None), "revid": getattr(page, "revid", None),
            "expanded": 1 if getattr(page, "expanded", 0) else 0, "text": getattr(page, "rawtext", None)}


def expected_record(cc, idx):
    if not idx:
        return None
    wr = cc["writes"][idx - 1]
    return {"title": wr["title"], "ns": wr["ns"], "revid": wr["revid"], "expanded": 1 if wr["kind"] == "exp" else 0,
            "text": wr["text"]}


def which_record(cc, got):
    """Index of a write whose record equals what came back (diagnostics only)."""
    if got is None:
        return 0
    for i in range(len(cc["writes"]), 0, -1):
        if expected_record(cc, i) == got:
            return i
    return -1


def do_reads(cc, w, via):
    """Perform every read on the opened archive `w` and compare with the spec's prediction."""
    bad = []
    n = 0
    for rd in cc["reads"]:
        n += 1
        try:
            if rd["op"] == "rev":
                got = project(w.get_page(rd["name"], revision=rd["rev"]))
                exp = expected_record(cc, rd["exp"])
                ok = got == exp or got == expected_record(cc, rd["alt"])
            elif rd["op"] == "title":
                if rd["how"] == "get_page":
                    got = project(w.get_page(rd["arg"]))
                else:
                    got = project(w.normalize_and_get_page(rd["arg"], rd["defaultns"]))
                exp = expected_record(cc, rd["exp"])
                ok = got == exp
            else:
                p = w.get_disk_path(rd["arg"])
                if p is None:
                    got = None
                else:
                    with open(p, "rb") as f:
                        got = f.read().hex()
                exp = cc["images"][rd["exp"] - 1]["data"] if rd["exp"] else None
                ok = got == exp
        except Exception as e:                                      # noqa: BLE001
            got, ok, exp = "EXC %s: %s" % (type(e).__name__, e), False, "(no exception)"
        if not ok:
            m = {"via": via, "read": rd, "got": got, "expected": exp}
            if rd["op"] != "image" and isinstance(got, (dict, type(None))):
                m["got_record"] = which_record(cc, got)
                dev = rd.get("dev")
                if dev is not None and dev != rd["exp"] and got == expected_record(cc, dev):
                    m["known"] = "first-written"
            bad.append(m)
    return n, bad


def close_reader(w):
    nu = getattr(w, "nuwiki", None)
    for name in ("authors", "html", "imageinfo"):
        db = getattr(nu, name, None)
        with contextlib.suppress(Exception):
            db.database.close(do_log=False, force=True)


def run_case(cc, root):
    """Write, zip, re-open (as zip, and as directory when cc["open_dir"]) and read;
    returns (archives opened, reads done, mismatches)."""
    from mwlib.apps import buildzip
    from mwlib.core import wiki
    fsdir = os.path.join(root, "nuwiki")
    zpath = os.path.join(root, "out.zip")
    os.makedirs(os.path.join(root, "tmp"), exist_ok=True)
    if os.path.isdir(fsdir):
        shutil.rmtree(fsdir)
    tempfile.tempdir = os.path.join(root, "tmp")       # nuwiki.Adapt extracts with mkdtemp()
    total = 0
    bad = []
    opened = []
    sink = io.StringIO()
    with contextlib.redirect_stdout(sink):
        try:
            write_archive(cc, fsdir)
            if cc["zipper"] == "zip_dir":
                buildzip.zip_dir(fsdir, zpath)
            else:
                buildzip.ZipCreator.create_zip(fsdir, zpath)
        except Exception as e:                                      # noqa: BLE001
            return 0, 0, [{"via": "write", "read": {"op": "write", "spelling": "-", "exp": 0, "abs": 0},
                        "got": "EXC %s: %s" % (type(e).__name__, e), "expected": "(no exception)"}]
        for via, conf in (("dir", fsdir), ("zip", zpath)):
            if via == "dir" and not cc.get("open_dir", True):
                continue
            opened.append(via)
            try:
                env = wiki.make_wiki(conf)
                w = env.wiki
            except Exception as e:                                  # noqa: BLE001
                bad.append({"via": via, "read": {"op": "open", "spelling": "-", "exp": 0, "abs": 0},
                            "got": "EXC %s: %s" % (type(e).__name__, e), "expected": "(no exception)"})
                continue
            try:
                n, b = do_reads(cc, w, via)
                total += n
                bad.extend(b)
            finally:
                close_reader(w)
                if via == "zip":
                    with contextlib.suppress(Exception):
                        w.clear()
    tempfile.tempdir = None
    return len(opened), total, bad


def key_of(cc, m):
    """Violation key: the specific read, how it went wrong, and the minimal abstract history."""
    if m.get("known") == "first-written":
        return KNOWN_FIRST_WRITTEN
    rd = m["read"]
    got = m.get("got")
    if isinstance(got, str) and got.startswith("EXC"):
        how = got.split(":")[0]
    elif rd["op"] == "image":
        how = "none" if got is None else ("other-image" if rd["exp"] == 0 or got != m["expected"] else "ok")
    else:
        gr = m.get("got_record")
        how = "none" if got is None else ("record%d" % gr if gr and gr > 0 else "altered-record")
    a = cc["abstract"]
    return "%s via=%s spelling=%s expected=%s got=%s site=%s history=%s redirects=%s images=%d" % (
        rd["op"], m["via"], rd.get("spelling"), rd.get("exp"), how, cc["site"],
        json.dumps(a["w"], separators=(",", ":")), json.dumps(a["rd"], separators=(",", ":")), a["im"])


KNOWN_FIRST_WRITTEN = ("lookup by title returns the first-written revision of a title instead of the newest "
                       "(nuwiki._read_revisions ignores the result of python2sort)")
