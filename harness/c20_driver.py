"""C20 producer driver: runs ONE real mwlib producer of a published file in a work directory.

usage: c20_driver.py <producer> <work> [shim-spec]

    work/out/   the watched output directory (the final path lives here)
    work/in/    inputs prepared by the harness (source tree, archive) - not watched
    work/tmp/   TMPDIR - not watched

The producer call is bracketed by two marker syscalls (stat of a non-existing marker path) so
that the harness can cut the strace log.  Everything else (imports, preparation of inputs) happens
outside the markers.  Nothing in mwlib is modified; stubs are installed only at existing seams
(buildzip.make_nuwiki, fetch._get_download_client).

Optional in-process fault shim (fallback when strace positions are unstable), shim-spec =
"kill:<k>" or "err:<k>:<errno>": the k-th file-system call on the watched directory made through
os / io is replaced by os._exit(137) resp. OSError(errno).
"""
import contextlib
import json
import logging
import os
import sys

MARK_BEGIN = "/VERIF-C20-MARK-BEGIN"
MARK_END = "/VERIF-C20-MARK-END"


def mark(path):
    with contextlib.suppress(OSError):
        os.stat(path)


# ---------------------------------------------------------------------------------- producers
def p_status(work):
    from mwlib.utils.status import Status
    with open(os.path.join(work, "in", "status_versions.json")) as f:
        versions = json.load(f)
    st = Status(os.path.join(work, "out", "status.json"))
    st.stdout = None
    mark(MARK_BEGIN)
    for v in versions:
        st(**v)
    mark(MARK_END)


def p_createzip(work):
    from mwlib.apps.buildzip import ZipCreator
    mark(MARK_BEGIN)
    ZipCreator.create_zip(os.path.join(work, "in", "src"), os.path.join(work, "out", "coll.zip"))
    mark(MARK_END)


def p_makezip(work):
    import shutil

    from mwlib.apps import buildzip

    def stub_make_nuwiki(fsdir, metabook, wiki_options, pod_client, status):
        # the fetch step (C11's subject) is replaced by copying a small prepared nuwiki tree
        shutil.copytree(os.path.join(work, "in", "src"), fsdir)

    buildzip.make_nuwiki = stub_make_nuwiki
    mark(MARK_BEGIN)
    buildzip.make_zip(output=os.path.join(work, "out", "coll.zip"), wiki_options={}, metabook=None, status=None)
    mark(MARK_END)


def p_download(work):
    from mwlib.network import fetch
    with open(os.path.join(work, "in", "image.bin"), "rb") as f:
        data = f.read()

    class Response:
        def raise_for_status(self):
            return None

        def iter_bytes(self, chunk_size=16384):
            for i in range(0, len(data), chunk_size):
                yield data[i:i + chunk_size]

    class Client:
        @contextlib.contextmanager
        def stream(self, method, url):
            yield Response()

    fetch._get_download_client = lambda url: Client()
    path = os.path.join(work, "out", "File~220~bung.png")
    temp_path = (path + "\xb7").encode("utf-8")
    mark(MARK_BEGIN)
    fetch.download_to_file("http://example.org/img/Uebung.png", path, temp_path)
    mark(MARK_END)


def p_render(work, writer="rl", ext="pdf"):
    from mwlib.apps import render
    args = ["-c", os.path.join(work, "in", "coll.zip"), "-w", writer, "-o", os.path.join(work, "out", "doc." + ext)]
    sys.argv[0] = "mw-render"
    mark(MARK_BEGIN)
    try:
        render.main(args, standalone_mode=False)
    finally:
        mark(MARK_END)


def p_render_odf(work):
    p_render(work, "odf", "odt")


PRODUCERS = {"status": p_status, "createzip": p_createzip, "makezip": p_makezip, "download": p_download,
             "render": p_render, "render_odf": p_render_odf}


# ---------------------------------------------------------------------------------- fault shim
def install_shim(spec, watched):
    import builtins
    import io
    kind, k = spec.split(":")[0], int(spec.split(":")[1])
    err = int(spec.split(":")[2]) if kind == "err" else 0
    state = {"n": 0, "fds": set()}
    watched = os.path.realpath(watched)

    def inside(p):
        if isinstance(p, int):
            return p in state["fds"]
        try:
            p = os.fsdecode(p)
        except TypeError:
            return False
        return os.path.realpath(p).startswith(watched + os.sep)

    def hit(name):
        state["n"] += 1
        if state["n"] == k:
            with open(os.path.join(os.path.dirname(watched), "shim_hit"), "w") as f:
                f.write(name)
            if kind == "kill":
                os._exit(137)
            raise OSError(err, os.strerror(err))

    def wrap(mod, name, idx=(0,)):
        orig = getattr(mod, name)

        def f(*a, **kw):
            if any(i < len(a) and inside(a[i]) for i in idx):
                hit(name)
            r = orig(*a, **kw)
            return r
        setattr(mod, name, f)
    for name, idx in (("rename", (0, 1)), ("replace", (0, 1)), ("unlink", (0,)), ("remove", (0,)), ("mkdir", (0,)),
                      ("rmdir", (0,)), ("write", (0,)), ("close", (0,))):
        wrap(os, name, idx)
    orig_open = builtins.open
    orig_os_open = os.open

    class Proxy:
        def __init__(self, f):
            object.__setattr__(self, "_f", f)

        def __getattr__(self, n):
            return getattr(self._f, n)

        def __setattr__(self, n, v):
            setattr(self._f, n, v)

        def __enter__(self):
            return self

        def __exit__(self, *a):
            self.close()

        def __iter__(self):
            return iter(self._f)

        def write(self, b):
            hit("write")
            return self._f.write(b)

        def flush(self):
            hit("flush")
            return self._f.flush()

        def close(self):
            if not self._f.closed:
                hit("close")
            return self._f.close()

    def my_open(file, mode="r", *a, **kw):
        if not isinstance(file, int) and inside(file) and any(c in mode for c in "wax+"):
            hit("open")
            return Proxy(orig_open(file, mode, *a, **kw))
        return orig_open(file, mode, *a, **kw)

    def my_os_open(path, flags, *a, **kw):
        if inside(path) and flags & (os.O_WRONLY | os.O_RDWR | os.O_CREAT):
            hit("os.open")
            fd = orig_os_open(path, flags, *a, **kw)
            state["fds"].add(fd)
            return fd
        return orig_os_open(path, flags, *a, **kw)
    builtins.open = my_open
    io.open = my_open
    os.open = my_os_open


def main():
    producer, work = sys.argv[1], os.path.abspath(sys.argv[2])
    logging.disable(logging.CRITICAL)
    os.environ["TMPDIR"] = os.path.join(work, "tmp")
    import tempfile
    tempfile.tempdir = os.path.join(work, "tmp")
    if len(sys.argv) > 3 and sys.argv[3]:
        install_shim(sys.argv[3], os.path.join(work, "out"))
    code = 0
    try:
        with open(os.devnull, "w") as devnull, contextlib.redirect_stdout(devnull):
            PRODUCERS[producer](work)
    except SystemExit as e:
        code = 3 if e.code else 0
    except BaseException as e:                                      # noqa: BLE001
        # a producer that fails under an injected fault must raise; that is its contract
        sys.stderr.write("PRODUCER-RAISED %s: %s\n" % (type(e).__name__, e))
        code = 4
    sys.stderr.flush()
    os._exit(code)


if __name__ == "__main__":
    main()
