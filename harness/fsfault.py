"""C20 helper: run a producer driver under strace, parse the log, abstract it, inject faults.

positions   every syscall of the driver's main process between the two marker calls that touches
            the watched output directory (opens, writes, closes, renames, unlinks, mkdir/rmdir,
            ftruncate, fsync, sendfile/copy_file_range; not stat/lseek/read).
injection   strace counts invocations per syscall name and per process, so position k is addressed
            as "the j-th call of <name> in the main process" (j taken from a clean run, including
            interpreter start-up) and the log of the faulted run is checked afterwards: the call
            that was hit must be the k-th watched call, otherwise the run is discarded as unstable.
"""
import json
import os
import re
import subprocess
import sys

HERE = os.path.dirname(os.path.abspath(__file__))
DRIVER = os.path.join(HERE, "c20_driver.py")
MARK_BEGIN = "/VERIF-C20-MARK-BEGIN"
MARK_END = "/VERIF-C20-MARK-END"
TRACE_SET = ("openat,open,creat,write,pwrite64,writev,sendfile,copy_file_range,close,rename,renameat,renameat2,"
             "unlink,unlinkat,mkdir,mkdirat,rmdir,ftruncate,fsync,fdatasync,link,linkat,symlink,symlinkat,newfstatat,stat")
WRITE_CALLS = {"write", "pwrite64", "writev", "sendfile", "copy_file_range"}
FINAL_NAME = {"status": "status.json", "createzip": "coll.zip", "makezip": "coll.zip",
              "download": "File~220~bung.png", "render": "doc.pdf", "render_odf": "doc.odt"}
SPEC_PRODUCER = {"status": "status", "createzip": "createzip", "makezip": "makezip", "download": "download",
                 "render": "render", "render_odf": "render"}

_LINE = re.compile(r"^(\d+)\s+(.*)$")
_CALL = re.compile(r"^(\w+)\((.*)$")
_RESUMED = re.compile(r"^<\.\.\. (\w+) resumed>(.*)$")
_FDPATH = re.compile(r"(\d+)<((?:[^<>\\]|\\.)*)>")
_STR = re.compile(r'"((?:[^"\\]|\\.)*)"')


def unescape(s):
    """C-style escapes of strace (octal for non-ASCII bytes) -> str."""
    out = bytearray()
    i = 0
    while i < len(s):
        c = s[i]
        if c == "\\" and i + 1 < len(s):
            n = s[i + 1]
            if n in "01234567":
                j = i + 1
                while j < len(s) and j < i + 4 and s[j] in "01234567":
                    j += 1
                out.append(int(s[i + 1:j], 8) & 0xFF)
                i = j
                continue
            out += {"n": b"\n", "t": b"\t", "r": b"\r", "\\": b"\\", '"': b'"', "v": b"\v", "f": b"\f"}.get(n, n.encode())
            i += 2
            continue
        out += c.encode("utf-8")
        i += 1
    return out.decode("utf-8", "replace")


def env_for_driver():
    e = dict(os.environ)
    e["PYTHONDONTWRITEBYTECODE"] = "1"
    e["PYTHONHASHSEED"] = "0"
    e.setdefault("MWLIB_HTTP2_ENABLED", "false")
    e.setdefault("MWLIB_FETCH_MAX_REQUESTS_PER_SECOND", "0")
    e["PYTHONWARNINGS"] = "ignore"
    return e


def run_traced(producer, work, log, inject=None, timeout=300):
    cmd = ["strace", "-f", "-y", "-s", "16", "-o", log, "-e", "trace=" + TRACE_SET]
    if inject:
        cmd += ["-e", "inject=" + inject]
    cmd += [sys.executable, DRIVER, producer, work]
    p = subprocess.run(cmd, env=env_for_driver(), stdout=subprocess.DEVNULL, stderr=subprocess.PIPE, timeout=timeout,
                       cwd=work)
    return p.returncode, p.stderr.decode("utf-8", "replace")


def run_shim(producer, work, spec, timeout=300):
    p = subprocess.run([sys.executable, DRIVER, producer, work, spec], env=env_for_driver(), stdout=subprocess.DEVNULL,
                       stderr=subprocess.PIPE, timeout=timeout, cwd=work)
    return p.returncode, p.stderr.decode("utf-8", "replace")


class Op:
    __slots__ = ("name", "j", "kind", "cls", "path", "src", "srccls", "mode", "fd", "ret", "err", "injected", "killed", "text")

    def brief(self):
        return "%s %s%s%s" % (self.name, ("%s->" % self.srccls) if self.kind == "rename" else "", self.cls,
                              (" [%s]" % self.mode) if self.kind == "open" else "")


def parse(log, outdir, final):
    """-> (main pid, list of Op inside the markers for the main pid, killed?, complete window?)"""
    outdir = os.path.realpath(outdir)
    with open(log, errors="replace") as f:
        raw = f.read().splitlines()
    # merge "<unfinished ...>" with its "<... resumed>" line
    pending = {}
    lines = []
    for ln in raw:
        m = _LINE.match(ln)
        if not m:
            continue
        pid, rest = int(m.group(1)), m.group(2)
        r = _RESUMED.match(rest)
        if r and pid in pending:
            idx = pending.pop(pid)
            lines[idx] = (pid, lines[idx][1] + r.group(2))
            continue
        if rest.endswith("<unfinished ...>"):
            pending[pid] = len(lines)
            lines.append((pid, rest[:-len("<unfinished ...>")]))
            continue
        lines.append((pid, rest))
    main = None
    for pid, rest in lines:
        if MARK_BEGIN in rest:
            main = pid
            break
    counts = {}
    ops = []
    inside = False
    ended = False
    killed = False
    cwd = None
    for pid, rest in lines:
        if pid != main and main is not None:
            continue
        if main is None:
            # before the marker is seen we cannot know the main pid: count for every pid
            pass
        if rest.startswith("+++ killed by SIGKILL"):
            killed = True
            continue
        m = _CALL.match(rest)
        if not m:
            continue
        name, args = m.group(1), m.group(2)
        counts[(pid, name)] = counts.get((pid, name), 0) + 1
        if MARK_BEGIN in args:
            inside = True
            continue
        if MARK_END in args:
            inside = False
            ended = True
            continue
        if not inside or name in ("newfstatat", "stat"):
            continue
        op = _classify(name, args, outdir, final)
        if op is None:
            continue
        op.j = counts[(pid, name)]
        op.text = rest[:200]
        ops.append(op)
    # the counters above were keyed by pid; recompute j for the main pid only (lines of other
    # pids were skipped once main was known, earlier ones are start-up of the same process)
    return main, ops, killed, ended


def _inside(path, outdir):
    return path == outdir or path.startswith(outdir + "/")


def _cls(path, outdir, final, isdir=False):
    if not _inside(path, outdir):
        return "outside"
    if path == final:
        return "final"
    if os.path.dirname(path) == outdir and not isdir:
        return "tmp"
    return "sub"


def _classify(name, args, outdir, final):
    op = Op()
    op.name, op.kind, op.mode, op.src, op.srccls, op.fd = name, None, "-", None, "-", None
    op.injected = "(INJECTED)" in args
    mret = re.search(r"\)\s+= (-?\d+|\?)", args)
    op.ret = mret.group(1) if mret else "?"
    op.killed = op.ret == "?"
    op.err = op.ret.startswith("-")
    fds = [(int(a), unescape(b)) for a, b in _FDPATH.findall(args.split(") = ")[0])]
    strs = [unescape(x) for x in _STR.findall(args.split(") = ")[0])]

    def resolve(dirfd_path, p):
        if p.startswith("/"):
            return os.path.normpath(p)
        return os.path.normpath(os.path.join(dirfd_path or "/", p))
    if name in ("openat", "open", "creat"):
        base = fds[0][1] if (name == "openat" and fds) else None
        if not strs:
            return None
        path = resolve(base, strs[0])
        if not _inside(path, outdir):
            return None
        flags = args
        isdir = "O_DIRECTORY" in flags
        op.kind, op.path = "open", path
        op.cls = _cls(path, outdir, final, isdir)
        if "O_EXCL" in flags:
            op.mode = "excl"
        elif any(x in flags for x in ("O_WRONLY", "O_RDWR", "O_CREAT", "O_TRUNC", "O_APPEND")) or name == "creat":
            op.mode = "trunc"
        else:
            op.mode = "ro"
        if isdir:
            op.cls = "sub"
        mfd = re.search(r"= (\d+)<", args)
        op.fd = int(mfd.group(1)) if mfd else None
        return op
    if name in WRITE_CALLS or name in ("close", "ftruncate", "fsync", "fdatasync"):
        if not fds:
            return None
        if name == "copy_file_range":
            cand = [f for f in fds if _inside(f[1], outdir)]
            tgt = fds[1] if len(fds) > 1 else fds[0]
            if not cand:
                return None
        else:
            tgt = fds[0]
        if not _inside(tgt[1], outdir):
            return None
        op.kind = "write" if (name in WRITE_CALLS or name == "ftruncate") else ("close" if name == "close" else "sync")
        op.path, op.fd = tgt[1], tgt[0]
        op.cls = _cls(tgt[1], outdir, final, os.path.isdir(tgt[1]) and False)
        return op
    if name in ("rename", "renameat", "renameat2", "link", "linkat", "symlink", "symlinkat"):
        if len(strs) < 2:
            return None
        if name in ("renameat", "renameat2", "linkat"):
            b1 = fds[0][1] if len(fds) > 0 else None
            b2 = fds[1][1] if len(fds) > 1 else b1
        else:
            b1 = b2 = None
        if name.startswith("symlink"):
            a, b = strs[0], resolve(fds[0][1] if fds else None, strs[1])
        else:
            a, b = resolve(b1, strs[0]), resolve(b2, strs[1])
        if not (_inside(a, outdir) or _inside(b, outdir)):
            return None
        op.kind = "rename" if name.startswith("rename") else "link"
        op.src, op.path = a, b
        op.srccls, op.cls = _cls(a, outdir, final), _cls(b, outdir, final)
        return op
    if name in ("unlink", "unlinkat", "rmdir", "mkdir", "mkdirat"):
        if not strs:
            return None
        base = fds[0][1] if (name in ("unlinkat", "mkdirat") and fds) else None
        path = resolve(base, strs[0])
        if not _inside(path, outdir):
            return None
        isdir = name in ("rmdir", "mkdir", "mkdirat") or "AT_REMOVEDIR" in args
        op.kind = "unlink" if name in ("unlink", "unlinkat") and not isdir else "dirop"
        op.path = path
        op.cls = _cls(path, outdir, final, isdir)
        return op
    return None


def signature(ops):
    return [(o.name, o.kind, o.cls, o.srccls, o.mode) for o in ops]


def abstract(ops, killed, rc):
    """Ops of one run -> event list of AtomicPublishTrace (see the module header)."""
    ev = []
    wfd = {}          # fd -> opened for writing on a tmp/final path
    last_write_fd = None
    multi = False

    def push(op, p, src="-", mode="-", err=False):
        ev.append({"op": op, "p": p, "src": src, "mode": mode, "err": bool(err)})
    for o in ops:
        if o.killed:
            break
        if o.cls == "sub" and o.kind != "rename":
            if o.err:
                push("suberr", "sub", err=True)
                last_write_fd = None
            continue
        if o.kind == "open":
            if o.mode == "ro":
                if o.err:
                    push("suberr", "sub", err=True)
                continue
            if not o.err and o.fd is not None:
                if wfd:
                    multi = True
                wfd[o.fd] = True
            push("open", o.cls, mode=o.mode, err=o.err)
            last_write_fd = None
        elif o.kind == "write":
            if o.err:
                push("write", o.cls, err=True)
                last_write_fd = None
            elif last_write_fd != o.fd:
                push("write", o.cls)
                last_write_fd = o.fd
        elif o.kind == "close":
            if wfd.pop(o.fd, None):
                push("close", o.cls, err=o.err)
                last_write_fd = None
        elif o.kind == "rename":
            if o.cls == "sub" and o.srccls == "sub":
                continue
            push("rename", o.cls, src=o.srccls, err=o.err)
            last_write_fd = None
        elif o.kind == "unlink":
            push("unlink", o.cls, err=o.err)
            last_write_fd = None
        elif o.kind == "link":
            push("link", o.cls, src=o.srccls, err=o.err)
        # sync / dirop on tmp level: no effect on content
    if killed:
        push("kill", "-")
        expect = "killed"
    else:
        expect = "done" if rc == 0 else "failed"
    push("end", "-")
    return ev, expect, multi


def dump_batch(path, traces):
    with open(path, "w") as f:
        json.dump(traces, f)
