"""C20 helper: run a producer driver under strace, parse the log, abstract it, inject faults.

positions   every syscall of the driver's main process between the two marker calls that touches
            the watched output directory (opens, writes, closes, renames, unlinks, mkdir/rmdir,
            ftruncate, fsync, sendfile/copy_file_range; not stat/lseek/read).
injection   strace counts invocations per syscall name and per process, so position k is addressed
            as "the j-th call of <name> in the main process" (j taken from a clean run, including
            interpreter start-up) and the log of the faulted run is checked afterwards: the call
            that was hit must be the k-th watched call, otherwise the run is discarded as unstable.
"""
import json
import os
import re
import subprocess
import sys

HERE = os.path.dirname(os.path.abspath(__file__))
DRIVER = os.path.join(HERE, "c20_driver.py")
MARK_BEGIN = "/VERIF-C20-MARK-BEGIN"
MARK_END = "/VERIF-C20-MARK-END"
TRACE_SET = ("openat,open,creat,write,pwrite64,writev,sendfile,copy_file_range,close,rename,renameat,renameat2,"
             "unlink,unlinkat,mkdir,mkdirat,rmdir,ftruncate,fsync,fdatasync,link,linkat,symlink,symlinkat,newfstatat,stat")
WRITE_CALLS = {"write", "pwrite64", "writev", "sendfile", "copy_file_range"}
FINAL_NAME = {"status": "status.json", "createzip": "coll.zip", "makezip": "coll.zip",
              "download": "File~220~bung.png", "render": "doc.pdf", "render_odf": "doc.odt"}
SPEC_PRODUCER = {"status": "status", "createzip": "createzip", "makezip": "makezip", "download": "download",
                 "render": "render", "render_odf": "render"}

_LINE = re.compile(r"^(\d+)\s+(.*)$")
_CALL = re.compile(r"^(\w+)\((.*)$")
_RESUMED = re.compile(r"^<\.\.\. (\w+) resumed>(.*)$")
_FDPATH = re.compile(r"(\d+)<((?:[^<>\\]|\\.)*)>")
_STR = re.compile(r'"((?:[^"\\]|\\.)*)"')


def unescape(s):
    """C-style escapes of strace (octal for non-ASCII bytes) -> str."""
    out = bytearray()
    i = 0
    while i < len(s):
        c = s[i]
        if c == "\\" and i + 1 < len(s):
            n = s[i + 1]
            if n in "01234567":
                j = i + 1
                while j < len(s) and j < i + 4 and s[j] in "01234567":
                    j += 1
                out.append(int(s[i + 1:j], 8) & 0xFF)
                i = j
                continue
            out += {"n": b"\n", "t": b"\t", "r": b"\r", "\\": b"\\", '"': b'"', "v": b"\v", "f": b"\f"}.get(n, n.encode())
            i += 2
            continue
        out += c.encode("utf-8")
        i += 1
    return out.decode("utf-8", "replace")


def env_for_driver():
    e = dict(os.environ)
    e["PYTHONDONTWRITEBYTECODE"] = "1"
    e["PYTHONHASHSEED"] = "0"
    e.setdefault("MWLIB_HTTP2_ENABLED", "false")
    e.setdefault("MWLIB_FETCH_MAX_REQUESTS_PER_SECOND", "0")
    e["PYTHONWARNINGS"] = "ignore"
    return e


def run_traced(producer, work, log, inject=None, timeout=300):
    cmd = ["strace", "-f", "-y", "-s", "16", "-o", log, "-e", "trace=" + TRACE_SET]
    if inject:
        cmd += ["-e", "inject=" + inject]
    cmd += [sys.executable, DRIVER, producer, work]
    p = subprocess.run(cmd, env=env_for_driver(), stdout=subprocess.DEVNULL, stderr=subprocess.PIPE, timeout=timeout,
                       cwd=work)
    return p.returncode, p.stderr.decode("utf-8", "replace")


def run_shim(producer, work, spec, timeout=300):
    p = subprocess.run([sys.executable, DRIVER, producer, work, spec], env=env_for_driver(), stdout=subprocess.DEVNULL,
                       stderr=subprocess.PIPE, timeout=timeout, cwd=work)
    return p.returncode, p.stderr.decode("utf-8", "replace")


class Op:
    __slots__ = ("name", "j", "kind", "cls", "path", "src", "srccls", "mode", "fd", "ret", "err", "injected", "killed", "text", "watched")

    def brief(self):
        return "%s %s%s%s" % (self.name, ("%s->" % self.srccls) if self.kind == "rename" else "", self.cls,
                              (" [%s]" % self.mode) if self.kind == "open" else "")


def parse(log, outdir, final):
    """-> (main pid, watched ops, killed?, complete window?, all ops)

    watched ops: the calls of the main pid inside the markers that touch the output directory -
    these are the fault positions.  all ops additionally contains the calls on other paths of
    the work directory (TMPDIR, ...; class "ext"): a temp file may live anywhere, abstract() needs
    its open/write/close when it is later renamed onto the final name."""
    outdir = os.path.realpath(outdir)
    work = os.path.dirname(outdir)
    with open(log, errors="replace") as f:
        raw = f.read().splitlines()
    # merge "<unfinished ...>" with its "<... resumed>" line
    pending = {}
    lines = []
    for ln in raw:
        m = _LINE.match(ln)
        if not m:
            continue
        pid, rest = int(m.group(1)), m.group(2)
        r = _RESUMED.match(rest)
        if r and pid in pending:
            idx = pending.pop(pid)
            lines[idx] = (pid, lines[idx][1] + r.group(2))
            continue
        if rest.endswith("<unfinished ...>"):
            pending[pid] = len(lines)
            lines.append((pid, rest[:-len("<unfinished ...>")]))
            continue
        lines.append((pid, rest))
    main = None
    for pid, rest in lines:
        if MARK_BEGIN in rest:
            main = pid
            break
    counts = {}
    ops = []
    inside = False
    ended = False
    killed = False
    cwd = None
    for pid, rest in lines:
        if pid != main and main is not None:
            continue
        if main is None:
            # before the marker is seen we cannot know the main pid: count for every pid
            pass
        if rest.startswith("+++ killed by SIGKILL"):
            killed = True
            continue
        m = _CALL.match(rest)
        if not m:
            continue
        name, args = m.group(1), m.group(2)
        counts[(pid, name)] = counts.get((pid, name), 0) + 1
        if MARK_BEGIN in args:
            inside = True
            continue
        if MARK_END in args:
            inside = False
            ended = True
            continue
        if not inside or name in ("newfstatat", "stat"):
            continue
        op = _classify(name, args, outdir, final, work)
        if op is None:
            continue
        op.j = counts[(pid, name)]
        op.text = rest[:200]
        ops.append(op)
    # the counters above were keyed by pid; recompute j for the main pid only (lines of other
    # pids were skipped once main was known, earlier ones are start-up of the same process)
    return main, [o for o in ops if o.watched], killed, ended, ops


def _inside(path, outdir):
    return path == outdir or path.startswith(outdir + "/")


def _in_work(path, work):
    """Inside the run's work directory but not an input and not strace's own log."""
    return (path.startswith(work + "/") and not path.startswith(work + "/in/") and path != work + "/in"
            and path != work + "/strace.txt")


def _cls(path, outdir, final, isdir=False, work=None):
    if not _inside(path, outdir):
        return "ext" if work and _in_work(path, work) else "outside"
    if path == final:
        return "final"
    if os.path.dirname(path) == outdir and not isdir:
        return "tmp"
    return "sub"


def _classify(name, args, outdir, final, work):
    op = Op()
    op.watched = True
    op.name, op.kind, op.mode, op.src, op.srccls, op.fd = name, None, "-", None, "-", None
    op.injected = "(INJECTED)" in args
    mret = re.search(r"\)\s+= (-?\d+|\?)", args)
    op.ret = mret.group(1) if mret else "?"
    op.killed = op.ret == "?"
    op.err = op.ret.startswith("-")
    fds = [(int(a), unescape(b)) for a, b in _FDPATH.findall(args.split(") = ")[0])]
    strs = [unescape(x) for x in _STR.findall(args.split(") = ")[0])]

    def resolve(dirfd_path, p):
        if p.startswith("/"):
            return os.path.normpath(p)
        return os.path.normpath(os.path.join(dirfd_path or "/", p))
    if name in ("openat", "open", "creat"):
        base = fds[0][1] if (name == "openat" and fds) else None
        if not strs:
            return None
        path = resolve(base, strs[0])
        if not _inside(path, outdir):
            if not _in_work(path, work):
                return None
            op.watched = False
        flags = args
        isdir = "O_DIRECTORY" in flags
        op.kind, op.path = "open", path
        op.cls = _cls(path, outdir, final, isdir, work)
        if "O_EXCL" in flags:
            op.mode = "excl"
        elif any(x in flags for x in ("O_WRONLY", "O_RDWR", "O_CREAT", "O_TRUNC", "O_APPEND")) or name == "creat":
            op.mode = "trunc"
        else:
            op.mode = "ro"
        if isdir and op.watched:
            op.cls = "sub"
        mfd = re.search(r"= (\d+)<", args)
        op.fd = int(mfd.group(1)) if mfd else None
        return op
    if name in WRITE_CALLS or name in ("close", "ftruncate", "fsync", "fdatasync"):
        if not fds:
            return None
        if name == "copy_file_range":
            tgt = fds[1] if len(fds) > 1 else fds[0]
        else:
            tgt = fds[0]
        if not _inside(tgt[1], outdir):
            if not _in_work(tgt[1], work):
                return None
            op.watched = False
        op.kind = "write" if (name in WRITE_CALLS or name == "ftruncate") else ("close" if name == "close" else "sync")
        op.path, op.fd = tgt[1], tgt[0]
        op.cls = _cls(tgt[1], outdir, final, False, work)
        return op
    if name in ("rename", "renameat", "renameat2", "link", "linkat", "symlink", "symlinkat"):
        if len(strs) < 2:
            return None
        if name in ("renameat", "renameat2", "linkat"):
            b1 = fds[0][1] if len(fds) > 0 else None
            b2 = fds[1][1] if len(fds) > 1 else b1
        else:
            b1 = b2 = None
        if name.startswith("symlink"):
            a, b = strs[0], resolve(fds[0][1] if fds else None, strs[1])
        else:
            a, b = resolve(b1, strs[0]), resolve(b2, strs[1])
        if not (_inside(a, outdir) or _inside(b, outdir)):
            if not (_in_work(a, work) or _in_work(b, work)):
                return None
            op.watched = False
        op.kind = "rename" if name.startswith("rename") else "link"
        op.src, op.path = a, b
        op.srccls, op.cls = _cls(a, outdir, final, False, work), _cls(b, outdir, final, False, work)
        return op
    if name in ("unlink", "unlinkat", "rmdir", "mkdir", "mkdirat"):
        if not strs:
            return None
        base = fds[0][1] if (name in ("unlinkat", "mkdirat") and fds) else None
        path = resolve(base, strs[0])
        if not _inside(path, outdir):
            if not _in_work(path, work):
                return None
            op.watched = False
        isdir = name in ("rmdir", "mkdir", "mkdirat") or "AT_REMOVEDIR" in args
        op.kind = "unlink" if name in ("unlink", "unlinkat") and not isdir else "dirop"
        op.path = path
        op.cls = _cls(path, outdir, final, isdir, work)
        return op
    return None


def signature(ops):
    return [(o.name, o.kind, o.cls, o.srccls, o.mode) for o in ops]


def abstract(ops, killed, rc, foreign_dirs=()):
    """All ops of one run (parse()[4]) -> (events of AtomicPublishTrace, expect, two handles?, untracked?).

    The statement does not say where the temporary file lives.  Every path that this run renames
    onto the final name is a "tmp" of the model wherever it is (a direct child of the output
    directory, inside a sub-directory of it, elsewhere in the work directory), and its
    open/write/close are part of the trace; direct children of the output directory are "tmp"
    as well (a temp left behind by a failed run).  Exception: a source inside one of
    foreign_dirs - the system temp directory (TMPDIR), which nothing ties to the file system of
    the output - or outside the work directory stays "outside": a rename from there is not an
    atomic publication one can rely on.  A rename from a tmp that this trace never saw being
    opened for writing (created by another process, through a link, ...) makes the trace
    `untracked`: no verdict is derived from it, the reader check of the fault enumeration decides."""
    pubsrc = {o.src for o in ops if o.kind == "rename" and o.cls == "final" and o.src}

    def foreign(path):
        return any(path == d or path.startswith(d + "/") for d in foreign_dirs)

    def klass(path, base):
        if base == "final":
            return "final"
        if path in pubsrc:
            return "outside" if (base == "outside" or foreign(path)) else "tmp"
        return base                                   # tmp | sub | ext | outside
    ev = []
    wfd = {}          # fd -> opened for writing on a tmp/final path
    written = set()   # tmp paths this trace opened for writing
    last_write_fd = None
    multi = False
    untracked = False

    def push(op, p, src="-", mode="-", err=False):
        ev.append({"op": op, "p": p, "src": src, "mode": mode, "err": bool(err)})
    for o in ops:
        if o.killed:
            break
        cls = klass(o.path, o.cls)
        if o.kind == "rename":
            srccls = klass(o.src, o.srccls)
            if cls != "final" and srccls != "final":
                if o.err and o.watched:
                    push("suberr", "sub", err=True)
                continue                               # renames among other paths
            if srccls == "tmp" and o.src not in written:
                untracked = True
            push("rename", cls if cls in ("final", "tmp") else "outside",
                 src=srccls if srccls in ("final", "tmp") else "outside", err=o.err)
            last_write_fd = None
            continue
        if cls == "ext" or cls == "outside":
            continue                                   # not on the output directory, never published
        if cls == "sub":
            if o.err:
                push("suberr", "sub", err=True)
                last_write_fd = None
            continue
        if o.kind == "open":
            if o.mode == "ro":
                if o.err:
                    push("suberr", "sub", err=True)
                continue
            if not o.err and o.fd is not None:
                if wfd:
                    multi = True
                wfd[o.fd] = True
                written.add(o.path)
            push("open", cls, mode=o.mode, err=o.err)
            last_write_fd = None
        elif o.kind == "write":
            if o.fd not in wfd:
                continue
            if o.err:
                push("write", cls, err=True)
                last_write_fd = None
            elif last_write_fd != o.fd:
                push("write", cls)
                last_write_fd = o.fd
        elif o.kind == "close":
            if wfd.pop(o.fd, None):
                push("close", cls, err=o.err)
                last_write_fd = None
        elif o.kind == "unlink":
            push("unlink", cls, err=o.err)
            last_write_fd = None
        elif o.kind == "link":
            push("link", cls, src=klass(o.src, o.srccls), err=o.err)
        # sync / dirop: no effect on content
    if killed:
        push("kill", "-")
        expect = "killed"
    else:
        expect = "done" if rc == 0 else "failed"
    push("end", "-")
    return ev, expect, multi, untracked


def dump_batch(path, traces):
    with open(path, "w") as f:
        json.dump(traces, f)
