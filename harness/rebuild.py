"""Rebuild mwlib's compiled modules from the working tree when their source is newer than the
installed in-place extension (so that a change to a .pyx / _uscan.cc is what the checks run).

/venv imports mwlib and qs straight from <repo>/src (development install), so .py edits are
live.  The generated .c files next to the .pyx sources are tracked in git, so the build happens
in a scratch directory (same Extension names as setup.py, Cython's default directives like the installed build) and only the
git-ignored .so is copied back.  re2c is not installed: _uscan.re cannot be regenerated,
_uscan.cc is the scanner source.
"""
import os
import shutil
import subprocess
import tempfile

from .common import MachineryError

SUFFIX = ".cpython-312-x86_64-linux-gnu.so"

SOURCES = [
    "src/mwlib/parser/templ/node.pyx",
    "src/mwlib/parser/templ/nodes.pyx",
    "src/mwlib/parser/templ/evaluate.pyx",
    "src/mwlib/parser/refine/_core.pyx",
    "src/mwlib/parser/token/_uscan.cc",
]
PURE_PY = {"C12", "C13", "C14", "C15", "C16", "C17", "C18", "C19", "C20"}

SETUP = '''
from setuptools import Extension, setup
from Cython.Build import cythonize
exts = [Extension(%(name)r, sources=[%(src)r], extra_compile_args=["-Wno-unreachable-code-fallthrough"])]
if %(src)r.endswith(".pyx"):
    # default directives, like the extension modules installed in this sandbox (and the tracked
    # .c files) were generated; setup.py's boundscheck=False / wraparound=False build turns
    # `no_key_seen[-1]` in templ/nodes.pyx into an out-of-bounds read (see DESIGN.md findings)
    exts = cythonize(exts, compiler_directives={"language_level": 3})
setup(name="x", ext_modules=exts, script_args=["build_ext", "--build-lib", "out", "--build-temp", "tmp"])
'''


def _so(src):
    return os.path.splitext(src)[0] + SUFFIX


def _stale(src):
    so = _so(src)
    return (not os.path.exists(so)) or os.path.getmtime(so) < os.path.getmtime(src)


def build_one(repo, rel):
    src = os.path.join(repo, rel)
    name = os.path.splitext(rel[len("src/"):])[0].replace("/", ".")
    d = tempfile.mkdtemp(prefix="verif-build-")
    try:
        dst = os.path.join(d, rel)
        os.makedirs(os.path.dirname(dst))
        shutil.copy(src, dst)
        with open(os.path.join(d, "setup.py"), "w") as f:
            f.write(SETUP % {"name": name, "src": rel})
        p = subprocess.run(["/venv/bin/python", "setup.py"], cwd=d, stdout=subprocess.PIPE,
                           stderr=subprocess.STDOUT, text=True)
        out = os.path.join(d, "out", os.path.splitext(rel[len("src/"):])[0] + SUFFIX)
        if p.returncode != 0 or not os.path.exists(out):
            raise MachineryError("rebuild of %s failed:\n%s" % (rel, p.stdout[-3000:]))
        tmp = _so(src) + ".new"
        shutil.copy(out, tmp)
        os.replace(tmp, _so(src))
    finally:
        shutil.rmtree(d, ignore_errors=True)


def ensure_built(ctx=None, repo=None, force=False):
    if ctx is not None and ctx.prop in PURE_PY:
        return
    repo = repo or ctx.repo
    for rel in SOURCES:
        src = os.path.join(repo, rel)
        if os.path.exists(src) and (force or _stale(src)):
            print("  rebuilding %s" % rel, flush=True)
            build_one(repo, rel)
