"""Generate operation sequences for the qs server, record traces from the real code
(harness/qsdriver.py) and have TLC validate them against spec/WorkQTrace.tla."""
import json
import os
import random
import re

from . import tlc

WORKERS = ["w1", "w2", "w3"]
CHANNELS = ["c1", "c2"]
# the second id is the empty string: a client-chosen id is any JSON value, and a falsy one must be
# treated like any other (push tests `jobid is not None`, not truthiness)
JOBIDS = ["a", "", "c", "d"]
CLIENTS = ["k1"]

INVARIANTS = {
    "C16": ["TypeOK", "Exclusive", "UnfinishedIsBound", "NoStarvedWaiter"],
    "C17": ["TypeOK", "MailboxEligible", "UnfinishedIsBound", "CountersAddUp", "WaitPending"],
    "C18": ["TypeOK", "Exclusive", "UnfinishedIsBound", "NoStarvedWaiter", "MailboxEligible", "WaitPending"],
}
PROPERTIES = {
    "C16": ["HandOutOnce"],
    "C17": ["OneJobPerId", "NeverFinished", "FinishedNotRequeued", "EligibleChannel", "PriorityFifo", "Final", "IdempotentAdd", "WaitExact"],
    "C18": ["OneJobPerId", "HandOutOnce", "NeverFinished", "FinishedNotRequeued", "Final", "RestartKeepsLive", "RestartKeepsJobs", "NoIdReuse", "WaitExact"],
}
ALL_INV = sorted({x for v in INVARIANTS.values() for x in v})
ALL_PROP = sorted({x for v in PROPERTIES.values() for x in v})


def const_block(workers, channels, jobids, clients, *, maxjobs, maxtime, restart, wait, info, drop,
                reconnect, atomic, strings=True, prios="{0, 1}", tmos="{1, 100}", ttls="{100}",
                killers=None, switches=None, anyorder=False, anydeadline=False):
    q = (lambda x: '"%s"' % x) if strings else (lambda x: x)
    sw = {"OverwriteMailbox": False, "DropOnKill": False, "RequeueDone": False, "DeliverDone": False}
    sw.update(switches or {})
    B = lambda b: "TRUE" if b else "FALSE"
    killers = killers if killers is not None else ['"admin"']
    lines = [
        "Workers = {%s}" % ", ".join(q(w) for w in workers),
        "Channels = {%s}" % ", ".join(q(c) for c in channels),
        "JobIds = {%s}" % ", ".join(q(j) for j in jobids),
        "Clients = {%s}" % ", ".join(q(c) for c in clients),
        "Killers = {%s}" % ", ".join(killers),
        "Prios = %s" % prios, "Tmos = %s" % tmos, "Ttls = %s" % ttls,
        "MaxJobs = %d" % maxjobs, "MaxTime = %d" % maxtime,
    ] + ["%s = %s" % (k, B(v)) for k, v in sorted(sw.items())] + [
        "WithRestart = " + B(restart), "WithWait = " + B(wait), "WithInfo = " + B(info),
        "WithDrop = " + B(drop), "WithReconnect = " + B(reconnect), "AtomicDrain = " + B(atomic),
        "AnyRequeueOrder = " + B(anyorder), "AnyDeadlineStart = " + B(anydeadline),
    ]
    return "CONSTANTS\n  " + "\n  ".join(lines) + "\n"


# ----------------------------------------------------------------------------- generation
def gen_priority_stress(rng, length, *, restart=False, **_):
    """Directed profile: several jobs with mixed priorities in one or two channels, some finished
    early (kill / timeout / foreign finish) while queued, then pulls one after the other - the
    order in which they come out is what is being looked at."""
    ops = []
    ids = []
    nadd = rng.randint(3, 4)
    chans = [rng.choice(CHANNELS)] if rng.random() < 0.6 else CHANNELS
    for k in range(nadd):
        i = JOBIDS[k]
        ids.append(i)
        ops.append({"op": "add", "id": i, "ch": rng.choice(chans), "prio": rng.choice([0, 1, 1]),
                    "tmo": rng.choice([1, 100, 100]), "ttl": 100})
        if rng.random() < 0.25:
            ops.append({"op": "runloop"})
    for _ in range(rng.randint(0, 2)):
        r = rng.random()
        if r < 0.5:
            ops.append({"op": "kill", "k": "admin", "id": rng.choice(ids)})
        elif r < 0.75:
            ops.append({"op": "tick"})
        else:
            ops.append({"op": "add", "id": rng.choice(ids), "ch": rng.choice(chans), "prio": rng.choice([0, 1]), "tmo": 100, "ttl": 100})
    if restart and rng.random() < 0.5:
        ops.append({"op": "restart"})
    ws = list(WORKERS)
    while len(ops) < length:
        w = rng.choice(ws)
        ops.append({"op": "pull", "w": w, "chs": rng.choice([[], [], [chans[0]]])})
        ops.append({"op": "runloop"})
        if rng.random() < 0.3:
            ops.append({"op": "finish", "w": w, "id": rng.choice(ids), "err": "none"})
        if rng.random() < 0.15:
            ops.append({"op": "disconnect", "w": w})
            ws = [x for x in ws if x != w] or list(WORKERS)
    return ops


def gen_id_reuse(rng, length, *, restart=False, **_):
    """Directed profile: an id is killed / dropped / timed out and used again while clients wait,
    workers hold the old job, and the watchdog runs - what is bound to the id afterwards?"""
    i = rng.choice(JOBIDS[:2])
    ch = rng.choice(CHANNELS)
    A = lambda: {"op": "add", "id": i, "ch": ch, "prio": rng.choice([0, 1]), "tmo": rng.choice([1, 100]), "ttl": 100}
    pool = [A, A,
            lambda: {"op": "drop", "id": i},
            lambda: {"op": "wait", "c": "k1", "id": i},
            lambda: {"op": "kill", "k": "admin", "id": i},
            lambda: {"op": "pull", "w": rng.choice(WORKERS), "chs": []},
            lambda: {"op": "finish", "w": rng.choice(WORKERS), "id": i, "err": rng.choice(["none", "err"])},
            lambda: {"op": "runloop"}, lambda: {"op": "runloop"},
            lambda: {"op": "tick"},
            lambda: {"op": "watchdog"},
            lambda: {"op": "stats"},
            lambda: {"op": "disconnect", "w": rng.choice(WORKERS)}]
    if restart:
        pool.append(lambda: {"op": "restart"})
    ops = [A()]
    while len(ops) < length:
        ops.append(rng.choice(pool)())
    return ops


def gen_restart_empty(rng, length, **_):
    """Directed profile: the server is stopped when every job it ever had has been collected
    (id2job empty, counter > 0) - possibly after an earlier stop that saved a non-empty queue -
    and started again: nothing of the past may come back and no id may be issued twice."""
    ids = JOBIDS[:rng.choice([1, 2])]
    ch = rng.choice(CHANNELS)
    A = lambda i: {"op": "add", "id": i, "ch": ch, "prio": rng.choice([0, 1]), "tmo": 100, "ttl": 100}
    ops = []
    if rng.random() < 0.6:
        ops += [A(ids[0]), {"op": "restart"}]                # an older save with a live job in it
    ops += [A(i) for i in ids]
    for i in ids:
        if rng.random() < 0.5:
            ops.append({"op": "kill", "k": "admin", "id": i})
        else:
            w = rng.choice(WORKERS)
            ops += [{"op": "pull", "w": w, "chs": []}, {"op": "runloop"},
                    {"op": "finish", "w": w, "id": i, "err": rng.choice(["none", "err"])}]
    for i in ids:
        ops += [{"op": "drop", "id": i}, {"op": "wait", "c": "k1", "id": i}, {"op": "runloop"}]
    ops.append({"op": "restart"})
    tail = [lambda: A(rng.choice(JOBIDS)), lambda: {"op": "pull", "w": rng.choice(WORKERS), "chs": []},
            lambda: {"op": "runloop"}, lambda: {"op": "restart"}, lambda: {"op": "stats"}]
    while len(ops) < length:
        ops.append(rng.choice(tail)())
    return ops


def gen_restart_order(rng, length, **_):
    """Directed profile: several jobs of one priority in one channel, one of them killed and its
    id used again (the newest job now sits at an OLD position of the id table), then a restart,
    then the workers pull one by one: the order after the restart is still priority, then age."""
    ch = rng.choice(CHANNELS)
    p = rng.choice([0, 1])
    ids = JOBIDS[:rng.choice([2, 3, 4])]
    A = lambda i: {"op": "add", "id": i, "ch": ch, "prio": p, "tmo": 100, "ttl": 100}
    ops = [A(i) for i in ids]
    for i in rng.sample(ids, rng.choice([1, 2])):
        ops += [{"op": "kill", "k": "admin", "id": i}, A(i)]
    ops.append({"op": "restart"})
    for w in WORKERS:
        ops += [{"op": "pull", "w": w, "chs": rng.choice([[], [ch]])}, {"op": "runloop"}]
    tail = [lambda: A(rng.choice(ids)), lambda: {"op": "restart"},
            lambda: {"op": "finish", "w": rng.choice(WORKERS), "id": rng.choice(ids), "err": "none"},
            lambda: {"op": "pull", "w": rng.choice(WORKERS), "chs": []}, lambda: {"op": "runloop"}]
    while len(ops) < length:
        ops.append(rng.choice(tail)())
    return ops


def gen_sequence(rng, length, *, restart=False, wait=False, extras=False, reconnect=True):
    r0 = rng.random()
    if r0 < 0.3:
        return gen_priority_stress(rng, length, restart=restart)
    if r0 < 0.4 and wait:
        return gen_id_reuse(rng, length, restart=restart)
    if r0 < 0.46 and wait and restart:
        return gen_restart_empty(rng, length)
    if r0 < 0.52 and restart:
        return gen_restart_order(rng, length)
    """A legal operation sequence (legality judged on a light shadow of connection states; the
    shadow never decides a verdict - an illegal op would merely be rejected as machinery error)."""
    ops = []
    # shadow: which workers are known idle; a pull makes the state unknown until the next runloop
    state = {w: "idle" for w in WORKERS}          # idle | maybe | closed
    held = {w: set() for w in WORKERS}            # ids possibly held (superset)
    ids_used = []
    n = 0
    while n < length:
        r = rng.random()
        idle = [w for w in WORKERS if state[w] == "idle"]
        if r < 0.24:
            pool = JOBIDS[:min(len(JOBIDS), len(set(ids_used)) + 1)]
            i = rng.choice(pool)
            ids_used.append(i)
            ops.append({"op": "add", "id": i, "ch": rng.choice(CHANNELS), "prio": rng.choice([0, 1]),
                        "tmo": rng.choice([1, 100, 100]), "ttl": 100})
        elif r < 0.46 and idle:
            w = rng.choice(idle)
            chs = rng.choice([[], ["c1"], ["c2"]])
            ops.append({"op": "pull", "w": w, "chs": chs})
            state[w] = "maybe"
            held[w] |= set(JOBIDS)
        elif r < 0.60:
            ops.append({"op": "runloop"})
            for w in WORKERS:
                if state[w] == "maybe":
                    state[w] = "unknown"
        elif r < 0.70 and idle and ids_used:
            w = rng.choice(idle)
            ops.append({"op": "finish", "w": w, "id": rng.choice(ids_used), "err": rng.choice(["none", "none", "err"])})
        elif r < 0.76 and ids_used:
            ops.append({"op": "kill", "k": "admin", "id": rng.choice(ids_used)})
        elif r < 0.82:
            ops.append({"op": "tick"})
        elif r < 0.90:
            cand = [w for w in WORKERS if state[w] in ("idle", "maybe", "unknown")]
            if cand:
                w = rng.choice(cand)
                ops.append({"op": "disconnect", "w": w})
                state[w] = "closing"
        elif r < 0.93 and reconnect:
            cand = [w for w in WORKERS if state[w] == "closed"]
            if cand:
                w = rng.choice(cand)
                ops.append({"op": "connect", "w": w})
                state[w] = "idle"
        elif r < 0.95:
            ops.append({"op": "stats"})
        elif r < 0.975 and restart:
            ops.append({"op": "restart"})
            state = {w: "idle" for w in WORKERS}
        elif wait and ids_used:
            ops.append({"op": "wait", "c": "k1", "id": rng.choice(ids_used)})
        elif extras and ids_used:
            k = rng.choice(["setinfo", "drop", "watchdog"])
            ops.append({"op": k, "id": rng.choice(ids_used)} if k != "watchdog" else {"op": "watchdog"})
        else:
            continue
        n += 1
    return ops


def legalise(ops):
    """Resolve the shadow's uncertainty online is not possible before running, so the recorder
    (record()) skips operations that are illegal in the real state at the time they are submitted."""
    return ops


def record(ops, policy_seed=0):
    """Run ops on the real server; returns (events, errors, executed_ops).  Operations that are
    not legal in the current real state (pull / finish on a connection that is not idle, wait while
    waiting, connect on an open connection, a 3rd setinfo) are skipped."""
    from . import qsdriver
    rng = random.Random(policy_seed)
    # every other recording restarts through the server's own save / load (Main.savedb / loaddb on a
    # data directory that lives as long as the recording), the others through pickle in memory
    d = qsdriver.Driver(workers=WORKERS, clients=CLIENTS,
                        policy=lambda serial, workers: workers[rng.randrange(len(workers))],
                        restart_via_file=(policy_seed % 2 == 0))
    executed = []
    batch = []
    inbatch = set()

    def flush(drain=True):
        # a batch boundary lets the hub run, which delivers every pending callback: it IS a run
        # of the event loop, so it is always recorded as one (drain + "quiet" event)
        nonlocal batch, inbatch
        if batch:
            d.run_batch(batch)
            if drain:
                d.drain()
        batch = []
        inbatch = set()

    for op in ops:
        k = op["op"]
        if k == "runloop":
            flush(drain=False)
            d.drain()
            executed.append(op)
            continue
        if k == "restart":
            flush(drain=False)
            d.restart()
            executed.append(op)
            continue
        w = op.get("w") if k != "wait" else None
        if w is not None:
            c = d.conns[w]
            if w in inbatch:              # one operation per connection and batch: its state is known
                flush()
            st = c.state
            if k in ("pull", "finish") and st != "idle":
                continue
            if k == "disconnect" and st not in ("idle", "blocked"):
                continue
            if k == "connect" and st != "closed":
                continue
            inbatch.add(w)
        if k == "wait":
            if "k1" in inbatch:
                flush()
            if d.cl[op["c"]].waiting or d.cl[op["c"]].in_wait:
                continue
            inbatch.add("k1")
        if k in ("tick", "watchdog", "connect"):
            # the server-internal loops are one pseudo-connection: once per batch
            if "svc" in inbatch:
                flush()
            inbatch.add("svc")
        if k == "setinfo":
            flush()
            j = d.wq.id2job.get(op["id"])
            if j is not None and len(j.info) >= 2:
                continue
        if sum(1 for o in batch if o["op"] in ("add", "setinfo", "drop", "stats", "kill")) >= 10:
            flush()
        batch.append(op)
        executed.append(op)
    flush(drain=False)
    d.drain()
    ev, er = d.events, d.errors
    d.close()
    return normalise(ev), er, executed


DEFAULTS = {"finish": {"error": False}, "setinfo": {"error": False}, "wait": {"error": False, "blocked": False}}


def normalise(events):
    out = []
    for e in events:
        e = {k: v for k, v in e.items() if k != "_seq"}
        for k, v in DEFAULTS.get(e["op"], {}).items():
            e.setdefault(k, v)
        if "post" not in e:
            raise RuntimeError("event without post state: %r" % (e,))
        out.append(e)
    return out


# ----------------------------------------------------------------------------- validation
def trace_cfg(invs, props, deadlock=False):
    return ("SPECIFICATION TraceSpec\n" +
            const_block(WORKERS, CHANNELS, JOBIDS, CLIENTS, maxjobs=1000, maxtime=100000, restart=True, wait=True,
                        info=True, drop=True, reconnect=True, atomic=False, anyorder=True, anydeadline=True,
                        killers=['"admin"'] + ['"%s"' % w for w in WORKERS]) +
            "INVARIANTS " + " ".join(list(invs) + ([] if deadlock else ["EmitConsumed"])) + "\n" +
            ("PROPERTIES " + " ".join(props) + "\n" if props else "") +
            "CHECK_DEADLOCK %s\n" % ("TRUE" if deadlock else "FALSE"))


def _locate(ctx, trace, invs, props, name):
    """Where does a rejected trace stop?  Re-run it alone with deadlock checking on: the deepest
    event index any branch reaches (TLC reports the first dead end; good enough as a pointer)."""
    path = os.path.join(ctx.scratch, "%s-one.json" % name)
    with open(path, "w") as f:
        json.dump([trace], f)
    res = tlc.run(ctx, "WorkQTrace", trace_cfg(invs, props, deadlock=True), name=name + "_one",
                  env={"TRACE_FILE": path}, timeout=600, workers=1, allow_timeout=True)
    st = res.trace[-1][1] if res.trace else {}
    try:
        l = int(st.get("l", "1"))
    except ValueError:
        l = 1
    return res, l, st


def validate(ctx, traces, invs, props, name="trace", max_rounds=6):
    """TLC-validate a batch of traces.  Returns (n_accepted, rejections, states, generated); a
    rejection is {index, event_index, kind, name, event, spec_state}.  A trace is accepted iff some
    branch of the trace specification consumes it completely with every invariant / property
    holding; a trace on which TLC reports a violated invariant or property is taken out and the
    rest re-validated."""
    idx = list(range(len(traces)))
    rejections = []
    states = 0
    generated = 0
    for rnd in range(max_rounds):
        if not idx:
            break
        path = os.path.join(ctx.scratch, "%s-%d.json" % (name, rnd))
        with open(path, "w") as f:
            json.dump([traces[i] for i in idx], f)
        res = tlc.run(ctx, "WorkQTrace", trace_cfg(invs, props), name="%s_r%d" % (name, rnd),
                      env={"TRACE_FILE": path}, timeout=1800, workers=ctx.ncpu)
        states += res.distinct
        generated += res.generated
        if res.ok:
            consumed = {e["consumed"] for e in res.emitted if isinstance(e, dict) and "consumed" in e}
            missing = [k for k in range(1, len(idx) + 1) if k not in consumed]
            for k in missing[:8]:
                real = idx[k - 1]
                tr = traces[real]
                one, l, st = _locate(ctx, tr, invs, props, "%s_%d_%d" % (name, rnd, k))
                evi = max(0, min(l - 1, len(tr) - 1))
                rejections.append({"index": real, "event_index": evi, "kind": "deadlock", "name": None,
                                   "event": {a: b for a, b in tr[evi].items() if a != "post"}, "spec_state": st})
            return len(idx) - len(missing), rejections, states, generated
        if res.kind not in ("invariant", "property"):
            ctx.machinery("trace validation failed without a verdict: %s %s\n%s" % (res.kind, res.message, res.out[-1500:]))
        lastst = res.trace[-1][1] if res.trace else {}
        try:
            tid = int(lastst["tid"])
            l = int(lastst["l"])
        except (KeyError, ValueError):
            ctx.machinery("cannot locate the rejected trace in TLC's output:\n" + res.out[-1500:])
        real = idx[tid - 1]
        tr = traces[real]
        evi = max(0, min(l - 2, len(tr) - 1))           # the state after event l-1 violates the property
        rejections.append({"index": real, "event_index": evi, "kind": res.kind, "name": res.name,
                           "event": {k: v for k, v in tr[evi].items() if k != "post"},
                           "spec_state": lastst})
        idx.remove(real)
    return len(idx), rejections, states, generated


def diagnose(ctx, trace, invs, props):
    """Re-run one rejected trace with every post-state conjunct wrapped in Assert: returns the name
    of the first conjunct that fails ("waiters", "heaps", ...) or "" (the action itself was not
    enabled / a property failed)."""
    path = os.path.join(ctx.scratch, "diag.json")
    with open(path, "w") as f:
        json.dump([trace], f)
    try:
        res = tlc.run(ctx, "WorkQTrace", trace_cfg(invs, props, deadlock=True), name="diag", env={"TRACE_FILE": path, "DIAG": "1"},
                      timeout=300, workers=1, allow_timeout=True)
    except Exception:                      # noqa: BLE001  diagnosis is a hint only
        return ""
    m = re.search(r'"post-state differs in", "(\w+)"', res.out)
    return m.group(1) if m else ""
