"""Beyond the listed properties: spec/Front.tla bound to mwlib.core.nserve (WatchQServe,
Application.dispatch, choose_idle_qserve, collid2qserve) by P-REPLAY: every behaviour TLC
enumerates (exhaustively to a small length, by simulation to a longer one) is stepped through the
real classes; after each step the observable outcome (busy table entry, log line, proxy creation;
response class, queue server used, is_new) is compared with the one recorded in the behaviour."""
import json
import logging

from . import tlc

SERVERS = {"s1": ("qs-one", 14311), "s2": ("qs-two", 14312)}
COLLS = {"c1": "http://wiki-one.example/w/", "c2": "http://wiki-two.example/w/"}


def cfg(maxlen, emit=True, hazard=False):
    return ("SPECIFICATION Spec\nCONSTANTS\n  Servers = {%s}\n  Colls = {%s}\n  MaxLen = %d\n  EmitCases = %s\n"
            "INVARIANTS TypeOK Sticky OverloadedOnlyUnassigned NeverChosenBeforeFirstReport ProxyRenewed EmitFull%s\n"
            "CHECK_DEADLOCK FALSE\n" % (", ".join('"%s"' % s for s in sorted(SERVERS)), ", ".join('"%s"' % c for c in sorted(COLLS)),
                                        maxlen, "TRUE" if emit else "FALSE", " NeverSentToDown" if hazard else ""))


class Params(dict):
    """what bottle hands to dispatch: a dict-like object that also has a __dict__"""


def replay(hist):
    """Step one behaviour through the real nserve; returns None or a description of the first difference."""
    import gevent
    import gevent.queue
    import random
    from bottle import HTTPResponse
    from mwlib.core import nserve
    from mwlib.utils import lrucache
    logging.getLogger("mwlib.serve").setLevel(logging.CRITICAL)

    nserve.busy.clear()
    nserve.collid2qserve = lrucache.LRUCache(4000)
    created = {s: 0 for s in SERVERS}
    fresh = {s: False for s in SERVERS}
    used_fresh = {s: False for s in SERVERS}
    logs = {s: [] for s in SERVERS}
    feed = {s: gevent.queue.Queue() for s in SERVERS}
    slept = {s: gevent.queue.Queue() for s in SERVERS}
    name_of = {v: k for k, v in SERVERS.items()}

    class Proxy:
        def __init__(self, s):
            self.s = s

        def getstats(self):
            o = feed[self.s].get()
            used_fresh[self.s] = fresh[self.s]          # was the proxy made for this very iteration?
            fresh[self.s] = False
            if o == "fail":
                raise ConnectionError("connection refused")
            if o == "timeout":
                raise gevent.Timeout(3.0)
            return {"busy": {"render": 11 if o == "many" else 10, "makezip": 50}, "count": 1, "numjobs": 1}

    class Watcher(nserve.WatchQServe):
        getstats_timeout = 10 ** 6          # the harness decides when an answer arrives

        def _serverproxy(self):
            fresh[name_of[self.ident]] = True
            created[name_of[self.ident]] += 1
            return Proxy(name_of[self.ident])

        def log(self, msg):
            logs[name_of[self.ident]].append(msg)

        def _sleep(self):
            if stopping:
                raise gevent.GreenletExit()      # (_getstats turns a kill into "system down": end the loop here)
            slept[name_of[self.ident]].put(1)

    class App(nserve.Application):
        def do_probe(self, collection_id, post_data, is_new=False):
            c = self.qserve.get_client()
            return {"via": name_of.get((c.host, c.port), "%s:%s" % (c.host, c.port)), "is_new": is_new, "cid": collection_id}

        def do_boom(self, collection_id, post_data, is_new=False):
            raise ValueError("the command failed")

    stopping = []
    greenlets = [gevent.spawn(Watcher(SERVERS[s], nserve.busy)) for s in sorted(SERVERS)]
    gevent.sleep(0)                          # every watcher announces itself (busy[ident] = True) and asks for stats
    want = {"n": None}
    saved_choice = random.choice

    def choice(seq):
        seq = list(seq)
        if want["n"] is not None and SERVERS.get(want["n"]) in seq:
            return SERVERS[want["n"]]
        return seq[0]

    random.choice = choice
    cids = {}
    try:
        for k, h in enumerate(hist):
            if h["a"] == "watch":
                s = h["s"]
                before_created, before_logs = created[s], len(logs[s])
                feed[s].put(h["o"])
                slept[s].get(timeout=10)
                gevent.sleep(0)
                val = nserve.busy.get(SERVERS[s], "absent")
                now = {False: "idle", True: "init", "system overloaded": "overloaded", "system down": "down"}.get(val, repr(val))
                new_logs = logs[s][before_logs:]
                lg = "none"
                for m in new_logs:
                    if m == "resuming operation":
                        lg = "resuming"
                    elif m == "system overloaded":
                        lg = "overloaded"
                    elif m == "system down":
                        lg = "down"
                got = {"now": now, "created": used_fresh[s], "log": lg}
                exp = {"now": h["now"], "created": h["created"], "log": h["log"]}
                if got != exp:
                    return "step %d %s: observed %s, specification %s" % (k + 1, json.dumps({x: h[x] for x in ("a", "s", "o")}), got, exp)
            elif h["a"] == "req":
                c = h["c"]
                p = Params(command="boom" if h["boom"] else "probe", base_url=COLLS[c], writer="rl",
                           metabook=json.dumps({"type": "collection", "title": c, "items": []}))
                if not h["new"]:
                    if c not in cids:
                        cids[c] = nserve.make_collection_id(p)
                    p["collection_id"] = cids[c]
                want["n"] = h["via"] if h["via"] != "none" else None
                req = type("Req", (), {"params": p, "url": "http://render/"})()
                try:
                    r = App().dispatch(req)
                except HTTPResponse as e:
                    r = {"http": e.status_code}
                if "via" in r:
                    got = {"resp": "ok", "via": r["via"], "is_new": r["is_new"]}
                    cids.setdefault(c, r["cid"])
                    if cids[c] != r["cid"]:
                        got["cid"] = "differs from the first id of this collection"
                elif r.get("queue_full"):
                    got = {"resp": "overloaded", "via": "none", "is_new": h["new"]}
                elif "error" in r and "the command failed" in r["error"]:
                    try:
                        cur = nserve.collid2qserve[cids.get(c) or nserve.make_collection_id(p)]
                    except KeyError:
                        cur = None
                    got = {"resp": "error", "via": name_of.get(cur, "none"), "is_new": h["new"]}
                else:
                    got = {"resp": repr(r)[:120], "via": "?", "is_new": h["new"]}
                exp = {"resp": h["resp"], "via": h["via"], "is_new": h["new"]}
                if got != exp:
                    return "step %d %s: observed %s, specification %s" % (k + 1, json.dumps({x: h[x] for x in ("a", "c", "new", "boom")}), got, exp)
            else:
                p = Params(command="probe", collection_id="0123456789abcdef")
                if h["k"] == "nocommand":
                    del p["command"]
                elif h["k"] == "unknown":
                    p["command"] = "no_such_command"
                else:
                    p["collection_id"] = "../../etc/passwd"
                req = type("Req", (), {"params": p, "url": "http://render/"})()
                try:
                    r = App().dispatch(req)
                    got = repr(r)[:100]
                except HTTPResponse as e:
                    got = e.status_code
                if got != h["status"]:
                    return "step %d bad request %s: observed %r, specification HTTP %s" % (k + 1, h["k"], got, h["status"])
    finally:
        random.choice = saved_choice
        stopping.append(1)
        for s in SERVERS:
            feed[s].put("fail")
        gevent.joinall(greenlets, timeout=5)
        gevent.killall(greenlets, block=False)
    return None


def check(ctx, quick):
    depth = 3 if quick else 4
    res = tlc.run(ctx, "Front", cfg(depth), name="front_bfs", timeout=1800, coverage=True, heap="8g")
    if not res.ok:
        ctx.machinery("Front.tla violates %s %s\n%s" % (res.kind, res.name, res.out[-1200:]))
    missing = tlc.uncovered_actions(res, ["DoWatch", "DoRequest", "DoBad"])
    if missing:
        ctx.machinery("actions never taken in Front.tla: %s" % missing)
    hz = tlc.run(ctx, "Front", cfg(4, emit=False, hazard=True), name="front_hazard", timeout=600)
    if not (hz.kind == "invariant" and hz.name == "NeverSentToDown"):
        ctx.machinery("Front.tla: the no-fail-over hazard run should violate NeverSentToDown, got %s %s" % (hz.kind, hz.name))
    n = 1500 if quick else 12000
    sim = tlc.run(ctx, "Front", cfg(10), name="front_sim", simulate=max(1, n // 8), depth=11, seed=ctx.seed + 1,
                  timeout=900, workers=1)
    if not sim.ok:
        ctx.machinery("Front.tla (simulation) violates %s %s" % (sim.kind, sim.name))
    cases = [c["hist"] for c in res.emitted] + [c["hist"] for c in sim.emitted]
    bad = 0
    import contextlib
    import io
    for h in cases:
        try:
            # dispatch prints every new collection id and the traceback of a failing command
            with contextlib.redirect_stdout(io.StringIO()), contextlib.redirect_stderr(io.StringIO()):
                d = replay(h)
        except Exception as e:                                   # noqa: BLE001
            d = "the replay harness saw %r" % (e,)
        if d:
            bad += 1
            if bad <= 3:
                ctx.drift("Front", "mwlib.core.nserve does not follow Front.tla: " + d, {"hist": h, "difference": d})
    ctx.cover(states=res.distinct + sim.distinct, transitions=res.generated + sim.generated,
              traces_validated_against_impl=len(cases) - bad)
    ctx.set_cover(front_behaviours_replayed=len(cases), front_behaviours_exhaustive_length=depth,
                  front_behaviours_simulated=len(sim.emitted), front_behaviours_differing=bad,
                  front_no_failover_hazard=[hz.kind, hz.name])
    if cases:
        ctx.sample({"kind": "Front.tla behaviour replayed into nserve.WatchQServe / Application.dispatch", "hist": cases[-1]})
