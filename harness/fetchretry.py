"""Beyond the listed properties: spec/FetchRetry.tla and spec/RateLimit.tla bound to
mwlib.network.sapi (MwApi._fetch + mwlib.network.api; RateLimiter) by P-REPLAY over a scripted
http client and a virtual clock (sapi.time is replaced while a behaviour is replayed)."""
import logging

from . import tlc

TICK = 0.125


def retry_cfg(emit=True):
    return ("SPECIFICATION Spec\nCONSTANTS\n  MaxRetriesSet = {0, 1, 2, 3}\n  MaxDelaySet = {0, 3}\n  EmitCases = %s\n"
            "INVARIANTS TypeOK SendsBounded SleepBetweenSends NoRetryOfClientErrors Backoff Capped LastWins EmitTerminal\n"
            "CHECK_DEADLOCK FALSE\n" % ("TRUE" if emit else "FALSE"))


def limit_cfg(maxcalls, ncalls, emit=True):
    return ("SPECIFICATION Spec\nCONSTANTS\n  MaxCalls = %d\n  Period = 8\n  Gaps = {0, 3, 8, 11}\n  NCalls = %d\n  EmitCases = %s\n"
            "INVARIANTS SlidingWindow NoNeedlessWait Ordered EmitFull\nCHECK_DEADLOCK FALSE\n"
            % (maxcalls, ncalls, "TRUE" if emit else "FALSE"))


class Clock:
    def __init__(self):
        self.t = 0.0
        self.sleeps = []

    def monotonic(self):
        return self.t

    def time(self):
        return 1000.0 + self.t

    def sleep(self, d):
        self.sleeps.append(d)
        self.t += d


def replay_fetch(case, api):
    import httpx
    from mwlib.network import sapi
    clock = Clock()
    ops = []
    script = list(case["env"])
    url = "http://wiki.example.org/w/api.php?action=query"

    class Client:
        headers = {}

        def _answer(self, method, url):
            ops.append({"op": "send"})
            if clock.sleeps:
                pass
            o = script.pop(0) if script else "ok"
            req = httpx.Request(method, url)
            if o == "ok":
                return httpx.Response(200, content=b"content", request=req)
            if o.startswith("h"):
                return httpx.Response(int(o[1:]), content=b"nope", request=req)
            if o == "timeout":
                raise httpx.ReadTimeout("read timed out", request=req)
            if o == "protocol":
                raise httpx.LocalProtocolError("h2 stream reset")
            if o == "url":
                raise httpx.ConnectError("name resolution failed", request=req)
            raise ValueError("something else went wrong")

        def get(self, url, headers=None):
            return self._answer("GET", url)

        def post(self, url, data=None, headers=None):
            return self._answer("POST", url)

    saved_client, saved_time = api.http_client, sapi.time
    api.http_client, sapi.time = Client(), clock
    n_before = 0
    try:
        kw = dict(max_retries=case["mr"], method=case["method"])
        if case["md"]:
            kw["max_delay"] = case["md"]
        if case["method"] == "POST":
            kw["data"] = b"x=1"
        real_ops = ops
        try:
            orig_sleep = clock.sleep

            def sleep(d):
                real_ops.append({"op": "sleep", "d": d})
                orig_sleep(d)
            clock.sleep = sleep
            r = api._fetch(url, **kw)
            out = "content" if r == b"content" else "returned %r" % (r,)
        except httpx.HTTPStatusError as e:
            out = "h%d" % e.response.status_code
        except httpx.ReadTimeout:
            out = "timeout"
        except httpx.LocalProtocolError:
            out = "protocol"
        except httpx.RequestError:
            out = "url"
        except ValueError:
            out = "other"
    finally:
        api.http_client, sapi.time = saved_client, saved_time
    exp_ops = [dict(o) for o in case["ops"]]
    if out != case["out"] or [o["op"] for o in ops] != [o["op"] for o in exp_ops] or \
            any(abs(a.get("d", 0) - b.get("d", 0)) > 1e-9 for a, b in zip(ops, exp_ops)):
        return "observed %s -> %s, specification %s -> %s" % (ops, out, exp_ops, case["out"])
    return None


def replay_limit(case, maxcalls):
    from mwlib.network import sapi
    clock = Clock()
    saved = sapi.time
    sapi.time = clock
    try:
        lim = sapi.RateLimiter(max_calls=maxcalls, period=1.0)
        grants, sleeps = [], []
        for g in case["gaps"]:
            clock.t += g * TICK
            clock.sleeps = []
            lim.acquire()
            grants.append(clock.t / TICK)
            sleeps.append([s / TICK for s in clock.sleeps])
    finally:
        sapi.time = saved
    if any(abs(a - b) > 1e-9 for a, b in zip(grants, case["grants"])) or \
            [[round(x, 9) for x in s] for s in sleeps] != [[float(x) for x in s] for s in case["sleeps"]]:
        return "gaps %s (ticks of 1/8 s): granted at %s after sleeps %s, specification %s / %s" % (
            case["gaps"], grants, sleeps, case["grants"], case["sleeps"])
    return None


def check(ctx, quick):
    from mwlib.network import sapi
    logging.getLogger("mwlib.network.sapi").setLevel(logging.CRITICAL)
    sapi.logger.setLevel(logging.CRITICAL)
    res = tlc.run(ctx, "FetchRetry", retry_cfg(), name="fetchretry", timeout=900, coverage=True, heap="4g")
    if not res.ok:
        ctx.machinery("FetchRetry.tla violates %s %s\n%s" % (res.kind, res.name, res.out[-1200:]))
    missing = tlc.uncovered_actions(res, ["Send", "Sleep"])
    if missing:
        ctx.machinery("actions never taken in FetchRetry.tla: %s" % missing)
    api = sapi.MwApi("http://wiki.example.org/w/api.php")
    bad = 0
    for c in res.emitted:
        try:
            d = replay_fetch(c, api)
        except Exception as e:                                   # noqa: BLE001
            d = "the replay harness saw %r" % (e,)
        if d:
            bad += 1
            if bad <= 3:
                ctx.drift("FetchRetry", "MwApi._fetch(max_retries=%s, max_delay=%s, %s) does not follow FetchRetry.tla for answers %s: %s"
                          % (c["mr"], c["md"] or None, c["method"], c["env"], d), {"case": c, "difference": d})
    total = len(res.emitted)
    states, trans = res.distinct, res.generated
    lbad = 0
    ltotal = 0
    for maxcalls, ncalls in ((1, 5), (2, 6), (3, 6)) if quick else ((1, 7), (2, 8), (3, 8), (4, 8)):
        r = tlc.run(ctx, "RateLimit", limit_cfg(maxcalls, ncalls), name="ratelimit%d" % maxcalls, timeout=900, heap="4g")
        if not r.ok:
            ctx.machinery("RateLimit.tla violates %s %s\n%s" % (r.kind, r.name, r.out[-1200:]))
        states += r.distinct
        trans += r.generated
        for c in r.emitted:
            ltotal += 1
            try:
                d = replay_limit(c, maxcalls)
            except Exception as e:                               # noqa: BLE001
                d = "the replay harness saw %r" % (e,)
            if d:
                lbad += 1
                if lbad <= 3:
                    ctx.drift("RateLimit", "sapi.RateLimiter(max_calls=%d, period=1.0) does not follow RateLimit.tla: %s" % (maxcalls, d),
                              {"case": c, "maxcalls": maxcalls, "difference": d})
    ctx.cover(states=states, transitions=trans, traces_validated_against_impl=total - bad + ltotal - lbad)
    ctx.set_cover(fetchretry_behaviours_replayed=total, fetchretry_behaviours_differing=bad,
                  ratelimit_behaviours_replayed=ltotal, ratelimit_behaviours_differing=lbad)
    if res.emitted:
        ctx.sample({"kind": "FetchRetry.tla behaviour replayed into MwApi._fetch", "case": res.emitted[len(res.emitted) // 2]})
