"""Shared recorder for C05 / C06 / C07: drives the tree cleaner pass by pass and records one
snapshot per pass for spec/CleanerTrace.tla.

The passes are called DIRECTLY — getattr(tc, name)(tree) for each name of
TreeCleaner.cleaner_methods on one TreeCleaner(tree, save_reports=True) — never through
clean()/clean_all(), whose catch-all hides exceptions; after a pass that raised the driver goes on
with the next one exactly as clean() would.
"""
import json
import os
import re
import signal
import sys
import traceback

FIXED_POINT = ("fix_paragraphs", "fix_nesting", "remove_breaking_returns")
# treecleaner.py:87-146 at the pinned revision (the same list is CleanerMethods in CleanerTrace.tla)
DOCUMENTED_ORDER = [
    "clean_vlist", "mark_infoboxes", "remove_edit_links", "remove_empty_text_nodes", "remove_invisible_links",
    "clean_section_captions", "remove_childless_nodes", "remove_no_print_nodes", "remove_list_only_paragraphs",
    "remove_invalid_file_types", "fix_paragraphs", "simplify_block_nodes", "remove_absolute_positioned_node",
    "remove_scroll_elements", "gallery_fix", "fix_region_list_tables", "remove_train_templates", "fix_nesting",
    "remove_childless_nodes", "unnest_ending_cell_content", "remove_critical_tables", "remove_textless_styles",
    "remove_broken_children", "fix_table_colspans", "remove_empty_training_table_rows", "split_table_lists",
    "transform_single_col_tables", "split_table_to_columns", "linearize_wide_nested_tables", "remove_breaking_returns",
    "remove_empty_ref_lists", "swap_nodes", "remove_big_sections_from_cells", "transform_nested_tables",
    "split_big_table_cells", "limit_image_caption_size", "remove_dup_links_in_refs", "fix_item_lists", "fix_sub_sup",
    "remove_leading_para_in_list", "remove_childless_nodes", "remove_new_lines", "remove_breaking_returns",
    "remove_see_also", "build_def_lists", "restrict_children", "fix_reference_nodes", "remove_broken_children",
    "fix_math_dir", "fix_nesting", "fix_preformatted", "fix_list_nesting", "handle_only_in_print",
    "remove_empty_text_nodes", "remove_childless_nodes", "remove_breaking_returns", "remove_empty_sections",
    "mark_short_paragraph"]
CALL_CAP = 20_000_000         # deterministic cap per pass: CALL_CAP + CALL_CAP_PER_NODE * nodes profiled calls
CALL_CAP_PER_NODE = 100_000   # (normal: < 100 calls per node; fix_nesting's deepcopies: 2*10^4 per node, 1.9*10^6 in all, observed maxima over 23 000 documents)
_TRIPPED = set()              # passes that exceeded the budget in this process: later documents use a
                              # 200x smaller cap for THAT pass only (same violation key; keeps a failing run short)
WATCHDOG_S = 180              # hang detector only (normal: < 2 s per pass); verdicts come from the call budget


class Budget(BaseException):
    """raised inside a pass when it exceeds its call budget or the watchdog fires"""


# ------------------------------------------------------------------ projection
def nodes_preorder(root):
    """distinct objects reachable through the children lists, preorder; terminates on cycles"""
    order, index = [], {}
    stack = [root]
    while stack:
        n = stack.pop()
        if id(n) in index:
            continue
        index[id(n)] = len(order) + 1
        order.append(n)
        kids = getattr(n, "children", None) or []
        for c in reversed(kids):
            if id(c) not in index:
                stack.append(c)
    return order, index


def project(root):
    order, index = nodes_preorder(root)
    n = len(order)
    cls, par, kids, text = [], [], [], []
    for node in order:
        cls.append(node.__class__.__name__)
        p = getattr(node, "parent", None)
        par.append(0 if p is None else index.get(id(p), n + 1))
        kids.append([index[id(c)] for c in (node.children or [])])
        text.append(node.__class__.__name__ == "Text")
    return {"n": n, "cls": cls, "par": par, "kids": kids, "text": text, "words": words_of(root, index)}


def words_of(root, index):
    """visible words in reading order with their coarse place (C07)"""
    res = []
    refs = {}
    seen = set()

    def place(node):
        sec, li, ref = [], [], 0
        chain = []
        n = node
        guard = 0
        while n is not None and guard < 10000:
            chain.append(n)
            n = getattr(n, "parent", None)
            guard += 1
        for a in reversed(chain):
            c = a.__class__.__name__
            if c == "Section":
                sec.append(int(getattr(a, "level", 0) or 0))
            elif c == "Item":
                p = getattr(a, "parent", None)
                if p is not None and p.__class__.__name__ == "ItemList":
                    li.append("ol" if getattr(p, "numbered", False) else "ul")
                else:
                    li.append("item?")
            elif c == "Reference":
                ref = refs.setdefault(id(a), len(refs) + 1)
        return sec, li, ref

    def walk(n):
        if id(n) in seen:
            return
        seen.add(id(n))
        c = n.__class__.__name__
        if c == "Text":
            pieces = (n.caption or "").split()
            if pieces:
                sec, li, ref = place(n)
                for w in pieces:
                    res.append({"w": w, "sec": sec, "li": li, "ref": ref, "node": index[id(n)]})
            return
        if c in ("ArticleLink", "NamespaceLink") and not n.children and getattr(n, "target", None):
            sec, li, ref = place(n)
            for w in n.target.split():
                res.append({"w": w, "sec": sec, "li": li, "ref": ref, "node": index[id(n)]})
        for ch in (n.children or []):
            walk(ch)

    walk(root)
    return res


def attr_digest(root):
    """attributes that passes set without changing the tree shape (clean_vlist, mark_infoboxes,
    mark_short_paragraph, fix_table_colspans ...); used only to tell whether a pass did something"""
    order, _ = nodes_preorder(root)
    out = []
    for n in order:
        v = getattr(n, "vlist", None)
        out.append((repr(sorted(v.items(), key=repr)) if isinstance(v, dict) and v else "",
                    bool(getattr(n, "isInfobox", False)), bool(getattr(n, "short_paragraph", False)),
                    bool(getattr(n, "force_tablesplit", False)), bool(getattr(n, "compact", False))))
    return hash(tuple(out))


def canon(root):
    """identity-free form of a tree (for the fixed-point test)"""
    out = []
    seen = set()

    def walk(n, d):
        if id(n) in seen or d > 2000:
            out.append("<again>")
            return
        seen.add(id(n))
        out.append("(" + n.__class__.__name__)
        if n.__class__.__name__ == "Text":
            out.append(repr(n.caption))
        for c in (n.children or []):
            walk(c, d + 1)
        out.append(")")

    walk(root, 0)
    return "".join(out)


# ------------------------------------------------------------------ running one pass
def _innermost_mwlib_frame(tb):
    where = "?"
    for fs in traceback.extract_tb(tb):
        fn = fs.filename.replace("\\", "/")
        if "/mwlib/" in fn:
            where = "%s:%s" % (fn.split("/mwlib/", 1)[1], fs.name)
    return where


def run_pass(tc, name, tree, cap=CALL_CAP):
    """-> (status, errkey, calls)"""
    calls = [0]

    def prof(frame, event, arg):
        if event == "call":
            calls[0] += 1
            if calls[0] > cap:
                sys.setprofile(None)
                raise Budget("call budget")

    def on_alarm(signum, frame):
        raise Budget("watchdog")

    old = signal.signal(signal.SIGPROF, on_alarm)
    signal.setitimer(signal.ITIMER_PROF, WATCHDOG_S)
    status, errkey = "ok", ""
    try:
        method = getattr(tc, name)
        sys.setprofile(prof)
        try:
            method(tree)
        finally:
            sys.setprofile(None)
    except Budget as e:
        status, errkey = "budget", "pass=%s %s" % (name, e)
    except RecursionError:
        status, errkey = "raised", "pass=%s exc=RecursionError" % name
    except MemoryError:
        status, errkey = "budget", "pass=%s memory budget" % name
    except Exception as e:                                           # noqa: BLE001
        status = "raised"
        m = re.search(r"has no attribute '(\w+)'", str(e)) if isinstance(e, AttributeError) else None
        errkey = "pass=%s exc=%s%s at=%s" % (name, type(e).__name__, "(%s)" % m.group(1) if m else "",
                                             _innermost_mwlib_frame(e.__traceback__))
    finally:
        signal.setitimer(signal.ITIMER_PROF, 0)
        signal.signal(signal.SIGPROF, old)
    return status, errkey, calls[0]


def is_stable(name, tree):
    """apply the pass once more to a copy; did the (identity-free) tree change?"""
    from mwlib.parser.treecleaner import TreeCleaner
    try:
        cp = tree.copy()
    except Exception:                                                # noqa: BLE001
        return True, "copy-failed"
    before = canon(cp)
    tc2 = TreeCleaner(cp, save_reports=False)
    status, errkey, _ = run_pass(tc2, name, cp)
    if status != "ok":
        return False, "second application: " + errkey
    return canon(cp) == before, ""


# ------------------------------------------------------------------ one document
def record(raw, lang="en", title="Verif", doc_id=0, lossless=False, cleaner=None, keep=None):
    """cleaner: a TreeCleaner that has already cleaned another article and is re-pointed at this one,
    as mwlib.writers.rl.writer does (self.tree_cleaner.tree = art; clean_all()) and as clean() does
    for the children of a Book; keep: a list that receives the cleaner used (for the next article)"""
    from mwlib.parser import advtree
    from mwlib.parser.refine.uparser import parse_string
    from mwlib.parser.treecleaner import TreeCleaner

    trace = {"id": doc_id, "lossless": bool(lossless), "truncated": False, "snaps": [], "raw": raw, "lang": lang,
             "calls": {}, "fired": [], "changed": [], "parse_error": ""}
    def on_alarm(signum, frame):
        raise Budget("parse watchdog")

    old = signal.signal(signal.SIGPROF, on_alarm)
    signal.setitimer(signal.ITIMER_PROF, WATCHDOG_S)
    try:
        tree = parse_string(title, raw=raw, lang=lang)
        advtree.build_advanced_tree(tree)
    except (Exception, Budget) as e:                                 # noqa: BLE001  (parsing is C01's business, not ours)
        trace["parse_error"] = "%s: %s" % (type(e).__name__, str(e)[:200])
        return trace
    finally:
        signal.setitimer(signal.ITIMER_PROF, 0)
        signal.signal(signal.SIGPROF, old)
    prev = project(tree)
    prev_attrs = attr_digest(tree)
    snap = dict(prev)
    snap.update({"pass": "build", "status": "ok", "stable": True, "errkey": "", "same": False})
    trace["snaps"].append(snap)
    if cleaner is None:
        tc = TreeCleaner(tree, save_reports=True)
    else:
        tc = cleaner
        tc.tree = tree
        del tc.reports[:]
    trace["reused_cleaner"] = cleaner is not None
    if keep is not None:
        keep.append(tc)
    trace["order"] = list(TreeCleaner.cleaner_methods)
    for name in TreeCleaner.cleaner_methods:
        nrep = len(tc.get_reports())
        cap = CALL_CAP + CALL_CAP_PER_NODE * prev["n"]
        try:
            status, errkey, calls = run_pass(tc, name, tree, cap=cap // 200 if name in _TRIPPED else cap)
            if status == "budget":
                _TRIPPED.add(name)
            stable, why = True, ""
            if name in FIXED_POINT and status == "ok":
                stable, why = is_stable(name, tree)
            cur = project(tree)
        except MemoryError:
            # the pass (or what it left behind) exhausted the worker's address space: the trace ends
            # here with a budget event; nothing after it can be observed
            import gc
            gc.collect()
            trace["snaps"].append({"pass": name, "status": "budget", "stable": True, "same": True,
                                   "errkey": "pass=%s memory budget" % name})
            trace["truncated"] = True
            break
        same = cur == prev
        cur_attrs = attr_digest(tree)
        if same and cur_attrs != prev_attrs:
            trace["changed"].append(name)          # attributes only: not part of the snapshot, but the pass acted
        prev_attrs = cur_attrs
        snap = {"pass": name, "status": status, "stable": bool(stable), "errkey": errkey or why, "same": same}
        if not same:
            snap.update(cur)
            trace["changed"].append(name)
        trace["snaps"].append(snap)
        trace["calls"].setdefault(name, []).append([prev["n"], calls])
        if len(tc.get_reports()) > nrep:
            trace["fired"].append(name)
        prev = cur
    trace["final_n"] = prev["n"]
    return trace


def for_tlc(trace):
    return {"id": trace["id"], "lossless": trace["lossless"], "truncated": bool(trace.get("truncated")),
            "order": trace.get("order") or DOCUMENTED_ORDER, "snaps": trace["snaps"]}


def write_batch(traces, path):
    with open(path, "w") as f:
        json.dump([for_tlc(t) for t in traces], f, separators=(",", ":"))
    return os.path.getsize(path)


# ====================================================================== shared pipeline
import concurrent.futures
import multiprocessing
import random

from . import tlc
from . import wikidoc as W
from .common import VERIF, chunks

DOC_CFG = """SPECIFICATION Spec
CONSTANTS
  MaxProd = %(maxprod)d
  MaxWords = %(maxwords)d
  MaxList = 3
  MaxTables = 2
  OrdinaryLists = %(ordinary)s
  Variants = %(variants)s
  Palette = %(palette)s
  Free = %(free)s
  NTargets = 4
  NAttrs = %(nattrs)d
  NDimProps = %(ndp)d
  NDimShapes = %(nds)d
  NReadProps = %(nrp)d
  NSnips = %(nsnips)d
  NCont = %(ncont)d
  NBlk = %(nblk)d
  NHost = %(nhost)d
  NestMode = %(nestmode)d
  NestWitness = {%(witness)s}
  NLex = %(nlex)d
  MaxLine = %(maxline)d
  MinOut = %(minout)d
  EmitDocs = TRUE
INVARIANTS WordsOnce DenOrder PathsOK CurPathOK DoneClosed PosOK EmitDoc
CHECK_DEADLOCK FALSE
"""

TOKENS_CFG = """SPECIFICATION Spec
CONSTANTS Alphabet = "markup"
 MaxLen = %(k)d
 MaxNest = 40
 EmitFrom = %(k)d
INVARIANTS TypeOK NestBounded EmitSeq
CHECK_DEADLOCK FALSE
"""

TRACE_CFG = """SPECIFICATION TraceSpec
CONSTANTS
  CheckC05 = %(c05)s
  CheckC06 = %(c06)s
  CheckC07 = %(c07)s
  KnownRaised = {%(known)s}
  KnownSteps = {%(steps)s}
INVARIANTS Complete
CHECK_DEADLOCK TRUE
"""


def baseline():
    try:
        with open(os.path.join(VERIF, "harness", "cleaner_baseline.json")) as f:
            return json.load(f)
    except (OSError, ValueError):
        return {"nest_witnesses": {}, "fired": {}}


def doc_cfg(maxprod, maxwords, palette=False, free=False, variants=True, maxline=12, minout=60, ordinary=False, nestmode=0,
            witness=()):
    return DOC_CFG % dict(maxprod=maxprod, maxwords=maxwords, palette=str(palette).upper(), free=str(free).upper(),
                          variants=str(variants).upper(), maxline=maxline, minout=minout, ordinary=str(ordinary).upper(),
                          nattrs=len(W.ATTRS) if palette else 0, ndp=len(W.DIM_PROPS) if palette else 0, nds=len(W.DIM_SHAPES) if palette else 0, nrp=W.N_READ_PROPS if palette else 0, nsnips=len(W.SNIPS) if palette else 0,
                          nlex=len(W.LEXEMES) if free else 0, nestmode=nestmode, witness=", ".join(str(c) for c in sorted(set(witness))),
                          ncont=len(W.NEST_CONT) if palette else 0, nblk=len(W.NEST_BLK) if palette else 0,
                          nhost=len(W.NEST_HOST) if palette else 0)


def generate(ctx, scale=1.0, profile="all"):
    """Inputs for the cleaner: documents of WikiDoc.tla (clean grammar, attribute palette, free
    lexemes) and lexeme strings of WikiTokens.tla.  -> list of dicts (raw, lossless, kind, doc)"""
    quick = ctx.tier == "quick"
    per = lambda n: max(1, int(n * scale) // ctx.ncpu)             # noqa: E731  (-simulate num is per worker)
    plans = [
        # name, cfg, traces per worker, depth
        ("clean", doc_cfg(40, 30), per(500 if quick else 5000), 45),
        ("cleanlong", doc_cfg(70, 60, maxline=9, minout=120), per(200 if quick else 2500), 75),
        ("palette", doc_cfg(40, 30, palette=True), per(500 if quick else 6000), 45),
        ("palettelong", doc_cfg(70, 60, palette=True, maxline=9, minout=120), per(300 if quick else 3000), 75),
        ("free", doc_cfg(30, 20, palette=True, free=True, minout=40), per(200 if quick else 3000), 35),
    ]
    if profile == "lossless":               # C07: only the clean grammar, more of it
        plans = [("clean", doc_cfg(40, 30), per(1500 if quick else 15000), 45),
                 ("cleanlong", doc_cfg(70, 60, maxline=9, minout=120), per(600 if quick else 6000), 75),
                 ("cleanordinary", doc_cfg(50, 40, ordinary=True, maxline=10, minout=80), per(700 if quick else 7000), 55)]
    inputs, seen = [], set()
    gen_stats = {}
    import time as _time
    t0 = _time.time()
    for k, (name, cfg, num, depth) in enumerate(plans):
        res = tlc.run(ctx, "WikiDoc", cfg, name="WikiDoc_" + name, simulate=num, depth=depth,
                      seed=ctx.seed * 16 + k + 1, timeout=1500, heap="4g")
        if not res.ok:
            ctx.machinery("generator spec WikiDoc violates its own invariant (%s %s) in plan %s\n%s"
                          % (res.kind, res.name, name, res.out[-1500:]))
        n0 = len(inputs)
        for d in res.emitted:
            raw = W.concretise(d)
            if raw in seen:
                continue
            seen.add(raw)
            inputs.append({"raw": raw, "kind": name, "doc": d,
                           "lossless": bool(d["flags"]["clean"] and d["flags"]["lossless"] and not d["flags"]["mal"])})
        gen_stats[name] = len(inputs) - n0
    # the HTML nesting product: host( container( child ) ); quick: every container x child x position
    # (host derived) + the recorded witness combinations of every pass; thorough: the full product
    if profile != "lossless":
        wit = sorted(set(c for v in baseline().get("nest_witnesses", {}).values() for c in v))
        nplans = [("nest1", 1, ()), ("nestw", 4, wit)] if quick else [("nest3", 3, ())]
        n0 = len(inputs)
        for name, mode, w in nplans:
            if mode == 4 and not w:
                continue
            res = tlc.run(ctx, "WikiDoc", doc_cfg(2, 3, palette=True, variants=False, maxline=100, minout=0, nestmode=mode, witness=w),
                          name="WikiDoc_" + name, timeout=1500, heap="4g")
            if not res.ok:
                ctx.machinery("generator spec WikiDoc violates its own invariant (%s %s) in plan %s" % (res.kind, res.name, name))
            for d in sorted(res.emitted, key=lambda d: json.dumps(d["out"], sort_keys=True)):
                raw = W.concretise(d)
                if raw not in seen:
                    seen.add(raw)
                    inputs.append({"raw": raw, "kind": "nest", "doc": d, "lossless": False})
        gen_stats["nest"] = len(inputs) - n0
    # clean grammar with room for the macro productions (tall-cell table): all documents of <= 5 productions
    res = tlc.run(ctx, "WikiDoc", doc_cfg(5, 26, variants=False, maxline=100, minout=0, ordinary=True).replace(
        "MaxTables = 2", "MaxTables = 1"), name="WikiDoc_tall", timeout=1500, heap="4g")
    if not res.ok:
        ctx.machinery("generator spec WikiDoc violates its own invariant (%s %s) in the tall-cell plan" % (res.kind, res.name))
    n0 = len(inputs)
    for d in sorted(res.emitted, key=lambda d: json.dumps(d["out"], sort_keys=True)):
        if not any(t["t"] == "tb" for t in d["out"]):
            continue
        raw = W.concretise(d)
        if raw not in seen:
            seen.add(raw)
            inputs.append({"raw": raw, "kind": "tall", "doc": d, "lossless": bool(d["flags"]["lossless"])})
    gen_stats["tall"] = len(inputs) - n0
    # all tiny documents of the clean grammar
    res = tlc.run(ctx, "WikiDoc", doc_cfg(7 if quick else 8, 3, variants=False, maxline=100, minout=0, ordinary=True).replace(
        "MaxTables = 2", "MaxTables = 1"), name="WikiDoc_tiny", timeout=1500, heap="4g")
    if not res.ok:
        ctx.machinery("generator spec WikiDoc violates its own invariant (%s %s) in the BFS plan" % (res.kind, res.name))
    tiny = sorted(res.emitted, key=lambda d: json.dumps(d["out"], sort_keys=True))
    random.Random(ctx.seed).shuffle(tiny)
    n0 = len(inputs)
    for d in tiny[:int((250 if quick else 3000) * scale)]:
        raw = W.concretise(d)
        if raw not in seen:
            seen.add(raw)
            inputs.append({"raw": raw, "kind": "tiny", "doc": d, "lossless": bool(d["flags"]["lossless"])})
    gen_stats["tiny"] = len(inputs) - n0
    # malformed strings from C01's input space (builder-tokens' WikiTokens.tla), when available
    try:
        if profile == "lossless":
            raise LookupError("not needed")
        from . import wikitext as WT
        if os.path.exists(os.path.join(VERIF, "spec", "WikiTokens.tla")):
            n0 = len(inputs)
            for j, k in enumerate((12, 30)):
                r = tlc.run(ctx, "WikiTokens", TOKENS_CFG % {"k": k}, name="WikiTokens_%d" % k, deadlock=False,
                            simulate=max(1, int((180 if quick else 1500) * scale)), depth=k + 1, seed=ctx.seed * 4 + j + 1,
                            workers=1, timeout=900, heap="4g")
                if not r.ok:
                    raise RuntimeError("WikiTokens run failed: %s %s" % (r.kind, r.name))
                for e in r.emitted:
                    if "s" not in e:
                        continue
                    raw = WT.concretise(e["s"])
                    if "\0" in raw or raw in seen:
                        continue
                    try:
                        raw.encode("utf-8")
                    except UnicodeEncodeError:
                        continue
                    seen.add(raw)
                    inputs.append({"raw": raw, "kind": "tokens", "doc": None, "lossless": False})
            gen_stats["tokens"] = len(inputs) - n0
    except LookupError:
        pass
    except Exception as e:                                           # noqa: BLE001  (optional source)
        ctx.note("WikiTokens strings not used (%s); malformed inputs come from WikiDoc's free lexemes only" % str(e)[:120])
    gen_stats["seconds"] = round(_time.time() - t0, 1)
    for i, inp in enumerate(inputs):
        inp["id"] = i + 1
        inp["lang"] = W.LANGS[(i + ctx.seed) % len(W.LANGS)]
    return inputs, gen_stats


MEM_LIMIT = 4 << 30            # address space a worker may ADD to what it inherited: a runaway loop gets
                               # MemoryError, not the OOM killer


def limit_memory():
    """The limit is on the address space, and a forked worker starts with the parent's (which in the
    thorough tier already holds all inputs: several GiB) - so it is set relative to the size the
    worker has at its start.  (A fixed 4 GiB made the first mmap of a worker fail there: 'failed to
    map segment from shared object' when it imported a compiled module.)"""
    import resource
    try:
        with open("/proc/self/statm") as f:
            have = int(f.read().split()[0]) * resource.getpagesize()
    except (OSError, ValueError):
        have = 0
    limit = have + MEM_LIMIT
    soft, hard = resource.getrlimit(resource.RLIMIT_AS)
    if soft == resource.RLIM_INFINITY or soft > limit:
        resource.setrlimit(resource.RLIMIT_AS, (limit, hard))


def run_pool(ctx, fn, jobs):
    """map fn over jobs in forked worker processes; a worker that dies (killed, interpreter
    crash) is a machinery failure, never a silent hang"""
    from concurrent.futures import ProcessPoolExecutor
    from concurrent.futures.process import BrokenProcessPool
    res = []
    try:
        with ProcessPoolExecutor(max_workers=ctx.ncpu, mp_context=multiprocessing.get_context("fork"),
                                 initializer=limit_memory) as ex:
            for r in ex.map(fn, jobs):
                res.append(r)
    except BrokenProcessPool:
        ctx.machinery("a worker process died while executing %s (killed or interpreter crash)" % fn.__name__)
    return res


def _record_worker(chunk):
    import logging
    logging.disable(logging.CRITICAL)           # advtree logs every unknown tag
    out = []
    carried = None
    for k, inp in enumerate(chunk):
        try:
            # every second article is cleaned by the cleaner that has just cleaned the previous one
            keep = []
            tr = record(inp["raw"], inp["lang"], doc_id=inp["id"], lossless=inp["lossless"],
                        cleaner=carried if k % 2 == 1 else None, keep=keep)
            carried = keep[0] if (keep and k % 2 == 0) else None
        except MemoryError:
            import gc
            gc.collect()
            tr = {"id": inp["id"], "lossless": False, "truncated": True, "snaps": [], "raw": inp["raw"], "lang": inp["lang"],
                  "calls": {}, "fired": [], "changed": [], "parse_error": "MemoryError outside a pass"}
        tr["kind"] = inp["kind"]
        out.append(tr)
    return out


def record_all(ctx, inputs):
    traces = []
    order = list(inputs)
    random.Random(ctx.seed).shuffle(order)
    for res in run_pool(ctx, _record_worker, [c for c in chunks(order, ctx.ncpu * 6) if c]):
        traces.extend(res)
    traces.sort(key=lambda t: t["id"])
    return traces


def known_keys(prop):
    path = os.path.join(VERIF, "known_findings.json")
    try:
        with open(path) as f:
            ents = json.load(f).get("findings", [])
    except (OSError, ValueError):
        return []
    return [e["key"] for e in ents if e.get("property") == prop and e.get("status") == "open"]


def known_entries(prop):
    path = os.path.join(VERIF, "known_findings.json")
    try:
        with open(path) as f:
            ents = json.load(f).get("findings", [])
    except (OSError, ValueError):
        return []
    return [e for e in ents if e.get("property") == prop and e.get("status") == "open"]


def known_raised(prop, traces):
    """the error keys occurring in this batch that a recorded finding covers (exact or prefix)"""
    ents = [e for e in known_entries(prop) if e["key"].startswith("pass=") and " exc=" in e["key"]]
    out = set()
    for t in traces:
        for s in t["snaps"]:
            k = s.get("errkey") or ""
            if s["status"] == "raised" and any(k.startswith(e["key"]) if e.get("match") == "prefix" else k == e["key"] for e in ents):
                out.add(k)
    return sorted(out)


_STEP = re.compile(r"^clean after=(\w+) clause=(C0\d [a-z-]+) ")
_FIXP = re.compile(r"^pass=(\w+) not-a-fixed-point$")


def known_steps(prop):
    """'pass|clause' pairs of the recorded findings of `prop`: TLC lets such a step pass (and prints
    it) so that the rest of the trace is still validated; Python reports every one of them under
    its full key, so a different failure of the same clause after the same pass is still a
    VIOLATION."""
    out = []
    for k in known_keys(prop):
        m = _STEP.match(k)
        if m:
            out.append("%s|%s" % (m.group(1), m.group(2)))
        m = _FIXP.match(k)
        if m:
            out.append("%s|C06 fixed-point" % m.group(1))
    return sorted(set(out))


class _SubprocessShim:
    """what harness/tlc.py uses of `subprocess`, with one addition: the JVM gets SIGKILL when the
    process that started it dies (PR_SET_PDEATHSIG), so a killed check leaves no orphan TLC behind"""
    import subprocess as _sp
    PIPE, STDOUT, TimeoutExpired = _sp.PIPE, _sp.STDOUT, _sp.TimeoutExpired

    @staticmethod
    def _die_with_parent():
        try:
            import ctypes
            ctypes.CDLL("libc.so.6", use_errno=True).prctl(1, signal.SIGKILL)      # PR_SET_PDEATHSIG
        except Exception:                                                          # noqa: BLE001
            pass

    def run(self, *a, **kw):
        kw.setdefault("preexec_fn", self._die_with_parent)
        return self._sp.run(*a, **kw)


tlc.subprocess = _SubprocessShim()


class Validation:
    def __init__(self):
        self.rejects, self.known = [], []
        self.states = self.transitions = 0
        self.expected_states = 0
        self.traces = 0


def validate(ctx, traces, prop, name="batch"):
    """TLC validates every trace against CleanerTrace.tla with the clause set of `prop`.
    The batch is sharded over single-worker JVMs (TLC's BFS does not scale on these narrow state
    graphs; measured: 1 worker 14 s, 8 workers 21 s for the same batch)."""
    usable = [t for t in traces if t["snaps"]]
    val = Validation()
    val.traces = len(usable)
    if not usable:
        return val
    known = known_raised("C06", usable) if prop == "C06" else []
    cfg = TRACE_CFG % dict(c05=str(prop == "C05").upper(), c06=str(prop == "C06").upper(), c07=str(prop == "C07").upper(),
                           known=", ".join('"%s"' % k.replace('"', "'") for k in known),
                           steps=", ".join('"%s"' % k for k in known_steps(prop)))
    # shards of about equal weight (a trace with many words / nodes costs TLC and JSON far more)
    def weight(t):
        return 60 + sum(s["n"] + 2 * len(s["words"]) for s in t["snaps"] if not s["same"])
    bins = [[0, []] for _ in range(min(ctx.ncpu, len(usable)))]
    for t in sorted(usable, key=lambda t: (-weight(t), t["id"])):
        b = min(bins, key=lambda b: b[0])
        b[0] += weight(t)
        b[1].append(t)
    shards = [sorted(b[1], key=lambda t: t["id"]) for b in bins if b[1]]
    d = os.path.join(ctx.scratch, "traces-" + name)
    os.makedirs(d, exist_ok=True)

    def one(i):
        path = os.path.join(d, "shard%d.json" % i)
        write_batch(shards[i], path)
        return tlc.run(ctx, "CleanerTrace", cfg, name="CleanerTrace_%s_%d" % (name, i), workers=1, env={"TRACE_FILE": path},
                       timeout=2400, heap="3g" if ctx.tier == "quick" else "2g", deadlock=True)

    # thorough: at most 8 JVMs x 2 GiB at a time (16 x 3 GiB next to the parent once exhausted the machine)
    with concurrent.futures.ThreadPoolExecutor(max_workers=len(shards) if ctx.tier == "quick" else min(8, len(shards))) as ex:
        results = list(ex.map(one, range(len(shards))))
    for i, res in enumerate(results):
        if not res.ok:
            ctx.machinery("CleanerTrace: TLC reported %s %s on shard %d — a step outside Accept/KnownDeviation/Reject/Done "
                          "means broken machinery\n%s" % (res.kind, res.name, i, res.out[-1500:]))
        val.states += res.distinct
        val.transitions += res.generated
        by_id = {t["id"]: t for t in shards[i]}
        cut = {}
        for e in res.emitted:
            e["trace"] = by_id[e["id"]]
            if e["kind"] == "reject":
                val.rejects.append(e)
                cut[e["id"]] = e["l"]
            else:
                val.known.append(e)
        # cross-check: l runs 0..len for an accepted trace, 0..l_rejected for a rejected one
        exp = sum((cut[t["id"]] if t["id"] in cut else len(t["snaps"])) + 1 for t in shards[i])
        val.expected_states += exp
        if res.distinct != exp:
            ctx.machinery("CleanerTrace shard %d: TLC found %d distinct states, the batch has %d — traces were not fully consumed"
                          % (i, res.distinct, exp))
    return val


def first_diff(a, b):
    """diagnostic only: where do two word lists differ (first lost / gained / moved word).
    Words are compared together with their coarse place, from both ends."""
    ka = [(x["w"], tuple(x["sec"]), tuple(x["li"]), x["ref"]) for x in a]
    kb = [(x["w"], tuple(x["sec"]), tuple(x["li"]), x["ref"]) for x in b]
    if [k[0] for k in ka] != [k[0] for k in kb]:
        p = 0
        while p < len(ka) and p < len(kb) and ka[p] == kb[p]:
            p += 1
        q = 0
        while q < len(ka) - p and q < len(kb) - p and ka[len(ka) - 1 - q] == kb[len(kb) - 1 - q]:
            q += 1
        lost = a[p:len(a) - q]
        gained = b[p:len(b) - q]
        return {"lost": [x["w"] for x in lost][:6], "gained": [x["w"] for x in gained][:6],
                "first_lost_place": lost[0] if lost else None}
    for x, y in zip(a, b):
        if (x["w"], x["sec"], x["li"], x["ref"]) != (y["w"], y["sec"], y["li"], y["ref"]):
            return {"moved": x["w"], "from": [x["sec"], x["li"], x["ref"]], "to": [y["sec"], y["li"], y["ref"]]}
    return {}


def trees_around(trace, l):
    """(tree before, tree after) the pass of snapshot l (1-based)"""
    before = None
    for s in trace["snaps"][:l - 1]:
        if not s["same"]:
            before = s
    s = trace["snaps"][l - 1]
    return before, (before if s["same"] else s)


_STUBS = {}


def lighten(trace):
    """drop the trees of a trace that has been validated and judged; what the evidence needs stays
    (per snapshot: pass, status, error key — shared objects; whether the first tree has a table)"""
    snaps = trace["snaps"]
    light = []
    for k, s in enumerate(snaps):
        key = (s["pass"], s["status"], s.get("errkey", ""), k == 0 and "Table" in s.get("cls", ()))
        stub = _STUBS.get(key)
        if stub is None:
            stub = _STUBS[key] = {"pass": s["pass"], "status": s["status"], "errkey": s.get("errkey", ""), "stable": True, "same": True,
                                  "cls": ["Table"] if key[3] else []}
        light.append(stub)
    trace["snaps"] = light
    trace["calls"] = {p: cs for p, cs in trace.get("calls", {}).items() if any(c > 5000 for _, c in cs)}
    trace["light"] = True


def process(ctx, inputs, prop, report, selftest=None, round_size=2500):
    """record -> validate -> report (-> corruption self-test).  Quick: in one go.  Thorough: in rounds
    of round_size documents; after a round has been judged its traces are reduced to what the
    evidence needs, so that the parent never holds more than one round of trees."""
    if ctx.tier == "quick":
        traces = record_all(ctx, inputs)
        val = validate(ctx, traces, prop)
        report(val)
        n = selftest(traces, val) if selftest else 0
        return traces, val, n
    import shutil
    order = list(inputs)
    random.Random(ctx.seed + 1).shuffle(order)
    for inp in order:
        inp["doc"] = None                      # the abstract document is not needed any more
    total = Validation()
    all_traces = []
    nself = 0
    for k, start in enumerate(range(0, len(order), round_size)):
        traces = record_all(ctx, order[start:start + round_size])
        val = validate(ctx, traces, prop, name="round%d" % k)
        report(val)
        if selftest and not nself:
            nself = selftest(traces, val)
        for t in traces:
            lighten(t)
        total.states += val.states
        total.transitions += val.transitions
        total.expected_states += val.expected_states
        total.traces += val.traces
        total.rejects.extend(val.rejects)
        total.known.extend(val.known)
        all_traces.extend(traces)
        shutil.rmtree(os.path.join(ctx.scratch, "traces-round%d" % k), ignore_errors=True)
        for d in os.listdir(ctx.scratch):
            if d.startswith("tlc-CleanerTrace_round%d_" % k):
                shutil.rmtree(os.path.join(ctx.scratch, d), ignore_errors=True)
        del traces, val
    all_traces.sort(key=lambda t: t["id"])
    return all_traces, total, nself


def summarize(traces):
    """evidence shared by the three checks: which passes fired / changed the tree / raised"""
    fired, changed, status = {}, {}, {}
    for t in traces:
        for p in set(t["fired"]):
            fired[p] = fired.get(p, 0) + 1
        for p in set(t["changed"]):
            changed[p] = changed.get(p, 0) + 1
        for s in t["snaps"]:
            if s["status"] != "ok":
                k = s["errkey"]
                status[k] = status.get(k, 0) + 1
    return fired, changed, status
